/-
C07 — Prometheus output reports exactly what was recorded, each sample once.

Model: `Model/Prom.lean` (sequential recorder state machine).  Theorems are for ALL operation sequences
(any interleaving of register/update/describe/upkeep/render calls, any keys, any configuration).
Arithmetic on gauge/histogram values is exact (dyadic rationals); IEEE rounding is outside the model.
Concurrent `record()` vs. drain is the composition with the bucket model (C05).
-/
import MetricsVerif.Proofs.Prom
import MetricsVerif.Generated.SourceFacts

namespace MetricsVerif.C07
open MetricsVerif.Prom MetricsVerif.PromFmt MetricsVerif.PromRender

/-- a fresh recorder -/
def init (cfg : Cfg) : St := { cfg }

/-! ## histograms: every sample is counted exactly once, however record / upkeep / render interleave -/

/-- **conservation invariant**: for every series `p`, samples already in its distribution plus samples
    still pending in the buckets of the keys rendered as `p` = samples ever recorded for `p`. -/
theorem hist_conserved (cfg : Cfg) (ops : List Op) (p : Parts) :
    let s := run (init cfg) ops
    dCount (getDist s.dists p) + pendCount cfg s.hists p = (ops.map (opCount cfg p)).sum
    ∧ dSum (getDist s.dists p) + pendSum cfg s.hists p = (ops.map (opSum cfg p)).sum := by
  have gen : ∀ (ops : List Op) (s : St), s.cfg = cfg →
      dCount (getDist (run s ops).dists p) + pendCount cfg (run s ops).hists p
        = dCount (getDist s.dists p) + pendCount cfg s.hists p + (ops.map (opCount cfg p)).sum
      ∧ dSum (getDist (run s ops).dists p) + pendSum cfg (run s ops).hists p
        = dSum (getDist s.dists p) + pendSum cfg s.hists p + (ops.map (opSum cfg p)).sum := by
    intro ops
    induction ops with
    | nil => intro s _; simp [run]
    | cons op ops ih =>
      intro s hs
      have h1 := step_count s op p
      have h2 := step_sum s op p
      rw [hs] at h1 h2
      have := ih (step s op) (by rw [step_cfg, hs])
      simp only [run, List.foldl_cons, List.map_cons, List.sum_cons] at this ⊢
      omega
  have := gen ops (init cfg) rfl
  simpa [init, getDist, dCount, dSum, pendCount, pendSum] using this

/-- what `render()` shows for a series (it drains first): `_count` = number of samples ever recorded under
    the keys rendered as that series, `_sum` = their sum — for any history. -/
theorem render_reports_hist (cfg : Cfg) (ops : List Op) (p : Parts) :
    let s := (renderLines (run (init cfg) ops)).1
    dCount (getDist s.dists p) = (ops.map (opCount cfg p)).sum
    ∧ dSum (getDist s.dists p) = (ops.map (opSum cfg p)).sum := by
  have h := hist_conserved cfg (ops ++ [.upkeep]) p
  have e : (renderLines (run (init cfg) ops)).1 = run (init cfg) (ops ++ [.upkeep]) := by
    simp [renderLines, run, step]
  simp only [e]
  have hc : (run (init cfg) (ops ++ [Op.upkeep])).cfg = cfg := by rw [run_cfg]; rfl
  have hp : pendCount cfg (run (init cfg) (ops ++ [Op.upkeep])).hists p = 0 := by
    simp only [run, List.foldl_append, List.foldl_cons, List.foldl_nil, step, drain_hists, pendCount_drained]
  have hq : pendSum cfg (run (init cfg) (ops ++ [Op.upkeep])).hists p = 0 := by
    simp only [run, List.foldl_append, List.foldl_cons, List.foldl_nil, step, drain_hists, pendSum_drained]
  simp only [List.map_append, List.map_cons, List.map_nil, List.sum_append, List.sum_cons, List.sum_nil,
    opCount, opSum] at h
  omega

/-- the count/sum texts written for a distribution are those of the distribution -/
theorem distSeries_shows (qs : List Str) (ls : List Str) (d : Dist) :
    (∃ bs, (distSeries qs ls d).data = .hist bs (natText d.count) (intTok d.sum))
    ∨ (∃ q, (distSeries qs ls d).data = .summ q (intTok d.sum) (natText d.count)) := by
  cases d with
  | hist b c n s => exact Or.inl ⟨_, rfl⟩
  | summ n s => exact Or.inr ⟨_, rfl⟩

/-- draining twice is draining once: `render(); render()` with no update in between shows the same state -/
theorem render_idempotent_counts (cfg : Cfg) (ops : List Op) (p : Parts) :
    let s1 := (renderLines (run (init cfg) ops)).1
    let s2 := (renderLines s1).1
    dCount (getDist s2.dists p) = dCount (getDist s1.dists p) ∧ dSum (getDist s2.dists p) = dSum (getDist s1.dists p) := by
  have h1 := render_reports_hist cfg ops p
  have h2 := render_reports_hist cfg (ops ++ [.upkeep]) p
  have e : (renderLines (renderLines (run (init cfg) ops)).1).1 = (renderLines (run (init cfg) (ops ++ [.upkeep]))).1 := by
    simp [renderLines, run, step]
  simp only [e]
  simp only [List.map_append, List.map_cons, List.map_nil, List.sum_append, List.sum_cons, List.sum_nil,
    opCount, opSum] at h2
  omega

/-! ## counters and gauges: each key has its own cell, updated only by its own operations -/

/-- what the history says the counter for `k` holds -/
def specCounter (k : MKey) (acc : Option Nat) : Op → Option Nat
  | .cinc k' n => if k' = k then some (((acc.getD 0) + n) % two64) else acc
  | .cabs k' n => if k' = k then some (max (acc.getD 0) n) else acc
  | _ => acc

theorem step_counter (s : St) (op : Op) (k : MKey) :
    lookup (step s op).counters k = specCounter k (lookup s.counters k) op := by
  cases op with
  | describe n u d => simp only [step, specCounter]; split <;> rfl
  | cinc k' n =>
    simp only [step, specCounter, lookup_upsert]
    by_cases h : k = k'
    · subst h; simp
    · have : ¬ k' = k := fun e => h e.symm
      simp [h, this]
  | cabs k' n =>
    simp only [step, specCounter, lookup_upsert]
    by_cases h : k = k'
    · subst h; simp
    · have : ¬ k' = k := fun e => h e.symm
      simp [h, this]
  | gset k v => rfl
  | gadd k n => rfl
  | hrec k v => rfl
  | hrecMany k v n => rfl
  | upkeep => rfl

/-- **counter refinement**: after any history the cell of `k` is the fold of `k`'s own operations -/
theorem counter_refines (cfg : Cfg) (ops : List Op) (k : MKey) :
    lookup (run (init cfg) ops).counters k = ops.foldl (specCounter k) none := by
  have gen : ∀ (ops : List Op) (s : St),
      lookup (run s ops).counters k = ops.foldl (specCounter k) (lookup s.counters k) := by
    intro ops
    induction ops with
    | nil => intro s; rfl
    | cons op ops ih => intro s; simp only [run, List.foldl_cons] at ih ⊢; rw [ih, step_counter]
  simpa [init] using gen ops (init cfg)

/-- increments only ⇒ the sum of the increments modulo 2^64 -/
theorem counter_sum (k : MKey) (ns : List Nat) (acc : Nat) :
    (ns.map (fun n => Op.cinc k n)).foldl (specCounter k) (some (acc % two64)) = some ((acc + ns.sum) % two64) := by
  induction ns generalizing acc with
  | nil => simp
  | cons n ns ih =>
    simp only [List.map_cons, List.foldl_cons, specCounter, if_true, Option.getD_some, List.sum_cons]
    have : (acc % two64 + n) % two64 = (acc + n) % two64 := Nat.mod_add_mod acc two64 n
    rw [this, ih]; congr 2; omega

/-- an absolute update never lowers the counter and leaves it at least at the given value -/
theorem counter_abs_monotone (k : MKey) (acc : Option Nat) (n : Nat) :
    ∃ v, specCounter k acc (.cabs k n) = some v ∧ acc.getD 0 ≤ v ∧ n ≤ v := by
  refine ⟨max (acc.getD 0) n, by simp [specCounter], Nat.le_max_left _ _, Nat.le_max_right _ _⟩

def specGauge (k : MKey) (acc : Option Val) : Op → Option Val
  | .gset k' v => if k' = k then some v else acc
  | .gadd k' n => if k' = k then some ((acc.getD (.dy 0)).add n) else acc
  | _ => acc

theorem step_gauge (s : St) (op : Op) (k : MKey) :
    lookup (step s op).gauges k = specGauge k (lookup s.gauges k) op := by
  cases op with
  | describe n u d => simp only [step, specGauge]; split <;> rfl
  | cinc k' n => rfl
  | cabs k' n => rfl
  | gset k' v =>
    simp only [step, specGauge, lookup_upsert]
    by_cases h : k = k'
    · subst h; simp
    · have : ¬ k' = k := fun e => h e.symm
      simp [h, this]
  | gadd k' n =>
    simp only [step, specGauge, lookup_upsert]
    by_cases h : k = k'
    · subst h; simp
    · have : ¬ k' = k := fun e => h e.symm
      simp [h, this]
  | hrec k v => rfl
  | hrecMany k v n => rfl
  | upkeep => rfl

/-- **gauge refinement** -/
theorem gauge_refines (cfg : Cfg) (ops : List Op) (k : MKey) :
    lookup (run (init cfg) ops).gauges k = ops.foldl (specGauge k) none := by
  have gen : ∀ (ops : List Op) (s : St),
      lookup (run s ops).gauges k = ops.foldl (specGauge k) (lookup s.gauges k) := by
    intro ops
    induction ops with
    | nil => intro s; rfl
    | cons op ops ih => intro s; simp only [run, List.foldl_cons] at ih ⊢; rw [ih, step_gauge]
  simpa [init] using gen ops (init cfg)

/-- a `set` leaves exactly the value given, whatever came before -/
theorem gauge_set_last (k : MKey) (acc : Option Val) (v : Val) : specGauge k acc (.gset k v) = some v := by
  simp [specGauge]

/-! ## HELP shows the first description given for the name -/

def specDesc (n : Str) (acc : Option (Str × Option MUnit)) : Op → Option (Str × Option MUnit)
  | .describe name unit desc => if sanitizeMetricName name = n then (match acc with | some a => some a | none => some (desc, unit)) else acc
  | _ => acc

theorem lookup_append_new {κ α : Type} [DecidableEq κ] (m : List (κ × α)) (k k' : κ) (a : α)
    (h : lookup m k = none) : lookup (m ++ [(k, a)]) k' = if k' = k then some a else lookup m k' := by
  induction m with
  | nil =>
    simp only [List.nil_append, lookup]
    by_cases e : k = k'
    · subst e; simp
    · have : ¬ k' = k := fun x => e x.symm
      simp [e, this]
  | cons x xs ih =>
    obtain ⟨kx, ax⟩ := x
    simp only [lookup] at h
    by_cases hx : kx = k
    · simp [hx] at h
    · simp only [hx, if_false] at h
      simp only [List.cons_append, lookup]
      by_cases hx' : kx = k'
      · subst hx'
        have : ¬ kx = k := hx
        simp [this]
      · simp [hx', ih h]

theorem step_desc (s : St) (op : Op) (n : Str) :
    lookup (step s op).descs n = specDesc n (lookup s.descs n) op := by
  cases op with
  | describe name unit desc =>
    simp only [step, specDesc]
    cases h : lookup s.descs (sanitizeMetricName name) with
    | some a =>
      simp only
      by_cases e : sanitizeMetricName name = n
      · subst e; simp [h]
      · simp [e]
    | none =>
      simp only
      rw [lookup_append_new _ _ _ _ h]
      by_cases e : sanitizeMetricName name = n
      · subst e; simp [h]
      · have : ¬ n = sanitizeMetricName name := fun x => e x.symm
        simp [e, this]
  | cinc k' n => rfl
  | cabs k' n => rfl
  | gset k' v => rfl
  | gadd k' n => rfl
  | hrec k v => rfl
  | hrecMany k v n => rfl
  | upkeep => rfl

/-- **first description wins** (per sanitised name) -/
theorem desc_refines (cfg : Cfg) (ops : List Op) (n : Str) :
    lookup (run (init cfg) ops).descs n = ops.foldl (specDesc n) none := by
  have gen : ∀ (ops : List Op) (s : St),
      lookup (run s ops).descs n = ops.foldl (specDesc n) (lookup s.descs n) := by
    intro ops
    induction ops with
    | nil => intro s; rfl
    | cons op ops ih => intro s; simp only [run, List.foldl_cons] at ih ⊢; rw [ih, step_desc]
  simpa [init] using gen ops (init cfg)

theorem desc_first_wins (n : Str) (a : Str × Option MUnit) (op : Op) : specDesc n (some a) op = some a := by
  cases op <;> simp [specDesc]

/-! ## labels: global labels, overridden in place by the key's own labels of the same name -/

theorem lookup_imInsert (m : List (Str × Str)) (k v k' : Str) :
    lookup (imInsert m k v) k' = if k' = k then some v else lookup m k' := by
  induction m with
  | nil =>
    simp only [imInsert, lookup]
    by_cases e : k = k'
    · subst e; simp
    · have : ¬ k' = k := fun x => e x.symm
      simp [e, this]
  | cons x xs ih =>
    obtain ⟨kx, vx⟩ := x
    simp only [imInsert]
    by_cases hx : kx = k
    · subst hx
      simp only [if_true, lookup]
      by_cases e : kx = k'
      · subst e; simp
      · have : ¬ k' = kx := fun x => e x.symm
        simp [e, this]
    · simp only [hx, if_false, lookup, ih]
      by_cases e : kx = k'
      · subst e
        have : ¬ kx = k := hx
        simp [this]
      · simp [e]

/-- the merged label set: the key's own value if the key has a label of that name (the last one given),
    otherwise the global one -/
theorem merged_labels (own globals : List (Str × Str)) (n : Str) :
    lookup (own.foldl (fun m kv => imInsert m kv.1 kv.2) globals) n
      = own.foldl (fun acc kv => if kv.1 = n then some kv.2 else acc) (lookup globals n) := by
  induction own generalizing globals with
  | nil => rfl
  | cons kv rest ih =>
    simp only [List.foldl_cons]
    rw [ih, lookup_imInsert]
    by_cases e : n = kv.1
    · subst e; simp
    · have : ¬ kv.1 = n := fun x => e x.symm
      simp [e, this]

/-- a global label whose name no own label uses keeps its position and value -/
theorem imInsert_length_le (m : List (Str × Str)) (k v : Str) : m.length ≤ (imInsert m k v).length := by
  induction m with
  | nil => simp [imInsert]
  | cons x xs ih => simp only [imInsert]; split <;> simp <;> omega

/-- `add_global_label` given the same name again: the label takes the LAST value given (and, `imInsert` being an
    in-place update, keeps its first position) — the configured global label set is the last-wins fold of the calls -/
theorem global_labels_last_wins (raw : List (Str × Str)) (n : Str) :
    lookup (buildGlobals raw) n = raw.foldl (fun acc kv => if kv.1 = n then some kv.2 else acc) none := by
  simpa [buildGlobals] using merged_labels raw [] n

/-! ## `record_many(v, n)` is `n` times `record(v)` -/

theorem upsert_upsert {κ α : Type} [DecidableEq κ] (m : List (κ × α)) (k : κ) (d : α) (f g : α → α) :
    upsert (upsert m k d f) k d g = upsert m k d (fun a => g (f a)) := by
  induction m with
  | nil => simp [upsert]
  | cons x xs ih =>
    obtain ⟨kx, ax⟩ := x
    simp only [upsert]
    by_cases hx : kx = k
    · simp [hx, upsert]
    · simp [hx, upsert, ih]

theorem hrecMany_unfold (s : St) (k : MKey) (v : Int) (n : Nat) :
    step s (.hrecMany k v (n + 1)) = step (step s (.hrec k v)) (.hrecMany k v n) := by
  simp only [step, upsert_upsert]
  congr 2
  funext p
  simp [List.replicate_succ]

/-- a `record_many(v, n)` with `n ≥ 1` leaves the recorder in exactly the state `n` single `record(v)` calls leave it
    in (for `n = 0` it only registers the key, which `hist_conserved` covers: it adds 0 to `_count` and `_sum`) -/
theorem hrecMany_eq_records (k : MKey) (v : Int) (n : Nat) :
    ∀ s : St, step s (.hrecMany k v (n + 1)) = run s (List.replicate (n + 1) (.hrec k v)) := by
  induction n with
  | zero => intro s; simp [step, run]
  | succ n ih =>
    intro s
    rw [hrecMany_unfold, ih]
    simp [run, List.replicate_succ]

/-! ## rendering twice: the very same lines (not only the same counts) -/

theorem getDist_drainOne (cfg : Cfg) (ds) (kh : MKey × List Int) (p : Parts) :
    getDist (drainOne cfg ds kh) p
      = if p = partsOf cfg kh.1 then some (((getDist ds p).getD (newDist cfg p.1)).recordMany kh.2) else getDist ds p := by
  unfold drainOne partsOf
  generalize keyToParts kh.1.name kh.1.labels cfg.globals = np
  obtain ⟨n, l⟩ := np
  simp only [getDist_upsert2]
  by_cases h : p = (n, l)
  · subst h; simp
  · simp [h]

theorem drainFold_present (cfg : Cfg) (hs : List (MKey × List Int)) (p : Parts) :
    ∀ ds, ((getDist ds p).isSome ∨ ∃ kh ∈ hs, partsOf cfg kh.1 = p) → (getDist (hs.foldl (drainOne cfg) ds) p).isSome := by
  induction hs with
  | nil => intro ds h; rcases h with h | ⟨_, hm, _⟩
           · exact h
           · cases hm
  | cons kh rest ih =>
    intro ds h
    simp only [List.foldl_cons]
    apply ih
    by_cases e : p = partsOf cfg kh.1
    · left; rw [getDist_drainOne]; simp [e]
    · rcases h with h | ⟨kh', hm, hp⟩
      · left; rw [getDist_drainOne]; simpa [e] using h
      · rcases List.mem_cons.mp hm with rfl | hm
        · exact absurd hp.symm e
        · right; exact ⟨kh', hm, hp⟩

/-- draining an empty bucket into a distribution that already exists changes nothing -/
theorem drainOne_nil_id (cfg : Cfg) (ds) (k : MKey) (h : (getDist ds (partsOf cfg k)).isSome) :
    drainOne cfg ds (k, []) = ds := by
  unfold drainOne
  unfold partsOf at h
  simp only
  generalize keyToParts k.name k.labels cfg.globals = np at h ⊢
  obtain ⟨n, l⟩ := np
  simp only [getDist] at h
  cases hm : lookup ds n with
  | none => simp [hm] at h
  | some m =>
    simp only [hm, Option.bind_some] at h
    apply upsert_id_of_mem
    · intro a ha
      rw [hm] at ha
      injection ha with ha
      subst ha
      apply upsert_id_of_mem
      · intro d _; rfl
      · exact h
    · simp [hm]

theorem drainFold_nil_id (cfg : Cfg) (ks : List (MKey × List Int)) :
    ∀ ds, (∀ kh ∈ ks, (getDist ds (partsOf cfg kh.1)).isSome) →
      (ks.map (fun kh => (kh.1, ([] : List Int)))).foldl (drainOne cfg) ds = ds := by
  induction ks with
  | nil => intro ds _; rfl
  | cons kh rest ih =>
    intro ds h
    simp only [List.map_cons, List.foldl_cons]
    rw [drainOne_nil_id cfg ds kh.1 (h kh (List.mem_cons_self ..))]
    exact ih ds (fun kh' hm => h kh' (List.mem_cons_of_mem _ hm))

/-- draining is idempotent on the whole state -/
theorem drain_drain (s : St) : drain (drain s) = drain s := by
  have hd : (drain (drain s)).dists = (drain s).dists := by
    rw [drain_dists (drain s), drain_hists, drain_cfg]
    apply drainFold_nil_id
    intro kh hm
    rw [drain_dists]
    exact drainFold_present s.cfg s.hists _ s.dists (Or.inr ⟨kh, hm, rfl⟩)
  have hh : (drain (drain s)).hists = (drain s).hists := by
    simp [drain_hists, List.map_map, Function.comp_def]
  cases h1 : drain (drain s) with
  | mk c1 d1 co1 g1 h1' ds1 =>
    cases h2 : drain s with
    | mk c2 d2 co2 g2 h2' ds2 =>
      have e : drain (drain s) = { drain s with dists := (drain (drain s)).dists, hists := (drain (drain s)).hists } := rfl
      rw [hd, hh] at e
      rw [← h1, e, h2]

/-- **render twice = the same lines**: with no update in between, a second `render()` returns exactly the lines
    of the first and leaves the same state (in the model the summary quantile values are the opaque token `q`; in
    the code they age with the clock, which is the exception the property makes) -/
theorem render_idempotent_lines (s : St) : renderLines (renderLines s).1 = renderLines s := by
  have e : (renderLines s).1 = drain s := rfl
  rw [e]
  show (let s' := drain (drain s); _) = _
  simp only [renderLines, drain_drain]

/-! ## what the rendered lines show (the theorems above are about the state; these reach the text lines) -/

theorem lookup_some_mem {κ α : Type} [DecidableEq κ] (m : List (κ × α)) (k : κ) (a : α) (h : lookup m k = some a) :
    (k, a) ∈ m := by
  induction m with
  | nil => simp [lookup] at h
  | cons x xs ih =>
    obtain ⟨kx, ax⟩ := x
    simp only [lookup] at h
    by_cases hx : kx = k
    · simp only [hx, if_true] at h
      injection h with h
      subst hx; subst h
      exact List.mem_cons_self ..
    · simp only [hx, if_false] at h
      exact List.mem_cons_of_mem _ (ih h)

/-- one step of the grouping loop -/
def groupStep (globals : List (Str × Str)) (fams : List (Str × List Series)) (kv : MKey × Str) :=
  let (name, labels) := keyToParts kv.1.name kv.1.labels globals
  upsert fams name [] (fun ss => ss ++ [(⟨labels, .scalar kv.2⟩ : Series)])

theorem groupFamilies_eq (entries : List (MKey × Str)) (globals : List (Str × Str)) :
    groupFamilies entries globals = entries.foldl (groupStep globals) [] := rfl

def hasSeries (fams : List (Str × List Series)) (name : Str) (x : Series) : Prop :=
  ∃ ss, lookup fams name = some ss ∧ x ∈ ss

theorem groupStep_keeps (globals) (fams) (kv : MKey × Str) (name : Str) (x : Series) (h : hasSeries fams name x) :
    hasSeries (groupStep globals fams kv) name x := by
  obtain ⟨ss, hl, hx⟩ := h
  unfold groupStep
  simp only
  generalize keyToParts kv.1.name kv.1.labels globals = np
  obtain ⟨n, l⟩ := np
  simp only [hasSeries, lookup_upsert]
  by_cases e : name = n
  · subst e
    simp only [if_true, hl, Option.getD_some]
    exact ⟨_, rfl, List.mem_append_left _ hx⟩
  · simp only [e, if_false]
    exact ⟨ss, hl, hx⟩

theorem groupStep_adds (globals) (fams) (kv : MKey × Str) :
    hasSeries (groupStep globals fams kv) (keyToParts kv.1.name kv.1.labels globals).1
      ⟨(keyToParts kv.1.name kv.1.labels globals).2, .scalar kv.2⟩ := by
  unfold groupStep
  simp only
  generalize keyToParts kv.1.name kv.1.labels globals = np
  obtain ⟨n, l⟩ := np
  simp only [hasSeries, lookup_upsert, if_true]
  exact ⟨_, rfl, List.mem_append_right _ (List.mem_singleton.mpr rfl)⟩

/-- every entry given to the grouping loop ends up as a series of the family of its sanitised name, carrying its
    merged labels and its value text -/
theorem groupFamilies_shows (entries : List (MKey × Str)) (globals : List (Str × Str)) (kv : MKey × Str)
    (h : kv ∈ entries) :
    hasSeries (groupFamilies entries globals) (keyToParts kv.1.name kv.1.labels globals).1
      ⟨(keyToParts kv.1.name kv.1.labels globals).2, .scalar kv.2⟩ := by
  rw [groupFamilies_eq]
  have gen : ∀ (es : List (MKey × Str)) (fams : List (Str × List Series)),
      (kv ∈ es ∨ hasSeries fams (keyToParts kv.1.name kv.1.labels globals).1
          ⟨(keyToParts kv.1.name kv.1.labels globals).2, .scalar kv.2⟩) →
      hasSeries (es.foldl (groupStep globals) fams) (keyToParts kv.1.name kv.1.labels globals).1
          ⟨(keyToParts kv.1.name kv.1.labels globals).2, .scalar kv.2⟩ := by
    intro es
    induction es with
    | nil => intro fams h; rcases h with h | h
             · cases h
             · exact h
    | cons e rest ih =>
      intro fams h
      simp only [List.foldl_cons]
      apply ih
      rcases h with h | h
      · rcases List.mem_cons.mp h with rfl | h
        · right; exact groupStep_adds globals fams kv
        · left; exact h
      · right; exact groupStep_keeps globals fams e _ _ h
  exact gen entries [] (Or.inl h)

theorem renderFamily_mem (us : Bool) (name : Str) (desc) (ty : Str) (series : List Series) (x : Series) (hx : x ∈ series) :
    ∃ fam, ∀ l ∈ seriesLines fam x, l ∈ renderFamily us name desc ty series := by
  cases desc with
  | none =>
    refine ⟨familyName name none, fun l hl => ?_⟩
    simp only [renderFamily, List.mem_append, List.mem_flatMap]
    exact Or.inl (Or.inr ⟨x, hx, hl⟩)
  | some du =>
    obtain ⟨d, u⟩ := du
    refine ⟨familyName name (if us then u else none), fun l hl => ?_⟩
    simp only [renderFamily, List.mem_append, List.mem_flatMap]
    exact Or.inl (Or.inr ⟨x, hx, hl⟩)

/-- **counter line**: whenever the history leaves the counter of key `k` at `v` (see `counter_refines` /
    `counter_sum` for what `v` is), `render()` writes a sample line for `k`'s series — the key's merged labels —
    whose value text is `v`. -/
theorem render_shows_counter (cfg : Cfg) (ops : List Op) (k : MKey) (v : Nat)
    (h : ops.foldl (specCounter k) none = some v) :
    ∃ fam, Line.sample fam none (partsOf cfg k).2 none (natText v) ∈ (renderLines (run (init cfg) ops)).2.flatten := by
  have hl := counter_refines cfg ops k
  rw [h] at hl
  have hm := lookup_some_mem _ _ _ hl
  have hc : (run (init cfg) ops).cfg = cfg := by rw [run_cfg]; rfl
  have hmem : (k, natText v) ∈ (run (init cfg) ops).counters.map (fun kv => (kv.1, natText kv.2)) :=
    List.mem_map.mpr ⟨(k, v), hm, rfl⟩
  obtain ⟨ss, hs1, hs2⟩ := groupFamilies_shows _ cfg.globals (k, natText v) hmem
  have hfam := lookup_some_mem _ _ _ hs1
  obtain ⟨fam, hf⟩ := renderFamily_mem cfg.unitSuffix (keyToParts k.name k.labels cfg.globals).1
    (lookup (run (init cfg) ops).descs (keyToParts k.name k.labels cfg.globals).1) "counter".toList ss _ hs2
  refine ⟨fam, ?_⟩
  have hline := hf (Line.sample fam none (partsOf cfg k).2 none (natText v)) (by simp [seriesLines, partsOf])
  simp only [renderLines, List.mem_flatten]
  refine ⟨_, ?_, hline⟩
  simp only [List.mem_append, List.mem_map]
  refine Or.inl (Or.inl ⟨((keyToParts k.name k.labels cfg.globals).1, ss), ?_, ?_⟩)
  · show _ ∈ groupFamilies ((drain (run (init cfg) ops)).counters.map _) (drain (run (init cfg) ops)).cfg.globals
    rw [drain_cfg, hc]
    exact hfam
  · simp only [drain_cfg, hc]
    rfl

/-- **gauge line**: the same for gauges — the value token is the last value's (`gauge_refines`, `gauge_set_last`). -/
theorem render_shows_gauge (cfg : Cfg) (ops : List Op) (k : MKey) (v : Val)
    (h : ops.foldl (specGauge k) none = some v) :
    ∃ fam, Line.sample fam none (partsOf cfg k).2 none v.tok ∈ (renderLines (run (init cfg) ops)).2.flatten := by
  have hl := gauge_refines cfg ops k
  rw [h] at hl
  have hm := lookup_some_mem _ _ _ hl
  have hc : (run (init cfg) ops).cfg = cfg := by rw [run_cfg]; rfl
  have hmem : (k, v.tok) ∈ (run (init cfg) ops).gauges.map (fun kv => (kv.1, kv.2.tok)) :=
    List.mem_map.mpr ⟨(k, v), hm, rfl⟩
  obtain ⟨ss, hs1, hs2⟩ := groupFamilies_shows _ cfg.globals (k, v.tok) hmem
  have hfam := lookup_some_mem _ _ _ hs1
  obtain ⟨fam, hf⟩ := renderFamily_mem cfg.unitSuffix (keyToParts k.name k.labels cfg.globals).1
    (lookup (run (init cfg) ops).descs (keyToParts k.name k.labels cfg.globals).1) "gauge".toList ss _ hs2
  refine ⟨fam, ?_⟩
  have hline := hf (Line.sample fam none (partsOf cfg k).2 none v.tok) (by simp [seriesLines, partsOf])
  simp only [renderLines, List.mem_flatten]
  refine ⟨_, ?_, hline⟩
  simp only [List.mem_append, List.mem_map]
  refine Or.inl (Or.inr ⟨((keyToParts k.name k.labels cfg.globals).1, ss), ?_, ?_⟩)
  · show _ ∈ groupFamilies ((drain (run (init cfg) ops)).gauges.map _) (drain (run (init cfg) ops)).cfg.globals
    rw [drain_cfg, hc]
    exact hfam
  · simp only [drain_cfg, hc]
    rfl

/-- **histogram / summary lines**: for every series `p` that has a distribution after the drain, `render()` writes
    a `_count` line whose text is the number of samples ever recorded under the keys rendered as `p`, and a `_sum`
    line whose text is their sum — for any history of record / record_many / upkeep / render calls. -/
theorem render_shows_hist (cfg : Cfg) (ops : List Op) (p : Parts) (d : Dist)
    (h : getDist (renderLines (run (init cfg) ops)).1.dists p = some d) :
    ∃ fam, Line.sample fam (some "count".toList) p.2 none (natText ((ops.map (opCount cfg p)).sum))
              ∈ (renderLines (run (init cfg) ops)).2.flatten
         ∧ Line.sample fam (some "sum".toList) p.2 none (intTok ((ops.map (opSum cfg p)).sum))
              ∈ (renderLines (run (init cfg) ops)).2.flatten := by
  have hr := render_reports_hist cfg ops p
  simp only [h, dCount, dSum, Option.map_some, Option.getD_some] at hr
  obtain ⟨hcnt, hsum⟩ := hr
  have e : (renderLines (run (init cfg) ops)).1 = drain (run (init cfg) ops) := rfl
  rw [e] at h
  simp only [getDist] at h
  cases hm : lookup (drain (run (init cfg) ops)).dists p.1 with
  | none => simp [hm] at h
  | some m =>
    simp only [hm, Option.bind_some] at h
    have h1 := lookup_some_mem _ _ _ hm
    have h2 := lookup_some_mem _ _ _ h
    let s := drain (run (init cfg) ops)
    have hx : distSeries s.cfg.quantiles p.2 d ∈ m.map (fun ld => distSeries s.cfg.quantiles ld.1 ld.2) :=
      List.mem_map.mpr ⟨(p.2, d), h2, rfl⟩
    obtain ⟨fam, hf⟩ := renderFamily_mem s.cfg.unitSuffix p.1 (lookup s.descs p.1) (distType s.cfg p.1) _ _ hx
    have inl : ∀ l, l ∈ seriesLines fam (distSeries s.cfg.quantiles p.2 d) → l ∈ (renderLines (run (init cfg) ops)).2.flatten := by
      intro l hl
      simp only [renderLines, List.mem_flatten]
      refine ⟨_, ?_, hf l hl⟩
      simp only [List.mem_append, List.mem_map]
      exact Or.inr ⟨(p.1, m), h1, rfl⟩
    refine ⟨fam, inl _ ?_, inl _ ?_⟩
    · cases d with
      | hist b c n sm => simp [distSeries, seriesLines, ← hcnt, Dist.count]
      | summ n sm => simp [distSeries, seriesLines, ← hcnt, Dist.count]
    · cases d with
      | hist b c n sm => simp [distSeries, seriesLines, ← hsum, Dist.sum]
      | summ n sm => simp [distSeries, seriesLines, ← hsum, Dist.sum]

/-! ## source facts (tools/extract.py → Generated/SourceFacts.lean, regenerated from the repository on every run)

Facts about the drain path that no sequential run on x86 can observe; the model's `drain` / `hrecMany` /
`Dist.record` are justified by them. -/

/-- `drain_histograms_to_distributions` takes the distributions lock FIRST and empties the bucket (`clear_with`) with
    `record_samples` as its callback while holding it: the model's `drain` is one atomic step, and a concurrent
    `render()` can never find a sample neither in the bucket nor in the distribution. -/
theorem src_drain_under_lock : Generated.prom_drain_steps = ["lock", "clear_with", "record_samples"] := by decide

/-- `run_upkeep` is exactly one drain; `get_recent_metrics` (hence `render`) drains and only afterwards takes its
    snapshot of the distributions — the model's `Op.upkeep` and `renderLines`. -/
theorem src_upkeep_and_render_drain :
    Generated.prom_run_upkeep_body = "{self.drain_histograms_to_distributions();}"
    ∧ Generated.prom_get_recent_metrics_calls = ["drain_histograms_to_distributions", "distributions.read"] := by decide

/-- the exporter's histogram handle defines `record` only (both the timestamping bucket and the generational
    wrapper), it pushes the value it was given unchanged, and the trait's default `record_many` is the loop of `count`
    `record` calls — the model's `Op.hrecMany` (`hrecMany_eq_records`). -/
theorem src_record_path :
    Generated.prom_histogram_fn_methods = ["record"]
    ∧ Generated.prom_histogram_record_push = "(value,now)"
    ∧ Generated.generational_histogram_fn_methods = ["record"]
    ∧ Generated.histogram_fn_record_many_default = "{for_in0..count{self.record(value);}}" := by decide

/-- folding drained samples: the summary arm adds every sample to the rolling summary AND to the running sum, the
    histogram arm hands every sample to `Histogram::record_many`; `RollingSummary::add` counts the sample in its very
    first statement — before any of the time-dependent branches — and nowhere else (the model's `Dist.record`:
    `count + 1`, `sum + v`, whatever the time stamps). -/
theorem src_fold_path :
    Generated.prom_record_samples_summary_arm = "{for(sample,ts)insamples{hist.add(*sample,*ts);*sum+=*sample;}}"
    ∧ Generated.prom_record_samples_histogram_arm = "{hist.record_many(samples.iter().map(|(sample,_ts)|sample));}"
    ∧ Generated.rolling_add_first_statement = "self.count+=1;"
    ∧ Generated.rolling_add_count_updates = 1 := by decide

/-! ## non-vacuity -/

example :
    let k : MKey := ⟨"lat".toList, []⟩
    let cfg : Cfg := { unitSuffix := false, globals := buildGlobals [("z".toList, "1".toList), ("a".toList, "2".toList), ("z".toList, "3".toList)],
                       buckets := none, overrides := [], quantiles := [] }
    cfg.globals = [("z".toList, "3".toList), ("a".toList, "2".toList)]
    ∧ (step (init cfg) (.hrecMany k 7 3)).hists = (run (init cfg) [.hrec k 7, .hrec k 7, .hrec k 7]).hists
    ∧ (step (init cfg) (.hrecMany k 7 0)).hists = [(k, [])] := by decide

example :
    let k : MKey := ⟨"c".toList, [("host".toList, "a".toList)]⟩
    let cfg : Cfg := { unitSuffix := false, globals := [], buckets := none, overrides := [], quantiles := [] }
    Line.sample "c".toList none ["host=\"a\"".toList] none "12".toList
      ∈ (renderLines (run (init cfg) [.cinc k 5, .cinc k 7])).2.flatten := by decide


example :
    let k : MKey := ⟨"lat".toList, [("host".toList, "a".toList)]⟩
    let cfg : Cfg := { unitSuffix := false, globals := [], buckets := some [0, 1024], overrides := [], quantiles := [] }
    let s := (renderLines (run (init cfg) [.hrec k 5, .upkeep, .hrec k 2000, .hrec k (-3)])).1
    getDist s.dists (partsOf cfg k) = some (.hist [0, 1024] [1, 2] 3 2002) := by decide

end MetricsVerif.C07
