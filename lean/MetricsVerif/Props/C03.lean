/-
C03 — Key equality, ordering and hashing agree and ignore how a key was built.

Model: `Model/Key.lean` — `Key.eq`, `Key.cmp`, `hashStream` follow `impl PartialEq / Ord / Hash for Key`
(metrics/src/key.rs, with the fix-C03 repair of `Ord`) arm by arm; `step`/`run` is `Key::get_hash` at the
granularity of one atomic operation, together with `Clone for Key::clone` (two thread-local `Cow` clones, then the
two loads of the memo) so that `clone()` racing with first `get_hash()` calls is inside the model
(`clone_coherent`, `clone_get_hash_stable`); `CompositeKey.eq/.cmp` follow the derives of
`metrics_util::CompositeKey`.  All theorems are for ALL keys (any strings, any number of labels, repeated
names, repeated labels), all permutations, all schedules and any number of threads.

Construction independence is by construction in the model (it sees content only) and is carried by the
correspondence run, which builds every key through every public path and compares each with this model.

The statements are about the repaired code.  Before the repair `eq_iff_cmp_eq` is false: see the `example`
`cmp incoherent before the fix` at the end (two labels with the same name, values swapped).
-/
import MetricsVerif.Proofs.Key
import MetricsVerif.Generated.SourceFacts

namespace MetricsVerif.C03
open MetricsVerif.Key

/-! ## `==` is equality of canonical forms, hence an equivalence -/

/-- `a == b` exactly when name, label count and the labels in canonical order (0/1 labels as given, 2 labels
    ordered by the whole label, ≥ 3 labels stably sorted by name) coincide. -/
theorem eq_iff_canon (a b : Key) : Key.eq a b = true ↔ canon a = canon b := by
  unfold Key.eq canon
  by_cases hn : a.name = b.name
  · by_cases hl : a.labels.length = b.labels.length
    · simp [hn, hl, eqArm_iff a.labels b.labels hl]
    · simp [hn, hl]
  · simp [hn]

/-- `==` is reflexive -/
theorem eq_refl (a : Key) : Key.eq a a = true := (eq_iff_canon a a).2 rfl

/-- `==` is symmetric -/
theorem eq_symm (a b : Key) : Key.eq a b = Key.eq b a := by
  rw [Bool.eq_iff_iff, eq_iff_canon, eq_iff_canon]; exact eq_comm

/-- `==` is transitive -/
theorem eq_trans (a b c : Key) (h1 : Key.eq a b = true) (h2 : Key.eq b c = true) : Key.eq a c = true := by
  rw [eq_iff_canon] at *; exact h1.trans h2

/-! ## `cmp` is the lexicographic comparison of the same canonical forms, hence a total order up to `==` -/

/-- `a.cmp(b)` compares `(name, label count, labels in canonical order)` lexicographically -/
theorem cmp_is_compare (a b : Key) : Key.cmp a b = cmpCanon (canon a) (canon b) := by
  unfold Key.cmp cmpCanon canon
  by_cases hl : a.labels.length = b.labels.length
  · rw [cmpArm_eq a.labels b.labels hl]
  · have : cmpNat a.labels.length b.labels.length ≠ .eq := fun e => hl ((goodNat.eq_iff _ _).1 e)
    revert this
    generalize cmpStr a.name b.name = x
    generalize cmpNat a.labels.length b.labels.length = y
    cases x <;> cases y <;> simp [Ordering.then]

/-- **the coherence law**: `a == b` exactly when `a.cmp(b)` is `Equal` -/
theorem eq_iff_cmp_eq (a b : Key) : Key.eq a b = true ↔ Key.cmp a b = .eq := by
  rw [eq_iff_canon, cmp_is_compare, goodCanon.eq_iff]

/-- `cmp` is total and antisymmetric: `b.cmp(a)` is the reverse of `a.cmp(b)`
    (so exactly one of `<`, `Equal`, `>` holds, and `a < b` iff `b > a`) -/
theorem cmp_swap (a b : Key) : Key.cmp b a = (Key.cmp a b).swap := by
  rw [cmp_is_compare, cmp_is_compare]; exact goodCanon.swap _ _

/-- `≤` is transitive -/
theorem cmp_le_trans (a b c : Key) (h1 : Key.cmp a b ≠ .gt) (h2 : Key.cmp b c ≠ .gt) : Key.cmp a c ≠ .gt := by
  rw [cmp_is_compare] at *; exact goodCanon.le_trans h1 h2

/-- `<` is transitive -/
theorem cmp_lt_trans (a b c : Key) (h1 : Key.cmp a b = .lt) (h2 : Key.cmp b c = .lt) : Key.cmp a c = .lt := by
  rw [cmp_is_compare] at *; exact goodCanon.lt_trans _ _ _ h1 h2

/-- antisymmetry in the usual form: `a ≤ b` and `b ≤ a` only for equal keys -/
theorem cmp_antisymm (a b : Key) (h1 : Key.cmp a b ≠ .gt) (h2 : Key.cmp b a ≠ .gt) : Key.eq a b = true := by
  rw [eq_iff_cmp_eq]
  rw [cmp_swap a b] at h2
  cases e : Key.cmp a b <;> simp_all [Ordering.swap]

/-- equal keys are interchangeable in comparisons -/
theorem cmp_respects_eq (a a' b b' : Key) (ha : Key.eq a a' = true) (hb : Key.eq b b' = true) :
    Key.cmp a b = Key.cmp a' b' := by
  rw [eq_iff_canon] at ha hb
  rw [cmp_is_compare, cmp_is_compare, ha, hb]

/-! ## equal keys hash alike -/

/-- `a == b` implies the `Hash` impl makes the identical sequence of `Hasher` calls -/
theorem eq_hash (a b : Key) (h : Key.eq a b = true) : hashStream a = hashStream b := by
  rw [eq_iff_canon] at h
  simp only [canon, Prod.mk.injEq] at h
  unfold hashStream
  rw [h.1, h.2.1, h.2.2]

/-- … hence, for whatever function of the written data the hasher computes, the same std hash, the same
    `write` calls on `KeyHasher`, and the same `get_hash()` value -/
theorem eq_get_hash (H : List Write → Nat) (a b : Key) (h : Key.eq a b = true) :
    generateKeyHash H a = generateKeyHash H b ∧ keyHasherWrites a = keyHasherWrites b := by
  unfold generateKeyHash keyHasherWrites
  rw [eq_hash a b h]; exact ⟨rfl, rfl⟩

/-! ## label order is irrelevant when label names are pairwise distinct -/

theorem hashOrder_eq_of_perm {l₁ l₂ : List Label} (hp : l₁.Perm l₂) (hd : (l₁.map (·.key)).Nodup) :
    hashOrder l₁ = hashOrder l₂ := by
  have hl := hp.length_eq
  match l₁, l₂, hl, hp, hd with
  | [], [], _, _, _ => rfl
  | [x], [y], _, hp, _ => have := List.singleton_perm_singleton.1 hp; subst this; rfl
  | [x0, x1], [y0, y1], _, hp, hd =>
    simp only [hashOrder]
    have m0 : x0 ∈ [y0, y1] := hp.subset (by simp)
    have m1 : x1 ∈ [y0, y1] := hp.subset (by simp)
    have hne : x0 ≠ x1 := by intro e; subst e; simp at hd
    simp only [List.mem_cons, List.not_mem_nil, or_false] at m0 m1
    rcases m0 with e0 | e0 <;> rcases m1 with e1 | e1
    · exact absurd (e0.trans e1.symm) hne
    · rw [e0, e1]
    · rw [e0, e1]; exact order2_comm _ _
    · exact absurd (e0.trans e1.symm) hne
  | x0 :: x1 :: x2 :: xs, y0 :: y1 :: y2 :: ys, _, hp, hd =>
    simp only [hashOrder]; exact sortByKey_eq_of_perm hp hd

/-- two keys with the same name whose label lists are permutations of each other, label names pairwise
    distinct: `==`, `cmp` is `Equal`, identical `Hasher` call sequence -/
theorem perm_invariant (n : Str) (l₁ l₂ : List Label) (hp : l₁.Perm l₂) (hd : (l₁.map (·.key)).Nodup) :
    Key.eq ⟨n, l₁⟩ ⟨n, l₂⟩ = true ∧ Key.cmp ⟨n, l₁⟩ ⟨n, l₂⟩ = .eq ∧ hashStream ⟨n, l₁⟩ = hashStream ⟨n, l₂⟩ := by
  have he : Key.eq ⟨n, l₁⟩ ⟨n, l₂⟩ = true := by
    rw [eq_iff_canon]; simp only [canon]; rw [hp.length_eq, hashOrder_eq_of_perm hp hd]
  exact ⟨he, (eq_iff_cmp_eq _ _).1 he, eq_hash _ _ he⟩

/-! ## `get_hash()`: one value for the whole life of a key, on every thread, under every interleaving -/

/-- a lazily hashed key (`from_static_parts`, `from_static_labels`, the literal macros), any number `n` of
    threads calling `get_hash()` for the first time, any interleaving of their atomic operations: every call
    that has returned returned `generate_key_hash(name, labels)`. -/
theorem get_hash_stable (H : List Write → Nat) (k : Key) (n : Nat) (sched : List Nat) (t v : Nat)
    (hdone : (run codeOrds (generateKeyHash H k) (freshStatic n) sched).pc t = .done v) :
    v = generateKeyHash H k :=
  (Inv.run sched (inv_freshStatic _ n)).vals t v (Or.inr (Or.inr hdone))

/-- the same for an eagerly hashed key (`from_name`, `from_parts`, `with_extra_labels`) -/
theorem get_hash_stable_built (H : List Write → Nat) (k : Key) (n : Nat) (sched : List Nat) (t v : Nat)
    (hdone : (run codeOrds (generateKeyHash H k) (freshBuilt (generateKeyHash H k) n) sched).pc t = .done v) :
    v = generateKeyHash H k :=
  (Inv.run sched (inv_freshBuilt _ n)).vals t v (Or.inr (Or.inr hdone))

/-- the memo is never wrong: at every moment, once `hashed` is up, `hash` holds the true value — so every
    later call (a later call is one more thread id) and every `clone()` (which loads `hashed` then `hash`)
    sees it too -/
theorem memo_correct (H : List Write → Nat) (k : Key) (n : Nat) (sched : List Nat) :
    let s := run codeOrds (generateKeyHash H k) (freshStatic n) sched
    s.hashed = true → s.hash = generateKeyHash H k := by
  intro s hh
  have inv : Inv (generateKeyHash H k) s := Inv.run sched (inv_freshStatic _ n)
  rcases inv.hashOk with e | ⟨e, _⟩
  · exact e
  · rw [hh] at e; cases e

theorem step_idle_iff (o : Ords) (h : Nat) (s : Sys) (t u : Nat) : (step o h s t).pc u = .idle ↔ s.pc u = .idle := by
  by_cases hu : u = t
  · subst hu; exact (step_rank o h s u).2.1
  · rw [step_pc_other o h s t u hu]

theorem run_idle_iff (o : Ords) (h : Nat) (sched : List Nat) :
    ∀ (s : Sys) (u : Nat), (run o h s sched).pc u = .idle ↔ s.pc u = .idle := by
  induction sched with
  | nil => intro s u; exact Iff.rfl
  | cons t ts ih => intro s u; exact (ih (step o h s t) u).trans (step_idle_iff o h s t u)

theorem step_isClone (o : Ords) (h : Nat) (s : Sys) (t u : Nat) :
    ((step o h s t).pc u).isClone = (s.pc u).isClone := by
  by_cases hu : u = t
  · subst hu; exact (step_rank o h s u).2.2
  · rw [step_pc_other o h s t u hu]

/-- a thread that is calling `get_hash()` never finds itself inside `clone()` and vice versa -/
theorem run_isClone (o : Ords) (h : Nat) (sched : List Nat) :
    ∀ (s : Sys) (u : Nat), ((run o h s sched).pc u).isClone = (s.pc u).isClone := by
  induction sched with
  | nil => intro s u; rfl
  | cons t ts ih => intro s u; exact (ih (step o h s t) u).trans (step_isClone o h s t u)

/-- after `k` further steps of its own a thread's remaining work has shrunk by `k` -/
theorem run_own_rank (o : Ords) (h : Nat) (t : Nat) :
    ∀ (k : Nat) (s : Sys), ((run o h s (List.replicate k t)).pc t).rank ≤ (s.pc t).rank - k := by
  intro k
  induction k with
  | zero => intro s; simp [run]
  | succ k ih =>
    intro s
    have r1 := (step_rank o h s t).1
    have r2 := ih (step o h s t)
    simp only [List.replicate_succ, run, List.foldl_cons] at r2 ⊢
    omega

/-- no call of `get_hash()` waits for another thread — whatever the other callers of `get_hash()` and `clone()`
    have done so far, and whatever the key's memo was constructed with (consistently): after at most three
    further steps of its own the caller has returned, and it returned the true hash -/
theorem get_hash_returns_mixed (H : List Write → Nat) (k : Key) (f0 : Bool) (v0 : Nat)
    (hc : f0 = true → v0 = generateKeyHash H k) (roles : Nat → Role) (sched : List Nat) (t : Nat)
    (ht : roles t = .hasher) :
    (run codeOrds (generateKeyHash H k) (freshOf f0 v0 roles) (sched ++ [t, t, t])).pc t = .done (generateKeyHash H k) := by
  generalize hh : generateKeyHash H k = h at hc ⊢
  have hrun : run codeOrds h (freshOf f0 v0 roles) (sched ++ [t, t, t])
      = run codeOrds h (run codeOrds h (freshOf f0 v0 roles) sched) (List.replicate 3 t) := by
    simp [run, List.foldl_append, List.replicate]
  have hidle : (run codeOrds h (freshOf f0 v0 roles) (sched ++ [t, t, t])).pc t ≠ .idle := by
    rw [Ne, run_idle_iff]; simp [freshOf, ht, Role.start]
  have hnc : ((run codeOrds h (freshOf f0 v0 roles) (sched ++ [t, t, t])).pc t).isClone = false := by
    rw [run_isClone]; simp [freshOf, ht, Role.start, PC.isClone]
  have hnc0 : ((run codeOrds h (freshOf f0 v0 roles) sched).pc t).isClone = false := by
    rw [run_isClone]; simp [freshOf, ht, Role.start, PC.isClone]
  have hrank : ((run codeOrds h (freshOf f0 v0 roles) (sched ++ [t, t, t])).pc t).rank = 0 := by
    rw [hrun]
    have r := run_own_rank codeOrds h t 3 (run codeOrds h (freshOf f0 v0 roles) sched)
    have : ((run codeOrds h (freshOf f0 v0 roles) sched).pc t).rank ≤ 3 := by
      revert hnc0
      cases (run codeOrds h (freshOf f0 v0 roles) sched).pc t <;> simp [PC.rank, PC.isClone]
    omega
  have inv := Inv.run (sched ++ [t, t, t]) (inv_freshOf h f0 v0 roles hc)
  revert hidle hnc hrank
  cases hp : (run codeOrds h (freshOf f0 v0 roles) (sched ++ [t, t, t])).pc t <;>
    simp [PC.rank, PC.isClone]
  exact inv.vals t _ (Or.inr (Or.inr hp))

/-- no call waits for another thread: whatever happened before, a calling thread has returned after at most
    three further steps of its own — and (with `get_hash_stable`) what it returned is the true hash -/
theorem get_hash_returns (H : List Write → Nat) (k : Key) (n : Nat) (sched : List Nat) (t : Nat) (ht : t < n) :
    (run codeOrds (generateKeyHash H k) (freshStatic n) (sched ++ [t, t, t])).pc t = .done (generateKeyHash H k) := by
  have e : freshStatic n = freshOf false 0 (fun t => if t < n then .hasher else .none) := by
    simp only [freshStatic, freshOf, Sys.mk.injEq, true_and]
    refine ⟨?_, trivial⟩
    funext u; by_cases hu : u < n <;> simp [hu, Role.start]
  rw [e]
  exact get_hash_returns_mixed H k false 0 (by simp) _ sched t (by simp [ht])

/-! ## `clone()` racing with first `get_hash()` calls, and `get_hash()` on the clone -/

/-- `get_hash_stable` with `clone()` callers in the mix, for a key whose memo was constructed consistently
    (`from_static_*`: `false, 0`; `builder`: `true, hash`; a clone: see `clone_coherent`): any number of threads,
    each calling `get_hash()` or `clone()` on the shared key, any interleaving of their atomic operations —
    every `get_hash()` that has returned returned the true hash -/
theorem get_hash_stable_mixed (H : List Write → Nat) (k : Key) (f0 : Bool) (v0 : Nat)
    (hc : f0 = true → v0 = generateKeyHash H k) (roles : Nat → Role) (sched : List Nat) (t v : Nat)
    (hdone : (run codeOrds (generateKeyHash H k) (freshOf f0 v0 roles) sched).pc t = .done v) :
    v = generateKeyHash H k :=
  (Inv.run sched (inv_freshOf _ f0 v0 roles hc)).vals t v (Or.inr (Or.inr hdone))

/-- **a clone never carries a wrong memo**: in the same setting, a `clone()` that has returned a key with
    `hashed = true` copied the true hash into it — also when it raced with the first `get_hash()` calls.
    (With `hashed = false` the copied value is never looked at: the clone rehashes.) -/
theorem clone_coherent (H : List Write → Nat) (k : Key) (f0 : Bool) (v0 : Nat)
    (hc : f0 = true → v0 = generateKeyHash H k) (roles : Nat → Role) (sched : List Nat) (t : Nat) (f : Bool) (v : Nat)
    (hdone : (run codeOrds (generateKeyHash H k) (freshOf f0 v0 roles) sched).pc t = .cloned f v) :
    f = true → v = generateKeyHash H k := by
  intro hf; subst hf
  exact (Inv.run sched (inv_freshOf _ f0 v0 roles hc)).cvals t v hdone

/-- **`clone` is a neutral construction path for `get_hash()`**: take any clone made under any interleaving
    with `get_hash()` / `clone()` callers of the original; share the clone among any number of threads calling
    `get_hash()` or `clone()` on it, under any interleaving: every `get_hash()` on the clone returns the true
    hash of the (equal) content, and clones of the clone are coherent again -/
theorem clone_get_hash_stable (H : List Write → Nat) (k : Key) (f0 : Bool) (v0 : Nat)
    (hc : f0 = true → v0 = generateKeyHash H k) (roles : Nat → Role) (sched : List Nat) (t : Nat) (f : Bool) (v : Nat)
    (hdone : (run codeOrds (generateKeyHash H k) (freshOf f0 v0 roles) sched).pc t = .cloned f v)
    (roles' : Nat → Role) (sched' : List Nat) (u : Nat) :
    (∀ w, (run codeOrds (generateKeyHash H k) (freshOf f v roles') sched').pc u = .done w → w = generateKeyHash H k)
    ∧ (∀ f' w, (run codeOrds (generateKeyHash H k) (freshOf f v roles') sched').pc u = .cloned f' w →
        f' = true → w = generateKeyHash H k) :=
  have hc' := clone_coherent H k f0 v0 hc roles sched t f v hdone
  ⟨fun w hw => get_hash_stable_mixed H k f v hc' roles' sched' u w hw,
   fun f' w hw => clone_coherent H k f v hc' roles' sched' u f' w hw⟩

/-- `clone()` does not wait for anybody either: four steps of its own (two of them thread-local) -/
theorem clone_returns (H : List Write → Nat) (k : Key) (f0 : Bool) (v0 : Nat) (roles : Nat → Role)
    (sched : List Nat) (t : Nat) (ht : roles t = .cloner) :
    ∃ f v, (run codeOrds (generateKeyHash H k) (freshOf f0 v0 roles) (sched ++ [t, t, t, t])).pc t = .cloned f v := by
  generalize generateKeyHash H k = h
  have hrun : run codeOrds h (freshOf f0 v0 roles) (sched ++ [t, t, t, t])
      = run codeOrds h (run codeOrds h (freshOf f0 v0 roles) sched) (List.replicate 4 t) := by
    simp [run, List.foldl_append, List.replicate]
  have hc : ((run codeOrds h (freshOf f0 v0 roles) (sched ++ [t, t, t, t])).pc t).isClone = true := by
    rw [run_isClone]; simp [freshOf, ht, Role.start, PC.isClone]
  have hrank : ((run codeOrds h (freshOf f0 v0 roles) (sched ++ [t, t, t, t])).pc t).rank = 0 := by
    rw [hrun]
    have r := run_own_rank codeOrds h t 4 (run codeOrds h (freshOf f0 v0 roles) sched)
    have : ((run codeOrds h (freshOf f0 v0 roles) sched).pc t).rank ≤ 4 := by
      cases (run codeOrds h (freshOf f0 v0 roles) sched).pc t <;> simp [PC.rank]
    omega
  revert hc hrank
  cases hp : (run codeOrds h (freshOf f0 v0 roles) (sched ++ [t, t, t, t])).pc t <;> simp [PC.rank, PC.isClone]

/-! ## `CompositeKey` (metrics-util) inherits the coherence law -/

/-- `CompositeKey(kind, key)`: `a == b` exactly when `a.cmp(b)` is `Equal` — in particular two composite keys of
    different kinds are never `==`, whatever their keys -/
theorem ckey_eq_iff_cmp_eq (a b : CompositeKey) : CompositeKey.eq a b = true ↔ CompositeKey.cmp a b = .eq := by
  unfold CompositeKey.eq CompositeKey.cmp
  rw [Ordering.then_eq_eq, goodNat.eq_iff, Bool.and_eq_true, eq_iff_cmp_eq, beq_iff_eq]
  constructor
  · intro ⟨h1, h2⟩; exact ⟨by rw [h1], h2⟩
  · intro ⟨h1, h2⟩
    refine ⟨?_, h2⟩
    revert h1; cases a.kind <;> cases b.kind <;> simp [Kind.discr]

/-- `==` of composite keys is equality of kind and of the keys' canonical forms -/
theorem ckey_eq_iff (a b : CompositeKey) : CompositeKey.eq a b = true ↔ (a.kind = b.kind ∧ canon a.key = canon b.key) := by
  unfold CompositeKey.eq
  rw [Bool.and_eq_true, beq_iff_eq, eq_iff_canon]

/-! ## the operators and provided methods agree with `==` and `cmp` -/

/-- `a != b` exactly when `a.cmp(b)` is not `Equal` (so `!=` and `==` are never both true or both false, and `!=`
    ignores label order exactly where `==` does) -/
theorem ne_iff_cmp_ne (a b : Key) : Key.ne a b = true ↔ Key.cmp a b ≠ .eq := by
  have h := eq_iff_cmp_eq a b
  cases he : Key.eq a b <;> simp_all [Key.ne]

/-- `partial_cmp` is `Some(cmp)`; `<`, `<=`, `>`, `>=` are the four readings of `cmp` -/
theorem ops_read_cmp (a b : Key) :
    Key.partialCmp a b = some (Key.cmp a b)
    ∧ (Key.lt a b = true ↔ Key.cmp a b = .lt) ∧ (Key.gt a b = true ↔ Key.cmp a b = .gt)
    ∧ (Key.le a b = true ↔ Key.cmp a b ≠ .gt) ∧ (Key.ge a b = true ↔ Key.cmp a b ≠ .lt) := by
  refine ⟨rfl, ?_, ?_, ?_, ?_⟩ <;> cases hc : Key.cmp a b <;> simp [Key.lt, Key.gt, Key.le, Key.ge, Key.partialCmp, hc]

/-- `a <= b` is `a < b || a == b`, `a >= b` is `a > b || a == b` (the operators of `PartialOrd` and the `==` of
    `PartialEq` are two different impls in key.rs; that they fit together is the coherence law again) -/
theorem le_iff_lt_or_eq (a b : Key) :
    Key.le a b = (Key.lt a b || Key.eq a b) ∧ Key.ge a b = (Key.gt a b || Key.eq a b) := by
  have h := eq_iff_cmp_eq a b
  constructor <;> cases hc : Key.cmp a b <;> cases he : Key.eq a b <;>
    simp_all [Key.le, Key.lt, Key.ge, Key.gt, Key.partialCmp]

/-- `a > b` is `b < a`, `a >= b` is `b <= a` -/
theorem gt_is_lt_swapped (a b : Key) : Key.gt a b = Key.lt b a ∧ Key.ge a b = Key.le b a := by
  have h := cmp_swap a b
  constructor <;> cases hc : Key.cmp a b <;> simp_all [Key.gt, Key.lt, Key.ge, Key.le, Key.partialCmp, Ordering.swap]

/-- exactly one of `a < b`, `a == b`, `a > b` -/
theorem trichotomy (a b : Key) :
    (Key.lt a b = true ∧ Key.eq a b = false ∧ Key.gt a b = false)
    ∨ (Key.lt a b = false ∧ Key.eq a b = true ∧ Key.gt a b = false)
    ∨ (Key.lt a b = false ∧ Key.eq a b = false ∧ Key.gt a b = true) := by
  have h := eq_iff_cmp_eq a b
  cases hc : Key.cmp a b <;> cases he : Key.eq a b <;> simp_all [Key.lt, Key.gt, Key.partialCmp]

/-- `max` and `min` return the two arguments, one each (for equal keys: `min` the first, `max` the second) -/
theorem max_min_pick (a b : Key) :
    (Key.min a b = a ∧ Key.max a b = b) ∨ (Key.min a b = b ∧ Key.max a b = a) := by
  cases hc : Key.cmp a b <;> simp [Key.min, Key.max, hc]

/-- `min(a, b) <= max(a, b)`, and both are symmetric up to `==` -/
theorem min_le_max (a b : Key) :
    Key.le (Key.min a b) (Key.max a b) = true
    ∧ Key.eq (Key.max a b) (Key.max b a) = true ∧ Key.eq (Key.min a b) (Key.min b a) = true := by
  have hs := cmp_swap a b
  have hab := eq_iff_cmp_eq a b
  have hba := eq_iff_cmp_eq b a
  have ra := eq_refl a
  have rb := eq_refl b
  have ca := (eq_iff_cmp_eq a a).1 ra
  have cb := (eq_iff_cmp_eq b b).1 rb
  cases hc : Key.cmp a b <;>
    simp_all [Key.min, Key.max, Key.le, Key.partialCmp, Ordering.swap]

/-- `x.clamp(lo, hi)` with `lo <= hi` lies between `lo` and `hi` and is `x` itself whenever `x` already does -/
theorem clamp_between (x lo hi : Key) (h : Key.cmp lo hi ≠ .gt) :
    Key.cmp lo (Key.clamp x lo hi) ≠ .gt ∧ Key.cmp (Key.clamp x lo hi) hi ≠ .gt
    ∧ (Key.cmp lo x ≠ .gt → Key.cmp x hi ≠ .gt → Key.clamp x lo hi = x) := by
  have s1 := cmp_swap x lo
  have rlo := (eq_iff_cmp_eq lo lo).1 (eq_refl lo)
  have rhi := (eq_iff_cmp_eq hi hi).1 (eq_refl hi)
  unfold Key.clamp
  cases h1 : Key.cmp x lo <;> cases h2 : Key.cmp x hi <;>
    simp_all [Key.lt, Key.gt, Key.partialCmp, Ordering.swap]

/-! ## construction paths: whatever sequence of constructors, `with_extra_labels`, `clone`, `into_parts` round trips
and earlier `get_hash()` calls produced a key, its content is the labels given, in the order given, its memo is
never wrong, and `get_hash()` is the hash of the content -/

/-- a path builds the content it was given: names and labels in the order supplied, extra labels appended -/
theorem path_content (H : List Write → Nat) (p : Path) : (p.build H).key = p.content := by
  induction p with
  | fromParts n ls => rfl
  | fromStatic n ls => rfl
  | withExtra p extra ih =>
    cases extra with
    | nil => simp [Path.build, Path.content, RKey.withExtraLabels, RKey.clone, ih]
    | cons e es => simp [Path.build, Path.content, RKey.withExtraLabels, RKey.builder, ih]
  | clone p ih => simpa [Path.build, Path.content, RKey.clone] using ih
  | hashed p ih =>
    simp only [Path.build, Path.content, RKey.getHash]
    split <;> simpa using ih
  | reparts p ih => simp [Path.build, Path.content, RKey.builder, RKey.intoParts, ih]

/-- **no construction path leaves a wrong memo**: if `hashed` is up, `hash` is the hash of the content -/
theorem path_coherent (H : List Write → Nat) (p : Path) :
    (p.build H).hashed = true → (p.build H).hash = generateKeyHash H p.content := by
  induction p with
  | fromParts n ls => intro _; rfl
  | fromStatic n ls => intro h; simp [Path.build, RKey.static] at h
  | withExtra p extra ih =>
    cases extra with
    | nil => simpa [Path.build, Path.content, RKey.withExtraLabels, RKey.clone] using ih
    | cons e es =>
      intro _
      simp [Path.build, Path.content, RKey.withExtraLabels, RKey.builder, path_content H p]
  | clone p ih => simpa [Path.build, Path.content, RKey.clone] using ih
  | hashed p ih =>
    simp only [Path.build, Path.content, RKey.getHash]
    split
    · simpa using ih
    · intro _; simp [path_content H p]
  | reparts p ih => intro _; simp [Path.build, Path.content, RKey.builder, RKey.intoParts, path_content H p]

/-- `get_hash()` of a key obtained through any path is `generate_key_hash` of its content, and leaves a coherent key
    with the same content behind -/
theorem path_get_hash (H : List Write → Nat) (p : Path) :
    ((p.build H).getHash H).1 = generateKeyHash H p.content
    ∧ ((p.build H).getHash H).2.key = p.content
    ∧ ((p.build H).getHash H).2.hashed = true := by
  have hc := path_coherent H p
  have hk := path_content H p
  unfold RKey.getHash
  split
  · rename_i hh; exact ⟨hc hh, hk, hh⟩
  · exact ⟨by rw [hk], hk, rfl⟩

/-- **construction path irrelevant**: two keys obtained through ANY two paths whose contents are `==` (in particular:
    the same content through different paths, or a permutation with distinct names) return the same `get_hash()`,
    make the same `Hasher` calls and compare `Equal` -/
theorem path_irrelevant (H : List Write → Nat) (p q : Path) (h : Key.eq p.content q.content = true) :
    ((p.build H).getHash H).1 = ((q.build H).getHash H).1
    ∧ hashStream (p.build H).key = hashStream (q.build H).key
    ∧ Key.cmp (p.build H).key (q.build H).key = .eq := by
  rw [(path_get_hash H p).1, (path_get_hash H q).1, path_content H p, path_content H q]
  exact ⟨(eq_get_hash H _ _ h).1, eq_hash _ _ h, (eq_iff_cmp_eq _ _).1 h⟩

/-- a key handed to threads after any construction path starts the step machine in a consistent state, so the
    interleaving theorems (`get_hash_stable_mixed`, `clone_coherent`) apply to it -/
theorem path_get_hash_stable (H : List Write → Nat) (p : Path) (roles : Nat → Role) (sched : List Nat) (t v : Nat)
    (hdone : (run codeOrds (generateKeyHash H p.content)
      (freshOf (p.build H).hashed (p.build H).hash roles) sched).pc t = .done v) :
    v = generateKeyHash H p.content :=
  get_hash_stable_mixed H p.content _ _ (path_coherent H p) roles sched t v hdone

/-! ## tie to the source text (facts no run on x86 can show; regenerated from the repository on every check) -/

/-- obligation: `Key::get_hash` in metrics/src/key.rs makes exactly the four atomic calls of the step machine,
    in its order — load flag, load value | store value, **then** store flag — with a release store and an
    acquire load of the flag, and computes the stored value from the key's own name and labels -/
theorem src_get_hash_shape :
    ordsOfSource Generated.key_get_hash_calls Generated.key_get_hash_orderings = some codeOrds
    ∧ Generated.key_get_hash_computes_from_name_and_labels = true := by decide

/-- obligation: `Clone for Key` reads the flag (acquire) before the value, so a clone that copies
    `hashed == true` copies the hash that `memo_correct` says is right; and the body of `clone` contains nothing
    (closure, nested fn, macro) that could make the order of evaluation differ from the order of the text -/
theorem src_clone_shape :
    Generated.key_clone_calls = ["hashed.load", "hash.load"]
    ∧ (Generated.key_clone_orderings.head?.map atLeastAcquire) = some true
    ∧ Generated.key_clone_order_is_textual = true := by decide

/-- obligation: the facts of `get_hash` and `clone` together instantiate the step machine with `codeOrds`, i.e.
    the machine the theorems above are about is the one in the source -/
theorem src_memo_shape :
    ordsOfSources Generated.key_get_hash_calls Generated.key_get_hash_orderings
      Generated.key_clone_calls Generated.key_clone_orderings = some codeOrds := by decide

/-- obligation: nothing else in metrics/src/key.rs touches the memo.  Outside `get_hash` and `Clone::clone` there is
    no access to `hashed` / `hash` (so `==`, `cmp`, `Hash`, `Display`, `into_parts` … cannot depend on whether a key
    has been hashed yet), and the memo is constructed in exactly three places: twice as `(false, 0)` (the `const`
    constructors, `freshOf false 0`) and once as `(true, generate_key_hash(&name, &labels))` (`builder`,
    `freshOf true h`) -/
theorem src_memo_private :
    Generated.key_memo_accesses_elsewhere = []
    ∧ Generated.key_memo_constructions = [("false", "0"), ("false", "0"), ("true", "hash")]
    ∧ Generated.key_builder_hash_from_name_and_labels = true := by decide

/-- obligation: the comparison and hashing impls of `Key` define exactly one method each — `eq`, `partial_cmp`, `cmp`,
    `hash` — (one impl per trait, none derived) so that `!=`, `<`, `<=`, `>`, `>=`, `max`, `min`, `clamp` are the provided
    methods which `Key.ne … Key.clamp` of the model write out; `partial_cmp` is `Some(self.cmp(other))` and `Hash::hash`
    is `key_hasher_impl` on the key's own name and labels (the function `generate_key_hash`, hence `get_hash`, runs) -/
theorem src_cmp_methods :
    Generated.key_trait_impl_methods
      = [("PartialEq", ["eq"]), ("Eq", []), ("PartialOrd", ["partial_cmp"]), ("Ord", ["cmp"]), ("Hash", ["hash"])]
    ∧ Generated.key_trait_impl_counts = [1, 1, 1, 1, 1]
    ∧ Generated.key_derives = ["Debug"]
    ∧ Generated.key_partial_cmp_body = "{Some(self.cmp(other))}"
    ∧ Generated.key_hash_body = "{key_hasher_impl(state,&self.name,&self.labels);}" := by decide

/-- obligation: what `Key`'s impls are built from compares and hashes by content.  `Label` and `KeyName` derive all of
    `PartialEq, Eq, PartialOrd, Ord, Hash` (field by field: `Label.eq`, `Label.cmp`, `labelWrites` of the model) and have
    no hand-written impl of any of them; `Cow`'s `eq`, `partial_cmp`, `cmp`, `hash` are the only methods of their impls
    and forward to the `deref()`ed `str` / slice — the representation (static, owned, `Arc`) is not looked at -/
theorem src_parts_by_content :
    Generated.label_derives = ["Clone", "Debug", "Eq", "Hash", "Ord", "PartialEq", "PartialOrd"]
    ∧ Generated.keyname_derives = ["Clone", "Debug", "Eq", "Hash", "Ord", "PartialEq", "PartialOrd"]
    ∧ Generated.key_parts_manual_cmp_impls = []
    ∧ Generated.cow_cmp_impls = [
        ("PartialEq", ["eq"], "{self.deref()==other.deref()}"),
        ("PartialOrd", ["partial_cmp"], "{PartialOrd::partial_cmp(self.deref(),other.deref())}"),
        ("Ord", ["cmp"], "{Ord::cmp(self.deref(),other.deref())}"),
        ("Hash", ["hash"], "{self.deref().hash(state)}")] := by decide

/-- obligation: the memo is not even MENTIONED elsewhere — no occurrence of the identifier `hashed` and no
    `Key { … hash … }` / `Self { … hash … }` pattern outside `get_hash`, `clone`, the struct definition and the three
    constructions (a destructuring `let Key { hash: h, hashed: f, .. } = self` would read the memo without any
    `.hash.load(` text); and `clone` is one struct literal without a single statement, whose loads of the memo —
    counted with ANY receiver, not only `self` — are the flag, then the value -/
theorem src_memo_unmentioned :
    Generated.key_memo_mentions_elsewhere = []
    ∧ Generated.key_clone_memo_calls_any_receiver = ["hashed.load", "hash.load"]
    ∧ Generated.key_clone_is_one_struct_literal = true := by decide

/-- `get_hash_stable` for the orderings found in the source -/
theorem get_hash_stable_src (H : List Write → Nat) (k : Key) (n : Nat) (sched : List Nat) (t v : Nat) (o : Ords)
    (ho : ordsOfSource Generated.key_get_hash_calls Generated.key_get_hash_orderings = some o)
    (hdone : (run o (generateKeyHash H k) (freshStatic n) sched).pc t = .done v) :
    v = generateKeyHash H k := by
  rw [src_get_hash_shape.1] at ho
  cases ho
  exact get_hash_stable H k n sched t v hdone

/-- `clone_coherent` for the load order and orderings found in the source -/
theorem clone_coherent_src (H : List Write → Nat) (k : Key) (roles : Nat → Role) (sched : List Nat) (t : Nat)
    (f : Bool) (v : Nat) (o : Ords)
    (ho : ordsOfSources Generated.key_get_hash_calls Generated.key_get_hash_orderings
      Generated.key_clone_calls Generated.key_clone_orderings = some o)
    (hdone : (run o (generateKeyHash H k) (freshOf false 0 roles) sched).pc t = .cloned f v) :
    f = true → v = generateKeyHash H k := by
  rw [src_memo_shape] at ho
  cases ho
  exact clone_coherent H k false 0 (by simp) roles sched t f v hdone

/-! ## non-vacuity, and the defect the repair removes -/

/-- bytes of "n", "a", "b", "1", "2", "3" -/
private def n : Str := [110]
private def la1 : Label := ⟨[97], [49]⟩
private def la2 : Label := ⟨[97], [50]⟩
private def lb3 : Label := ⟨[98], [51]⟩

/-- two labels with the same name, values swapped: equal, `Equal`, same hasher calls (repaired code) -/
example : Key.eq ⟨n, [la1, la2]⟩ ⟨n, [la2, la1]⟩ = true
    ∧ Key.cmp ⟨n, [la1, la2]⟩ ⟨n, [la2, la1]⟩ = .eq
    ∧ hashStream ⟨n, [la1, la2]⟩ = hashStream ⟨n, [la2, la1]⟩ := by decide

/-- **cmp incoherent before the fix**: the same two keys are `==` but the unrepaired `Ord` says `Less` -/
example : Key.eq ⟨n, [la1, la2]⟩ ⟨n, [la2, la1]⟩ = true ∧ Key.cmpOld ⟨n, [la1, la2]⟩ ⟨n, [la2, la1]⟩ = .lt := by decide

/-- three labels, a repeated name, values swapped: *not* equal, and `cmp`, `hash` agree with that
    (the ≥ 3 arms sort stably by name, so the given order of same-named labels is part of the identity) -/
example : Key.eq ⟨n, [la1, la2, lb3]⟩ ⟨n, [la2, la1, lb3]⟩ = false
    ∧ Key.cmp ⟨n, [la1, la2, lb3]⟩ ⟨n, [la2, la1, lb3]⟩ = .lt
    ∧ hashStream ⟨n, [la1, la2, lb3]⟩ ≠ hashStream ⟨n, [la2, la1, lb3]⟩ := by decide

/-- distinct names in any order: equal -/
example : Key.eq ⟨n, [lb3, la1, ⟨[], []⟩]⟩ ⟨n, [⟨[], []⟩, lb3, la1]⟩ = true
    ∧ Key.cmp ⟨n, [lb3, la1, ⟨[], []⟩]⟩ ⟨n, [⟨[], []⟩, lb3, la1]⟩ = .eq := by decide

/-- the exact hasher calls for `n{a=1}` -/
example : hashStream ⟨n, [la1]⟩ = [.bytes [110], .u8 255, .usize 1, .bytes [97], .u8 255, .bytes [49], .u8 255] := by decide

/-- an interleaving in which both threads miss the memo and both store -/
example : (run codeOrds 7 (freshStatic 2) [0, 1, 0, 1, 0, 1]).pc 1 = .done 7
    ∧ (run codeOrds 7 (freshStatic 2) [0, 1, 0, 1, 0, 1]).pc 0 = .done 7 := by decide

/-- an interleaving in which the second thread hits the memo -/
example : (run codeOrds 7 (freshStatic 2) [0, 0, 0, 1, 1]).pc 1 = .done 7 := by decide

/-- the orderings matter: with `hashed.store(true, Relaxed)` the second thread may return the constructor's 0 -/
example : (run { codeOrds with flagStoreRelease := false } 7 (freshStatic 2) [0, 0, 0, 1, 1]).pc 1 = .done 0 := by decide

/-- … and likewise with `hashed.load(Relaxed)` -/
example : (run { codeOrds with flagLoadAcquire := false } 7 (freshStatic 2) [0, 0, 0, 1, 1]).pc 1 = .done 0 := by decide

/-- `clone()` racing with the first `get_hash()` (thread 0 clones, thread 1 hashes): the clone's two loads fall
    on either side of the hasher's two stores — the clone copies `hashed = false` and will rehash -/
example : (run codeOrds 7 (freshOf false 0 (rolesOf [.cloner, .hasher])) [0, 0, 0, 1, 1, 1, 0]).pc 0 = .cloned false 0 := by decide

/-- … the clone starts after the hasher has finished: it copies the memo, `(true, 7)` -/
example : (run codeOrds 7 (freshOf false 0 (rolesOf [.cloner, .hasher])) [1, 1, 1, 0, 0, 0, 0]).pc 0 = .cloned true 7 := by decide

/-- **the order of the two loads in `clone()` matters**: with `hash` loaded before `hashed`, the same race gives a
    clone with `hashed = true` and the constructor's `hash = 0` … -/
example : (run { codeOrds with cloneFlagFirst := false } 7 (freshOf false 0 (rolesOf [.cloner, .hasher]))
    [0, 0, 0, 1, 1, 1, 0]).pc 0 = .cloned true 0 := by decide

/-- … and every later `get_hash()` on that clone returns 0 instead of 7 -/
example : (run codeOrds 7 (freshOf true 0 (rolesOf [.hasher])) [0, 0]).pc 0 = .done 0 := by decide

/-- the ordering of the flag load in `clone()` matters as well: relaxed, it may pair `true` with a stale value -/
example : (run { codeOrds with cloneFlagAcquire := false } 7 (freshOf false 0 (rolesOf [.cloner, .hasher]))
    [1, 1, 1, 0, 0, 0, 0]).pc 0 = .cloned true 0 := by decide

/-- the operators on the repaired witness (`==` keys: not `!=`, `<=` and `>=` both hold, `max` is the second, `min` the
    first argument) and on a strictly ordered pair -/
example : Key.ne ⟨n, [la1, la2]⟩ ⟨n, [la2, la1]⟩ = false ∧ Key.le ⟨n, [la1, la2]⟩ ⟨n, [la2, la1]⟩ = true
    ∧ Key.ge ⟨n, [la1, la2]⟩ ⟨n, [la2, la1]⟩ = true ∧ Key.lt ⟨n, [la1, la2]⟩ ⟨n, [la2, la1]⟩ = false
    ∧ Key.max ⟨n, [la1, la2]⟩ ⟨n, [la2, la1]⟩ = ⟨n, [la2, la1]⟩ ∧ Key.min ⟨n, [la1, la2]⟩ ⟨n, [la2, la1]⟩ = ⟨n, [la1, la2]⟩
    ∧ Key.lt ⟨n, [la1]⟩ ⟨n, [la2]⟩ = true ∧ Key.max ⟨n, [la2]⟩ ⟨n, [la1]⟩ = ⟨n, [la2]⟩
    ∧ Key.clamp ⟨n, [lb3]⟩ ⟨n, [la1]⟩ ⟨n, [la2]⟩ = ⟨n, [la2]⟩ := by decide

/-- construction paths: a static key extended by one label is eagerly hashed with the hash of the three labels; extended
    by nothing it is a clone (still unhashed); after a `get_hash()` its clone carries the memo -/
example : ((Path.withExtra (.fromStatic n [la1, la2]) [lb3]).build (fun ws => ws.length)).hashed = true
    ∧ ((Path.withExtra (.fromStatic n [la1, la2]) [lb3]).build (fun ws => ws.length)).hash = 15
    ∧ ((Path.withExtra (.fromStatic n [la1, la2]) []).build (fun ws => ws.length)) = ⟨⟨n, [la1, la2]⟩, false, 0⟩
    ∧ ((Path.clone (.hashed (.fromStatic n [la1]))).build (fun ws => ws.length)) = ⟨⟨n, [la1]⟩, true, 7⟩
    ∧ (Path.reparts (.withExtra (.fromParts n [la1]) [la2])).content = ⟨n, [la1, la2]⟩ := by decide

/-- same key, different kinds: never `==`, never `Equal`; same kind: as the keys -/
example : CompositeKey.eq ⟨.counter, ⟨n, [la1, la2]⟩⟩ ⟨.gauge, ⟨n, [la1, la2]⟩⟩ = false
    ∧ CompositeKey.cmp ⟨.counter, ⟨n, [la1, la2]⟩⟩ ⟨.gauge, ⟨n, [la1, la2]⟩⟩ = .lt
    ∧ CompositeKey.eq ⟨.gauge, ⟨n, [la1, la2]⟩⟩ ⟨.gauge, ⟨n, [la2, la1]⟩⟩ = true
    ∧ CompositeKey.cmp ⟨.histogram, ⟨n, []⟩⟩ ⟨.counter, ⟨n, [la1]⟩⟩ = .gt := by decide

end MetricsVerif.C03
