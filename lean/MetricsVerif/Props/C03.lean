/-
C03 — Key equality, ordering and hashing agree and ignore how a key was built.

Model: `Model/Key.lean` — `Key.eq`, `Key.cmp`, `hashStream` follow `impl PartialEq / Ord / Hash for Key`
(metrics/src/key.rs, with the fix-C03 repair of `Ord`) arm by arm; `step`/`run` is `Key::get_hash` at the
granularity of one atomic operation, together with `Clone for Key::clone` (two thread-local `Cow` clones, then the
two loads of the memo) so that `clone()` racing with first `get_hash()` calls is inside the model
(`clone_coherent`, `clone_get_hash_stable`); `CompositeKey.eq/.cmp` follow the derives of
`metrics_util::CompositeKey`.  All theorems are for ALL keys (any strings, any number of labels, repeated
names, repeated labels), all permutations, all schedules and any number of threads.

Construction independence is by construction in the model (it sees content only) and is carried by the
correspondence run, which builds every key through every public path and compares each with this model.

The statements are about the repaired code.  Before the repair `eq_iff_cmp_eq` is false: see the `example`
`cmp incoherent before the fix` at the end (two labels with the same name, values swapped).
-/
import MetricsVerif.Proofs.Key
import MetricsVerif.Generated.SourceFacts

namespace MetricsVerif.C03
open MetricsVerif.Key

/-! ## `==` is equality of canonical forms, hence an equivalence -/

/-- `a == b` exactly when name, label count and the labels in canonical order (0/1 labels as given, 2 labels
    ordered by the whole label, ≥ 3 labels stably sorted by name) coincide. -/
theorem eq_iff_canon (a b : Key) : Key.eq a b = true ↔ canon a = canon b := by
  unfold Key.eq canon
  by_cases hn : a.name = b.name
  · by_cases hl : a.labels.length = b.labels.length
    · simp [hn, hl, eqArm_iff a.labels b.labels hl]
    · simp [hn, hl]
  · simp [hn]

/-- `==` is reflexive -/
theorem eq_refl (a : Key) : Key.eq a a = true := (eq_iff_canon a a).2 rfl

/-- `==` is symmetric -/
theorem eq_symm (a b : Key) : Key.eq a b = Key.eq b a := by
  rw [Bool.eq_iff_iff, eq_iff_canon, eq_iff_canon]; exact eq_comm

/-- `==` is transitive -/
theorem eq_trans (a b c : Key) (h1 : Key.eq a b = true) (h2 : Key.eq b c = true) : Key.eq a c = true := by
  rw [eq_iff_canon] at *; exact h1.trans h2

/-! ## `cmp` is the lexicographic comparison of the same canonical forms, hence a total order up to `==` -/

/-- `a.cmp(b)` compares `(name, label count, labels in canonical order)` lexicographically -/
theorem cmp_is_compare (a b : Key) : Key.cmp a b = cmpCanon (canon a) (canon b) := by
  unfold Key.cmp cmpCanon canon
  by_cases hl : a.labels.length = b.labels.length
  · rw [cmpArm_eq a.labels b.labels hl]
  · have : cmpNat a.labels.length b.labels.length ≠ .eq := fun e => hl ((goodNat.eq_iff _ _).1 e)
    revert this
    generalize cmpStr a.name b.name = x
    generalize cmpNat a.labels.length b.labels.length = y
    cases x <;> cases y <;> simp [Ordering.then]

/-- **the coherence law**: `a == b` exactly when `a.cmp(b)` is `Equal` -/
theorem eq_iff_cmp_eq (a b : Key) : Key.eq a b = true ↔ Key.cmp a b = .eq := by
  rw [eq_iff_canon, cmp_is_compare, goodCanon.eq_iff]

/-- `cmp` is total and antisymmetric: `b.cmp(a)` is the reverse of `a.cmp(b)`
    (so exactly one of `<`, `Equal`, `>` holds, and `a < b` iff `b > a`) -/
theorem cmp_swap (a b : Key) : Key.cmp b a = (Key.cmp a b).swap := by
  rw [cmp_is_compare, cmp_is_compare]; exact goodCanon.swap _ _

/-- `≤` is transitive -/
theorem cmp_le_trans (a b c : Key) (h1 : Key.cmp a b ≠ .gt) (h2 : Key.cmp b c ≠ .gt) : Key.cmp a c ≠ .gt := by
  rw [cmp_is_compare] at *; exact goodCanon.le_trans h1 h2

/-- `<` is transitive -/
theorem cmp_lt_trans (a b c : Key) (h1 : Key.cmp a b = .lt) (h2 : Key.cmp b c = .lt) : Key.cmp a c = .lt := by
  rw [cmp_is_compare] at *; exact goodCanon.lt_trans _ _ _ h1 h2

/-- antisymmetry in the usual form: `a ≤ b` and `b ≤ a` only for equal keys -/
theorem cmp_antisymm (a b : Key) (h1 : Key.cmp a b ≠ .gt) (h2 : Key.cmp b a ≠ .gt) : Key.eq a b = true := by
  rw [eq_iff_cmp_eq]
  rw [cmp_swap a b] at h2
  cases e : Key.cmp a b <;> simp_all [Ordering.swap]

/-- equal keys are interchangeable in comparisons -/
theorem cmp_respects_eq (a a' b b' : Key) (ha : Key.eq a a' = true) (hb : Key.eq b b' = true) :
    Key.cmp a b = Key.cmp a' b' := by
  rw [eq_iff_canon] at ha hb
  rw [cmp_is_compare, cmp_is_compare, ha, hb]

/-! ## equal keys hash alike -/

/-- `a == b` implies the `Hash` impl makes the identical sequence of `Hasher` calls -/
theorem eq_hash (a b : Key) (h : Key.eq a b = true) : hashStream a = hashStream b := by
  rw [eq_iff_canon] at h
  simp only [canon, Prod.mk.injEq] at h
  unfold hashStream
  rw [h.1, h.2.1, h.2.2]

/-- … hence, for whatever function of the written data the hasher computes, the same std hash, the same
    `write` calls on `KeyHasher`, and the same `get_hash()` value -/
theorem eq_get_hash (H : List Write → Nat) (a b : Key) (h : Key.eq a b = true) :
    generateKeyHash H a = generateKeyHash H b ∧ keyHasherWrites a = keyHasherWrites b := by
  unfold generateKeyHash keyHasherWrites
  rw [eq_hash a b h]; exact ⟨rfl, rfl⟩

/-! ## label order is irrelevant when label names are pairwise distinct -/

theorem hashOrder_eq_of_perm {l₁ l₂ : List Label} (hp : l₁.Perm l₂) (hd : (l₁.map (·.key)).Nodup) :
    hashOrder l₁ = hashOrder l₂ := by
  have hl := hp.length_eq
  match l₁, l₂, hl, hp, hd with
  | [], [], _, _, _ => rfl
  | [x], [y], _, hp, _ => have := List.singleton_perm_singleton.1 hp; subst this; rfl
  | [x0, x1], [y0, y1], _, hp, hd =>
    simp only [hashOrder]
    have m0 : x0 ∈ [y0, y1] := hp.subset (by simp)
    have m1 : x1 ∈ [y0, y1] := hp.subset (by simp)
    have hne : x0 ≠ x1 := by intro e; subst e; simp at hd
    simp only [List.mem_cons, List.not_mem_nil, or_false] at m0 m1
    rcases m0 with e0 | e0 <;> rcases m1 with e1 | e1
    · exact absurd (e0.trans e1.symm) hne
    · rw [e0, e1]
    · rw [e0, e1]; exact order2_comm _ _
    · exact absurd (e0.trans e1.symm) hne
  | x0 :: x1 :: x2 :: xs, y0 :: y1 :: y2 :: ys, _, hp, hd =>
    simp only [hashOrder]; exact sortByKey_eq_of_perm hp hd

/-- two keys with the same name whose label lists are permutations of each other, label names pairwise
    distinct: `==`, `cmp` is `Equal`, identical `Hasher` call sequence -/
theorem perm_invariant (n : Str) (l₁ l₂ : List Label) (hp : l₁.Perm l₂) (hd : (l₁.map (·.key)).Nodup) :
    Key.eq ⟨n, l₁⟩ ⟨n, l₂⟩ = true ∧ Key.cmp ⟨n, l₁⟩ ⟨n, l₂⟩ = .eq ∧ hashStream ⟨n, l₁⟩ = hashStream ⟨n, l₂⟩ := by
  have he : Key.eq ⟨n, l₁⟩ ⟨n, l₂⟩ = true := by
    rw [eq_iff_canon]; simp only [canon]; rw [hp.length_eq, hashOrder_eq_of_perm hp hd]
  exact ⟨he, (eq_iff_cmp_eq _ _).1 he, eq_hash _ _ he⟩

/-! ## `get_hash()`: one value for the whole life of a key, on every thread, under every interleaving -/

/-- a lazily hashed key (`from_static_parts`, `from_static_labels`, the literal macros), any number `n` of
    threads calling `get_hash()` for the first time, any interleaving of their atomic operations: every call
    that has returned returned `generate_key_hash(name, labels)`. -/
theorem get_hash_stable (H : List Write → Nat) (k : Key) (n : Nat) (sched : List Nat) (t v : Nat)
    (hdone : (run codeOrds (generateKeyHash H k) (freshStatic n) sched).pc t = .done v) :
    v = generateKeyHash H k :=
  (Inv.run sched (inv_freshStatic _ n)).vals t v (Or.inr (Or.inr hdone))

/-- the same for an eagerly hashed key (`from_name`, `from_parts`, `with_extra_labels`) -/
theorem get_hash_stable_built (H : List Write → Nat) (k : Key) (n : Nat) (sched : List Nat) (t v : Nat)
    (hdone : (run codeOrds (generateKeyHash H k) (freshBuilt (generateKeyHash H k) n) sched).pc t = .done v) :
    v = generateKeyHash H k :=
  (Inv.run sched (inv_freshBuilt _ n)).vals t v (Or.inr (Or.inr hdone))

/-- the memo is never wrong: at every moment, once `hashed` is up, `hash` holds the true value — so every
    later call (a later call is one more thread id) and every `clone()` (which loads `hashed` then `hash`)
    sees it too -/
theorem memo_correct (H : List Write → Nat) (k : Key) (n : Nat) (sched : List Nat) :
    let s := run codeOrds (generateKeyHash H k) (freshStatic n) sched
    s.hashed = true → s.hash = generateKeyHash H k := by
  intro s hh
  have inv : Inv (generateKeyHash H k) s := Inv.run sched (inv_freshStatic _ n)
  rcases inv.hashOk with e | ⟨e, _⟩
  · exact e
  · rw [hh] at e; cases e

theorem step_idle_iff (o : Ords) (h : Nat) (s : Sys) (t u : Nat) : (step o h s t).pc u = .idle ↔ s.pc u = .idle := by
  by_cases hu : u = t
  · subst hu; exact (step_rank o h s u).2.1
  · rw [step_pc_other o h s t u hu]

theorem run_idle_iff (o : Ords) (h : Nat) (sched : List Nat) :
    ∀ (s : Sys) (u : Nat), (run o h s sched).pc u = .idle ↔ s.pc u = .idle := by
  induction sched with
  | nil => intro s u; exact Iff.rfl
  | cons t ts ih => intro s u; exact (ih (step o h s t) u).trans (step_idle_iff o h s t u)

theorem step_isClone (o : Ords) (h : Nat) (s : Sys) (t u : Nat) :
    ((step o h s t).pc u).isClone = (s.pc u).isClone := by
  by_cases hu : u = t
  · subst hu; exact (step_rank o h s u).2.2
  · rw [step_pc_other o h s t u hu]

/-- a thread that is calling `get_hash()` never finds itself inside `clone()` and vice versa -/
theorem run_isClone (o : Ords) (h : Nat) (sched : List Nat) :
    ∀ (s : Sys) (u : Nat), ((run o h s sched).pc u).isClone = (s.pc u).isClone := by
  induction sched with
  | nil => intro s u; rfl
  | cons t ts ih => intro s u; exact (ih (step o h s t) u).trans (step_isClone o h s t u)

/-- after `k` further steps of its own a thread's remaining work has shrunk by `k` -/
theorem run_own_rank (o : Ords) (h : Nat) (t : Nat) :
    ∀ (k : Nat) (s : Sys), ((run o h s (List.replicate k t)).pc t).rank ≤ (s.pc t).rank - k := by
  intro k
  induction k with
  | zero => intro s; simp [run]
  | succ k ih =>
    intro s
    have r1 := (step_rank o h s t).1
    have r2 := ih (step o h s t)
    simp only [List.replicate_succ, run, List.foldl_cons] at r2 ⊢
    omega

/-- no call of `get_hash()` waits for another thread — whatever the other callers of `get_hash()` and `clone()`
    have done so far, and whatever the key's memo was constructed with (consistently): after at most three
    further steps of its own the caller has returned, and it returned the true hash -/
theorem get_hash_returns_mixed (H : List Write → Nat) (k : Key) (f0 : Bool) (v0 : Nat)
    (hc : f0 = true → v0 = generateKeyHash H k) (roles : Nat → Role) (sched : List Nat) (t : Nat)
    (ht : roles t = .hasher) :
    (run codeOrds (generateKeyHash H k) (freshOf f0 v0 roles) (sched ++ [t, t, t])).pc t = .done (generateKeyHash H k) := by
  generalize hh : generateKeyHash H k = h at hc ⊢
  have hrun : run codeOrds h (freshOf f0 v0 roles) (sched ++ [t, t, t])
      = run codeOrds h (run codeOrds h (freshOf f0 v0 roles) sched) (List.replicate 3 t) := by
    simp [run, List.foldl_append, List.replicate]
  have hidle : (run codeOrds h (freshOf f0 v0 roles) (sched ++ [t, t, t])).pc t ≠ .idle := by
    rw [Ne, run_idle_iff]; simp [freshOf, ht, Role.start]
  have hnc : ((run codeOrds h (freshOf f0 v0 roles) (sched ++ [t, t, t])).pc t).isClone = false := by
    rw [run_isClone]; simp [freshOf, ht, Role.start, PC.isClone]
  have hnc0 : ((run codeOrds h (freshOf f0 v0 roles) sched).pc t).isClone = false := by
    rw [run_isClone]; simp [freshOf, ht, Role.start, PC.isClone]
  have hrank : ((run codeOrds h (freshOf f0 v0 roles) (sched ++ [t, t, t])).pc t).rank = 0 := by
    rw [hrun]
    have r := run_own_rank codeOrds h t 3 (run codeOrds h (freshOf f0 v0 roles) sched)
    have : ((run codeOrds h (freshOf f0 v0 roles) sched).pc t).rank ≤ 3 := by
      revert hnc0
      cases (run codeOrds h (freshOf f0 v0 roles) sched).pc t <;> simp [PC.rank, PC.isClone]
    omega
  have inv := Inv.run (sched ++ [t, t, t]) (inv_freshOf h f0 v0 roles hc)
  revert hidle hnc hrank
  cases hp : (run codeOrds h (freshOf f0 v0 roles) (sched ++ [t, t, t])).pc t <;>
    simp [PC.rank, PC.isClone]
  exact inv.vals t _ (Or.inr (Or.inr hp))

/-- no call waits for another thread: whatever happened before, a calling thread has returned after at most
    three further steps of its own — and (with `get_hash_stable`) what it returned is the true hash -/
theorem get_hash_returns (H : List Write → Nat) (k : Key) (n : Nat) (sched : List Nat) (t : Nat) (ht : t < n) :
    (run codeOrds (generateKeyHash H k) (freshStatic n) (sched ++ [t, t, t])).pc t = .done (generateKeyHash H k) := by
  have e : freshStatic n = freshOf false 0 (fun t => if t < n then .hasher else .none) := by
    simp only [freshStatic, freshOf, Sys.mk.injEq, true_and]
    refine ⟨?_, trivial⟩
    funext u; by_cases hu : u < n <;> simp [hu, Role.start]
  rw [e]
  exact get_hash_returns_mixed H k false 0 (by simp) _ sched t (by simp [ht])

/-! ## `clone()` racing with first `get_hash()` calls, and `get_hash()` on the clone -/

/-- `get_hash_stable` with `clone()` callers in the mix, for a key whose memo was constructed consistently
    (`from_static_*`: `false, 0`; `builder`: `true, hash`; a clone: see `clone_coherent`): any number of threads,
    each calling `get_hash()` or `clone()` on the shared key, any interleaving of their atomic operations —
    every `get_hash()` that has returned returned the true hash -/
theorem get_hash_stable_mixed (H : List Write → Nat) (k : Key) (f0 : Bool) (v0 : Nat)
    (hc : f0 = true → v0 = generateKeyHash H k) (roles : Nat → Role) (sched : List Nat) (t v : Nat)
    (hdone : (run codeOrds (generateKeyHash H k) (freshOf f0 v0 roles) sched).pc t = .done v) :
    v = generateKeyHash H k :=
  (Inv.run sched (inv_freshOf _ f0 v0 roles hc)).vals t v (Or.inr (Or.inr hdone))

/-- **a clone never carries a wrong memo**: in the same setting, a `clone()` that has returned a key with
    `hashed = true` copied the true hash into it — also when it raced with the first `get_hash()` calls.
    (With `hashed = false` the copied value is never looked at: the clone rehashes.) -/
theorem clone_coherent (H : List Write → Nat) (k : Key) (f0 : Bool) (v0 : Nat)
    (hc : f0 = true → v0 = generateKeyHash H k) (roles : Nat → Role) (sched : List Nat) (t : Nat) (f : Bool) (v : Nat)
    (hdone : (run codeOrds (generateKeyHash H k) (freshOf f0 v0 roles) sched).pc t = .cloned f v) :
    f = true → v = generateKeyHash H k := by
  intro hf; subst hf
  exact (Inv.run sched (inv_freshOf _ f0 v0 roles hc)).cvals t v hdone

/-- **`clone` is a neutral construction path for `get_hash()`**: take any clone made under any interleaving
    with `get_hash()` / `clone()` callers of the original; share the clone among any number of threads calling
    `get_hash()` or `clone()` on it, under any interleaving: every `get_hash()` on the clone returns the true
    hash of the (equal) content, and clones of the clone are coherent again -/
theorem clone_get_hash_stable (H : List Write → Nat) (k : Key) (f0 : Bool) (v0 : Nat)
    (hc : f0 = true → v0 = generateKeyHash H k) (roles : Nat → Role) (sched : List Nat) (t : Nat) (f : Bool) (v : Nat)
    (hdone : (run codeOrds (generateKeyHash H k) (freshOf f0 v0 roles) sched).pc t = .cloned f v)
    (roles' : Nat → Role) (sched' : List Nat) (u : Nat) :
    (∀ w, (run codeOrds (generateKeyHash H k) (freshOf f v roles') sched').pc u = .done w → w = generateKeyHash H k)
    ∧ (∀ f' w, (run codeOrds (generateKeyHash H k) (freshOf f v roles') sched').pc u = .cloned f' w →
        f' = true → w = generateKeyHash H k) :=
  have hc' := clone_coherent H k f0 v0 hc roles sched t f v hdone
  ⟨fun w hw => get_hash_stable_mixed H k f v hc' roles' sched' u w hw,
   fun f' w hw => clone_coherent H k f v hc' roles' sched' u f' w hw⟩

/-- `clone()` does not wait for anybody either: four steps of its own (two of them thread-local) -/
theorem clone_returns (H : List Write → Nat) (k : Key) (f0 : Bool) (v0 : Nat) (roles : Nat → Role)
    (sched : List Nat) (t : Nat) (ht : roles t = .cloner) :
    ∃ f v, (run codeOrds (generateKeyHash H k) (freshOf f0 v0 roles) (sched ++ [t, t, t, t])).pc t = .cloned f v := by
  generalize generateKeyHash H k = h
  have hrun : run codeOrds h (freshOf f0 v0 roles) (sched ++ [t, t, t, t])
      = run codeOrds h (run codeOrds h (freshOf f0 v0 roles) sched) (List.replicate 4 t) := by
    simp [run, List.foldl_append, List.replicate]
  have hc : ((run codeOrds h (freshOf f0 v0 roles) (sched ++ [t, t, t, t])).pc t).isClone = true := by
    rw [run_isClone]; simp [freshOf, ht, Role.start, PC.isClone]
  have hrank : ((run codeOrds h (freshOf f0 v0 roles) (sched ++ [t, t, t, t])).pc t).rank = 0 := by
    rw [hrun]
    have r := run_own_rank codeOrds h t 4 (run codeOrds h (freshOf f0 v0 roles) sched)
    have : ((run codeOrds h (freshOf f0 v0 roles) sched).pc t).rank ≤ 4 := by
      cases (run codeOrds h (freshOf f0 v0 roles) sched).pc t <;> simp [PC.rank]
    omega
  revert hc hrank
  cases hp : (run codeOrds h (freshOf f0 v0 roles) (sched ++ [t, t, t, t])).pc t <;> simp [PC.rank, PC.isClone]

/-! ## `CompositeKey` (metrics-util) inherits the coherence law -/

/-- `CompositeKey(kind, key)`: `a == b` exactly when `a.cmp(b)` is `Equal` — in particular two composite keys of
    different kinds are never `==`, whatever their keys -/
theorem ckey_eq_iff_cmp_eq (a b : CompositeKey) : CompositeKey.eq a b = true ↔ CompositeKey.cmp a b = .eq := by
  unfold CompositeKey.eq CompositeKey.cmp
  rw [Ordering.then_eq_eq, goodNat.eq_iff, Bool.and_eq_true, eq_iff_cmp_eq, beq_iff_eq]
  constructor
  · intro ⟨h1, h2⟩; exact ⟨by rw [h1], h2⟩
  · intro ⟨h1, h2⟩
    refine ⟨?_, h2⟩
    revert h1; cases a.kind <;> cases b.kind <;> simp [Kind.discr]

/-- `==` of composite keys is equality of kind and of the keys' canonical forms -/
theorem ckey_eq_iff (a b : CompositeKey) : CompositeKey.eq a b = true ↔ (a.kind = b.kind ∧ canon a.key = canon b.key) := by
  unfold CompositeKey.eq
  rw [Bool.and_eq_true, beq_iff_eq, eq_iff_canon]

/-! ## tie to the source text (facts no run on x86 can show; regenerated from the repository on every check) -/

/-- obligation: `Key::get_hash` in metrics/src/key.rs makes exactly the four atomic calls of the step machine,
    in its order — load flag, load value | store value, **then** store flag — with a release store and an
    acquire load of the flag, and computes the stored value from the key's own name and labels -/
theorem src_get_hash_shape :
    ordsOfSource Generated.key_get_hash_calls Generated.key_get_hash_orderings = some codeOrds
    ∧ Generated.key_get_hash_computes_from_name_and_labels = true := by decide

/-- obligation: `Clone for Key` reads the flag (acquire) before the value, so a clone that copies
    `hashed == true` copies the hash that `memo_correct` says is right; and the body of `clone` contains nothing
    (closure, nested fn, macro) that could make the order of evaluation differ from the order of the text -/
theorem src_clone_shape :
    Generated.key_clone_calls = ["hashed.load", "hash.load"]
    ∧ (Generated.key_clone_orderings.head?.map atLeastAcquire) = some true
    ∧ Generated.key_clone_order_is_textual = true := by decide

/-- obligation: the facts of `get_hash` and `clone` together instantiate the step machine with `codeOrds`, i.e.
    the machine the theorems above are about is the one in the source -/
theorem src_memo_shape :
    ordsOfSources Generated.key_get_hash_calls Generated.key_get_hash_orderings
      Generated.key_clone_calls Generated.key_clone_orderings = some codeOrds := by decide

/-- obligation: nothing else in metrics/src/key.rs touches the memo.  Outside `get_hash` and `Clone::clone` there is
    no access to `hashed` / `hash` (so `==`, `cmp`, `Hash`, `Display`, `into_parts` … cannot depend on whether a key
    has been hashed yet), and the memo is constructed in exactly three places: twice as `(false, 0)` (the `const`
    constructors, `freshOf false 0`) and once as `(true, generate_key_hash(&name, &labels))` (`builder`,
    `freshOf true h`) -/
theorem src_memo_private :
    Generated.key_memo_accesses_elsewhere = []
    ∧ Generated.key_memo_constructions = [("false", "0"), ("false", "0"), ("true", "hash")]
    ∧ Generated.key_builder_hash_from_name_and_labels = true := by decide

/-- `get_hash_stable` for the orderings found in the source -/
theorem get_hash_stable_src (H : List Write → Nat) (k : Key) (n : Nat) (sched : List Nat) (t v : Nat) (o : Ords)
    (ho : ordsOfSource Generated.key_get_hash_calls Generated.key_get_hash_orderings = some o)
    (hdone : (run o (generateKeyHash H k) (freshStatic n) sched).pc t = .done v) :
    v = generateKeyHash H k := by
  rw [src_get_hash_shape.1] at ho
  cases ho
  exact get_hash_stable H k n sched t v hdone

/-- `clone_coherent` for the load order and orderings found in the source -/
theorem clone_coherent_src (H : List Write → Nat) (k : Key) (roles : Nat → Role) (sched : List Nat) (t : Nat)
    (f : Bool) (v : Nat) (o : Ords)
    (ho : ordsOfSources Generated.key_get_hash_calls Generated.key_get_hash_orderings
      Generated.key_clone_calls Generated.key_clone_orderings = some o)
    (hdone : (run o (generateKeyHash H k) (freshOf false 0 roles) sched).pc t = .cloned f v) :
    f = true → v = generateKeyHash H k := by
  rw [src_memo_shape] at ho
  cases ho
  exact clone_coherent H k false 0 (by simp) roles sched t f v hdone

/-! ## non-vacuity, and the defect the repair removes -/

/-- bytes of "n", "a", "b", "1", "2", "3" -/
private def n : Str := [110]
private def la1 : Label := ⟨[97], [49]⟩
private def la2 : Label := ⟨[97], [50]⟩
private def lb3 : Label := ⟨[98], [51]⟩

/-- two labels with the same name, values swapped: equal, `Equal`, same hasher calls (repaired code) -/
example : Key.eq ⟨n, [la1, la2]⟩ ⟨n, [la2, la1]⟩ = true
    ∧ Key.cmp ⟨n, [la1, la2]⟩ ⟨n, [la2, la1]⟩ = .eq
    ∧ hashStream ⟨n, [la1, la2]⟩ = hashStream ⟨n, [la2, la1]⟩ := by decide

/-- **cmp incoherent before the fix**: the same two keys are `==` but the unrepaired `Ord` says `Less` -/
example : Key.eq ⟨n, [la1, la2]⟩ ⟨n, [la2, la1]⟩ = true ∧ Key.cmpOld ⟨n, [la1, la2]⟩ ⟨n, [la2, la1]⟩ = .lt := by decide

/-- three labels, a repeated name, values swapped: *not* equal, and `cmp`, `hash` agree with that
    (the ≥ 3 arms sort stably by name, so the given order of same-named labels is part of the identity) -/
example : Key.eq ⟨n, [la1, la2, lb3]⟩ ⟨n, [la2, la1, lb3]⟩ = false
    ∧ Key.cmp ⟨n, [la1, la2, lb3]⟩ ⟨n, [la2, la1, lb3]⟩ = .lt
    ∧ hashStream ⟨n, [la1, la2, lb3]⟩ ≠ hashStream ⟨n, [la2, la1, lb3]⟩ := by decide

/-- distinct names in any order: equal -/
example : Key.eq ⟨n, [lb3, la1, ⟨[], []⟩]⟩ ⟨n, [⟨[], []⟩, lb3, la1]⟩ = true
    ∧ Key.cmp ⟨n, [lb3, la1, ⟨[], []⟩]⟩ ⟨n, [⟨[], []⟩, lb3, la1]⟩ = .eq := by decide

/-- the exact hasher calls for `n{a=1}` -/
example : hashStream ⟨n, [la1]⟩ = [.bytes [110], .u8 255, .usize 1, .bytes [97], .u8 255, .bytes [49], .u8 255] := by decide

/-- an interleaving in which both threads miss the memo and both store -/
example : (run codeOrds 7 (freshStatic 2) [0, 1, 0, 1, 0, 1]).pc 1 = .done 7
    ∧ (run codeOrds 7 (freshStatic 2) [0, 1, 0, 1, 0, 1]).pc 0 = .done 7 := by decide

/-- an interleaving in which the second thread hits the memo -/
example : (run codeOrds 7 (freshStatic 2) [0, 0, 0, 1, 1]).pc 1 = .done 7 := by decide

/-- the orderings matter: with `hashed.store(true, Relaxed)` the second thread may return the constructor's 0 -/
example : (run { codeOrds with flagStoreRelease := false } 7 (freshStatic 2) [0, 0, 0, 1, 1]).pc 1 = .done 0 := by decide

/-- … and likewise with `hashed.load(Relaxed)` -/
example : (run { codeOrds with flagLoadAcquire := false } 7 (freshStatic 2) [0, 0, 0, 1, 1]).pc 1 = .done 0 := by decide

/-- `clone()` racing with the first `get_hash()` (thread 0 clones, thread 1 hashes): the clone's two loads fall
    on either side of the hasher's two stores — the clone copies `hashed = false` and will rehash -/
example : (run codeOrds 7 (freshOf false 0 (rolesOf [.cloner, .hasher])) [0, 0, 0, 1, 1, 1, 0]).pc 0 = .cloned false 0 := by decide

/-- … the clone starts after the hasher has finished: it copies the memo, `(true, 7)` -/
example : (run codeOrds 7 (freshOf false 0 (rolesOf [.cloner, .hasher])) [1, 1, 1, 0, 0, 0, 0]).pc 0 = .cloned true 7 := by decide

/-- **the order of the two loads in `clone()` matters**: with `hash` loaded before `hashed`, the same race gives a
    clone with `hashed = true` and the constructor's `hash = 0` … -/
example : (run { codeOrds with cloneFlagFirst := false } 7 (freshOf false 0 (rolesOf [.cloner, .hasher]))
    [0, 0, 0, 1, 1, 1, 0]).pc 0 = .cloned true 0 := by decide

/-- … and every later `get_hash()` on that clone returns 0 instead of 7 -/
example : (run codeOrds 7 (freshOf true 0 (rolesOf [.hasher])) [0, 0]).pc 0 = .done 0 := by decide

/-- the ordering of the flag load in `clone()` matters as well: relaxed, it may pair `true` with a stale value -/
example : (run { codeOrds with cloneFlagAcquire := false } 7 (freshOf false 0 (rolesOf [.cloner, .hasher]))
    [1, 1, 1, 0, 0, 0, 0]).pc 0 = .cloned true 0 := by decide

/-- same key, different kinds: never `==`, never `Equal`; same kind: as the keys -/
example : CompositeKey.eq ⟨.counter, ⟨n, [la1, la2]⟩⟩ ⟨.gauge, ⟨n, [la1, la2]⟩⟩ = false
    ∧ CompositeKey.cmp ⟨.counter, ⟨n, [la1, la2]⟩⟩ ⟨.gauge, ⟨n, [la1, la2]⟩⟩ = .lt
    ∧ CompositeKey.eq ⟨.gauge, ⟨n, [la1, la2]⟩⟩ ⟨.gauge, ⟨n, [la2, la1]⟩⟩ = true
    ∧ CompositeKey.cmp ⟨.histogram, ⟨n, []⟩⟩ ⟨.counter, ⟨n, [la1]⟩⟩ = .gt := by decide

end MetricsVerif.C03
