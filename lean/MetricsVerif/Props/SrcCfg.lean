import MetricsVerif.Generated.CfgFacts

/-!
# Conditional-compilation inventory of the anchored files (all properties)

SOURCE FACTS regenerated on every run by `tools/extract_cfg.py`. The source-fact translator reads the first textual definition of
a function and the correspondence harness runs one build configuration (dev profile, x86-64, fixed features). These obligations
pin, for every file a property is anchored in, every `cfg` / `cfg_attr` / `cfg!()` predicate (the verification guard
`metrics_verif` aside) and every function name that is defined more than once in the file — so that a second, conditionally
compiled definition of a modelled function (`#[cfg(not(debug_assertions))]`, another target, another feature), which neither the
translator nor any run would see, breaks an obligation of exactly the properties anchored there.
-/

namespace MetricsVerif.SrcCfg
open MetricsVerif.Generated.Cfg

/-- SOURCE FACT: conditional compilation and duplicate definitions in the files C01 is anchored in are exactly these -/
theorem cfg_C01 : inventory_C01 = [
  ("metrics/src/recorder/mod.rs", ["cfg(test)"], ["describe_counter x2", "describe_gauge x2", "describe_histogram x2", "register_counter x2", "register_gauge x2", "register_histogram x2"]),
  ("metrics/src/macros.rs", [], []),
  ("metrics/src/recorder/noop.rs", [], []),
  ("metrics/src/metadata.rs", ["cfg(test)"], [])] := by decide

/-- SOURCE FACT: conditional compilation and duplicate definitions in the files C02 is anchored in are exactly these -/
theorem cfg_C02 : inventory_C02 = [
  ("metrics/src/recorder/cell.rs", [], []),
  ("metrics/src/recorder/mod.rs", ["cfg(test)"], ["describe_counter x2", "describe_gauge x2", "describe_histogram x2", "register_counter x2", "register_gauge x2", "register_histogram x2"]),
  ("metrics/src/recorder/errors.rs", [], ["fmt x2"])] := by decide

/-- SOURCE FACT: conditional compilation and duplicate definitions in the files C03 is anchored in are exactly these -/
theorem cfg_C03 : inventory_C03 = [
  ("metrics/src/key.rs", ["cfg(test)"], ["from x3"]),
  ("metrics/src/label.rs", ["cfg(test)"], ["from x2", "into_labels x4"]),
  ("metrics/src/cow.rs", [], ["borrowed_from_parts x3", "borrowed_into_parts x3", "clone_from_parts x3", "drop_from_parts x3", "fmt x2", "from x6", "owned_from_parts x3", "owned_into_parts x3", "shared_into_parts x3"]),
  ("metrics/src/common.rs", ["cfg(test)"], ["into_f64 x4"]),
  ("metrics-util/src/common.rs", [], ["hashable x3"]),
  ("metrics-util/src/key.rs", ["cfg(test)"], [])] := by decide

/-- SOURCE FACT: conditional compilation and duplicate definitions in the files C04 is anchored in are exactly these -/
theorem cfg_C04 : inventory_C04 = [
  ("metrics/src/atomics.rs", ["cfg(not(target_pointer_width=\"32\"))", "cfg(target_pointer_width=\"32\")"], ["increment x2"]),
  ("metrics/src/handles.rs", [], ["absolute x3", "decrement x3", "fmt x3", "from x3", "from_arc x3", "increment x6", "noop x3", "record x3", "record_many x2", "set x3"]),
  ("metrics/src/common.rs", ["cfg(test)"], ["into_f64 x4"])] := by decide

/-- SOURCE FACT: conditional compilation and duplicate definitions in the files C05 is anchored in are exactly these -/
theorem cfg_C05 : inventory_C05 = [
  ("metrics-util/src/storage/bucket.rs", ["cfg(target_pointer_width=\"16\")", "cfg(target_pointer_width=\"32\")", "cfg(target_pointer_width=\"64\")", "cfg(test)"], ["data x2", "new x2", "push x2"]),
  ("metrics-util/src/storage/mod.rs", [], ["record x2"])] := by decide

/-- SOURCE FACT: conditional compilation and duplicate definitions in the files C06 is anchored in are exactly these -/
theorem cfg_C06 : inventory_C06 = [
  ("metrics-util/src/registry/mod.rs", ["cfg(feature=\"recency\") x3", "cfg(test)", "cfg_attr(docsrs,doc(cfg(feature=\"recency\")))"], []),
  ("metrics-util/src/registry/storage.rs", [], ["counter x2", "gauge x2", "histogram x2"]),
  ("metrics-util/src/common.rs", [], ["hashable x3"]),
  ("metrics/src/key.rs", ["cfg(test)"], ["from x3"])] := by decide

/-- SOURCE FACT: conditional compilation and duplicate definitions in the files C07 is anchored in are exactly these -/
theorem cfg_C07 : inventory_C07 = [
  ("metrics-exporter-prometheus/src/recorder.rs", [], ["render x2", "run_upkeep x2"]),
  ("metrics-exporter-prometheus/src/registry.rs", [], []),
  ("metrics-exporter-prometheus/src/distribution.rs", ["cfg(test) x2"], ["new x2"]),
  ("metrics-exporter-prometheus/src/formatting.rs", ["cfg(test)"], []),
  ("metrics-exporter-prometheus/src/exporter/builder.rs", ["cfg(any(feature=\"http-listener\",feature=\"push-gateway\")) x6", "cfg(feature=\"http-listener\") x11", "cfg(feature=\"push-gateway\") x5", "cfg(feature=\"uds-listener\") x3", "cfg(not(feature=\"http-listener\"))", "cfg(test)", "cfg_attr(docsrs,doc(cfg(any(feature=\"http-listener\",feature=\"push-gateway\")))) x2", "cfg_attr(docsrs,doc(cfg(feature=\"http-listener\"))) x2", "cfg_attr(docsrs,doc(cfg(feature=\"push-gateway\")))", "cfg_attr(docsrs,doc(cfg(feature=\"uds-listener\")))", "cfg_attr(not(any(feature=\"http-listener\",feature=\"push-gateway\")),allow(dead_code))", "cfg_attr(not(feature=\"http-listener\"),allow(unused_mut))"], []),
  ("metrics-util/src/storage/histogram.rs", ["cfg(test)"], []),
  ("metrics-util/src/storage/bucket.rs", ["cfg(target_pointer_width=\"16\")", "cfg(target_pointer_width=\"32\")", "cfg(target_pointer_width=\"64\")", "cfg(test)"], ["data x2", "new x2", "push x2"])] := by decide

/-- SOURCE FACT: conditional compilation and duplicate definitions in the files C08 is anchored in are exactly these -/
theorem cfg_C08 : inventory_C08 = [
  ("metrics-exporter-prometheus/src/formatting.rs", ["cfg(test)"], []),
  ("metrics-exporter-prometheus/src/recorder.rs", [], ["render x2", "run_upkeep x2"]),
  ("metrics-exporter-prometheus/src/common.rs", [], [])] := by decide

/-- SOURCE FACT: conditional compilation and duplicate definitions in the files C09 is anchored in are exactly these -/
theorem cfg_C09 : inventory_C09 = [
  ("metrics-exporter-dogstatsd/src/writer.rs", ["cfg(test)"], ["new x2"]),
  ("metrics-exporter-dogstatsd/src/state.rs", [], []),
  ("metrics-exporter-dogstatsd/src/builder.rs", ["cfg(test)", "cfg(unix)"], []),
  ("metrics-exporter-dogstatsd/src/forwarder/mod.rs", ["cfg(test)", "cfg(unix) x12"], [])] := by decide

/-- SOURCE FACT: conditional compilation and duplicate definitions in the files C10 is anchored in are exactly these -/
theorem cfg_C10 : inventory_C10 = [
  ("metrics-exporter-dogstatsd/src/storage.rs", ["cfg(test)"], ["flush x3", "increment x2", "new x4", "record x2"]),
  ("metrics-exporter-dogstatsd/src/state.rs", [], []),
  ("metrics-exporter-dogstatsd/src/forwarder/sync.rs", ["cfg(unix) x7"], ["new x2", "try_send x2"]),
  ("metrics-exporter-dogstatsd/src/telemetry.rs", [], []),
  ("metrics-exporter-dogstatsd/src/recorder.rs", [], [])] := by decide

/-- SOURCE FACT: conditional compilation and duplicate definitions in the files C11 is anchored in are exactly these -/
theorem cfg_C11 : inventory_C11 = [
  ("metrics-exporter-tcp/src/lib.rs", ["cfg_attr(docsrs,feature(doc_cfg),deny(rustdoc::broken_intra_doc_links))"], ["from x2", "increment x2", "new x3", "write_to_client x2"])] := by decide

/-- SOURCE FACT: conditional compilation and duplicate definitions in the files C12 is anchored in are exactly these -/
theorem cfg_C12 : inventory_C12 = [
  ("metrics-util/src/registry/recency.rs", [], ["from x3", "increment x2", "new x4"]),
  ("metrics-exporter-prometheus/src/recorder.rs", [], ["render x2", "run_upkeep x2"]),
  ("metrics-exporter-prometheus/src/exporter/builder.rs", ["cfg(any(feature=\"http-listener\",feature=\"push-gateway\")) x6", "cfg(feature=\"http-listener\") x11", "cfg(feature=\"push-gateway\") x5", "cfg(feature=\"uds-listener\") x3", "cfg(not(feature=\"http-listener\"))", "cfg(test)", "cfg_attr(docsrs,doc(cfg(any(feature=\"http-listener\",feature=\"push-gateway\")))) x2", "cfg_attr(docsrs,doc(cfg(feature=\"http-listener\"))) x2", "cfg_attr(docsrs,doc(cfg(feature=\"push-gateway\")))", "cfg_attr(docsrs,doc(cfg(feature=\"uds-listener\")))", "cfg_attr(not(any(feature=\"http-listener\",feature=\"push-gateway\")),allow(dead_code))", "cfg_attr(not(feature=\"http-listener\"),allow(unused_mut))"], []),
  ("metrics-util/src/kind.rs", ["cfg(test)"], [])] := by decide

/-- SOURCE FACT: conditional compilation and duplicate definitions in the files C13 is anchored in are exactly these -/
theorem cfg_C13 : inventory_C13 = [
  ("metrics-util/src/layers/mod.rs", ["cfg(feature=\"layer-filter\") x2", "cfg(feature=\"layer-router\") x2"], []),
  ("metrics-util/src/layers/prefix.rs", ["cfg(test)"], []),
  ("metrics-util/src/layers/filter.rs", ["cfg(test)"], []),
  ("metrics-util/src/layers/router.rs", ["cfg(test)"], ["fmt x2"]),
  ("metrics-util/src/layers/fanout.rs", ["cfg(test)"], ["fmt x2", "from x3", "increment x2"]),
  ("metrics-util/src/kind.rs", ["cfg(test)"], [])] := by decide

/-- SOURCE FACT: conditional compilation and duplicate definitions in the files C14 is anchored in are exactly these -/
theorem cfg_C14 : inventory_C14 = [
  ("metrics/src/cow.rs", [], ["borrowed_from_parts x3", "borrowed_into_parts x3", "clone_from_parts x3", "drop_from_parts x3", "fmt x2", "from x6", "owned_from_parts x3", "owned_into_parts x3", "shared_into_parts x3"]),
  ("metrics/src/common.rs", ["cfg(test)"], ["into_f64 x4"]),
  ("metrics/src/label.rs", ["cfg(test)"], ["from x2", "into_labels x4"]),
  ("metrics/src/key.rs", ["cfg(test)"], ["from x3"])] := by decide

/-- SOURCE FACT: conditional compilation and duplicate definitions in the files C15 is anchored in are exactly these -/
theorem cfg_C15 : inventory_C15 = [
  ("metrics-util/src/storage/histogram.rs", ["cfg(test)"], []),
  ("metrics-exporter-prometheus/src/distribution.rs", ["cfg(test) x2"], ["new x2"]),
  ("metrics-exporter-prometheus/src/common.rs", [], []),
  ("metrics-exporter-prometheus/src/exporter/builder.rs", ["cfg(any(feature=\"http-listener\",feature=\"push-gateway\")) x6", "cfg(feature=\"http-listener\") x11", "cfg(feature=\"push-gateway\") x5", "cfg(feature=\"uds-listener\") x3", "cfg(not(feature=\"http-listener\"))", "cfg(test)", "cfg_attr(docsrs,doc(cfg(any(feature=\"http-listener\",feature=\"push-gateway\")))) x2", "cfg_attr(docsrs,doc(cfg(feature=\"http-listener\"))) x2", "cfg_attr(docsrs,doc(cfg(feature=\"push-gateway\")))", "cfg_attr(docsrs,doc(cfg(feature=\"uds-listener\")))", "cfg_attr(not(any(feature=\"http-listener\",feature=\"push-gateway\")),allow(dead_code))", "cfg_attr(not(feature=\"http-listener\"),allow(unused_mut))"], []),
  ("metrics-util/src/storage/summary.rs", ["cfg(test)"], ["fmt x2"]),
  ("metrics-util/src/quantile.rs", ["cfg(test)"], [])] := by decide

/-- SOURCE FACT: conditional compilation and duplicate definitions in the files C16 is anchored in are exactly these -/
theorem cfg_C16 : inventory_C16 = [
  ("metrics-util/src/storage/reservoir.rs", [], ["push x2"]),
  ("metrics-exporter-dogstatsd/src/storage.rs", ["cfg(test)"], ["flush x3", "increment x2", "new x4", "record x2"]),
  ("metrics-exporter-dogstatsd/src/builder.rs", ["cfg(test)", "cfg(unix)"], [])] := by decide

/-- SOURCE FACT: conditional compilation and duplicate definitions in the files C17 is anchored in are exactly these -/
theorem cfg_C17 : inventory_C17 = [
  ("metrics-tracing-context/src/lib.rs", ["cfg_attr(docsrs,feature(doc_cfg),deny(rustdoc::broken_intra_doc_links))"], []),
  ("metrics-tracing-context/src/tracing_integration.rs", [], []),
  ("metrics-tracing-context/src/label_filter.rs", [], ["should_include_label x3"])] := by decide

/-- SOURCE FACT: conditional compilation and duplicate definitions in the files C18 is anchored in are exactly these -/
theorem cfg_C18 : inventory_C18 = [
  ("metrics-exporter-prometheus/src/exporter/http_listener.rs", ["cfg(feature=\"uds-listener\") x7"], []),
  ("metrics-exporter-prometheus/src/exporter/builder.rs", ["cfg(any(feature=\"http-listener\",feature=\"push-gateway\")) x6", "cfg(feature=\"http-listener\") x11", "cfg(feature=\"push-gateway\") x5", "cfg(feature=\"uds-listener\") x3", "cfg(not(feature=\"http-listener\"))", "cfg(test)", "cfg_attr(docsrs,doc(cfg(any(feature=\"http-listener\",feature=\"push-gateway\")))) x2", "cfg_attr(docsrs,doc(cfg(feature=\"http-listener\"))) x2", "cfg_attr(docsrs,doc(cfg(feature=\"push-gateway\")))", "cfg_attr(docsrs,doc(cfg(feature=\"uds-listener\")))", "cfg_attr(not(any(feature=\"http-listener\",feature=\"push-gateway\")),allow(dead_code))", "cfg_attr(not(feature=\"http-listener\"),allow(unused_mut))"], []),
  ("metrics-exporter-prometheus/src/exporter/mod.rs", ["cfg(any(feature=\"http-listener\",feature=\"push-gateway\")) x4", "cfg(feature=\"http-listener\") x7", "cfg(feature=\"push-gateway\") x5", "cfg(feature=\"uds-listener\")", "cfg_attr(not(any(feature=\"http-listener\",feature=\"push-gateway\")),allow(dead_code))"], [])] := by decide

/-- SOURCE FACT: conditional compilation and duplicate definitions in the files C19 is anchored in are exactly these -/
theorem cfg_C19 : inventory_C19 = [
  ("metrics-util/src/debugging.rs", [], ["new x3"]),
  ("metrics-util/src/key.rs", ["cfg(test)"], []),
  ("metrics-util/src/registry/mod.rs", ["cfg(feature=\"recency\") x3", "cfg(test)", "cfg_attr(docsrs,doc(cfg(feature=\"recency\")))"], [])] := by decide

/-- SOURCE FACT: conditional compilation and duplicate definitions in the files C20 is anchored in are exactly these -/
theorem cfg_C20 : inventory_C20 = [
  ("metrics-util/src/recoverable.rs", ["cfg(test)"], [])] := by decide

end MetricsVerif.SrcCfg
