/-
C13 — layers deliver exactly the transformed operations to exactly the right recorders.

Model: `Model/Layers.lean` (recorder trees over numbered base recorders, handle trees).  All theorems are for
ALL names (empty, non-ASCII, …), label sets, kinds, units, descriptions, pattern sets, route tables (overlapping,
duplicated, per-kind and ALL masks), fan-out widths / nesting depths and layer lists: they are proved by
induction on the strings / route lists / trees / layer lists, nothing is enumerated.

Reading of the property's words: "case-insensitively" = modulo ASCII case (`ascii_case_insensitive`);
"contains" / "prefix" = contiguous substring / prefix of the string; for two routes with the same pattern and
kind the later `add_route` wins (the property leaves this open; `router_longest_prefix` states what the code
does).

Round 2 (extension): the layer VALUES are modelled too — `PrefixLayer::new`, the `FilterLayer` builder
(`default()`, `from_patterns`, `add_pattern`, `case_insensitive`, `use_dfa`) and one layer value applied several
times with changes in between (`filter_builder_*`, `layer_reuse_*`, `prefix_*`); sequences of calls on one handle
(`fanout_all_once_seq`, `handle_stateless`); source facts pinning the trie lookup of `Router::route`, the arms of
`add_route`, the builder bodies, the field lists and loops of the `Fanout*` handles and the three pushes of
`prefix_key*` (`src_*`).
-/
import MetricsVerif.Proofs.Layers
import MetricsVerif.Generated.SourceFacts

namespace MetricsVerif.C13
open MetricsVerif.Layers

/-! ## prefix -/

/-- **prefix_exact**: the prefix layer forwards every describe / register to its inner recorder with the name
    `<prefix>.<name>` and every other field (describe-or-register, kind, labels, unit, description, metadata)
    unchanged; the handle it returns is the inner recorder's handle for that forwarded operation. -/
theorem prefix_exact (p : Str) (r : Rec) (op : Op) :
    (Rec.pfx p r).deliver op = r.deliver { op with name := p ++ ['.'] ++ op.name }
    ∧ (Rec.pfx p r).handle op = r.handle { op with name := p ++ ['.'] ++ op.name } := by
  simp [Rec.deliver, Rec.handle, prefixOp, prefixName]

/-- a prefix layer directly over base recorder `i`: that recorder receives exactly one operation, the renamed one -/
theorem prefix_exact_base (p : Str) (i : Nat) (op : Op) :
    (Rec.pfx p (.base i)).deliver op = [(i, { op with name := p ++ ['.'] ++ op.name })] := by
  simp [Rec.deliver, prefixOp, prefixName]

/-! ## filter -/

/-- ASCII case folding touches nothing but `A`…`Z` (in particular no non-ASCII letter) … -/
theorem asciiLower_other (c : Char) (h : c.toNat < 65 ∨ 90 < c.toNat) : asciiLower c = c := by
  unfold asciiLower
  split
  · omega
  · rfl

/-- … and maps `A`…`Z` to `a`…`z` -/
theorem asciiLower_upper (c : Char) (h : 65 ≤ c.toNat ∧ c.toNat ≤ 90) :
    (asciiLower c).toNat = c.toNat + 32 := by
  have key : ∀ n : Nat, n < 200 → (Char.ofNat n).toNat = n := by
    intro n hn
    have hv : n.isValidChar := by left; omega
    simp [Char.ofNat, hv, Char.ofNatAux, Char.toNat]
  unfold asciiLower
  rw [if_pos h]
  exact key _ (by omega)

/-- **filter_iff_substring**: the filter's decision is exactly "some pattern occurs in the name as a contiguous
    substring" — compared literally when case-sensitive, modulo ASCII case when case-insensitive. -/
theorem filter_iff_substring (pats : List Str) (ci : Bool) (name : Str) :
    shouldFilter pats ci name = true ↔ ∃ p ∈ pats, fold ci p <:+: fold ci name := by
  simp [shouldFilter, List.any_eq_true, isInfixOf_iff]

/-- what is compared: the strings themselves, or their ASCII-lower-cased images -/
theorem fold_spec (s : Str) : fold false s = s ∧ fold true s = s.map asciiLower := by
  simp [fold]

/-- the filter layer drops the operation (nothing reaches any recorder below, the handle is inert) exactly when
    a pattern occurs in the name, and otherwise forwards it unchanged -/
theorem filter_exact (pats : List Str) (ci : Bool) (r : Rec) (op : Op) :
    ((∃ p ∈ pats, fold ci p <:+: fold ci op.name) →
        (Rec.filter pats ci r).deliver op = [] ∧ (Rec.filter pats ci r).handle op = .noop)
    ∧ ((¬ ∃ p ∈ pats, fold ci p <:+: fold ci op.name) →
        (Rec.filter pats ci r).deliver op = r.deliver op ∧ (Rec.filter pats ci r).handle op = r.handle op) := by
  rw [← filter_iff_substring]
  constructor
  · intro h; simp [Rec.deliver, Rec.handle, h]
  · intro h; simp [Rec.deliver, Rec.handle, h]

/-- an inert handle delivers nothing, whatever is done with it -/
theorem noop_inert (u : Upd) : Handle.noop.apply u = [] := by
  simp [Handle.apply]

/-! ## router -/

/-- **router_longest_prefix**: the routing decision for (kind, name) over the routes in `add_route` order.
    If it is route `i`, then that route is for this kind, its pattern is a prefix of the name, no route for this
    kind that is a prefix of the name is longer, and among routes for this kind with the same pattern it is the
    last one added.  If it is the default, no route for this kind is a prefix of the name. -/
theorem router_longest_prefix (routes : List (Mask × Str)) (k : Kind) (name : Str) :
    (∀ i, routeIdx routes k name = some i →
      ∃ m p, routes[i]? = some (m, p) ∧ m.covers k = true ∧ p <+: name ∧
        ∀ j m' p', routes[j]? = some (m', p') → m'.covers k = true → p' <+: name →
          p'.length ≤ p.length ∧ (p' = p → j ≤ i))
    ∧ (routeIdx routes k name = none →
      ∀ m' p', (m', p') ∈ routes → m'.covers k = true → ¬ p' <+: name) := by
  constructor
  · intro i hi
    simp only [routeIdx, Builder.route] at hi
    split at hi
    · cases hi
    · simp only [Option.map_eq_some_iff] at hi
      obtain ⟨⟨key, v⟩, hga, rfl⟩ := hi
      obtain ⟨hpre, hget, hmax⟩ := Trie.getAncestor_some _ _ _ _ hga
      rw [get_built] at hget
      obtain ⟨m, hm1, hm2, hm3⟩ := lastIdx_some k key routes v hget
      refine ⟨m, key, hm1, hm2, hpre, ?_⟩
      intro j m' p' hj hc hp
      have hsome : (Trie.get ((Builder.addRoutes {} routes).routes k) p').isSome = true := by
        rw [get_built]
        cases hl : lastIdx k p' routes with
        | some _ => rfl
        | none =>
          exfalso
          exact lastIdx_none k p' routes hl m' (List.mem_iff_getElem?.mpr ⟨j, hj⟩) hc
      refine ⟨hmax p' hp hsome, ?_⟩
      intro hpp
      subst hpp
      exact hm3 j m' hj hc
  · intro hn m' p' hmem hc hp
    simp only [routeIdx, Builder.route] at hn
    split at hn
    · rename_i hmask
      rw [Builder.maskCovers_addRoutes] at hmask
      have : routes.any (fun r => r.1.covers k) = true := List.any_eq_true.mpr ⟨(m', p'), hmem, hc⟩
      simp [this] at hmask
    · simp only [Option.map_eq_none_iff] at hn
      have hg := Trie.getAncestor_none _ _ hn p' hp
      rw [get_built] at hg
      exact lastIdx_none k p' routes hg m' hmem hc

/-- the index the router uses is always a valid index into its targets -/
theorem routeIdx_lt (routes : List (Mask × Str)) (k : Kind) (name : Str) (i : Nat)
    (h : routeIdx routes k name = some i) : i < routes.length := by
  obtain ⟨m, p, hget, _⟩ := (router_longest_prefix routes k name).1 i h
  exact (List.getElem?_eq_some_iff.mp hget).1

/-- the router forwards the operation, unchanged, to exactly one recorder: the default when the decision is
    `none`, else the target added together with the chosen route -/
theorem router_exact (d : Rec) (routes : List (Mask × Str)) (ts : List Rec) (op : Op)
    (hlen : ts.length = routes.length) :
    ∃ t, (routeIdx routes op.kind op.name = none ∧ t = d
          ∨ ∃ i, routeIdx routes op.kind op.name = some i ∧ ts[i]? = some t)
      ∧ (Rec.router d routes ts).deliver op = t.deliver op
      ∧ (Rec.router d routes ts).handle op = t.handle op := by
  cases h : routeIdx routes op.kind op.name with
  | none => exact ⟨d, Or.inl ⟨rfl, rfl⟩, by simp [Rec.deliver, h], by simp [Rec.handle, h]⟩
  | some i =>
    have hi : i < ts.length := hlen ▸ routeIdx_lt routes op.kind op.name i h
    have hg : ts[i]? = some ts[i] := List.getElem?_eq_getElem hi
    refine ⟨ts[i], Or.inr ⟨i, rfl, hg⟩, ?_, ?_⟩
    · simp [Rec.deliver, h, deliverNth_of_get ts i _ op hg]
    · simp [Rec.handle, h, handleNth_of_get ts i _ op hg]

/-! ## fanout -/

/-- the fanout forwards the operation, unchanged, to every recorder, in order; its handle is the vector of
    their handles -/
theorem fanout_exact (rs : List Rec) (op : Op) :
    (Rec.fanout rs).deliver op = rs.flatMap (·.deliver op)
    ∧ (Rec.fanout rs).handle op = .fan (rs.map (·.handle op)) := by
  simp [Rec.deliver, Rec.handle, deliverAll_eq, handleAll_eq]

/-- a fanout over base recorders `ids`: each of them receives the operation exactly once -/
theorem fanout_bases (ids : List Nat) (op : Op) :
    (Rec.fanout (ids.map .base)).deliver op = ids.map (fun i => (i, op)) := by
  rw [(fanout_exact _ _).1]
  induction ids with
  | nil => rfl
  | cons i ids ih => simp [Rec.deliver, List.flatMap_cons, ih]

mutual
/-- **fanout_all_once**: through a handle tree of any width and depth, every update reaches every leaf handle
    exactly once — as many times as the leaf occurs in the tree — and nothing else is delivered:
    for each leaf `l` and elementary call `e`, the number of `(l, e)` received equals
    (occurrences of `l` among the leaves) × (occurrences of `e` in the update), where `record_many(v, n)`
    stands for `n` × `record(v)`. -/
theorem fanout_all_once : ∀ (h : Handle) (u : Upd) (l : Nat × Op) (e : Upd),
    ((h.apply u).flatMap normD).count (l, e) = h.leaves.count l * (norm u).count e
  | .noop, u, l, e => by simp [Handle.apply, Handle.leaves]
  | .leaf b op, u, l, e => by
    simp only [Handle.apply, Handle.leaves, List.flatMap_cons, List.flatMap_nil, List.append_nil, normD,
      count_pair_map, List.count_singleton, beq_iff_eq]
    by_cases hl : (b, op) = l <;> simp [hl]
  | .fan hs, u, l, e => by
    have hall := fun u => fanout_all_once_list hs u l e
    cases u with
    | hmany v n =>
      simp only [Handle.apply, Handle.leaves, rounds_flatMap, count_rounds, hall, norm_hrec_count]
      simp only [norm, List.count_replicate, beq_iff_eq]
      by_cases he : Upd.hrec v = e <;> simp [he, Nat.mul_comm]
    | cinc n => simpa only [Handle.apply, Handle.leaves] using hall _
    | cabs n => simpa only [Handle.apply, Handle.leaves] using hall _
    | ginc n => simpa only [Handle.apply, Handle.leaves] using hall _
    | gdec n => simpa only [Handle.apply, Handle.leaves] using hall _
    | gset n => simpa only [Handle.apply, Handle.leaves] using hall _
    | hrec n => simpa only [Handle.apply, Handle.leaves] using hall _
theorem fanout_all_once_list : ∀ (hs : List Handle) (u : Upd) (l : Nat × Op) (e : Upd),
    ((applyAll hs u).flatMap normD).count (l, e) = (leavesAll hs).count l * (norm u).count e
  | [], u, l, e => by simp [applyAll, leavesAll]
  | h :: hs, u, l, e => by
    simp only [applyAll, leavesAll, List.flatMap_append, List.count_append, fanout_all_once h u l e,
      fanout_all_once_list hs u l e, Nat.add_mul]
end

mutual
/-- the leaf handles of the handle a register returns are exactly the `(recorder, operation)` pairs that
    received the registration: updates through the handle go to those recorders and no others -/
theorem handle_leaves : ∀ (r : Rec) (op : Op), (r.handle op).leaves = r.deliver op
  | .base id, op => by simp [Rec.handle, Rec.deliver, Handle.leaves]
  | .pfx p r, op => by simp only [Rec.handle, Rec.deliver]; exact handle_leaves r _
  | .filter pats ci r, op => by
    simp only [Rec.handle, Rec.deliver]
    split
    · simp [Handle.leaves]
    · exact handle_leaves r op
  | .router d routes ts, op => by
    simp only [Rec.handle, Rec.deliver]
    split
    · exact handle_leaves d op
    · exact handle_leaves_nth ts _ op
  | .fanout rs, op => by
    simp only [Rec.handle, Rec.deliver, Handle.leaves]
    exact handle_leaves_all rs op
theorem handle_leaves_all : ∀ (rs : List Rec) (op : Op), leavesAll (handleAll rs op) = deliverAll rs op
  | [], op => by simp [handleAll, deliverAll, leavesAll]
  | r :: rs, op => by
    simp only [handleAll, deliverAll, leavesAll, handle_leaves r op, handle_leaves_all rs op]
theorem handle_leaves_nth : ∀ (rs : List Rec) (i : Nat) (op : Op),
    (handleNth rs i op).leaves = deliverNth rs i op
  | [], _, op => by simp [handleNth, deliverNth, Handle.leaves]
  | r :: _, 0, op => by simp only [handleNth, deliverNth]; exact handle_leaves r op
  | _ :: rs, i + 1, op => by simp only [handleNth, deliverNth]; exact handle_leaves_nth rs i op
end

/-- every update through the handle of a fanned-out registration reaches each recorder that received the
    registration once (`fanout_all_once` + `handle_leaves`) -/
theorem fanout_update_reaches_all (r : Rec) (op : Op) (u : Upd) (l : Nat × Op) (e : Upd) :
    (((r.handle op).apply u).flatMap normD).count (l, e) = (r.deliver op).count l * (norm u).count e := by
  rw [fanout_all_once, handle_leaves]

/-! ## stacks -/

/-- what one layer does to an operation: `some op'` = forwards `op'`, `none` = drops -/
def layerTr : Layer → Op → Option Op
  | .pfx p, op => some (prefixOp p op)
  | .filter pats ci, op => if shouldFilter pats ci op.name then none else some op

/-- a layer as a transformer of "what the recorder below does with an operation" -/
def layerSem {β : Type} (inert : β) (l : Layer) (below : Op → β) : Op → β :=
  fun op => match layerTr l op with
    | none => inert
    | some op' => below op'

/-- composition of the layers of a stack (push order): the last pushed layer sees the operation first -/
def stackTr : List Layer → Op → Option Op
  | [], op => some op
  | l :: ls, op => (stackTr ls op).bind (layerTr l)

/-- forward to `r` or drop -/
def deliverOpt (r : Rec) : Option Op → List (Nat × Op)
  | none => []
  | some op => r.deliver op
def handleOpt (r : Rec) : Option Op → Handle
  | none => .noop
  | some op => r.handle op

theorem layer_sem (l : Layer) (r : Rec) (op : Op) :
    (l.layer r).deliver op = layerSem [] l r.deliver op ∧ (l.layer r).handle op = layerSem .noop l r.handle op := by
  cases l with
  | pfx p => simp [Layer.layer, layerSem, layerTr, Rec.deliver, Rec.handle]
  | filter pats ci =>
    simp only [Layer.layer, layerSem, layerTr, Rec.deliver, Rec.handle]
    split <;> simp

/-- **stack_is_composition**: a stack is the composition of its layers in push order — as functions, pushing
    layer `l` on a stack wraps the stack's behaviour in `l`'s behaviour (by induction on the layer list) -/
theorem stack_is_composition (inner : Rec) (ls : List Layer) :
    (stack inner ls).deliver = ls.foldl (fun below l => layerSem [] l below) inner.deliver
    ∧ (stack inner ls).handle = ls.foldl (fun below l => layerSem .noop l below) inner.handle := by
  induction ls generalizing inner with
  | nil => exact ⟨rfl, rfl⟩
  | cons l ls ih =>
    have h1 : (l.layer inner).deliver = layerSem [] l inner.deliver := funext fun op => (layer_sem l inner op).1
    have h2 : (l.layer inner).handle = layerSem .noop l inner.handle := funext fun op => (layer_sem l inner op).2
    have := ih (l.layer inner)
    simp only [stack, List.foldl_cons] at this ⊢
    rw [this.1, this.2, h1, h2]
    exact ⟨rfl, rfl⟩

/-- the same, operation by operation: the stack applies its layers' transformations, last pushed first, and
    hands the result (if no filter dropped it) to the recorder at the bottom -/
theorem stack_transform (inner : Rec) (ls : List Layer) (op : Op) :
    (stack inner ls).deliver op = deliverOpt inner (stackTr ls op)
    ∧ (stack inner ls).handle op = handleOpt inner (stackTr ls op) := by
  induction ls generalizing inner with
  | nil => exact ⟨rfl, rfl⟩
  | cons l ls ih =>
    have := ih (l.layer inner)
    simp only [stack, List.foldl_cons] at this ⊢
    rw [this.1, this.2]
    simp only [stackTr]
    cases stackTr ls op with
    | none => exact ⟨rfl, rfl⟩
    | some op' =>
      have hl := layer_sem l inner op'
      simp only [deliverOpt, handleOpt, Option.bind_some, hl.1, hl.2, layerSem]
      cases layerTr l op' <;> simp

/-- pushing further layers onto a stack = a stack over the stack built so far -/
theorem stack_append (inner : Rec) (ls₁ ls₂ : List Layer) :
    stack inner (ls₁ ++ ls₂) = stack (stack inner ls₁) ls₂ := by
  simp [stack, List.foldl_append]

/-! ## the layer values: `PrefixLayer::new`, the `FilterLayer` builder, one layer value used several times -/

/-- a layer made by `PrefixLayer::new(p)` behaves as `prefix_exact` says for exactly the `p` it was given … -/
theorem prefix_layer_exact (p : Str) (r : Rec) (op : Op) :
    (prefixLayer p r).deliver op = r.deliver { op with name := p ++ ['.'] ++ op.name }
    ∧ (prefixLayer p r).handle op = r.handle { op with name := p ++ ['.'] ++ op.name } :=
  prefix_exact p r op

/-- … and nothing about the prefix is normalised away: different prefixes (say `a` and `a.`, or `a` and `a` plus a
    blank) give different names for every metric name; the delivered name is exactly one character longer than
    prefix plus name -/
theorem prefix_faithful (p q name : Str) :
    (prefixName p name = prefixName q name → p = q)
    ∧ (prefixName p name).length = p.length + 1 + name.length := by
  constructor
  · intro h
    exact List.append_cancel_right h
  · simp [prefixName]; omega

/-- the patterns a chain of builder calls adds, in call order -/
def addedPats : List FOp → List Str
  | [] => []
  | .add p :: rest => p :: addedPats rest
  | .ci _ :: rest => addedPats rest
  | .dfa _ :: rest => addedPats rest

/-- is this call `case_insensitive(_)`? -/
def isCi : FOp → Bool
  | .ci _ => true
  | _ => false

/-- is this call `use_dfa(_)`? -/
def isDfa : FOp → Bool
  | .dfa _ => true
  | _ => false

/-- **filter_builder_patterns**: after any chain of builder calls the layer holds the patterns it started with
    followed by every pattern passed to `add_pattern`, in order — none dropped, merged, re-cased or skipped
    (duplicates, case variants of earlier patterns and the empty pattern included). -/
theorem filter_builder_patterns (c : FilterCfg) (ops : List FOp) :
    (c.run ops).patterns = c.patterns ++ addedPats ops := by
  induction ops generalizing c with
  | nil => simp [FilterCfg.run_nil, addedPats]
  | cons o rest ih =>
    rw [FilterCfg.run_cons, ih]
    cases o <;> simp [FilterCfg.step, addedPats]

/-- without a `case_insensitive` call the layer keeps the case sensitivity it started with (`false` for both
    constructors, see `filter_defaults`) … -/
theorem filter_builder_ci_unset (c : FilterCfg) (ops : List FOp) (h : ∀ o ∈ ops, isCi o = false) :
    (c.run ops).ci = c.ci := by
  induction ops generalizing c with
  | nil => rfl
  | cons o rest ih =>
    rw [FilterCfg.run_cons, ih _ (fun o' ho' => h o' (List.mem_cons_of_mem _ ho'))]
    have := h o (List.mem_cons_self ..)
    cases o <;> simp_all [FilterCfg.step, isCi]

/-- … and otherwise it is what the LAST `case_insensitive(b)` call said (a plain assignment: not sticky, not
    or-ed with earlier calls) -/
theorem filter_builder_ci_last (c : FilterCfg) (pre post : List FOp) (b : Bool)
    (hpost : ∀ o ∈ post, isCi o = false) :
    (c.run (pre ++ .ci b :: post)).ci = b := by
  rw [FilterCfg.run_append, FilterCfg.run_cons, filter_builder_ci_unset _ _ hpost]
  rfl

/-- the two constructors: `from_patterns` keeps the patterns as given and is case-sensitive; `default()` has no
    pattern, is case-sensitive and therefore forwards everything -/
theorem filter_defaults (ps : List Str) (r : Rec) (op : Op) :
    (FilterCfg.fromPatterns ps).layer r = .filter ps false r
    ∧ FilterCfg.dflt.layer r = .filter [] false r
    ∧ (FilterCfg.dflt.layer r).deliver op = r.deliver op
    ∧ (FilterCfg.dflt.layer r).handle op = r.handle op := by
  refine ⟨rfl, rfl, ?_, ?_⟩ <;> simp [FilterCfg.dflt, FilterCfg.layer, Rec.deliver, Rec.handle, shouldFilter]

/-- **filter_builder_exact**: the layer produced by ANY chain of builder calls on either constructor drops an
    operation exactly when one of the patterns it was given — at construction or by `add_pattern` — occurs in the
    name, compared under the case sensitivity in force at the time of `.layer()`; dropped operations reach nobody
    and return inert handles, all others are forwarded unchanged. -/
theorem filter_builder_exact (c : FilterCfg) (ops : List FOp) (r : Rec) (op : Op) :
    ((∃ p ∈ c.patterns ++ addedPats ops, fold (c.run ops).ci p <:+: fold (c.run ops).ci op.name) →
        ((c.run ops).layer r).deliver op = [] ∧ ((c.run ops).layer r).handle op = .noop)
    ∧ ((¬ ∃ p ∈ c.patterns ++ addedPats ops, fold (c.run ops).ci p <:+: fold (c.run ops).ci op.name) →
        ((c.run ops).layer r).deliver op = r.deliver op ∧ ((c.run ops).layer r).handle op = r.handle op) := by
  rw [← filter_builder_patterns]
  exact filter_exact _ _ r op

/-- `use_dfa` never matters: dropping every `use_dfa` call from the chain gives the same layer -/
theorem filter_builder_dfa_irrelevant (c : FilterCfg) (ops : List FOp) (r : Rec) :
    (c.run ops).layer r = (c.run (ops.filter (fun o => !isDfa o))).layer r := by
  have key : ∀ (ops : List FOp) (c c' : FilterCfg), c.patterns = c'.patterns → c.ci = c'.ci →
      (c.run ops).patterns = (c'.run (ops.filter (fun o => !isDfa o))).patterns
      ∧ (c.run ops).ci = (c'.run (ops.filter (fun o => !isDfa o))).ci := by
    intro ops
    induction ops with
    | nil => intro c c' h1 h2; exact ⟨h1, h2⟩
    | cons o rest ih =>
      intro c c' h1 h2
      cases o with
      | add p =>
        simp only [isDfa, Bool.not_false, List.filter_cons_of_pos, FilterCfg.run_cons]
        exact ih _ _ (by simp [FilterCfg.step, h1]) (by simp [FilterCfg.step, h2])
      | ci b =>
        simp only [isDfa, Bool.not_false, List.filter_cons_of_pos, FilterCfg.run_cons]
        exact ih _ _ (by simp [FilterCfg.step, h1]) (by simp [FilterCfg.step])
      | dfa b =>
        simp only [isDfa, Bool.not_true, Bool.false_eq_true, not_false_eq_true, List.filter_cons_of_neg,
          FilterCfg.run_cons]
        exact ih _ _ (by simp [FilterCfg.step, h1]) (by simp [FilterCfg.step, h2])
  obtain ⟨h1, h2⟩ := key ops c c rfl rfl
  simp [FilterCfg.layer, h1, h2]

/-- **layer_reuse_snapshot**: `.layer(inner)` takes `&self`; every application of ONE `FilterLayer` value builds
    its filter from the fields as they are at that moment — it sees all builder calls made before it (also those
    made after earlier applications: nothing is cached), none made after it, and applying the layer does not
    change it. -/
theorem layer_reuse_snapshot (c : FilterCfg) (pre post : List LStep) (inner : Rec) :
    c.reuse (pre ++ .layer inner :: post)
      = c.reuse pre ++ (c.run (cfgOps pre)).layer inner :: (c.run (cfgOps pre)).reuse post := by
  induction pre generalizing c with
  | nil => simp [FilterCfg.reuse, cfgOps, FilterCfg.run_nil]
  | cons st rest ih =>
    cases st with
    | cfg o => simp [FilterCfg.reuse, cfgOps, FilterCfg.run_cons, ih]
    | layer i => simp [FilterCfg.reuse, cfgOps, ih]

/-- builder calls after the last application change none of the recorders already built -/
theorem layer_reuse_trailing (c : FilterCfg) (steps : List LStep) (os : List FOp) :
    c.reuse (steps ++ os.map .cfg) = c.reuse steps := by
  induction steps generalizing c with
  | nil =>
    induction os generalizing c with
    | nil => rfl
    | cons o rest ih => simpa [FilterCfg.reuse] using ih (c.step o)
  | cons st rest ih =>
    cases st with
    | cfg o => simpa [FilterCfg.reuse] using ih (c.step o)
    | layer i => simp [FilterCfg.reuse, ih]

/-- one `PrefixLayer` value applied to several recorders prefixes each of them with the same, unchanged prefix -/
theorem prefix_reuse (p : Str) (rs : List Rec) (op : Op) :
    (Rec.fanout (rs.map (prefixLayer p))).deliver op
      = rs.flatMap (·.deliver { op with name := p ++ ['.'] ++ op.name }) := by
  rw [(fanout_exact _ _).1, List.flatMap_map]
  congr 1
  funext r
  exact (prefix_layer_exact p r op).1

/-! ## sequences of calls on one handle -/

/-- **fanout_all_once_seq**: for ANY sequence of calls on one handle (or its clones) — repeated values, `set`
    after `increment`, anything — every call reaches every leaf exactly once: the number of `(leaf, call)` received
    over the whole sequence is (occurrences of the leaf) × (occurrences of the call in the sequence).  No call is
    swallowed because an earlier one looked the same. -/
theorem fanout_all_once_seq (h : Handle) (us : List Upd) (l : Nat × Op) (e : Upd) :
    ((h.applySeq us).flatMap normD).count (l, e) = h.leaves.count l * (us.flatMap norm).count e := by
  induction us with
  | nil => simp [Handle.applySeq]
  | cons u rest ih =>
    rw [Handle.applySeq_cons, List.flatMap_append, List.count_append, fanout_all_once, ih,
      List.flatMap_cons, List.count_append, Nat.mul_add]

/-- what a call causes does not depend on the calls made before it -/
theorem handle_stateless (h : Handle) (before : List Upd) (u : Upd) :
    h.applySeq (before ++ [u]) = h.applySeq before ++ h.apply u := by
  simp [Handle.applySeq]

/-! ## several client threads on one tree (no layer has state: `src_layers_stateless`) -/
theorem advance_rest (tree : Rec) (shared : List Handle) (todo : List Call) :
    ∀ (p : List Ev) (own : List Handle),
      (advance tree shared p own todo).rest tree shared = p ++ seqFrom tree shared own todo := by
  induction todo with
  | nil =>
    intro p own
    cases p <;> simp [advance, Thread.rest, seqFrom]
  | cons c cs ih =>
    intro p own
    cases p with
    | nil => simp [advance, ih, seqFrom]
    | cons e p => simp [advance, Thread.rest]

theorem advance_started (tree : Rec) (shared : List Handle) (todo : List Call) :
    ∀ (p : List Ev) (own : List Handle), (advance tree shared p own todo).started = true := by
  induction todo with
  | nil => intro p own; cases p <;> simp [advance]
  | cons c cs ih =>
    intro p own
    cases p with
    | nil => simp [advance, ih]
    | cons e p => simp [advance]

theorem step_tree (s : Sys) (g : Nat) : (s.step g).tree = s.tree ∧ (s.step g).shared = s.shared := by
  unfold Sys.step
  split
  · exact ⟨rfl, rfl⟩
  · split <;> exact ⟨rfl, rfl⟩

theorem proj_append (l₁ l₂ : List (Nat × Ev)) (t : Nat) : proj (l₁ ++ l₂) t = proj l₁ t ++ proj l₂ t := by
  simp [proj]

/-- one grant: what thread `t` has caused so far plus what it will still cause is unchanged — whoever was granted -/
theorem step_inv (s : Sys) (g t : Nat) :
    proj (s.step g).log t ++ ((s.step g).threads t).rest s.tree s.shared
      = proj s.log t ++ (s.threads t).rest s.tree s.shared := by
  unfold Sys.step
  split
  · -- first grant of g
    by_cases h : t = g
    · subst h
      simp only [if_true, advance_rest]
      rfl
    · simp [h]
  · split
    · rfl
    · rename_i e p hp
      by_cases h : t = g
      · subst h
        simp only [if_true, advance_rest, proj_append]
        simp [proj, Thread.rest, hp]
      · have : (g == t) = false := by simpa using fun h' => h h'.symm
        simp [h, proj, this]

theorem run_tree (sched : List Nat) : ∀ s : Sys, (s.run sched).tree = s.tree ∧ (s.run sched).shared = s.shared := by
  induction sched with
  | nil => intro s; exact ⟨rfl, rfl⟩
  | cons g rest ih =>
    intro s
    have := ih (s.step g)
    simp only [Sys.run, List.foldl_cons] at this ⊢
    rw [this.1, this.2]
    exact step_tree s g

theorem run_inv (sched : List Nat) : ∀ (s : Sys) (t : Nat),
    proj (s.run sched).log t ++ ((s.run sched).threads t).rest s.tree s.shared
      = proj s.log t ++ (s.threads t).rest s.tree s.shared := by
  induction sched with
  | nil => intro s t; rfl
  | cons g rest ih =>
    intro s t
    have h := ih (s.step g) t
    rw [(step_tree s g).1, (step_tree s g).2] at h
    simp only [Sys.run, List.foldl_cons] at h ⊢
    rw [h, step_inv]

/-- **conc_projection**: several client threads on ONE tree, ANY number of threads, ANY schedule (granularity: one
    call into a base recorder per grant).  At every moment, what thread `t` has caused so far followed by what it
    will still cause if it runs to its end is exactly what its script causes when it runs ALONE: no call of another
    thread, at whatever point in between, changes where an operation of `t` goes, under which name, to whom its
    updates are delivered or how often. -/
theorem conc_projection (tree : Rec) (shared : List Handle) (scripts : Nat → List Call) (sched : List Nat) (t : Nat) :
    proj ((Sys.init tree shared scripts).run sched).log t
        ++ (((Sys.init tree shared scripts).run sched).threads t).rest tree shared
      = seqFrom tree shared [] (scripts t) := by
  have := run_inv sched (Sys.init tree shared scripts) t
  simpa [Sys.init, proj, Thread.rest] using this

/-- at every moment each thread's part of the global log is a prefix of its sequential behaviour … -/
theorem conc_no_interference (tree : Rec) (shared : List Handle) (scripts : Nat → List Call) (sched : List Nat) (t : Nat) :
    proj ((Sys.init tree shared scripts).run sched).log t <+: seqFrom tree shared [] (scripts t) :=
  ⟨_, conc_projection tree shared scripts sched t⟩

/-- … and once the thread has finished it is exactly its sequential behaviour: every describe / register went to
    the recorders `Rec.deliver` names (to which `prefix_exact`, `filter_exact`, `router_exact`, `fanout_exact`,
    `stack_transform` apply), every update to the leaves `Handle.apply` names (`fanout_all_once`), also for handles
    SHARED between the threads -/
theorem conc_complete (tree : Rec) (shared : List Handle) (scripts : Nat → List Call) (sched : List Nat) (t : Nat)
    (hfin : (((Sys.init tree shared scripts).run sched).threads t).finished = true) :
    proj ((Sys.init tree shared scripts).run sched).log t = seqFrom tree shared [] (scripts t) := by
  have h := conc_projection tree shared scripts sched t
  simp only [Thread.finished, Bool.and_eq_true, List.isEmpty_iff] at hfin
  obtain ⟨⟨_, hp⟩, ht⟩ := hfin
  simpa [Thread.rest, hp, ht, seqFrom] using h

/-- the sequential behaviour of a thread, call by call: a describe / register causes `Rec.deliver` (and a register
    adds `Rec.handle` to the thread's handles); an update through a handle `h` (shared or own) causes `Handle.apply` -/
theorem seq_calls_exact (tree : Rec) (shared own : List Handle) (cs : List Call) :
    (∀ o, seqFrom tree shared own (.op o :: cs)
        = (tree.deliver o).map (fun d => Ev.got d.1 d.2)
          ++ seqFrom tree shared (if o.reg then own ++ [tree.handle o] else own) cs)
    ∧ (∀ sh i u h, (if sh then shared else own)[i]? = some h →
        seqFrom tree shared own (.upd sh i u :: cs)
          = (h.apply u).map (fun d => Ev.upd d.1 d.2) ++ seqFrom tree shared own cs) := by
  constructor
  · intro o; simp [seqFrom, evalCall]
  · intro sh i u h hh; simp [seqFrom, evalCall, hh]

/-- the global log holds nothing but what the threads cause: its length is the sum over the granted threads … every
    entry belongs to the projection of its thread (so, with `conc_no_interference`, to that thread's sequential
    behaviour) -/
theorem conc_log_mem (log : List (Nat × Ev)) (t : Nat) (e : Ev) (h : (t, e) ∈ log) : e ∈ proj log t := by
  simp only [proj, List.mem_map, List.mem_filter]
  exact ⟨(t, e), ⟨h, by simp⟩, rfl⟩

/-! ## recorder lifetime, raw masks -/

/-- **handle_outlives_recorder**: a handle is a value of its own (`Fanout*` handles OWN their vector of inner
    handles, a leaf handle is the base recorder's own handle, `src_fanout_register`): dropping the recorder tree
    that made it changes nothing about what later calls on the handle cause. -/
theorem handle_outlives_recorder (c : Client) (i : Nat) (us : List Upd) :
    (c.dropTree).update i us = c.update i us ∧ (c.dropTree).tree = none ∧ (c.dropTree).handles = c.handles := by
  exact ⟨rfl, rfl, rfl⟩

/-- updates after the drop still reach every recorder that received the registration exactly once -/
theorem update_after_drop_all_once (r : Rec) (op : Op) (us : List Upd) (l : Nat × Op) (e : Upd) :
    let c : Client := { tree := some r, handles := [r.handle op] }
    (((c.dropTree).update 0 us).flatMap normD).count (l, e) = (r.deliver op).count l * (us.flatMap norm).count e := by
  simp only [Client.dropTree, Client.update, List.getElem?_cons_zero]
  rw [fanout_all_once_seq, handle_leaves]

/-- **mask_ofBits_iff**: `add_route` accepts exactly the bit patterns of COUNTER, GAUGE, HISTOGRAM and ALL; every
    other mask — NONE and the composites COUNTER|GAUGE, COUNTER|HISTOGRAM, GAUGE|HISTOGRAM — is refused (panic),
    never half-applied -/
theorem mask_ofBits_iff (b : Nat) (m : Mask) : Mask.ofBits b = some m ↔ b = m.bits := by
  constructor
  · intro h
    unfold Mask.ofBits at h
    split at h <;> simp_all [Mask.bits] <;> (subst h; rfl)
  · rintro rfl
    cases m <;> rfl

theorem mask_composite_refused : Mask.ofBits 0 = none ∧ Mask.ofBits 3 = none ∧ Mask.ofBits 5 = none ∧ Mask.ofBits 6 = none :=
  ⟨rfl, rfl, rfl, rfl⟩

/-! ## source facts (`tools/extract.py`, regenerated from the working tree on every run) -/

set_option maxRecDepth 8000 in
/-- `Router::route` consults the global mask first and then asks the trie for the deepest ancestor node THAT HOLDS
    A VALUE (`get_ancestor`, whose result always has a value — hence the `unwrap`), falling back to the default
    only when there is none: the model's `Builder.route` / `Trie.getAncestor`.  (`get_raw_ancestor`, `get`,
    `get_ancestor_value` on another key … would be a different function.) -/
theorem src_router_lookup :
    Generated.layers_route_body =
      "{if!self.global_mask.matches(kind){self.default.as_ref()}else{search_routes.get_ancestor(key).map(|st|unsafe{self.targets.get_unchecked(*st.value().unwrap()).as_ref()}).unwrap_or_else(||self.default.as_ref())}}" := by
  decide

set_option maxRecDepth 8000 in
/-- `add_route` takes the target index BEFORE pushing the target, or-s the mask into the global mask, and inserts
    the pattern (as given) with that index into all three tries for ALL and into the kind's own trie otherwise: the
    model's `Builder.addRoute` -/
theorem src_add_route :
    Generated.layers_add_route_prologue
      = "lettarget_idx=self.targets.len();self.targets.push(Box::new(recorder));self.global_mask=self.global_mask|mask;"
    ∧ Generated.layers_add_route_arms
      = ["ALL:counter,gauge,histogram", "COUNTER:counter", "GAUGE:gauge", "HISTOGRAM:histogram"] := by
  decide

set_option maxRecDepth 8000 in
/-- `FilterLayer`: `Default` is derived over `(Vec, bool, bool)` (⇒ no pattern, case-sensitive, no DFA —
    `FilterCfg.dflt`); `from_patterns` stores the patterns as given with `case_insensitive: false, use_dfa: true`
    (`FilterCfg.fromPatterns`); the three builder methods are a push and two plain assignments (`FilterCfg.step`);
    `layer()` builds the automaton from exactly these three fields and `should_filter` is `is_match` on the name -/
theorem src_filter_builder :
    Generated.layers_filter_layer_derives = "Default,Debug"
    ∧ Generated.layers_filter_layer_fields = "{patterns:Vec<String>,case_insensitive:bool,use_dfa:bool,}"
    ∧ Generated.layers_filter_from_patterns_body
      = "{FilterLayer{patterns:patterns.into_iter().map(|s|s.as_ref().to_string()).collect(),case_insensitive:false,use_dfa:true,}}"
    ∧ Generated.layers_filter_add_pattern_body = "{self.patterns.push(pattern.as_ref().to_string());self}"
    ∧ Generated.layers_filter_case_insensitive_body = "{self.case_insensitive=case_insensitive;self}"
    ∧ Generated.layers_filter_use_dfa_body = "{self.use_dfa=dfa;self}"
    ∧ Generated.layers_filter_automaton_chain
      = [".ascii_case_insensitive(self.case_insensitive)", ".kind(self.use_dfa.then_some(AhoCorasickKind::DFA))",
         ".build(&self.patterns)"]
    ∧ Generated.layers_filter_layer_result = "Filter{inner,automaton}"
    ∧ Generated.layers_filter_should_filter_body = "{self.automaton.is_match(key)}" := by
  decide

set_option maxRecDepth 8000 in
/-- the `Fanout*` handles have no field but their vector of inner handles (nothing to remember between calls:
    `handle_stateless`), every method is the plain loop calling the same method with the same argument on each
    inner handle (`Handle.apply` on `.fan`), and `FanoutHistogram` defines `record` only, so `record_many` is the
    trait's default loop of `count` × `record` (`rounds`) -/
theorem src_fanout_handles :
    Generated.layers_fanout_counter_fields = "{counters:Vec<Counter>,}"
    ∧ Generated.layers_fanout_gauge_fields = "{gauges:Vec<Gauge>,}"
    ∧ Generated.layers_fanout_histogram_fields = "{histograms:Vec<Histogram>,}"
    ∧ Generated.layers_fanout_counter_methods
      = ["increment:{forcounterin&self.counters{counter.increment(value);}}",
         "absolute:{forcounterin&self.counters{counter.absolute(value);}}"]
    ∧ Generated.layers_fanout_gauge_methods
      = ["increment:{forgaugein&self.gauges{gauge.increment(value);}}",
         "decrement:{forgaugein&self.gauges{gauge.decrement(value);}}",
         "set:{forgaugein&self.gauges{gauge.set(value);}}"]
    ∧ Generated.layers_fanout_histogram_methods
      = ["record:{forhistogramin&self.histograms{histogram.record(value);}}"]
    ∧ Generated.histogram_fn_record_many_default = "{for_in0..count{self.record(value);}}" := by
  decide

set_option maxRecDepth 8000 in
/-- `PrefixLayer::new` keeps the prefix as given, `layer()` hands it on unchanged, and both key functions build
    the new name from exactly three pushes — prefix, `'.'`, name — with the labels passed through
    (`prefixName`, `prefixOp`) -/
theorem src_prefix :
    Generated.layers_prefix_new_body = "{PrefixLayer(Box::leak(prefix.into().into_boxed_str()))}"
    ∧ Generated.layers_prefix_layer_body = "{Prefix{prefix:self.0.into(),inner}}"
    ∧ Generated.layers_prefix_key_pushes = ["push_str(self.prefix.as_ref())", "push('.')", "push_str(key.name())"]
    ∧ Generated.layers_prefix_key_result = "Key::from_parts(new_name,key.labels())"
    ∧ Generated.layers_prefix_key_name_pushes
      = ["push_str(self.prefix.as_ref())", "push('.')", "push_str(key_name.as_str())"]
    ∧ Generated.layers_prefix_key_name_result = "KeyName::from(new_name)" := by
  decide


/-! ### round 3: the CALL SITES of the helpers, the fields, the builders (what the pins above did not cover) -/

set_option maxRecDepth 20000 in
/-- every `Recorder` method of `Router` asks `route` — with ITS OWN kind and ITS OWN trie, and the name of the key — for the
    target and forwards the call, arguments unchanged, to that target and to nobody else (`Rec.deliver` / `Rec.handle` on
    `.router`; a `route_fast`, a cache in front of `route`, a wrong trie for a kind would be a different text) -/
theorem src_recorder_impl_router :
    Generated.layers_router_recorder_impl =
      ["fndescribe_counter(&self,key_name:KeyName,unit:Option<Unit>,description:SharedString){lettarget=self.route(MetricKind::Counter,key_name.as_str(),&self.counter_routes);target.describe_counter(key_name,unit,description)}",
       "fndescribe_gauge(&self,key_name:KeyName,unit:Option<Unit>,description:SharedString){lettarget=self.route(MetricKind::Gauge,key_name.as_str(),&self.gauge_routes);target.describe_gauge(key_name,unit,description)}",
       "fndescribe_histogram(&self,key_name:KeyName,unit:Option<Unit>,description:SharedString){lettarget=self.route(MetricKind::Histogram,key_name.as_str(),&self.histogram_routes);target.describe_histogram(key_name,unit,description)}",
       "fnregister_counter(&self,key:&Key,metadata:&Metadata<'_>)->Counter{lettarget=self.route(MetricKind::Counter,key.name(),&self.counter_routes);target.register_counter(key,metadata)}",
       "fnregister_gauge(&self,key:&Key,metadata:&Metadata<'_>)->Gauge{lettarget=self.route(MetricKind::Gauge,key.name(),&self.gauge_routes);target.register_gauge(key,metadata)}",
       "fnregister_histogram(&self,key:&Key,metadata:&Metadata<'_>)->Histogram{lettarget=self.route(MetricKind::Histogram,key.name(),&self.histogram_routes);target.register_histogram(key,metadata)}"] := by
  decide

set_option maxRecDepth 20000 in
/-- every `Recorder` method of `Filter` asks `should_filter` about the NAME, returns at once (describe) / returns the
    `noop()` handle of its kind (register) when it says yes, and otherwise forwards the call unchanged to `inner` -/
theorem src_recorder_impl_filter :
    Generated.layers_filter_recorder_impl =
      ["fndescribe_counter(&self,key_name:KeyName,unit:Option<Unit>,description:SharedString){ifself.should_filter(key_name.as_str()){return;}self.inner.describe_counter(key_name,unit,description)}",
       "fndescribe_gauge(&self,key_name:KeyName,unit:Option<Unit>,description:SharedString){ifself.should_filter(key_name.as_str()){return;}self.inner.describe_gauge(key_name,unit,description)}",
       "fndescribe_histogram(&self,key_name:KeyName,unit:Option<Unit>,description:SharedString){ifself.should_filter(key_name.as_str()){return;}self.inner.describe_histogram(key_name,unit,description)}",
       "fnregister_counter(&self,key:&Key,metadata:&Metadata<'_>)->Counter{ifself.should_filter(key.name()){returnCounter::noop();}self.inner.register_counter(key,metadata)}",
       "fnregister_gauge(&self,key:&Key,metadata:&Metadata<'_>)->Gauge{ifself.should_filter(key.name()){returnGauge::noop();}self.inner.register_gauge(key,metadata)}",
       "fnregister_histogram(&self,key:&Key,metadata:&Metadata<'_>)->Histogram{ifself.should_filter(key.name()){returnHistogram::noop();}self.inner.register_histogram(key,metadata)}"] := by
  decide

set_option maxRecDepth 20000 in
/-- every `Recorder` method of `Prefix` builds the new name with `prefix_key_name` / `prefix_key` and forwards the call with
    it, unit / description / metadata unchanged, to `inner` -/
theorem src_recorder_impl_prefix :
    Generated.layers_prefix_recorder_impl =
      ["fndescribe_counter(&self,key_name:KeyName,unit:Option<Unit>,description:SharedString){letnew_key_name=self.prefix_key_name(key_name);self.inner.describe_counter(new_key_name,unit,description)}",
       "fndescribe_gauge(&self,key_name:KeyName,unit:Option<Unit>,description:SharedString){letnew_key_name=self.prefix_key_name(key_name);self.inner.describe_gauge(new_key_name,unit,description)}",
       "fndescribe_histogram(&self,key_name:KeyName,unit:Option<Unit>,description:SharedString){letnew_key_name=self.prefix_key_name(key_name);self.inner.describe_histogram(new_key_name,unit,description)}",
       "fnregister_counter(&self,key:&Key,metadata:&Metadata<'_>)->Counter{letnew_key=self.prefix_key(key);self.inner.register_counter(&new_key,metadata)}",
       "fnregister_gauge(&self,key:&Key,metadata:&Metadata<'_>)->Gauge{letnew_key=self.prefix_key(key);self.inner.register_gauge(&new_key,metadata)}",
       "fnregister_histogram(&self,key:&Key,metadata:&Metadata<'_>)->Histogram{letnew_key=self.prefix_key(key);self.inner.register_histogram(&new_key,metadata)}"] := by
  decide

set_option maxRecDepth 20000 in
/-- every `Recorder` method of `Fanout` loops over ALL `recorders` in order (no `take`, no bounded collection); a register
    collects the handles of all of them into the `Fanout*` handle of its kind -/
theorem src_recorder_impl_fanout :
    Generated.layers_fanout_recorder_impl =
      ["fndescribe_counter(&self,key_name:KeyName,unit:Option<Unit>,description:SharedString){forrecorderin&self.recorders{recorder.describe_counter(key_name.clone(),unit,description.clone());}}",
       "fndescribe_gauge(&self,key_name:KeyName,unit:Option<Unit>,description:SharedString){forrecorderin&self.recorders{recorder.describe_gauge(key_name.clone(),unit,description.clone());}}",
       "fndescribe_histogram(&self,key_name:KeyName,unit:Option<Unit>,description:SharedString){forrecorderin&self.recorders{recorder.describe_histogram(key_name.clone(),unit,description.clone());}}",
       "fnregister_counter(&self,key:&Key,metadata:&Metadata<'_>)->Counter{letcounters=self.recorders.iter().map(|recorder|recorder.register_counter(key,metadata)).collect();FanoutCounter::from_counters(counters).into()}",
       "fnregister_gauge(&self,key:&Key,metadata:&Metadata<'_>)->Gauge{letgauges=self.recorders.iter().map(|recorder|recorder.register_gauge(key,metadata)).collect();FanoutGauge::from_gauges(gauges).into()}",
       "fnregister_histogram(&self,key:&Key,metadata:&Metadata<'_>)->Histogram{lethistograms=self.recorders.iter().map(|recorder|recorder.register_histogram(key,metadata)).collect();FanoutHistogram::from_histograms(histograms).into()}"] := by
  decide

set_option maxRecDepth 20000 in
/-- every `Recorder` method of `Stack` only delegates to what it wraps -/
theorem src_recorder_impl_stack :
    Generated.layers_stack_recorder_impl =
      ["fndescribe_counter(&self,key_name:KeyName,unit:Option<Unit>,description:SharedString){self.inner.describe_counter(key_name,unit,description);}",
       "fndescribe_gauge(&self,key_name:KeyName,unit:Option<Unit>,description:SharedString){self.inner.describe_gauge(key_name,unit,description);}",
       "fndescribe_histogram(&self,key_name:KeyName,unit:Option<Unit>,description:SharedString){self.inner.describe_histogram(key_name,unit,description);}",
       "fnregister_counter(&self,key:&Key,metadata:&Metadata<'_>)->Counter{self.inner.register_counter(key,metadata)}",
       "fnregister_gauge(&self,key:&Key,metadata:&Metadata<'_>)->Gauge{self.inner.register_gauge(key,metadata)}",
       "fnregister_histogram(&self,key:&Key,metadata:&Metadata<'_>)->Histogram{self.inner.register_histogram(key,metadata)}"] := by
  decide

set_option maxRecDepth 20000 in
/-- **src_layers_stateless**: the layer structs hold nothing but their configuration and what they wrap — no atomic, lock,
    cell or other interior-mutable field —, the five files contain no `static`, `thread_local!`, lock, cell, atomic, `Weak`
    or `Rc` at all, and the single `unsafe` is the `get_unchecked` of `Router::route`.  With every `Recorder` method taking
    `&self` (`src_recorder_impl_*`) no call can leave anything behind for a later or a concurrent call: the model of
    several client threads (`Sys`) has no shared state besides the read-only tree, and a handle needs nothing of the
    recorder that made it. -/
theorem src_layers_stateless :
    Generated.layers_struct_fields =
      ["Router{default:Box<dynRecorder+Sync>,global_mask:MetricKindMask,targets:Vec<Box<dynRecorder+Sync>>,counter_routes:Trie<String,usize>,gauge_routes:Trie<String,usize>,histogram_routes:Trie<String,usize>,}",
       "RouterBuilder{default:Box<dynRecorder+Sync>,global_mask:MetricKindMask,targets:Vec<Box<dynRecorder+Sync>>,counter_routes:Trie<String,usize>,gauge_routes:Trie<String,usize>,histogram_routes:Trie<String,usize>,}",
       "Filter<R>{inner:R,automaton:AhoCorasick,}",
       "Prefix<R>{prefix:SharedString,inner:R,}",
       "Fanout{recorders:Vec<Box<dynRecorder+Sync>>,}",
       "FanoutBuilder{recorders:Vec<Box<dynRecorder+Sync>>,}",
       "Stack<R>{inner:R,}",
       "pubstructPrefixLayer(&'staticstr);"]
    ∧ Generated.layers_state_tokens = ["router:unsafe"] := by
  decide

set_option maxRecDepth 20000 in
/-- **src_fanout_register**: the `Fanout*` handles are built from the OWNED vector of inner handles and wrapped in an `Arc`
    of their own (`handle_outlives_recorder`); `FanoutBuilder::add_recorder` pushes, `build` moves the vector as it is -/
theorem src_fanout_register :
    Generated.layers_fanout_conversions =
      ["implFrom<FanoutCounter>forCounter{fnfrom(counter:FanoutCounter)->Counter{Counter::from_arc(Arc::new(counter))}}",
       "{pubfnfrom_counters(counters:Vec<Counter>)->Self{Self{counters}}}",
       "implFrom<FanoutGauge>forGauge{fnfrom(gauge:FanoutGauge)->Gauge{Gauge::from_arc(Arc::new(gauge))}}",
       "{pubfnfrom_gauges(gauges:Vec<Gauge>)->Self{Self{gauges}}}",
       "implFrom<FanoutHistogram>forHistogram{fnfrom(histogram:FanoutHistogram)->Histogram{Histogram::from_arc(Arc::new(histogram))}}",
       "{pubfnfrom_histograms(histograms:Vec<Histogram>)->Self{Self{histograms}}}"]
    ∧ Generated.layers_fanout_builder_impl =
      ["fnadd_recorder<R>(mutself,recorder:R)->FanoutBuilderwhereR:Recorder+Sync+'static,{self.recorders.push(Box::new(recorder));self}",
       "fnbuild(self)->Fanout{Fanout{recorders:self.recorders}}"] := by
  decide

set_option maxRecDepth 20000 in
/-- **src_router_builder**: `from_recorder` starts with the NONE mask, no target and three empty tries; `build` moves every
    field into the `Router` unchanged; the wildcard arm of `add_route` is the `panic!` (`Mask.ofBits` = `none`) and nothing
    follows the `match` but returning `self`.  `Stack::new` wraps, `push` wraps what the layer makes of the current inner
    recorder (`stack`), `install` hands the stack to `set_global_recorder`. -/
theorem src_router_builder :
    Generated.layers_router_builder_impl =
      ["fnfrom_recorder<R>(recorder:R)->SelfwhereR:Recorder+Sync+'static,{RouterBuilder{default:Box::new(recorder),global_mask:MetricKindMask::NONE,targets:Vec::new(),counter_routes:Trie::new(),gauge_routes:Trie::new(),histogram_routes:Trie::new(),}}",
       "fnbuild(self)->Router{Router{default:self.default,global_mask:self.global_mask,targets:self.targets,counter_routes:self.counter_routes,gauge_routes:self.gauge_routes,histogram_routes:self.histogram_routes,}}"]
    ∧ Generated.layers_add_route_wildcard = "panic!(\"cannotaddrouteforunknownoremptymetrickindmask\")"
    ∧ Generated.layers_add_route_epilogue = "self"
    ∧ Generated.layers_stack_impl =
      ["fnnew(inner:R)->Self{Stack{inner}}",
       "fnpush<L:Layer<R>>(self,layer:L)->Stack<L::Output>{Stack::new(layer.layer(self.inner))}"]
    ∧ Generated.layers_stack_install_impl =
      ["fninstall(self)->Result<(),SetRecorderError<Self>>{metrics::set_global_recorder(self)}"] := by
  decide

/-! ## non-vacuity: concrete, non-trivial inputs -/

section examples

private def opc (name : String) : Op :=
  { reg := true, kind := .counter, name := name.toList, labels := [(['k'], ['v'])], unit := none, desc := [], metadata := ['m'] }
private def oph (name : String) : Op := { opc name with kind := .histogram }

/-- overlapping routes "a" (ALL), "ab" (counter), "abc" (ALL), "ab" (counter, duplicate), "" (gauge) -/
private def routes : List (Mask × Str) :=
  [(.all, ['a']), (.counter, ['a', 'b']), (.all, ['a', 'b', 'c']), (.counter, ['a', 'b']), (.gauge, [])]

-- longest prefix for the kind; the later duplicate wins; other kinds' routes are ignored; default otherwise
example : routeIdx routes .counter ['a', 'b', 'd'] = some 3 := by decide
example : routeIdx routes .histogram ['a', 'b', 'd'] = some 0 := by decide
example : routeIdx routes .counter ['a', 'b', 'c', 'd'] = some 2 := by decide
example : routeIdx routes .gauge ['x'] = some 4 := by decide
example : routeIdx routes .counter ['x'] = none := by decide
example : routeIdx routes .counter [] = none := by decide
example : routeIdx [(.counter, ['a'])] .gauge ['a'] = none := by decide

-- case-insensitive filter: ASCII folded, non-ASCII not
example : shouldFilter [['a', 'B']] true ['x', 'A', 'b', 'y'] = true := by decide
example : shouldFilter [['a', 'B']] false ['x', 'A', 'b', 'y'] = false := by decide
example : shouldFilter [['É']] true ['é'] = false := by decide
example : shouldFilter [[]] false [] = true := by decide
example : shouldFilter [] true ['a'] = false := by decide

-- a stack [prefix "in", filter "out.a", prefix "out"] over a router over a fanout: the filter sees "out.<name>"
private def tree : Rec :=
  stack (.router (.base 0) [(.all, ['i', 'n', '.', 'o'])] [.fanout [.base 1, .fanout [.base 2, .base 3]]])
    [.pfx ['i', 'n'], .filter [['o', 'u', 't', '.', 'a']] false, .pfx ['o', 'u', 't']]

example : (tree.deliver (opc "b")).map (·.1) = [1, 2, 3] := by decide
example : (tree.deliver (opc "b")).map (·.2.name) = List.replicate 3 "in.out.b".toList := by decide
example : tree.deliver (opc "a") = [] := by decide
example : tree.handle (opc "a") = .noop := by rfl

-- record_many(7, 2) through the nested fanout handle: each of the three leaves gets two samples
example : ((tree.handle (oph "b")).apply (.hmany 7 2)).map (fun d => (d.1.1, d.2))
    = [(1, .hrec 7), (2, .hrec 7), (3, .hrec 7), (1, .hrec 7), (2, .hrec 7), (3, .hrec 7)] := by decide
-- … while a leaf handle reached without a fanout receives record_many itself
example : ((Rec.pfx ['p'] (.base 0)).handle (oph "b")).apply (.hmany 7 2)
    = [((0, { oph "b" with name := "p.b".toList }), .hmany 7 2)] := by decide

-- the builder: default() + add_pattern "t", "T" keeps both (case-sensitive), so "T.x" is dropped; setters are
-- plain assignments (true, then false ⇒ false); from_patterns without any call is case-sensitive
example : (FilterCfg.dflt.run [.add ['t'], .dfa true, .add ['T']]).patterns = [['t'], ['T']] := by decide
example : ((FilterCfg.dflt.run [.add ['t'], .add ['T']]).layer (.base 0)).deliver (opc "T.x") = [] := by decide
example : ((FilterCfg.fromPatterns [['t']]).run [.ci true, .dfa false, .ci false]).ci = false := by decide
example : ((FilterCfg.fromPatterns [['t']]).layer (.base 0)).deliver (opc "T.x") = [(0, opc "T.x")] := by decide
example : (((FilterCfg.fromPatterns [['t']]).run [.ci true]).layer (.base 0)).deliver (opc "T.x") = [] := by decide

-- one FilterLayer value, applied, extended, applied again, changed afterwards: two different filters
example : (FilterCfg.fromPatterns [['t']]).reuse
      [.layer (.base 0), .cfg (.add ['h']), .layer (.base 1), .cfg (.ci true)]
    = [.filter [['t']] false (.base 0), .filter [['t'], ['h']] false (.base 1)] := by rfl
example : ((Rec.fanout ((FilterCfg.fromPatterns [['t']]).reuse
      [.layer (.base 0), .cfg (.add ['h']), .layer (.base 1), .cfg (.ci true)])).deliver (opc "h")).map (·.1) = [0] := by
  decide

-- a prefix ending in a dot is kept: "a." + "." + "x"
example : ((prefixLayer ['a', '.'] (.base 0)).deliver (opc "x")).map (·.2.name) = ["a..x".toList] := by decide

-- set(5), increment(1), set(5) through a fan-out handle over two recorders: all six calls arrive, in order
example : ((Handle.fan [.leaf 0 (opc "g"), .leaf 1 (opc "g")]).applySeq [.gset 5, .ginc 1, .gset 5]).map (fun d => (d.1.1, d.2))
    = [(0, .gset 5), (1, .gset 5), (0, .ginc 1), (1, .ginc 1), (0, .gset 5), (1, .gset 5)] := by decide

-- sibling routes "fo", "fo.a", "fo.b" (the radix trie has a value-less node for "fo."): "fo.c" still goes to "fo"
example : routeIdx [(.all, ['f', 'o']), (.all, ['f', 'o', '.', 'a']), (.all, ['f', 'o', '.', 'b'])] .counter
    ['f', 'o', '.', 'c'] = some 0 := by decide

-- two client threads on one tree (router over a 2-wide fan-out): thread 0 registers "a1" (→ recorders 1 and 2), thread 1
-- registers "b" (→ default 0); under the schedule 0,1,0,1,0 thread 1's call lands BETWEEN the two deliveries of thread 0's
private def ctree : Rec := .router (.base 0) [(.all, ['a'])] [.fanout [.base 1, .base 2]]
private def cscripts : Nat → List Call
  | 0 => [.op (opc "a1"), .upd false 0 (.cinc 5)]
  | 1 => [.op (opc "b")]
  | _ => []
private def evBase : Ev → Nat
  | .got b _ => b
  | .upd l _ => l.1
example : ((Sys.init ctree [] cscripts).run [0, 1, 0, 1, 0]).log.map (fun x => (x.1, evBase x.2)) = [(0, 1), (1, 0), (0, 2)] := by
  decide
-- … and run to the end each thread has caused exactly what it causes alone (register to 1, 2, then the update to 1, 2)
example : (proj ((Sys.init ctree [] cscripts).run [0, 1, 0, 1, 0, 0, 0]).log 0).map evBase = [1, 2, 1, 2] := by decide
example : (((Sys.init ctree [] cscripts).run [0, 1, 0, 1, 0, 0, 0]).threads 0).finished = true := by decide
-- a handle used after its tree is gone; a composite mask
example : ((({ tree := some ctree, handles := [ctree.handle (opc "a1")] } : Client).dropTree).update 0 [.cinc 1]).map (·.1.1) = [1, 2] := by
  decide
example : Mask.ofBits 3 = none ∧ Mask.ofBits 7 = some .all := by decide

end examples

end MetricsVerif.C13
