/-
C13 — layers deliver exactly the transformed operations to exactly the right recorders.

Model: `Model/Layers.lean` (recorder trees over numbered base recorders, handle trees).  All theorems are for
ALL names (empty, non-ASCII, …), label sets, kinds, units, descriptions, pattern sets, route tables (overlapping,
duplicated, per-kind and ALL masks), fan-out widths / nesting depths and layer lists: they are proved by
induction on the strings / route lists / trees / layer lists, nothing is enumerated.

Reading of the property's words: "case-insensitively" = modulo ASCII case (`ascii_case_insensitive`);
"contains" / "prefix" = contiguous substring / prefix of the string; for two routes with the same pattern and
kind the later `add_route` wins (the property leaves this open; `router_longest_prefix` states what the code
does).
-/
import MetricsVerif.Proofs.Layers

namespace MetricsVerif.C13
open MetricsVerif.Layers

/-! ## prefix -/

/-- **prefix_exact**: the prefix layer forwards every describe / register to its inner recorder with the name
    `<prefix>.<name>` and every other field (describe-or-register, kind, labels, unit, description, metadata)
    unchanged; the handle it returns is the inner recorder's handle for that forwarded operation. -/
theorem prefix_exact (p : Str) (r : Rec) (op : Op) :
    (Rec.pfx p r).deliver op = r.deliver { op with name := p ++ ['.'] ++ op.name }
    ∧ (Rec.pfx p r).handle op = r.handle { op with name := p ++ ['.'] ++ op.name } := by
  simp [Rec.deliver, Rec.handle, prefixOp, prefixName]

/-- a prefix layer directly over base recorder `i`: that recorder receives exactly one operation, the renamed one -/
theorem prefix_exact_base (p : Str) (i : Nat) (op : Op) :
    (Rec.pfx p (.base i)).deliver op = [(i, { op with name := p ++ ['.'] ++ op.name })] := by
  simp [Rec.deliver, prefixOp, prefixName]

/-! ## filter -/

/-- ASCII case folding touches nothing but `A`…`Z` (in particular no non-ASCII letter) … -/
theorem asciiLower_other (c : Char) (h : c.toNat < 65 ∨ 90 < c.toNat) : asciiLower c = c := by
  unfold asciiLower
  split
  · omega
  · rfl

/-- … and maps `A`…`Z` to `a`…`z` -/
theorem asciiLower_upper (c : Char) (h : 65 ≤ c.toNat ∧ c.toNat ≤ 90) :
    (asciiLower c).toNat = c.toNat + 32 := by
  have key : ∀ n : Nat, n < 200 → (Char.ofNat n).toNat = n := by
    intro n hn
    have hv : n.isValidChar := by left; omega
    simp [Char.ofNat, hv, Char.ofNatAux, Char.toNat]
  unfold asciiLower
  rw [if_pos h]
  exact key _ (by omega)

/-- **filter_iff_substring**: the filter's decision is exactly "some pattern occurs in the name as a contiguous
    substring" — compared literally when case-sensitive, modulo ASCII case when case-insensitive. -/
theorem filter_iff_substring (pats : List Str) (ci : Bool) (name : Str) :
    shouldFilter pats ci name = true ↔ ∃ p ∈ pats, fold ci p <:+: fold ci name := by
  simp [shouldFilter, List.any_eq_true, isInfixOf_iff]

/-- what is compared: the strings themselves, or their ASCII-lower-cased images -/
theorem fold_spec (s : Str) : fold false s = s ∧ fold true s = s.map asciiLower := by
  simp [fold]

/-- the filter layer drops the operation (nothing reaches any recorder below, the handle is inert) exactly when
    a pattern occurs in the name, and otherwise forwards it unchanged -/
theorem filter_exact (pats : List Str) (ci : Bool) (r : Rec) (op : Op) :
    ((∃ p ∈ pats, fold ci p <:+: fold ci op.name) →
        (Rec.filter pats ci r).deliver op = [] ∧ (Rec.filter pats ci r).handle op = .noop)
    ∧ ((¬ ∃ p ∈ pats, fold ci p <:+: fold ci op.name) →
        (Rec.filter pats ci r).deliver op = r.deliver op ∧ (Rec.filter pats ci r).handle op = r.handle op) := by
  rw [← filter_iff_substring]
  constructor
  · intro h; simp [Rec.deliver, Rec.handle, h]
  · intro h; simp [Rec.deliver, Rec.handle, h]

/-- an inert handle delivers nothing, whatever is done with it -/
theorem noop_inert (u : Upd) : Handle.noop.apply u = [] := by
  simp [Handle.apply]

/-! ## router -/

/-- **router_longest_prefix**: the routing decision for (kind, name) over the routes in `add_route` order.
    If it is route `i`, then that route is for this kind, its pattern is a prefix of the name, no route for this
    kind that is a prefix of the name is longer, and among routes for this kind with the same pattern it is the
    last one added.  If it is the default, no route for this kind is a prefix of the name. -/
theorem router_longest_prefix (routes : List (Mask × Str)) (k : Kind) (name : Str) :
    (∀ i, routeIdx routes k name = some i →
      ∃ m p, routes[i]? = some (m, p) ∧ m.covers k = true ∧ p <+: name ∧
        ∀ j m' p', routes[j]? = some (m', p') → m'.covers k = true → p' <+: name →
          p'.length ≤ p.length ∧ (p' = p → j ≤ i))
    ∧ (routeIdx routes k name = none →
      ∀ m' p', (m', p') ∈ routes → m'.covers k = true → ¬ p' <+: name) := by
  constructor
  · intro i hi
    simp only [routeIdx, Builder.route] at hi
    split at hi
    · cases hi
    · simp only [Option.map_eq_some_iff] at hi
      obtain ⟨⟨key, v⟩, hga, rfl⟩ := hi
      obtain ⟨hpre, hget, hmax⟩ := Trie.getAncestor_some _ _ _ _ hga
      rw [get_built] at hget
      obtain ⟨m, hm1, hm2, hm3⟩ := lastIdx_some k key routes v hget
      refine ⟨m, key, hm1, hm2, hpre, ?_⟩
      intro j m' p' hj hc hp
      have hsome : (Trie.get ((Builder.addRoutes {} routes).routes k) p').isSome = true := by
        rw [get_built]
        cases hl : lastIdx k p' routes with
        | some _ => rfl
        | none =>
          exfalso
          exact lastIdx_none k p' routes hl m' (List.mem_iff_getElem?.mpr ⟨j, hj⟩) hc
      refine ⟨hmax p' hp hsome, ?_⟩
      intro hpp
      subst hpp
      exact hm3 j m' hj hc
  · intro hn m' p' hmem hc hp
    simp only [routeIdx, Builder.route] at hn
    split at hn
    · rename_i hmask
      rw [Builder.maskCovers_addRoutes] at hmask
      have : routes.any (fun r => r.1.covers k) = true := List.any_eq_true.mpr ⟨(m', p'), hmem, hc⟩
      simp [this] at hmask
    · simp only [Option.map_eq_none_iff] at hn
      have hg := Trie.getAncestor_none _ _ hn p' hp
      rw [get_built] at hg
      exact lastIdx_none k p' routes hg m' hmem hc

/-- the index the router uses is always a valid index into its targets -/
theorem routeIdx_lt (routes : List (Mask × Str)) (k : Kind) (name : Str) (i : Nat)
    (h : routeIdx routes k name = some i) : i < routes.length := by
  obtain ⟨m, p, hget, _⟩ := (router_longest_prefix routes k name).1 i h
  exact (List.getElem?_eq_some_iff.mp hget).1

/-- the router forwards the operation, unchanged, to exactly one recorder: the default when the decision is
    `none`, else the target added together with the chosen route -/
theorem router_exact (d : Rec) (routes : List (Mask × Str)) (ts : List Rec) (op : Op)
    (hlen : ts.length = routes.length) :
    ∃ t, (routeIdx routes op.kind op.name = none ∧ t = d
          ∨ ∃ i, routeIdx routes op.kind op.name = some i ∧ ts[i]? = some t)
      ∧ (Rec.router d routes ts).deliver op = t.deliver op
      ∧ (Rec.router d routes ts).handle op = t.handle op := by
  cases h : routeIdx routes op.kind op.name with
  | none => exact ⟨d, Or.inl ⟨rfl, rfl⟩, by simp [Rec.deliver, h], by simp [Rec.handle, h]⟩
  | some i =>
    have hi : i < ts.length := hlen ▸ routeIdx_lt routes op.kind op.name i h
    have hg : ts[i]? = some ts[i] := List.getElem?_eq_getElem hi
    refine ⟨ts[i], Or.inr ⟨i, rfl, hg⟩, ?_, ?_⟩
    · simp [Rec.deliver, h, deliverNth_of_get ts i _ op hg]
    · simp [Rec.handle, h, handleNth_of_get ts i _ op hg]

/-! ## fanout -/

/-- the fanout forwards the operation, unchanged, to every recorder, in order; its handle is the vector of
    their handles -/
theorem fanout_exact (rs : List Rec) (op : Op) :
    (Rec.fanout rs).deliver op = rs.flatMap (·.deliver op)
    ∧ (Rec.fanout rs).handle op = .fan (rs.map (·.handle op)) := by
  simp [Rec.deliver, Rec.handle, deliverAll_eq, handleAll_eq]

/-- a fanout over base recorders `ids`: each of them receives the operation exactly once -/
theorem fanout_bases (ids : List Nat) (op : Op) :
    (Rec.fanout (ids.map .base)).deliver op = ids.map (fun i => (i, op)) := by
  rw [(fanout_exact _ _).1]
  induction ids with
  | nil => rfl
  | cons i ids ih => simp [Rec.deliver, List.flatMap_cons, ih]

mutual
/-- **fanout_all_once**: through a handle tree of any width and depth, every update reaches every leaf handle
    exactly once — as many times as the leaf occurs in the tree — and nothing else is delivered:
    for each leaf `l` and elementary call `e`, the number of `(l, e)` received equals
    (occurrences of `l` among the leaves) × (occurrences of `e` in the update), where `record_many(v, n)`
    stands for `n` × `record(v)`. -/
theorem fanout_all_once : ∀ (h : Handle) (u : Upd) (l : Nat × Op) (e : Upd),
    ((h.apply u).flatMap normD).count (l, e) = h.leaves.count l * (norm u).count e
  | .noop, u, l, e => by simp [Handle.apply, Handle.leaves]
  | .leaf b op, u, l, e => by
    simp only [Handle.apply, Handle.leaves, List.flatMap_cons, List.flatMap_nil, List.append_nil, normD,
      count_pair_map, List.count_singleton, beq_iff_eq]
    by_cases hl : (b, op) = l <;> simp [hl]
  | .fan hs, u, l, e => by
    have hall := fun u => fanout_all_once_list hs u l e
    cases u with
    | hmany v n =>
      simp only [Handle.apply, Handle.leaves, rounds_flatMap, count_rounds, hall, norm_hrec_count]
      simp only [norm, List.count_replicate, beq_iff_eq]
      by_cases he : Upd.hrec v = e <;> simp [he, Nat.mul_comm]
    | cinc n => simpa only [Handle.apply, Handle.leaves] using hall _
    | cabs n => simpa only [Handle.apply, Handle.leaves] using hall _
    | ginc n => simpa only [Handle.apply, Handle.leaves] using hall _
    | gdec n => simpa only [Handle.apply, Handle.leaves] using hall _
    | gset n => simpa only [Handle.apply, Handle.leaves] using hall _
    | hrec n => simpa only [Handle.apply, Handle.leaves] using hall _
theorem fanout_all_once_list : ∀ (hs : List Handle) (u : Upd) (l : Nat × Op) (e : Upd),
    ((applyAll hs u).flatMap normD).count (l, e) = (leavesAll hs).count l * (norm u).count e
  | [], u, l, e => by simp [applyAll, leavesAll]
  | h :: hs, u, l, e => by
    simp only [applyAll, leavesAll, List.flatMap_append, List.count_append, fanout_all_once h u l e,
      fanout_all_once_list hs u l e, Nat.add_mul]
end

mutual
/-- the leaf handles of the handle a register returns are exactly the `(recorder, operation)` pairs that
    received the registration: updates through the handle go to those recorders and no others -/
theorem handle_leaves : ∀ (r : Rec) (op : Op), (r.handle op).leaves = r.deliver op
  | .base id, op => by simp [Rec.handle, Rec.deliver, Handle.leaves]
  | .pfx p r, op => by simp only [Rec.handle, Rec.deliver]; exact handle_leaves r _
  | .filter pats ci r, op => by
    simp only [Rec.handle, Rec.deliver]
    split
    · simp [Handle.leaves]
    · exact handle_leaves r op
  | .router d routes ts, op => by
    simp only [Rec.handle, Rec.deliver]
    split
    · exact handle_leaves d op
    · exact handle_leaves_nth ts _ op
  | .fanout rs, op => by
    simp only [Rec.handle, Rec.deliver, Handle.leaves]
    exact handle_leaves_all rs op
theorem handle_leaves_all : ∀ (rs : List Rec) (op : Op), leavesAll (handleAll rs op) = deliverAll rs op
  | [], op => by simp [handleAll, deliverAll, leavesAll]
  | r :: rs, op => by
    simp only [handleAll, deliverAll, leavesAll, handle_leaves r op, handle_leaves_all rs op]
theorem handle_leaves_nth : ∀ (rs : List Rec) (i : Nat) (op : Op),
    (handleNth rs i op).leaves = deliverNth rs i op
  | [], _, op => by simp [handleNth, deliverNth, Handle.leaves]
  | r :: _, 0, op => by simp only [handleNth, deliverNth]; exact handle_leaves r op
  | _ :: rs, i + 1, op => by simp only [handleNth, deliverNth]; exact handle_leaves_nth rs i op
end

/-- every update through the handle of a fanned-out registration reaches each recorder that received the
    registration once (`fanout_all_once` + `handle_leaves`) -/
theorem fanout_update_reaches_all (r : Rec) (op : Op) (u : Upd) (l : Nat × Op) (e : Upd) :
    (((r.handle op).apply u).flatMap normD).count (l, e) = (r.deliver op).count l * (norm u).count e := by
  rw [fanout_all_once, handle_leaves]

/-! ## stacks -/

/-- what one layer does to an operation: `some op'` = forwards `op'`, `none` = drops -/
def layerTr : Layer → Op → Option Op
  | .pfx p, op => some (prefixOp p op)
  | .filter pats ci, op => if shouldFilter pats ci op.name then none else some op

/-- a layer as a transformer of "what the recorder below does with an operation" -/
def layerSem {β : Type} (inert : β) (l : Layer) (below : Op → β) : Op → β :=
  fun op => match layerTr l op with
    | none => inert
    | some op' => below op'

/-- composition of the layers of a stack (push order): the last pushed layer sees the operation first -/
def stackTr : List Layer → Op → Option Op
  | [], op => some op
  | l :: ls, op => (stackTr ls op).bind (layerTr l)

/-- forward to `r` or drop -/
def deliverOpt (r : Rec) : Option Op → List (Nat × Op)
  | none => []
  | some op => r.deliver op
def handleOpt (r : Rec) : Option Op → Handle
  | none => .noop
  | some op => r.handle op

theorem layer_sem (l : Layer) (r : Rec) (op : Op) :
    (l.layer r).deliver op = layerSem [] l r.deliver op ∧ (l.layer r).handle op = layerSem .noop l r.handle op := by
  cases l with
  | pfx p => simp [Layer.layer, layerSem, layerTr, Rec.deliver, Rec.handle]
  | filter pats ci =>
    simp only [Layer.layer, layerSem, layerTr, Rec.deliver, Rec.handle]
    split <;> simp

/-- **stack_is_composition**: a stack is the composition of its layers in push order — as functions, pushing
    layer `l` on a stack wraps the stack's behaviour in `l`'s behaviour (by induction on the layer list) -/
theorem stack_is_composition (inner : Rec) (ls : List Layer) :
    (stack inner ls).deliver = ls.foldl (fun below l => layerSem [] l below) inner.deliver
    ∧ (stack inner ls).handle = ls.foldl (fun below l => layerSem .noop l below) inner.handle := by
  induction ls generalizing inner with
  | nil => exact ⟨rfl, rfl⟩
  | cons l ls ih =>
    have h1 : (l.layer inner).deliver = layerSem [] l inner.deliver := funext fun op => (layer_sem l inner op).1
    have h2 : (l.layer inner).handle = layerSem .noop l inner.handle := funext fun op => (layer_sem l inner op).2
    have := ih (l.layer inner)
    simp only [stack, List.foldl_cons] at this ⊢
    rw [this.1, this.2, h1, h2]
    exact ⟨rfl, rfl⟩

/-- the same, operation by operation: the stack applies its layers' transformations, last pushed first, and
    hands the result (if no filter dropped it) to the recorder at the bottom -/
theorem stack_transform (inner : Rec) (ls : List Layer) (op : Op) :
    (stack inner ls).deliver op = deliverOpt inner (stackTr ls op)
    ∧ (stack inner ls).handle op = handleOpt inner (stackTr ls op) := by
  induction ls generalizing inner with
  | nil => exact ⟨rfl, rfl⟩
  | cons l ls ih =>
    have := ih (l.layer inner)
    simp only [stack, List.foldl_cons] at this ⊢
    rw [this.1, this.2]
    simp only [stackTr]
    cases stackTr ls op with
    | none => exact ⟨rfl, rfl⟩
    | some op' =>
      have hl := layer_sem l inner op'
      simp only [deliverOpt, handleOpt, Option.bind_some, hl.1, hl.2, layerSem]
      cases layerTr l op' <;> simp

/-- pushing further layers onto a stack = a stack over the stack built so far -/
theorem stack_append (inner : Rec) (ls₁ ls₂ : List Layer) :
    stack inner (ls₁ ++ ls₂) = stack (stack inner ls₁) ls₂ := by
  simp [stack, List.foldl_append]

/-! ## non-vacuity: concrete, non-trivial inputs -/

section examples

private def opc (name : String) : Op :=
  { reg := true, kind := .counter, name := name.toList, labels := [(['k'], ['v'])], unit := none, desc := [], metadata := ['m'] }
private def oph (name : String) : Op := { opc name with kind := .histogram }

/-- overlapping routes "a" (ALL), "ab" (counter), "abc" (ALL), "ab" (counter, duplicate), "" (gauge) -/
private def routes : List (Mask × Str) :=
  [(.all, ['a']), (.counter, ['a', 'b']), (.all, ['a', 'b', 'c']), (.counter, ['a', 'b']), (.gauge, [])]

-- longest prefix for the kind; the later duplicate wins; other kinds' routes are ignored; default otherwise
example : routeIdx routes .counter ['a', 'b', 'd'] = some 3 := by decide
example : routeIdx routes .histogram ['a', 'b', 'd'] = some 0 := by decide
example : routeIdx routes .counter ['a', 'b', 'c', 'd'] = some 2 := by decide
example : routeIdx routes .gauge ['x'] = some 4 := by decide
example : routeIdx routes .counter ['x'] = none := by decide
example : routeIdx routes .counter [] = none := by decide
example : routeIdx [(.counter, ['a'])] .gauge ['a'] = none := by decide

-- case-insensitive filter: ASCII folded, non-ASCII not
example : shouldFilter [['a', 'B']] true ['x', 'A', 'b', 'y'] = true := by decide
example : shouldFilter [['a', 'B']] false ['x', 'A', 'b', 'y'] = false := by decide
example : shouldFilter [['É']] true ['é'] = false := by decide
example : shouldFilter [[]] false [] = true := by decide
example : shouldFilter [] true ['a'] = false := by decide

-- a stack [prefix "in", filter "out.a", prefix "out"] over a router over a fanout: the filter sees "out.<name>"
private def tree : Rec :=
  stack (.router (.base 0) [(.all, ['i', 'n', '.', 'o'])] [.fanout [.base 1, .fanout [.base 2, .base 3]]])
    [.pfx ['i', 'n'], .filter [['o', 'u', 't', '.', 'a']] false, .pfx ['o', 'u', 't']]

example : (tree.deliver (opc "b")).map (·.1) = [1, 2, 3] := by decide
example : (tree.deliver (opc "b")).map (·.2.name) = List.replicate 3 "in.out.b".toList := by decide
example : tree.deliver (opc "a") = [] := by decide
example : tree.handle (opc "a") = .noop := by rfl

-- record_many(7, 2) through the nested fanout handle: each of the three leaves gets two samples
example : ((tree.handle (oph "b")).apply (.hmany 7 2)).map (fun d => (d.1.1, d.2))
    = [(1, .hrec 7), (2, .hrec 7), (3, .hrec 7), (1, .hrec 7), (2, .hrec 7), (3, .hrec 7)] := by decide
-- … while a leaf handle reached without a fanout receives record_many itself
example : ((Rec.pfx ['p'] (.base 0)).handle (oph "b")).apply (.hmany 7 2)
    = [((0, { oph "b" with name := "p.b".toList }), .hmany 7 2)] := by decide

end examples

end MetricsVerif.C13
