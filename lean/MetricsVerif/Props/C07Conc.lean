/-
C07, concurrency clause — "for each histogram series the cumulative _count equals the number of samples ever recorded
under that key and _sum their sum, every sample being counted exactly once however record(), render() and run_upkeep()
calls are interleaved, repeated or RUN CONCURRENTLY".

Model: `Model/PromConc.lean` — one histogram series on top of the step machine of the lock-free bucket (`Model/Bucket.lean`,
one step = one shared-memory operation): `record` = push, a drain pass (`run_upkeep` / first half of `render`) = ONE
`clear_with` whose callback folds the detached samples into the distribution (count, sum).  Any number of recording
threads, any number of draining threads, any number of calls each, any block size, EVERY schedule.  Built on C05's
universal theorems (`Props/C05.lean`: `conservation_except_K1`, `accounting_except_K1`, `never_duplicates`,
`never_invents_count`).  Separate file because `Model/Prom` (sequential recorder) and `Model/Bucket` both have
`init`/`run`/`step`.

* `conc_never_counted_twice` — ALL schedules, EVERY moment: per value, folded by finished drains + folded by running
  drains + still pending in the bucket ≤ recorded.  No sample is ever counted twice, by two drains or by one; none is
  both counted and still pending; none is invented.
* `conc_count_le_begun` — ALL schedules, every moment: the same left-hand side is at most the number of record() calls
  that have at least claimed their slot (a render never shows a sample whose record() has not begun).
* `conc_dist_never_exceeds` — the (count, sum) form of the first: distribution + pending never exceeds the recorded
  samples, at any moment of any run.
* `conc_hist_conserved_partial` — every schedule WITHOUT a K1 step, at quiescence: per value, folded + pending = recorded;
  `conc_dist_conserved_partial`: distribution.count + pending.count = number of record() calls, same for the sums
  (the concurrent form of `C07.hist_conserved`).
* `conc_final_render_exact_partial` — every schedule without a K1 step in which one more drain pass (the final `render()`)
  starts after all recording threads and all other drainers have finished: the distribution is EXACTLY the recorded
  samples (count = number of completed record() calls, sum = their sum) and nothing is pending.
* `conc_accounting_partial` — every schedule without a K1 step, at EVERY moment: each completed record() (published slot)
  is in exactly one of: folded by a finished drain, folded by a running drain, pending reachable from the tail, in a
  detached block a running drain has not read yet.
* `conc_hist_exact_fails` — the full statement (without "no K1 step") is FALSE of the code: known finding K-C07-K1, the
  straggler of K-C05-K1 on the exporter's histogram; `conc_K1_witness_has_K1_step`: that schedule has exactly one K1 step.
* `conc_render_shows_completed_partial` / `conc_render_count_ge_completed_partial` — the clause "a render shows everything
  recorded before it began": every schedule without a K1 step — a drain pass that STARTS after a record() returned and has
  ended has that sample in the distribution, when the render reads the distributions while no drain is inside
  `clear_with` (the exporter's lock).  No hypothesis about the detach is left since the fix "clear_with retries its detach
  when the tail moved under it" (metrics-util): a failed detach CAS is retried (`C05.detach_cas_all_or_nothing`).
* `legacy_render_misses_completed_record` — the repaired defect (was known finding K-C07-K2), kept as a theorem about the
  LEGACY step (`Bucket.stepLegacy`): a drain pass whose detach CAS failed folded nothing, so the render it belongs to
  missed samples recorded before it began; `conc_render_after_failed_detach_shows_all`: the same schedule on the repaired
  step — the pass retries and folds both samples.
* `grants_are_steps` — the schedules the correspondence stream replays (scheduler grants) are schedules of the step machine.
-/
import MetricsVerif.Proofs.PromConc
import MetricsVerif.Props.C05
import MetricsVerif.Generated.SourceFacts

namespace MetricsVerif.C07
open MetricsVerif.Bucket MetricsVerif.PromConc

/-- folding batch after batch (`record_samples` once per drained block, once per drain pass) is folding the
    concatenation: the distribution depends only on WHICH samples were handed to the callbacks -/
theorem Dist.record_append (d : Dist) (a b : List Nat) : (d.record a).record b = d.record (a ++ b) := by
  simp only [Dist.record, List.length_append, List.sum_append, Nat.add_assoc]

/-- the distribution of permuted samples is the same distribution -/
theorem Dist.record_perm (d : Dist) {a b : List Nat} (h : a.Perm b) : d.record a = d.record b := by
  simp only [Dist.record, h.length_eq, h.sum_nat]

/-! ### all schedules: never twice, never invented -/

/-- **no sample is ever counted twice, none is invented — in every interleaving, at every moment.**  Any recording
    threads `recs`, any draining threads `drains`, any block size, EVERY schedule, value by value: (occurrences folded into
    the distribution by the drain passes that have finished) + (occurrences folded by the drain passes still walking their
    chain) + (occurrences still pending in the bucket) ≤ (times the value was recorded). -/
theorem conc_never_counted_twice (B : Nat) (recs : List (List Nat)) (drains : List Nat) (sched : List Nat) (v : Nat) :
    let s := run (Bucket.init B (progsOf recs drains)) sched
    (delivered s).count v + (inRunningClears s).count v + (visible s).count v ≤ (recorded recs).count v := by
  intro s
  have h1 := folded_visible_le_cells B (progsOf recs drains) sched v
  have h2 := C05.never_invents_count B (progsOf recs drains) sched v
  rw [count_push_progsOf] at h2
  simp only [s]
  omega

/-- **a drain never folds (and a render never shows) a sample whose record() has not begun**: all schedules, every
    moment — folded + pending ≤ slots claimed by record() calls so far -/
theorem conc_count_le_begun (B : Nat) (recs : List (List Nat)) (drains : List Nat) (sched : List Nat) (v : Nat) :
    let s := run (Bucket.init B (progsOf recs drains)) sched
    (delivered s).count v + (inRunningClears s).count v + (visible s).count v ≤ cellsCount v s :=
  folded_visible_le_cells B (progsOf recs drains) sched v

theorem length_le_of_count_le : ∀ (a b : List Nat), (∀ v, a.count v ≤ b.count v) → a.length ≤ b.length ∧ a.sum ≤ b.sum := by
  intro a
  induction a with
  | nil => intro b _; simp
  | cons x xs ih =>
    intro b h
    have hx : x ∈ b := by
      have := h x
      simp only [List.count_cons_self] at this
      exact List.count_pos_iff.mp (by omega)
    have hb := List.perm_cons_erase hx
    have hrec := ih (b.erase x) (fun v => by
      have h1 := h v
      have h2 := hb.count_eq v
      simp only [List.count_cons] at h1 h2
      omega)
    have hl := hb.length_eq
    have hs := hb.sum_nat
    simp only [List.length_cons, List.sum_cons] at hl hs ⊢
    omega

/-- the (count, sum) form: at every moment of every run, distribution + pending never exceeds the recorded samples —
    `_count` never exceeds the number of record() calls in the programs, `_sum` never exceeds their sum -/
theorem conc_dist_never_exceeds (B : Nat) (recs : List (List Nat)) (drains : List Nat) (sched : List Nat) :
    let s := run (Bucket.init B (progsOf recs drains)) sched
    (distOf s).count + (pendingOf s).count ≤ (recorded recs).length
    ∧ (distOf s).sum + (pendingOf s).sum ≤ (recorded recs).sum := by
  intro s
  have h := length_le_of_count_le (delivered s ++ visible s) (recorded recs) (fun v => by
    have := conc_never_counted_twice B recs drains sched v
    simp only [List.count_append]
    simp only [s]
    omega)
  simp only [distOf, pendingOf, Dist.record, Dist.zero, List.length_append, List.sum_append] at h ⊢
  omega

/-! ### schedules without a K1 step: exactly once -/

/-- **conservation** (count form, per value): any recording and draining threads, any block size, EVERY schedule in
    which no record()'s slot claim lands on a block a drain has already detached (no K1 step), once all calls have
    returned: folded into the distribution + still pending = recorded. -/
theorem conc_hist_conserved_partial (B : Nat) (recs : List (List Nat)) (drains : List Nat) (sched : List Nat)
    (hk : C05.stragglerClaims B (progsOf recs drains) sched = 0)
    (hq : quiescent (run (Bucket.init B (progsOf recs drains)) sched) = true) (v : Nat) :
    let s := run (Bucket.init B (progsOf recs drains)) sched
    (delivered s).count v + (visible s).count v = (recorded recs).count v := by
  intro s
  have h := C05.conservation_except_K1 B (progsOf recs drains) sched hk hq v
  rw [count_push_progsOf] at h
  exact h.symm

/-- **conservation, as the rendered numbers**: same scope — distribution.count + pending.count = number of record()
    calls, distribution.sum + pending.sum = sum of the recorded samples (the concurrent form of `C07.hist_conserved`:
    the next drain pass folds exactly the pending ones in). -/
theorem conc_dist_conserved_partial (B : Nat) (recs : List (List Nat)) (drains : List Nat) (sched : List Nat)
    (hk : C05.stragglerClaims B (progsOf recs drains) sched = 0)
    (hq : quiescent (run (Bucket.init B (progsOf recs drains)) sched) = true) :
    let s := run (Bucket.init B (progsOf recs drains)) sched
    (distOf s).count + (pendingOf s).count = (recorded recs).length
    ∧ (distOf s).sum + (pendingOf s).sum = (recorded recs).sum := by
  intro s
  have hp : (delivered s ++ visible s).Perm (recorded recs) := by
    rw [List.perm_iff_count]
    intro v
    rw [List.count_append]
    exact conc_hist_conserved_partial B recs drains sched hk hq v
  have hl := hp.length_eq
  have hs := hp.sum_nat
  simp only [distOf, pendingOf, Dist.record, Dist.zero, List.length_append, List.sum_append] at hl hs ⊢
  omega

/-- **the final render is exact**: recording threads `recs`, draining threads `drains`, plus ONE more drain pass (thread
    `f`, the last one: the `render()` taken after everything) that has not started when all the other threads have
    finished (`pre`), and then runs (`fin`).  For every such schedule without a K1 step: when it has finished, the
    distribution is exactly the recorded samples — `_count` = number of record() calls, `_sum` = their sum, every sample
    counted exactly once — and nothing is left pending. -/
theorem conc_final_render_exact_partial (B : Nat) (recs : List (List Nat)) (drains : List Nat) (pre fin : List Nat)
    (hk : C05.stragglerClaims B (progsOf recs (drains ++ [1])) (pre ++ fin) = 0)
    (hothers : ∀ (i : Nat) (t : Thread), (run (Bucket.init B (progsOf recs (drains ++ [1]))) pre).threads[i]? = some t →
        i ≠ recs.length + drains.length → t.pc = .done)
    (hme : (run (Bucket.init B (progsOf recs (drains ++ [1]))) pre).threads[recs.length + drains.length]?
        = some (mkThread [.clear]))
    (hq : quiescent (run (Bucket.init B (progsOf recs (drains ++ [1]))) (pre ++ fin)) = true) :
    let s := run (Bucket.init B (progsOf recs (drains ++ [1]))) (pre ++ fin)
    distOf s = Dist.zero.record (recorded recs) ∧ visible s = [] ∧ (∀ v, (delivered s).count v = (recorded recs).count v) := by
  intro s
  have h0 : FinalDrain (run (Bucket.init B (progsOf recs (drains ++ [1]))) pre) (recs.length + drains.length) :=
    ⟨hothers, ⟨mkThread [.clear], hme, by simp [finalPhase, mkThread]⟩⟩
  have h1 := finalDrain_run _ fin _ h0
  rw [← run_append] at h1
  have htail := finalDrain_tail_none _ _ h1 hq
  have hvis : visible s = [] := visible_of_tail_none _ htail
  have hcount : ∀ v, (delivered s).count v = (recorded recs).count v := by
    intro v
    have := conc_hist_conserved_partial B recs (drains ++ [1]) (pre ++ fin) hk hq v
    simp only at this
    simp only [s]
    rw [visible_of_tail_none _ htail] at this
    simpa using this
  refine ⟨?_, hvis, hcount⟩
  unfold distOf
  exact Dist.record_perm _ (List.perm_iff_count.mpr hcount)

/-- **accounting at every moment** (schedules without a K1 step, NOT only at quiescence): every completed record()
    of `v` (published slot) is in exactly one of: folded by a finished drain pass, folded by a drain pass that is still
    walking its chain, pending in a block reachable from the tail (the next drain pass folds it in), or in a detached
    block that a running drain pass has not read yet (it reads it only after it saw the block quiesced). -/
theorem conc_accounting_partial (B : Nat) (recs : List (List Nat)) (drains : List Nat) (sched : List Nat)
    (hk : C05.stragglerClaims B (progsOf recs drains) sched = 0) (v : Nat) :
    let s := run (Bucket.init B (progsOf recs drains)) sched
    let own := (grun (Bucket.init B (progsOf recs drains)) own0 sched).2
    pubCount v s = (delivered s).count v + (inRunningClears s).count v + pubIn v isLive own s + pubIn v isDet own s :=
  C05.accounting_except_K1 B (progsOf recs drains) sched hk v

/-! ### the full statement is false of the code: K-C07-K1 -/

/-- the clause "every sample is counted exactly once however record() and the drains are interleaved" is FALSE of the
    code without the K1 hypothesis (known finding K-C07-K1, inherits K-C05-K1): recorder 1 loads the tail, the drain pass
    of thread 2 detaches the chain, waits for recorder 0 and folds its sample, then recorder 1 claims and publishes its
    slot in the detached block.  Both record() calls have returned; the final drain pass (thread 3), started after
    everything else has finished, finds nothing: the distribution shows count 1 (sum 1) for 2 recorded samples (sum 3),
    and nothing is pending — the sample is reported by no render, ever.  (Block size 2 keeps the kernel evaluation small;
    the harness replays the schedule on the real exporter with 64.) -/
theorem conc_hist_exact_fails :
    let progs := progsOf [[1], [2]] ([1] ++ [1])
    let pre := [0, 1, 2, 0, 0, 0, 0, 1, 2, 2, 2, 2, 2, 1, 1]
    let s := run (Bucket.init 2 progs) (pre ++ [3, 3])
    quiescent s = true ∧ completedPushes s = 2
    ∧ (run (Bucket.init 2 progs) pre).threads[3]? = some (mkThread [.clear])
    ∧ distOf s = { count := 1, sum := 1 } ∧ pendingOf s = { count := 0, sum := 0 }
    ∧ Dist.zero.record (recorded [[1], [2]]) = { count := 2, sum := 3 } := by decide

/-- the hypothesis of the `_partial` theorems is exactly what that witness violates: its schedule has ONE K1 step (recorder
    1's slot claim, taken after the drain's detach CAS), and none before it -/
theorem conc_K1_witness_has_K1_step :
    C05.stragglerClaims 2 (progsOf [[1], [2]] ([1] ++ [1])) ([0, 1, 2, 0, 0, 0, 0, 1, 2, 2, 2, 2, 2, 1, 1] ++ [3, 3]) = 1
    ∧ C05.stragglerClaims 2 (progsOf [[1], [2]] ([1] ++ [1])) [0, 1, 2, 0, 0, 0, 0, 1, 2, 2, 2, 2, 2] = 0 := by decide

/-- REPAIRED DEFECT (was known finding K-C07-K2), kept as a theorem about the LEGACY step (`Bucket.stepLegacy`, the
    `clear_with` before the fix "clear_with retries its detach when the tail moved under it"): `clear_with` loaded the tail
    and detached with a compare-exchange; when a recording thread's block hand-over installed a new tail between the two, the
    compare-exchange failed and `clear_with` returned having drained NOTHING.  Witness (block size 1): record(1) has
    returned before the drain pass even starts; record(2) finds the block full; the drain pass loads the tail; record(2)
    installs the new block; the drain's CAS fails.  The pass folded nothing — a `render()` taken there showed `_count` 0
    although a record() had returned before it began — and both samples stayed pending for the next pass (nothing lost).
    Replayed on the real `PrometheusRecorder` with block size 64 before the fix (harness/src/c07.rs, concurrent cases
    i = 19, 20, 21: they now demand the full count). -/
theorem legacy_render_misses_completed_record :
    let progs := progsOf [[1], [2]] [1]
    let pre := [0, 0, 0, 0, 0]
    let rest := [1, 1, 1, 2, 2, 1, 2, 1, 1]
    completedPushes (runLegacy (Bucket.init 1 progs) pre) = 1
    ∧ (runLegacy (Bucket.init 1 progs) pre).threads[2]? = some (mkThread [.clear])
    ∧ quiescent (runLegacy (Bucket.init 1 progs) (pre ++ rest)) = true
    ∧ ((runLegacy (Bucket.init 1 progs) (pre ++ rest)).threads[2]?.map (·.results)) = some [.cleared []]
    ∧ distOf (runLegacy (Bucket.init 1 progs) (pre ++ rest)) = { count := 0, sum := 0 }
    ∧ pendingOf (runLegacy (Bucket.init 1 progs) (pre ++ rest)) = { count := 2, sum := 3 } := by decide

/-- the same programs and schedule on the REPAIRED step: after the failed CAS the drain pass is back at its tail load
    (nothing folded yet, the call has not returned); it loads the new tail, detaches, and folds BOTH samples — the render
    that follows shows `_count` 2, `_sum` 3, nothing pending.  No K1 step. -/
theorem conc_render_after_failed_detach_shows_all :
    let progs := progsOf [[1], [2]] [1]
    let pre := [0, 0, 0, 0, 0]
    let rest := [1, 1, 1, 2, 2, 1, 2, 1, 1]
    let fin := [2, 2, 2, 2, 2, 2, 2, 2, 2]
    completedPushes (run (Bucket.init 1 progs) pre) = 1
    ∧ (run (Bucket.init 1 progs) pre).threads[2]? = some (mkThread [.clear])
    ∧ ((run (Bucket.init 1 progs) (pre ++ rest)).threads[2]?.map (fun t => (t.pc, t.results))) = some (.cLoadTail, [])
    ∧ distOf (run (Bucket.init 1 progs) (pre ++ rest)) = { count := 0, sum := 0 }
    ∧ quiescent (run (Bucket.init 1 progs) (pre ++ rest ++ fin)) = true
    ∧ C05.stragglerClaims 1 progs (pre ++ rest ++ fin) = 0
    ∧ ((run (Bucket.init 1 progs) (pre ++ rest ++ fin)).threads[2]?.map (·.results)) = some [.cleared [2, 1]]
    ∧ distOf (run (Bucket.init 1 progs) (pre ++ rest ++ fin)) = { count := 2, sum := 3 }
    ∧ pendingOf (run (Bucket.init 1 progs) (pre ++ rest ++ fin)) = { count := 0, sum := 0 } := by decide

/-! ### a render shows what was recorded before it began (outside K1) -/

/-- **a render shows every sample recorded before it began — outside K1.**  Any recording threads, any draining threads,
    any block size, EVERY schedule `pre ++ mid` without a K1 step such that
    * after `pre` the draining thread `d` has not yet loaded the tail in its current drain pass (it is at `start` or at the
      tail load of a `clear_with`) and after `pre ++ mid` that pass has ended (`d` has more results than it had) — "the
      render's drain pass began after `pre` and is over", and
    * after `pre ++ mid` no thread is inside a `clear_with` walk (the moment a `render()` reads the distributions:
      it holds the read lock, every drain pass holds the write lock from before its `clear_with` to after it):
    every sample whose record() had returned when `pre` ended (published slot; `C05.completed_pushes_are_published`) has
    been folded into the distribution — value by value, at least as often as it had been recorded by then.  So the
    render shows it (`distOf` is what `_count` / `_sum` show), and by `conc_never_counted_twice` not more than once.
    The hypothesis "the tail was null at some moment" (no failed detach) of the earlier form of this theorem is GONE: since
    the fix "clear_with retries its detach when the tail moved under it" a pass that has ended has either seen a null tail
    or nulled it itself (`C05.beforeDetach_run`).  What remains: no K1 step (known finding K-C07-K1), and the lock
    hypothesis (the lock itself is not modelled). -/
theorem conc_render_shows_completed_partial (B : Nat) (recs : List (List Nat)) (drains : List Nat) (pre mid : List Nat)
    (d : Nat) (t0 t1 : Thread)
    (hk : C05.stragglerClaims B (progsOf recs drains) (pre ++ mid) = 0)
    (h0 : (run (Bucket.init B (progsOf recs drains)) pre).threads[d]? = some t0)
    (hcall : t0.calls.head? = some .clear) (hpc : t0.pc = .start ∨ t0.pc = .cLoadTail)
    (h1 : (run (Bucket.init B (progsOf recs drains)) (pre ++ mid)).threads[d]? = some t1)
    (hret : t0.results.length < t1.results.length)
    (hidle : ∀ (i : Nat) (t : Thread),
      (run (Bucket.init B (progsOf recs drains)) (pre ++ mid)).threads[i]? = some t → claim t.pc = none)
    (v : Nat) :
    pubCount v (run (Bucket.init B (progsOf recs drains)) pre)
      ≤ (delivered (run (Bucket.init B (progsOf recs drains)) (pre ++ mid))).count v :=
  C05.delivered_once_clear_returned B (progsOf recs drains) pre mid d t0 t1 hk h0 hcall hpc h1 hret hidle v

/-- a successful detach CAS of a drain pass nulls the tail (the moment from which everything published before is owned
    by that pass) -/
theorem conc_detach_nulls_tail (s : Sys) (d : Nat) (t : Thread) (old : Nat)
    (ht : s.threads[d]? = some t) (hpc : t.pc = .cCas old) (hok : s.tail = some old) : (step s d).tail = none := by
  rcases C05.detach_cas_all_or_nothing s d t old ht hpc with h | h
  · exact h.2.1
  · exact absurd hok h.1

/-- the (count, sum) form: under the same hypotheses `_count` shown by the render is at least the number of record()
    calls that had returned before the drain pass began, and `_sum` at least their sum -/
theorem conc_render_count_ge_completed_partial (B : Nat) (recs : List (List Nat)) (drains : List Nat)
    (pre mid : List Nat) (d : Nat) (t0 t1 : Thread)
    (hk : C05.stragglerClaims B (progsOf recs drains) (pre ++ mid) = 0)
    (h0 : (run (Bucket.init B (progsOf recs drains)) pre).threads[d]? = some t0)
    (hcall : t0.calls.head? = some .clear) (hpc : t0.pc = .start ∨ t0.pc = .cLoadTail)
    (h1 : (run (Bucket.init B (progsOf recs drains)) (pre ++ mid)).threads[d]? = some t1)
    (hret : t0.results.length < t1.results.length)
    (hidle : ∀ (i : Nat) (t : Thread),
      (run (Bucket.init B (progsOf recs drains)) (pre ++ mid)).threads[i]? = some t → claim t.pc = none)
    (done : List Nat)
    (hdone : ∀ v, done.count v ≤ pubCount v (run (Bucket.init B (progsOf recs drains)) pre)) :
    done.length ≤ (distOf (run (Bucket.init B (progsOf recs drains)) (pre ++ mid))).count
    ∧ done.sum ≤ (distOf (run (Bucket.init B (progsOf recs drains)) (pre ++ mid))).sum := by
  have h := length_le_of_count_le done (delivered (run (Bucket.init B (progsOf recs drains)) (pre ++ mid)))
    (fun v => Nat.le_trans (hdone v)
      (conc_render_shows_completed_partial B recs drains pre mid d t0 t1 hk h0 hcall hpc h1 hret hidle v))
  simpa [distOf, Dist.record, Dist.zero] using h

/-- non-vacuity (block size 2), ON A FAILED DETACH: four record() calls have returned (two full blocks) when the drain
    pass of thread 2 begins; the pass loads the tail; record(5) of thread 1 hands the tail over; the pass's CAS fails, it
    retries, detaches and folds all five samples — every hypothesis of `conc_render_shows_completed_partial` holds -/
example :
    let recs := [[1, 2, 3, 4], [5]]
    let progs := progsOf recs [1]
    let pre := [0,0,0,0,0, 0,0,0, 0,0,0,0,0, 0,0,0]
    let mid := [2,2, 1,1,1,1,1,1, 2, 2,2,2,2,2,2,2,2,2,2,2,2,2,2]
    C05.stragglerClaims 2 progs (pre ++ mid) = 0
    ∧ ((run (Bucket.init 2 progs) pre).threads[2]?.map (fun t => (t.calls.head?, t.pc, t.results.length)))
        = some (some .clear, .start, 0)
    ∧ ((run (Bucket.init 2 progs) (pre ++ [2,2, 1,1,1,1,1,1, 2])).threads[2]?.map (fun t => (t.pc, t.results)))
        = some (.cLoadTail, [])
    ∧ ((run (Bucket.init 2 progs) (pre ++ mid)).threads[2]?.map (·.results.length)) = some 1
    ∧ ((run (Bucket.init 2 progs) (pre ++ mid)).threads.map (fun t => (claim t.pc).isSome)) = [false, false, false]
    ∧ completedPushes (run (Bucket.init 2 progs) pre) = 4
    ∧ distOf (run (Bucket.init 2 progs) (pre ++ mid)) = { count := 5, sum := 15 } := by decide

/-- non-vacuity (block size 2): all four record() calls have returned when the drain pass of thread 2 begins; record(4)
    of thread 1 handed the tail over BEFORE the drain's tail load, so the detach succeeds (tail null after `m1`); after
    the pass the distribution holds all four samples -/
example :
    let recs := [[1, 2, 3], [4]]
    let progs := progsOf recs [1]
    let pre := [0,0,0,0,0, 0,0,0, 1,1,1,1,1,1, 0,0,0]
    let m1 := [2, 2, 2]
    let m2 := [2, 2, 2, 2, 2, 2, 2]
    C05.stragglerClaims 2 progs (pre ++ m1 ++ m2) = 0
    ∧ (run (Bucket.init 2 progs) (pre ++ m1)).tail = none
    ∧ ((run (Bucket.init 2 progs) (pre ++ m1 ++ m2)).threads[2]?.map (·.results.length)) = some 1
    ∧ ((run (Bucket.init 2 progs) (pre ++ m1 ++ m2)).threads.map (fun t => (claim t.pc).isSome)) = [false, false, false]
    ∧ completedPushes (run (Bucket.init 2 progs) pre) = 4
    ∧ distOf (run (Bucket.init 2 progs) (pre ++ m1 ++ m2)) = { count := 4, sum := 10 } := by decide

/-! ### the runs the correspondence stream replays -/

/-- a schedule of scheduler grants is that very schedule of single steps (one grant = one model step: the detaching CAS
    of `clear_with` has its own yield point `bkt.clear.cas` in bucket.rs, between the tail load and the CAS): what the
    driver's `promconc run` evaluates is a `run` of the step machine, so every theorem above applies to it -/
theorem grants_are_steps (s : Sys) (sched : List Nat) : sched.foldl grant s = run s sched :=
  foldl_grant_eq_run sched s

/-- SOURCE FACT (regenerated on every run): the drain loop visits EVERY registered histogram in EVERY pass — its body has
    no `continue` / `break` / `return` and no `if` (no key is skipped on a remembered generation, an emptiness test, a
    try-lock …), it takes the lock, and calls `clear_with` exactly once: the model's "one drain pass = one `clear_with`
    per key".  (The `while … try_write` wait of the verification hook is the only loop inside.) -/
theorem src_drain_every_key :
    Generated.prom_drain_loop_exits = [] ∧ Generated.prom_drain_conditionals = 0
    ∧ Generated.prom_drain_for_loops = ["for (key, histogram) in histogram_handles"]
    ∧ Generated.prom_drain_steps = ["lock", "clear_with", "record_samples"] := by decide

/-! ### non-vacuity -/

/-- `conc_final_render_exact_partial` on a run with a hand-over (block size 2), two recorders, a drainer whose first
    detach CAS fails (it retries) and the final pass: all hypotheses hold, the distribution is exactly the 4 samples -/
example :
    let recs := [[1, 2, 3], [4]]
    let progs := progsOf recs ([1] ++ [1])
    let pre := [0,0,0,0,0, 0,0, 2,2, 1,1,1,1,1, 2, 2,2,2,2, 1, 2,2,2,2, 0, 2,2,2, 0,0,0,0]
    let fin := [3, 3, 3, 3, 3, 3, 3]
    let s := run (Bucket.init 2 progs) (pre ++ fin)
    C05.stragglerClaims 2 progs (pre ++ fin) = 0
    ∧ (run (Bucket.init 2 progs) pre).threads[3]? = some (mkThread [.clear])
    ∧ ((run (Bucket.init 2 progs) pre).threads.map (·.pc)) = [.done, .done, .done, .start]
    ∧ quiescent s = true
    ∧ (s.threads[2]?.map (·.results)) = some [.cleared [4, 1, 2]]
    ∧ distOf s = { count := 4, sum := 10 } ∧ pendingOf s = Dist.zero := by decide

/-- a run stopped in the middle (a drain pass has folded one block and waits on the next, one record() in flight):
    `conc_never_counted_twice` / `conc_accounting_partial` speak about such states -/
example :
    let recs := [[1, 2, 3], [4]]
    let progs := progsOf recs [2]
    let sched := [0,0,0,0,0, 0,0, 2,2, 1,1,1,1,1, 2, 2,2,2,2, 1, 2,2,2,2]
    let s := run (Bucket.init 2 progs) sched
    quiescent s = false ∧ delivered s = [] ∧ inRunningClears s = [4] ∧ visible s = []
    ∧ pubCount 1 s = 1 ∧ inFlight 2 s = 1 := by decide

end MetricsVerif.C07
