/-
C08 — Prometheus output is well-formed exposition text for any input strings.

Property theorems only; helper lemmas live in `Proofs/PromFmt.lean`.  Everything is for ALL strings
(`List Char` = any sequence of Unicode scalar values), all 17 units, unit suffix on and off, all three
family kinds — by induction, no sampling.
-/
import MetricsVerif.Proofs.PromFmt
import MetricsVerif.Proofs.PromWhole
import MetricsVerif.Proofs.DistExpose
import MetricsVerif.Model.PromNum
import MetricsVerif.Generated.SourceFacts

namespace MetricsVerif.C08
open MetricsVerif.PromFmt MetricsVerif.PromRender MetricsVerif.Expo

/-! ## 1. names match the Prometheus grammar -/

/-- every non-empty string becomes a grammar-conforming metric name -/
theorem name_grammar (s : List Char) (h : s ≠ []) : IsMetricName (sanitizeMetricName s) = true :=
  sanitizeMetricName_grammar s h

/-- every non-empty string becomes a grammar-conforming label name -/
theorem label_key_grammar (s : List Char) (h : s ≠ []) : IsLabelName (sanitizeLabelKey s) = true :=
  sanitizeLabelKey_grammar s h

/-- sanitising keeps the length (no character is dropped or added) and is idempotent on valid names -/
theorem name_length (s : List Char) : (sanitizeMetricName s).length = s.length := sanitizeWith_length _ _ s
theorem name_idempotent (s : List Char) (h : s ≠ []) :
    sanitizeMetricName (sanitizeMetricName s) = sanitizeMetricName s :=
  sanitizeMetricName_id _ (name_grammar s h)

/-! ## 2. escaping: label values and help text are sequences of escape pairs and harmless characters -/

theorem escape_wf_value (s : List Char) : WF false (sanitizeLabelValue s) := sanitizeLabelValue_wf s
theorem escape_wf_description (s : List Char) : WF true (sanitizeDescription s) := sanitizeDescription_wf s

/-- the label string `key_to_parts` formats is one the grammar accepts, for any user strings -/
theorem formatLabel_ok (k v : List Char) (hk : k ≠ []) :
    formatLabel k v = labelStr (sanitizeLabelKey k, sanitizeLabelValue v) ∧
    LabelOk (sanitizeLabelKey k, sanitizeLabelValue v) :=
  ⟨by simp [formatLabel, labelStr], label_key_grammar k hk, escape_wf_value v⟩

/-! ## 2b. escaping does not depend on the length of the string

The escaper is a one-bit transducer: what it writes for a character depends on that character and on
`previous_backslash` only — not on the position, not on how much has been written, not on what follows.  Hence
there is no length at which it behaves differently (no cap, no truncation, no buffer boundary), and the escape
of a long string is the concatenation of the pieces written for its parts. -/

/-- one round of the loop of `sanitize_label_value_or_description`: the new `previous_backslash` and the text
    pushed in this round -/
def escStep (d : Bool) (p : Bool) (c : Char) : Bool × List Char :=
  if c = '\n' then (p, ['\\', 'n'])
  else if c = '"' ∧ d = false then (false, ['\\', '"'])
  else if c = '\\' then (if p then (false, ['\\', '\\']) else (true, []))
  else (false, if p then ['\\', '\\', c] else [c])

/-- the loop over a whole string from state `p`: final `previous_backslash` and the text pushed (without the
    flush after the loop) -/
def escRun (d : Bool) : Bool → List Char → Bool × List Char
  | p, [] => (p, [])
  | p, c :: cs => ((escRun d (escStep d p c).1 cs).1, (escStep d p c).2 ++ (escRun d (escStep d p c).1 cs).2)

/-- the `if previous_backslash { push_str("\\\\") }` after the loop -/
def escFlush (p : Bool) : List Char := if p then ['\\', '\\'] else []

/-- the model's escaper IS the fold of `escStep` followed by the flush -/
theorem escGo_eq_run (d : Bool) (s : List Char) :
    ∀ p, escGo d p s = (escRun d p s).2 ++ escFlush (escRun d p s).1 := by
  induction s with
  | nil => intro p; cases p <;> simp [escGo, escRun, escFlush]
  | cons c cs ih =>
    intro p
    simp only [escGo, escRun, escStep]
    split
    · simp [ih]
    · split
      · simp [ih]
      · split
        · cases p <;> simp [ih]
        · cases p <;> simp [ih]

/-- **transducer law** (homomorphism from concatenation of strings to composition of runs): running over
    `a ++ b` is running over `a`, then over `b` from the state `a` left; the texts are concatenated -/
theorem escRun_append (d : Bool) (a b : List Char) : ∀ p,
    escRun d p (a ++ b)
      = ((escRun d (escRun d p a).1 b).1, (escRun d p a).2 ++ (escRun d (escRun d p a).1 b).2) := by
  induction a with
  | nil => intro p; simp [escRun]
  | cons c cs ih => intro p; simp [escRun, ih]

/-- **length independence.**  The escape of `a ++ b` is the text the loop wrote for `a` — which does not depend
    on `b`, nor on the length of either — followed by the escape of `b` started in the one-bit state `a` left.
    For all strings of all lengths. -/
theorem escape_append (d : Bool) (p : Bool) (a b : List Char) :
    escGo d p (a ++ b) = (escRun d p a).2 ++ escGo d (escRun d p a).1 b := by
  rw [escGo_eq_run, escGo_eq_run d b, escRun_append]
  simp

/-- what has been written for a prefix is never taken back: it is a prefix of the escape of every extension -/
theorem escape_prefix_stable (d : Bool) (a b : List Char) :
    (escRun d false a).2 <+: escGo d false (a ++ b) := by
  rw [escape_append]; exact List.prefix_append _ _

/-- a character the escaper copies -/
def plainChar (c : Char) : Bool := c != '\n' && c != '"' && c != '\\'

theorem escRun_plain (d : Bool) (a : List Char) (h : a.all plainChar = true) : escRun d false a = (false, a) := by
  induction a with
  | nil => rfl
  | cons c cs ih =>
    simp only [List.all_cons, Bool.and_eq_true] at h
    have hc := h.1
    simp only [plainChar, Bool.and_eq_true, bne_iff_ne, ne_eq] at hc
    simp [escRun, escStep, hc.1.1, hc.1.2, hc.2, ih h.2]

/-- a run of ordinary characters **of any length** is copied verbatim and leaves no state behind -/
theorem escape_plain_run (d : Bool) (a b : List Char) (h : a.all plainChar = true) :
    escGo d false (a ++ b) = a ++ escGo d false b := by
  rw [escape_append, escRun_plain d a h]

/-- the strings of the harness's boundary generator, for EVERY length `n` (255, 256, 1023, 1024, 65535, … and
    all others): `n` filler characters followed by anything are the `n` filler characters followed by the escape
    of the rest — for label values and for descriptions -/
theorem escape_boundary (n : Nat) (f : Char) (hf : plainChar f = true) (t : List Char) :
    sanitizeLabelValue (List.replicate n f ++ t) = List.replicate n f ++ sanitizeLabelValue t
    ∧ sanitizeDescription (List.replicate n f ++ t) = List.replicate n f ++ sanitizeDescription t := by
  have h : (List.replicate n f).all plainChar = true := by
    simp only [List.all_eq_true]
    intro x hx
    rw [(List.mem_replicate.mp hx).2]; exact hf
  exact ⟨escape_plain_run false _ t h, escape_plain_run true _ t h⟩

/-- when no backslash is left pending at the end of `a`, escaping distributes over the concatenation -/
theorem escape_concat (d : Bool) (a b : List Char) (h : (escRun d false a).1 = false) :
    escGo d false (a ++ b) = escGo d false a ++ escGo d false b := by
  rw [escape_append, escGo_eq_run d a, h]
  simp [escFlush]

/-- what the escaper writes for one character when no backslash is pending -/
def escChar (d : Bool) (c : Char) : List Char :=
  if c = '\n' then ['\\', 'n'] else if c = '"' ∧ d = false then ['\\', '"'] else [c]

theorem escRun_noBackslash (d : Bool) (s : List Char) (h : '\\' ∉ s) :
    escRun d false s = (false, s.flatMap (escChar d)) := by
  induction s with
  | nil => rfl
  | cons c cs ih =>
    simp only [List.mem_cons, not_or] at h
    have hc : c ≠ '\\' := fun e => h.1 e.symm
    have ih' := ih h.2
    simp only [escRun, escStep, escChar, List.flatMap_cons]
    split
    · simp [ih', escChar]
    · split
      · simp [ih', escChar]
      · simp [hc, ih', escChar]

/-- **homomorphism on characters**: on strings without a backslash the escaper is the character-wise map
    `escChar` (newline ↦ `\n`, quote ↦ `\"` in label values, anything else itself), whatever the length -/
theorem escape_flatMap (d : Bool) (s : List Char) (h : '\\' ∉ s) : escGo d false s = s.flatMap (escChar d) := by
  rw [escGo_eq_run, escRun_noBackslash d s h]; simp [escFlush]

/-- with backslashes the character-wise statement is FALSE of the code (a pending backslash is swallowed by a
    following quote): `\` then `"` gives `\"`, not `\\` + `\"`.  The string is in the harness corpus; the state
    bit of `escape_append` is what the full statement needs. -/
theorem escape_char_homomorphism_false :
    sanitizeLabelValue (['\\'] ++ ['"']) ≠ sanitizeLabelValue ['\\'] ++ sanitizeLabelValue ['"'] := by decide

theorem escGo_length (d : Bool) (s : List Char) : ∀ p,
    s.length + (if p then 1 else 0) ≤ (escGo d p s).length
    ∧ (escGo d p s).length ≤ 2 * s.length + (if p then 2 else 0) := by
  induction s with
  | nil => intro p; cases p <;> simp [escGo]
  | cons c cs ih =>
    intro p
    have ht := ih true
    have hf := ih false
    simp only [if_true, Bool.false_eq_true, if_false] at ht hf
    by_cases h1 : c = '\n'
    · cases p <;> simp [escGo, h1] <;> omega
    · by_cases h2 : c = '"' ∧ d = false
      · obtain ⟨hc, hd⟩ := h2
        subst hd
        cases p <;> simp [escGo, hc] <;> omega
      · by_cases h3 : c = '\\'
        · cases p <;> simp [escGo, h3] <;> omega
        · cases p <;> simp [escGo, h1, h2, h3] <;> omega

/-- **nothing is cut off, at any length**: the escaped text has at least as many characters as the input and
    at most twice as many — there is no cap on a label value or a description -/
theorem escape_length (s : List Char) :
    (s.length ≤ (sanitizeLabelValue s).length ∧ (sanitizeLabelValue s).length ≤ 2 * s.length)
    ∧ (s.length ≤ (sanitizeDescription s).length ∧ (sanitizeDescription s).length ≤ 2 * s.length) := by
  have h1 := escGo_length false s false
  have h2 := escGo_length true s false
  simp only [Bool.false_eq_true, if_false, Nat.add_zero] at h1 h2
  exact ⟨h1, h2⟩

/-! ## 3. an independent reader of the format reads back exactly what was meant -/

/-- suffixes `write_metric_line` is called with -/
def SuffixOk (s : Option (List Char)) : Prop := ∀ x, s = some x → x.all nameChar = true

theorem unitSuffix_chars (u : Option MUnit) : ∀ x, unitSuffix u = some x → x.all nameChar = true := by
  intro x hx
  cases u with
  | none => simp [unitSuffix] at hx
  | some u => cases u <;> simp [unitSuffix] at hx <;> (subst hx; decide)

theorem fullName_grammar (n : List Char) (hn : IsMetricName n = true) (sfx : Option (List Char))
    (hs : SuffixOk sfx) (u : Option MUnit) : IsMetricName (fullName n sfx u) = true := by
  cases n with
  | nil => simp [IsMetricName] at hn
  | cons c cs =>
    simp only [IsMetricName, Bool.and_eq_true] at hn
    simp only [fullName, List.cons_append, IsMetricName, Bool.and_eq_true, List.all_append]
    refine ⟨hn.1, ⟨hn.2, ?_⟩, ?_⟩
    · cases sfx with
      | none => simp
      | some s => simp only [List.all_cons, Bool.and_eq_true]; exact ⟨by decide, hs s rfl⟩
    · cases hu : unitSuffix u with
      | none => simp
      | some s => simp only [List.all_cons, Bool.and_eq_true]; exact ⟨by decide, unitSuffix_chars u s hu⟩

/-- **sample round trip.**  For every grammar-conforming name, every list of accepted labels (in
    particular everything `key_to_parts` produces, see `formatLabel_ok`), every additional label and every
    value token, the line `write_metric_line` writes is read by the independent reader as exactly one
    sample with that name, exactly those labels in order, and that value.  Hence no quote, backslash or
    newline in user data can end a value early, start a new line or forge a sample. -/
theorem sample_roundtrip (n : List Char) (hn : IsMetricName n = true) (sfx : Option (List Char))
    (hs : SuffixOk sfx) (u : Option MUnit) (lbls : List (List Char × List Char))
    (hl : ∀ kt ∈ lbls, LabelOk kt) (extra : Option (List Char × List Char))
    (he : ∀ kt, extra = some kt → LabelOk kt) (v : List Char) (hv : IsToken v = true) :
    parseSample (writeMetricLine n sfx (lbls.map labelStr) extra v u)
      = some ⟨fullName n sfx u, lbls ++ extra.toList, v⟩ := by
  have hfn := fullName_grammar n hn sfx hs u
  have hall := IsMetricName.all hfn
  unfold writeMetricLine
  by_cases hempty : ((lbls.map labelStr).isEmpty && extra.isNone) = true
  · -- no label block
    rw [if_pos hempty]
    simp only [Bool.and_eq_true, List.isEmpty_iff, List.map_eq_nil_iff, Option.isNone_iff_eq_none] at hempty
    obtain ⟨rfl, rfl⟩ := hempty
    simp only [parseSample, List.nil_append, List.append_assoc, List.cons_append]
    rw [spanName_append _ hall ' ' (by decide)]
    simp only [hfn, if_true]
    have := parseValue_token v hv
    simp only [List.cons_append] at this
    simp [this]
  · rw [if_neg hempty]
    rw [labelBlock_eq]
    have hne : lbls ++ extra.toList ≠ [] := by
      intro h
      simp only [List.append_eq_nil_iff] at h
      apply hempty
      cases extra <;> simp_all
    have hok : ∀ kt ∈ lbls ++ extra.toList, LabelOk kt := by
      intro kt hkt
      simp only [List.mem_append] at hkt
      rcases hkt with h | h
      · exact hl kt h
      · cases extra with
        | none => simp at h
        | some e => simp at h; exact he kt (by rw [h])
    simp only [parseSample, List.append_assoc, List.cons_append, List.nil_append]
    rw [spanName_append _ hall '{' (by decide)]
    simp only [hfn, if_true]
    rw [labelsGo_all _ hne hok]
    have := parseValue_token v hv
    simp only [List.cons_append] at this
    simp [this]

/-- **HELP round trip**: the docstring cannot break out of its line -/
theorem help_roundtrip (n : List Char) (hn : IsMetricName n = true) (d : List Char) :
    parseHelp (writeHelpLine n d) = some (n, sanitizeDescription d) := by
  have hall := IsMetricName.all hn
  have hdoc := (sanitizeDescription_wf d).docOk
  simp only [writeHelpLine, parseHelp, List.append_assoc, List.cons_append, List.nil_append]
  rw [spanName_append _ hall ' ' (by decide)]
  simp [hn, hdoc]

theorem type_roundtrip (n : List Char) (hn : IsMetricName n = true) (t : List Char) (ht : isType t = true) :
    parseType (writeTypeLine n t) = some (n, t) := by
  have hall := IsMetricName.all hn
  simp only [writeTypeLine, parseType, List.append_assoc, List.cons_append, List.nil_append]
  rw [spanName_append _ hall ' ' (by decide)]
  simp [hn, ht]


/-! ## 4. every written line is exactly one line; the text splits back into the lines written -/

/-- exactly one newline, at the end -/
def OneLine (l : List Char) : Prop := ∃ body, l = body ++ ['\n'] ∧ '\n' ∉ body

/-- what the renderer passes to the writers (established for `renderFamily` below) -/
def LineOk : Line → Prop
  | .help n _ => IsMetricName n = true
  | .type n t => IsMetricName n = true ∧ isType t = true
  | .sample n sfx ls e v => IsMetricName n = true ∧ SuffixOk sfx
      ∧ (∃ lbls : List (List Char × List Char), ls = lbls.map labelStr ∧ ∀ kt ∈ lbls, LabelOk kt)
      ∧ (∀ kt, e = some kt → LabelOk kt) ∧ IsToken v = true
  | .blank => True

theorem all_nameChar_no_newline {n : List Char} (h : n.all nameChar = true) : '\n' ∉ n := by
  intro hm
  have := List.all_eq_true.mp h _ hm
  revert this; decide

theorem isToken_no_newline {v : List Char} (h : IsToken v = true) : '\n' ∉ v := by
  intro hm
  simp only [IsToken, Bool.and_eq_true, List.all_eq_true] at h
  have := h.2 _ hm
  simp at this

theorem labelOk_no_newline {kt : List Char × List Char} (h : LabelOk kt) : '\n' ∉ labelStr kt := by
  obtain ⟨k, t⟩ := kt
  obtain ⟨hk, ht⟩ := h
  have h1 : '\n' ∉ k := by
    intro hm
    have := List.all_eq_true.mp (IsLabelName.all hk) _ hm
    revert this; decide
  have h2 := ht.no_newline
  simp only [labelStr, List.mem_append, List.mem_cons, List.not_mem_nil, not_or]
  exact ⟨⟨⟨h1, by decide, by decide, not_false⟩, h2⟩, by decide, not_false⟩

theorem joinComma_no_newline (ls : List (List Char)) (h : ∀ l ∈ ls, '\n' ∉ l) : '\n' ∉ joinComma ls := by
  induction ls with
  | nil => simp [joinComma]
  | cons l more ih =>
    cases more with
    | nil => simpa [joinComma] using h l (by simp)
    | cons m more2 =>
      simp only [joinComma, List.mem_append, List.mem_cons, not_or]
      exact ⟨h l (by simp), by decide, ih (fun x hx => h x (by simp [hx]))⟩

theorem line_oneLine (l : Line) (h : LineOk l) : OneLine l.text := by
  cases l with
  | help n d =>
    refine ⟨['#', ' ', 'H', 'E', 'L', 'P', ' '] ++ n ++ [' '] ++ sanitizeDescription d, by simp [Line.text, writeHelpLine], ?_⟩
    have h' : IsMetricName n = true := h
    have h1 := all_nameChar_no_newline (IsMetricName.all h')
    have h2 := (sanitizeDescription_wf d).no_newline
    simp only [List.mem_append, List.mem_cons, List.not_mem_nil, not_or]
    exact ⟨⟨⟨by decide, h1⟩, by decide, not_false⟩, h2⟩
  | type n t =>
    refine ⟨['#', ' ', 'T', 'Y', 'P', 'E', ' '] ++ n ++ [' '] ++ t, by simp [Line.text, writeTypeLine], ?_⟩
    have h1 := all_nameChar_no_newline (IsMetricName.all h.1)
    have h2 : '\n' ∉ t := by
      have := h.2
      simp only [isType, Bool.or_eq_true, beq_iff_eq] at this
      rcases this with (((h | h) | h) | h) | h <;> (subst h; decide)
    simp only [List.mem_append, List.mem_cons, List.not_mem_nil, not_or]
    exact ⟨⟨⟨by decide, h1⟩, by decide, not_false⟩, h2⟩
  | blank => exact ⟨[], rfl, by simp⟩
  | sample n sfx ls e v =>
    obtain ⟨hn, hs, ⟨lbls, rfl, hl⟩, he, hv⟩ := h
    have hfn := all_nameChar_no_newline (IsMetricName.all (fullName_grammar n hn sfx hs none))
    have hvn := isToken_no_newline hv
    refine ⟨fullName n sfx none ++ (if (lbls.map labelStr).isEmpty && e.isNone then [] else labelBlock (lbls.map labelStr) e)
        ++ [' '] ++ v, by simp [Line.text, writeMetricLine], ?_⟩
    have hblock : '\n' ∉ (if (lbls.map labelStr).isEmpty && e.isNone then [] else labelBlock (lbls.map labelStr) e) := by
      split
      · simp
      · rw [labelBlock_eq]
        have : '\n' ∉ joinComma ((lbls ++ e.toList).map labelStr) := by
          apply joinComma_no_newline
          intro l hl'
          simp only [List.mem_map, List.mem_append] at hl'
          obtain ⟨kt, hkt, rfl⟩ := hl'
          rcases hkt with hkt | hkt
          · exact labelOk_no_newline (hl kt hkt)
          · cases e with
            | none => simp at hkt
            | some x => simp at hkt; exact labelOk_no_newline (he kt (by rw [hkt]))
        intro hm
        simp only [List.mem_cons, List.mem_append, List.not_mem_nil, or_false] at hm
        rcases hm with (hm | hm) | hm
        · revert hm; decide
        · exact this hm
        · revert hm; decide
    simp only [List.mem_append, List.mem_cons, List.not_mem_nil, not_or]
    exact ⟨⟨⟨hfn, hblock⟩, by decide, not_false⟩, hvn⟩

theorem splitLines_oneLine_append (body rest : List Char) (h : '\n' ∉ body) :
    splitLines (body ++ ['\n'] ++ rest) = (body ++ ['\n']) :: splitLines rest := by
  induction body with
  | nil => simp [splitLines]
  | cons c cs ih =>
    simp only [List.mem_cons, not_or] at h
    have hc : c ≠ '\n' := fun e => h.1 e.symm
    simp only [List.cons_append, splitLines, hc, if_false]
    have := ih h.2
    simp only [List.append_assoc, List.cons_append, List.nil_append] at this
    simp [this]

/-- **no line injection**: splitting the rendered text at newlines gives back exactly the lines the
    renderer wrote — user data never starts a new line, for any list of well-formed lines. -/
theorem text_splits_back (ls : List Line) (h : ∀ l ∈ ls, LineOk l) :
    splitLines (renderText ls) = ls.map Line.text := by
  induction ls with
  | nil => simp [renderText, splitLines]
  | cons l more ih =>
    obtain ⟨body, hb, hnl⟩ := line_oneLine l (h l (by simp))
    have ih' := ih (fun x hx => h x (by simp [hx]))
    simp only [renderText, List.flatMap_cons, List.map_cons] at ih' ⊢
    rw [hb, splitLines_oneLine_append body _ hnl, ih']

/-! ## 5. family shape: one TYPE line, before the samples; every sample belongs to the family -/

/-- the type word matches what the series carry (C15 proves this for `get_distribution_type`) -/
def TyMatches (ty : List Char) (s : Series) : Prop :=
  match s.data with
  | .scalar _ => ty = "counter".toList ∨ ty = "gauge".toList
  | .hist .. => ty = "histogram".toList
  | .summ .. => ty = "summary".toList

/-- sample shapes the exposition format allows in a family of type `ty` named `fam` -/
def AllowedSample (ty fam : List Char) : Line → Prop
  | .sample n sfx _ e _ =>
    n = fam ∧
    ( ((ty = "counter".toList ∨ ty = "gauge".toList) ∧ sfx = none ∧ e = none)
    ∨ (ty = "histogram".toList ∧
        ((sfx = some "bucket".toList ∧ ∃ le, e = some ("le".toList, le))
         ∨ (sfx = some "sum".toList ∧ e = none) ∨ (sfx = some "count".toList ∧ e = none)))
    ∨ (ty = "summary".toList ∧
        ((sfx = none ∧ ∃ q, e = some ("quantile".toList, q))
         ∨ (sfx = some "sum".toList ∧ e = none) ∨ (sfx = some "count".toList ∧ e = none))))
  | _ => False

theorem seriesLines_allowed (ty fam : List Char) (s : Series) (h : TyMatches ty s) :
    ∀ l ∈ seriesLines fam s, AllowedSample ty fam l := by
  intro l hl
  unfold seriesLines at hl
  unfold TyMatches at h
  cases hd : s.data with
  | scalar v =>
    rw [hd] at hl h
    simp only [List.mem_singleton] at hl
    subst hl
    exact ⟨rfl, Or.inl ⟨h, rfl, rfl⟩⟩
  | hist bs c sm =>
    rw [hd] at hl h
    simp only [List.mem_append, List.mem_map, List.mem_cons, List.not_mem_nil, or_false] at hl
    rcases hl with ⟨b, _, rfl⟩ | rfl | rfl | rfl
    · exact ⟨rfl, Or.inr (Or.inl ⟨h, Or.inl ⟨rfl, _, rfl⟩⟩)⟩
    · exact ⟨rfl, Or.inr (Or.inl ⟨h, Or.inl ⟨rfl, _, rfl⟩⟩)⟩
    · exact ⟨rfl, Or.inr (Or.inl ⟨h, Or.inr (Or.inl ⟨rfl, rfl⟩)⟩)⟩
    · exact ⟨rfl, Or.inr (Or.inl ⟨h, Or.inr (Or.inr ⟨rfl, rfl⟩)⟩)⟩
  | summ qs sm c =>
    rw [hd] at hl h
    simp only [List.mem_append, List.mem_map, List.mem_cons, List.not_mem_nil, or_false] at hl
    rcases hl with ⟨b, _, rfl⟩ | rfl | rfl
    · exact ⟨rfl, Or.inr (Or.inr ⟨h, Or.inl ⟨rfl, _, rfl⟩⟩)⟩
    · exact ⟨rfl, Or.inr (Or.inr ⟨h, Or.inr (Or.inl ⟨rfl, rfl⟩)⟩)⟩
    · exact ⟨rfl, Or.inr (Or.inr ⟨h, Or.inr (Or.inr ⟨rfl, rfl⟩)⟩)⟩

/-- **family shape.**  For every name, description, unit, unit-suffix setting and list of series, a family
    is rendered as: at most one HELP line, then exactly one TYPE line, then only sample lines whose name is
    the family name of the TYPE line (plus a suffix the type allows), then a blank line.  The family name
    is the sanitised name plus the unit suffix when enabled — the same on HELP, TYPE and every sample. -/
theorem family_shape (on : Bool) (name : List Char) (desc : Option (List Char × Option MUnit))
    (ty : List Char) (series : List Series) (h : ∀ s ∈ series, TyMatches ty s) :
    ∃ fam pre samples,
      renderFamily on name desc ty series = pre ++ [Line.type fam ty] ++ samples ++ [Line.blank]
      ∧ (pre = [] ∨ ∃ d, pre = [Line.help fam d])
      ∧ (∀ l ∈ samples, AllowedSample ty fam l)
      ∧ fam = familyName name (match desc with | some (_, u) => if on then u else none | none => none) := by
  refine ⟨_, (match desc with | some (d, _) => [Line.help _ d] | none => []), series.flatMap (seriesLines _), rfl, ?_, ?_, rfl⟩
  · cases desc with
    | none => exact Or.inl rfl
    | some du => exact Or.inr ⟨du.1, rfl⟩
  · intro l hl
    simp only [List.mem_flatMap] at hl
    obtain ⟨s, hs, hl⟩ := hl
    exact seriesLines_allowed ty _ s (h s hs) l hl

/-- a sample's written name is the family name followed by `_suffix` -/
theorem sample_written_name (fam : List Char) (sfx : Option (List Char)) :
    fullName fam sfx none = fam ++ (match sfx with | some s => '_' :: s | none => []) := by
  cases sfx <;> simp [fullName, unitSuffix]

/-- family names are grammar-conforming for every unit -/
theorem familyName_grammar (n : List Char) (hn : IsMetricName n = true) (u : Option MUnit) :
    IsMetricName (familyName n u) = true := by
  exact fullName_grammar n hn none (by intro x hx; cases hx) u

/-! ## 7. the whole render: every line the recorder writes, after any history, is one the reader accepts -/


/-- a key as the property quantifies over it: non-empty metric name, non-empty label names -/
def KeyOk (k : Prom.MKey) : Prop := k.name ≠ [] ∧ ∀ x ∈ k.labels, x.1 ≠ []

/-- the operations of a history, on such keys -/
def OpOk : Prom.Op → Prop
  | .describe .. => True
  | .cinc k _ | .cabs k _ | .gset k _ | .gadd k _ | .hrec k _ | .hrecMany k _ _ => KeyOk k
  | .upkeep => True

/-- what a series hands to the line writers -/
def DataOk : SeriesData → Prop
  | .scalar v => IsToken v = true
  | .hist bs c sm => (∀ b ∈ bs, WF false b.1 ∧ IsToken b.2 = true) ∧ IsToken c = true ∧ IsToken sm = true
  | .summ qs sm c => (∀ q ∈ qs, WF false q.1 ∧ IsToken q.2 = true) ∧ IsToken sm = true ∧ IsToken c = true

def SeriesOk (s : Series) : Prop := LabelsOk s.labels ∧ DataOk s.data

/-- invariant of the recorder state: every stored key is `KeyOk`, every distribution entry carries a
    grammar-conforming name and accepted label strings; the configured global label names are non-empty and
    the quantile texts are harmless label values -/
structure Inv (s : Prom.St) : Prop where
  globals : ∀ x ∈ s.cfg.globals, x.1 ≠ []
  quantiles : ∀ q ∈ s.cfg.quantiles, WF false q
  counters : ∀ kv ∈ s.counters, KeyOk kv.1
  gauges : ∀ kv ∈ s.gauges, KeyOk kv.1
  hists : ∀ kv ∈ s.hists, KeyOk kv.1
  dists : ∀ f ∈ s.dists, IsMetricName f.1 = true ∧ ∀ ld ∈ f.2, LabelsOk ld.1

theorem suffixOk_lit (x : List Char) (h : x.all nameChar = true) : SuffixOk (some x) := by
  intro y hy; cases hy; exact h

theorem seriesLines_ok (fam : List Char) (s : Series) (hf : IsMetricName fam = true) (hs : SeriesOk s) :
    ∀ l ∈ seriesLines fam s, LineOk l := by
  obtain ⟨hl, hd⟩ := hs
  have hle : IsLabelName "le".toList = true := by decide
  have hq : IsLabelName "quantile".toList = true := by decide
  have hnone : SuffixOk none := by intro x hx; cases hx
  have hbucket := suffixOk_lit "bucket".toList (by decide)
  have hsum := suffixOk_lit "sum".toList (by decide)
  have hcount := suffixOk_lit "count".toList (by decide)
  have hnoextra : ∀ kt : List Char × List Char, (none : Option (List Char × List Char)) = some kt → LabelOk kt := by
    intro kt h; cases h
  intro l hl'
  unfold seriesLines at hl'
  cases hdat : s.data with
  | scalar v =>
    rw [hdat] at hl' hd
    simp only [List.mem_singleton] at hl'
    subst hl'
    exact ⟨hf, hnone, hl, hnoextra, hd⟩
  | hist bs c sm =>
    rw [hdat] at hl' hd
    obtain ⟨hb, hc, hsm⟩ := hd
    simp only [List.mem_append, List.mem_map, List.mem_cons, List.not_mem_nil, or_false] at hl'
    rcases hl' with ⟨b, hbm, rfl⟩ | rfl | rfl | rfl
    · exact ⟨hf, hbucket, hl, (by intro kt h; cases h; exact ⟨hle, (hb b hbm).1⟩), (hb b hbm).2⟩
    · refine ⟨hf, hbucket, hl, ?_, hc⟩
      intro kt h; cases h
      exact ⟨hle, wf_of_safe (by decide)⟩
    · exact ⟨hf, hsum, hl, hnoextra, hsm⟩
    · exact ⟨hf, hcount, hl, hnoextra, hc⟩
  | summ qs sm c =>
    rw [hdat] at hl' hd
    obtain ⟨hqs, hsm, hc⟩ := hd
    simp only [List.mem_append, List.mem_map, List.mem_cons, List.not_mem_nil, or_false] at hl'
    rcases hl' with ⟨q, hqm, rfl⟩ | rfl | rfl
    · exact ⟨hf, hnone, hl, (by intro kt h; cases h; exact ⟨hq, (hqs q hqm).1⟩), (hqs q hqm).2⟩
    · exact ⟨hf, hsum, hl, hnoextra, hsm⟩
    · exact ⟨hf, hcount, hl, hnoextra, hc⟩

/-- **one family, all lines**: what the comment at `LineOk` promises.  For a grammar-conforming name, a type
    word and series whose labels came out of `key_to_parts`, every line of the family — HELP (any description,
    any unit, suffix on or off), TYPE, every sample, the blank line — satisfies `LineOk`. -/
theorem renderFamily_ok (on : Bool) (name : List Char) (desc : Option (List Char × Option MUnit))
    (ty : List Char) (series : List Series) (hn : IsMetricName name = true) (ht : isType ty = true)
    (hs : ∀ s ∈ series, SeriesOk s) : ∀ l ∈ renderFamily on name desc ty series, LineOk l := by
  intro l hl
  have hfam : ∀ u, IsMetricName (familyName name u) = true := familyName_grammar name hn
  unfold renderFamily at hl
  simp only [List.mem_append, List.mem_cons, List.not_mem_nil, or_false, List.mem_flatMap] at hl
  rcases hl with ((hl | rfl) | ⟨s, hsm, hl⟩) | rfl
  · cases desc with
    | none => simp at hl
    | some du =>
      simp only [List.mem_singleton] at hl
      subst hl
      exact hfam _
  · exact ⟨hfam _, ht⟩
  · exact seriesLines_ok _ s (hfam _) (hs s hsm) l hl
  · trivial

theorem isType_distType (cfg : Prom.Cfg) (n : List Char) : isType (Prom.distType cfg n) = true := by
  unfold Prom.distType
  split
  · decide
  · split <;> decide

theorem distSeries_ok (qs : List (List Char)) (hq : ∀ q ∈ qs, WF false q) (labels : List (List Char))
    (hl : LabelsOk labels) (d : Prom.Dist) : SeriesOk (Prom.distSeries qs labels d) := by
  cases d with
  | hist bounds counts count sum =>
    refine ⟨hl, ?_, natText_token count, intTok_token sum⟩
    intro b hb
    simp only [List.mem_map] at hb
    obtain ⟨bc, _, rfl⟩ := hb
    exact ⟨wf_of_num (intTok_num bc.1), natText_token bc.2⟩
  | summ count sum =>
    refine ⟨hl, ?_, intTok_token sum, natText_token count⟩
    intro q hqm
    simp only [List.mem_map] at hqm
    obtain ⟨q0, hq0, rfl⟩ := hqm
    exact ⟨hq q0 hq0, (by show IsToken ['q'] = true; decide)⟩

/-- families grouped from scalar entries: names conform, series are `SeriesOk` -/
def FamsOk (fams : List (List Char × List Series)) : Prop :=
  ∀ f ∈ fams, IsMetricName f.1 = true ∧ ∀ s ∈ f.2, SeriesOk s

theorem groupFamilies_ok (entries : List (Prom.MKey × List Char)) (globals : List (List Char × List Char))
    (hg : ∀ x ∈ globals, x.1 ≠ []) (he : ∀ kv ∈ entries, KeyOk kv.1 ∧ IsToken kv.2 = true) :
    FamsOk (Prom.groupFamilies entries globals) := by
  unfold Prom.groupFamilies
  refine foldl_inv FamsOk (fun kv => KeyOk kv.1 ∧ IsToken kv.2 = true) _ entries ?_ [] ?_ he
  · intro fams kv hf hk
    have hp := keyToParts_ok kv.1.name kv.1.labels globals hk.1.1 hk.1.2 hg
    show FamsOk (match keyToParts kv.1.name kv.1.labels globals with
      | (name, labels) => Prom.upsert fams name [] (fun ss => ss ++ [⟨labels, .scalar kv.2⟩]))
    rcases hkp : keyToParts kv.1.name kv.1.labels globals with ⟨name, labels⟩
    rw [hkp] at hp
    simp only []
    intro f hfm
    refine upsert_inv (fun n ss => IsMetricName n = true ∧ ∀ s ∈ ss, SeriesOk s) fams name []
      _ hf ?_ ?_ f hfm
    · refine ⟨hp.1, ?_⟩
      intro s hs
      simp only [List.nil_append, List.mem_singleton] at hs
      subst hs
      exact ⟨hp.2, hk.2⟩
    · intro ss hss
      refine ⟨hss.1, ?_⟩
      intro s hs
      simp only [List.mem_append, List.mem_singleton] at hs
      rcases hs with h | rfl
      · exact hss.2 s h
      · exact ⟨hp.2, hk.2⟩
  · intro f hf; cases hf

theorem inv_drain (s : Prom.St) (h : Inv s) : Inv (Prom.drain s) := by
  have hd : ∀ f ∈ (Prom.drain s).dists, IsMetricName f.1 = true ∧ ∀ ld ∈ f.2, LabelsOk ld.1 := by
    unfold Prom.drain
    simp only []
    refine foldl_inv (fun ds : List (List Char × List (List (List Char) × Prom.Dist)) =>
        ∀ f ∈ ds, IsMetricName f.1 = true ∧ ∀ ld ∈ f.2, LabelsOk ld.1)
      (fun kh : Prom.MKey × List Int => KeyOk kh.1) _ s.hists ?_ s.dists h.dists h.hists
    intro ds kh hds hk
    have hp := keyToParts_ok kh.1.name kh.1.labels s.cfg.globals hk.1 hk.2 h.globals
    rcases hkp : keyToParts kh.1.name kh.1.labels s.cfg.globals with ⟨name, labels⟩
    rw [hkp] at hp
    simp only []
    intro f hfm
    refine upsert_inv (fun n byLabels => IsMetricName n = true ∧ ∀ ld ∈ byLabels, LabelsOk ld.1) ds name []
      _ hds ?_ ?_ f hfm
    · refine ⟨hp.1, ?_⟩
      intro ld hld
      exact upsert_inv (fun ls _ => LabelsOk ls) [] labels _ _ (by intro x hx; cases hx) hp.2
        (fun _ _ => hp.2) ld hld
    · intro byLabels hbl
      refine ⟨hbl.1, ?_⟩
      intro ld hld
      exact upsert_inv (fun ls _ => LabelsOk ls) byLabels labels _ _ hbl.2 hp.2 (fun _ _ => hp.2) ld hld
  refine ⟨h.globals, h.quantiles, h.counters, h.gauges, ?_, hd⟩
  intro kv hkv
  simp only [Prom.drain, List.mem_map] at hkv
  obtain ⟨kh, hkh, rfl⟩ := hkv
  exact h.hists kh hkh

theorem inv_init (cfg : Prom.Cfg) (hg : ∀ x ∈ cfg.globals, x.1 ≠ []) (hq : ∀ q ∈ cfg.quantiles, WF false q) :
    Inv { cfg := cfg } :=
  ⟨hg, hq, (by intro x hx; cases hx), (by intro x hx; cases hx), (by intro x hx; cases hx), (by intro x hx; cases hx)⟩

/-- every operation on `KeyOk` keys keeps the invariant -/
theorem inv_step (s : Prom.St) (op : Prom.Op) (h : Inv s) (ho : OpOk op) : Inv (Prom.step s op) := by
  cases op with
  | describe name unit desc =>
    simp only [Prom.step]
    split
    · exact h
    · exact ⟨h.globals, h.quantiles, h.counters, h.gauges, h.hists, h.dists⟩
  | cinc k n =>
    exact ⟨h.globals, h.quantiles,
      upsert_inv (fun k _ => KeyOk k) s.counters k _ _ h.counters ho (fun _ _ => ho), h.gauges, h.hists, h.dists⟩
  | cabs k n =>
    exact ⟨h.globals, h.quantiles,
      upsert_inv (fun k _ => KeyOk k) s.counters k _ _ h.counters ho (fun _ _ => ho), h.gauges, h.hists, h.dists⟩
  | gset k v =>
    exact ⟨h.globals, h.quantiles, h.counters,
      upsert_inv (fun k _ => KeyOk k) s.gauges k _ _ h.gauges ho (fun _ _ => ho), h.hists, h.dists⟩
  | gadd k n =>
    exact ⟨h.globals, h.quantiles, h.counters,
      upsert_inv (fun k _ => KeyOk k) s.gauges k _ _ h.gauges ho (fun _ _ => ho), h.hists, h.dists⟩
  | hrec k v =>
    exact ⟨h.globals, h.quantiles, h.counters, h.gauges,
      upsert_inv (fun k _ => KeyOk k) s.hists k _ _ h.hists ho (fun _ _ => ho), h.dists⟩
  | hrecMany k v n =>
    exact ⟨h.globals, h.quantiles, h.counters, h.gauges,
      upsert_inv (fun k _ => KeyOk k) s.hists k _ _ h.hists ho (fun _ _ => ho), h.dists⟩
  | upkeep => exact inv_drain s h

theorem inv_run (ops : List Prom.Op) : ∀ s, Inv s → (∀ op ∈ ops, OpOk op) → Inv (ops.foldl Prom.step s) :=
  foldl_inv Inv OpOk Prom.step ops inv_step

/-- **whole render, one state**: in a state satisfying the invariant, every line of every family `render`
    writes satisfies `LineOk` -/
theorem renderLines_ok (s : Prom.St) (h : Inv s) : ∀ fam ∈ (Prom.renderLines s).2, ∀ l ∈ fam, LineOk l := by
  have hd := inv_drain s h
  intro fam hfam l hl
  simp only [Prom.renderLines, List.mem_append, List.mem_map] at hfam
  rcases hfam with (⟨f, hf, rfl⟩ | ⟨f, hf, rfl⟩) | ⟨f, hf, rfl⟩
  · have := groupFamilies_ok _ _ hd.globals (fun kv hkv => by
      simp only [List.mem_map] at hkv
      obtain ⟨kv0, hkv0, rfl⟩ := hkv
      exact ⟨hd.counters kv0 hkv0, natText_token kv0.2⟩) f hf
    exact renderFamily_ok _ _ _ _ _ this.1 (by decide) this.2 l hl
  · have := groupFamilies_ok _ _ hd.globals (fun kv hkv => by
      simp only [List.mem_map] at hkv
      obtain ⟨kv0, hkv0, rfl⟩ := hkv
      exact ⟨hd.gauges kv0 hkv0, valTok_token kv0.2⟩) f hf
    exact renderFamily_ok _ _ _ _ _ this.1 (by decide) this.2 l hl
  · have hf' := hd.dists f hf
    refine renderFamily_ok _ _ _ _ _ hf'.1 (isType_distType _ _) ?_ l hl
    intro sr hsr
    simp only [List.mem_map] at hsr
    obtain ⟨ld, hld, rfl⟩ := hsr
    exact distSeries_ok _ hd.quantiles _ (hf'.2 ld hld) _

/-- **whole render, any history** (clause "every line is a HELP, TYPE, sample or blank line", unbounded):
    for every configuration with non-empty global label names, every history of
    describe/update/upkeep operations on keys with non-empty names and label names — arbitrary Unicode
    otherwise —, every line `render` writes is `LineOk`. -/
theorem render_lines_ok (cfg : Prom.Cfg) (hg : ∀ x ∈ cfg.globals, x.1 ≠ []) (hq : ∀ q ∈ cfg.quantiles, WF false q)
    (ops : List Prom.Op) (ho : ∀ op ∈ ops, OpOk op) :
    ∀ l ∈ (Prom.renderLines (ops.foldl Prom.step { cfg := cfg })).2.flatten, LineOk l := by
  intro l hl
  simp only [List.mem_flatten] at hl
  obtain ⟨fam, hfam, hl⟩ := hl
  exact renderLines_ok _ (inv_run ops _ (inv_init cfg hg hq) ho) fam hfam l hl

/-- what the independent reader makes of a line -/
def ReadsBack : Line → Prop
  | .help n d => parseHelp (Line.text (.help n d)) = some (n, sanitizeDescription d)
  | .type n t => parseType (Line.text (.type n t)) = some (n, t)
  | .sample n sfx ls e v => ∃ lbls : List (List Char × List Char), ls = lbls.map labelStr ∧
      parseSample (Line.text (.sample n sfx ls e v)) = some ⟨fullName n sfx none, lbls ++ e.toList, v⟩
  | .blank => Line.text .blank = ['\n']

/-- a `LineOk` line is read back as exactly the HELP / TYPE / sample / blank line that was meant -/
theorem line_reads_back (l : Line) (h : LineOk l) : ReadsBack l := by
  cases l with
  | help n d => exact help_roundtrip n h d
  | type n t => exact type_roundtrip n h.1 t h.2
  | blank => rfl
  | sample n sfx ls e v =>
    obtain ⟨hn, hs, ⟨lbls, rfl, hl⟩, he, hv⟩ := h
    exact ⟨lbls, rfl, sample_roundtrip n hn sfx hs none lbls hl e he v hv⟩

/-- **the rendered text, any history**: splitting the text `render` returns at newlines gives back exactly the
    lines written, and the independent reader reads each of them as the HELP / TYPE / sample / blank line the
    recorder meant — no user string starts a line, ends a value early or forges a sample, in any render of
    any history. -/
theorem render_text_wellformed (cfg : Prom.Cfg) (hg : ∀ x ∈ cfg.globals, x.1 ≠ [])
    (hq : ∀ q ∈ cfg.quantiles, WF false q) (ops : List Prom.Op) (ho : ∀ op ∈ ops, OpOk op) :
    let lines := (Prom.renderLines (ops.foldl Prom.step { cfg := cfg })).2.flatten
    splitLines (renderText lines) = lines.map Line.text ∧ ∀ l ∈ lines, ReadsBack l := by
  intro lines
  have h := render_lines_ok cfg hg hq ops ho
  exact ⟨text_splits_back lines h, fun l hl => line_reads_back l (h l hl)⟩

/-! ## 8. distinct families: FALSE as stated; the part that holds -/

/-- names of the TYPE lines, in order -/
def typeNames (ls : List Line) : List (List Char) :=
  ls.filterMap (fun l => match l with | .type n _ => some n | _ => none)

def collisionCfg : Prom.Cfg := { unitSuffix := true, globals := [], buckets := none, overrides := [], quantiles := [] }

/-- `describe_counter!("a", Unit::Bytes, "d"); counter!("a").increment(3); counter!("a_bytes").increment(3)` -/
def collisionOps : List Prom.Op :=
  [.describe "a".toList (some .bytes) "d".toList, .cinc ⟨"a".toList, []⟩ 3, .cinc ⟨"a_bytes".toList, []⟩ 3]

/-- **"exactly one TYPE line per family" is false** under the property's precondition (distinct sanitised
    names): with unit suffixes enabled, counter `a` described with `Unit::Bytes` and counter `a_bytes` are both
    announced as `# TYPE a_bytes counter`.  Replayed on the real recorder by the harness
    (c08.rs `run_adjacent`, first case) through the same `prom` ops. -/
theorem type_lines_unique_false :
    (∀ op ∈ collisionOps, OpOk op)
    ∧ sanitizeMetricName "a".toList ≠ sanitizeMetricName "a_bytes".toList
    ∧ typeNames (Prom.renderLines (collisionOps.foldl Prom.step { cfg := collisionCfg })).2.flatten
        = ["a_bytes".toList, "a_bytes".toList] := by
  refine ⟨?_, by decide, by decide⟩
  intro op hop
  simp only [collisionOps, List.mem_cons, List.not_mem_nil, or_false] at hop
  rcases hop with rfl | rfl | rfl
  · trivial
  · exact ⟨by decide, by intro x hx; cases hx⟩
  · exact ⟨by decide, by intro x hx; cases hx⟩

/-- a family announces exactly one TYPE line, named `familyName` -/
theorem renderFamily_typeNames (on : Bool) (name : List Char) (desc : Option (List Char × Option MUnit))
    (ty : List Char) (series : List Series) :
    typeNames (renderFamily on name desc ty series)
      = [familyName name (match desc with | some (_, u) => if on then u else none | none => none)] := by
  have hs : ∀ fam, typeNames (series.flatMap (seriesLines fam)) = [] := by
    intro fam
    unfold typeNames
    rw [List.filterMap_eq_nil_iff]
    intro l hl
    simp only [List.mem_flatMap] at hl
    obtain ⟨s, _, hl⟩ := hl
    unfold seriesLines at hl
    cases hd : s.data <;> rw [hd] at hl <;>
      simp only [List.mem_append, List.mem_map, List.mem_cons, List.not_mem_nil, or_false] at hl
    · subst hl; rfl
    · rcases hl with ⟨b, _, rfl⟩ | rfl | rfl | rfl <;> rfl
    · rcases hl with ⟨b, _, rfl⟩ | rfl | rfl <;> rfl
  unfold renderFamily
  cases desc with
  | none =>
    simp only [typeNames, List.nil_append, List.filterMap_append, List.filterMap_cons, List.filterMap_nil,
      List.cons_append] at hs ⊢
    simp [hs]
  | some du =>
    simp only [typeNames, List.filterMap_append, List.filterMap_cons, List.filterMap_nil,
      List.cons_append, List.nil_append] at hs ⊢
    simp [hs]

/-- the part that holds: the unit suffix never merges two families that get the SAME suffix (in particular
    with unit suffixes disabled, or two families without description) -/
theorem familyName_injective_partial (a b : List Char) (u : Option MUnit)
    (h : familyName a u = familyName b u) : a = b := by
  unfold familyName fullName at h
  simp only [List.append_nil] at h
  exact List.append_cancel_right h

theorem familyName_none (n : List Char) : familyName n none = n := by
  simp [familyName, fullName, unitSuffix]

/-! ## 8b. clauses D and E for the WHOLE render of ANY history: `TyMatches` is discharged from the recorder's invariant

`family_shape` asks for `TyMatches ty s` (the type word fits what the series carry).  For counter and gauge families it
holds by construction of `groupFamilies`; for distribution families it is the invariant `DistBuilder.KindInv` of `Prom.step`
(every stored distribution has the kind `get_distribution` gives for its family's plain name) composed with
`distType_newDist` (`get_distribution_type` and `get_distribution` decide alike, for every configuration: any number of
overrides, global buckets or not). -/

/-- `get_distribution_type(name)` announces `histogram` exactly when `get_distribution(name)` builds a histogram — for
    every configuration (global buckets, any list of overrides in any order) and every name -/
theorem distType_newDist (cfg : Prom.Cfg) (name : List Char) :
    Prom.distType cfg name
      = if DistBuilder.isHist (Prom.newDist cfg name) then "histogram".toList else "summary".toList := by
  unfold Prom.distType Prom.newDist
  cases hf : cfg.overrides.find? (fun mb => mb.1.matches name) with
  | some x =>
    have hx := List.find?_some hf
    have hany : cfg.overrides.any (fun mb => mb.1.matches name) = true := by
      rw [List.any_eq_true]
      exact ⟨x, List.mem_of_find?_eq_some hf, hx⟩
    obtain ⟨m, bs⟩ := x
    simp only [DistBuilder.isHist, hany, if_true]
    split <;> rfl
  | none =>
    have hany : cfg.overrides.any (fun mb => mb.1.matches name) = false := by
      rw [List.find?_eq_none] at hf
      rw [List.any_eq_false]
      intro x hx
      simpa using hf x hx
    cases hb : cfg.buckets with
    | none => simp only [DistBuilder.isHist, hany, Option.isSome_none]; rfl
    | some b => simp only [DistBuilder.isHist, Option.isSome_some, if_true]

/-- what `distSeries` renders fits the type word of its kind -/
theorem distSeries_tyMatches (qs : List (List Char)) (labels : List (List Char)) (d : Prom.Dist) :
    TyMatches (if DistBuilder.isHist d then "histogram".toList else "summary".toList) (Prom.distSeries qs labels d) := by
  cases d <;> simp [Prom.distSeries, TyMatches, DistBuilder.isHist]

/-- families grouped from scalar entries carry scalar series only -/
theorem groupFamilies_scalar (entries : List (Prom.MKey × List Char)) (globals : List (List Char × List Char)) :
    ∀ f ∈ Prom.groupFamilies entries globals, ∀ s ∈ f.2, ∃ v, s.data = .scalar v := by
  unfold Prom.groupFamilies
  refine foldl_inv (fun fams : List (List Char × List Series) => ∀ f ∈ fams, ∀ s ∈ f.2, ∃ v, s.data = .scalar v)
    (fun _ => True) _ entries ?_ [] (by intro f hf; cases hf) (fun _ _ => trivial)
  intro fams kv hf _
  rcases hkp : keyToParts kv.1.name kv.1.labels globals with ⟨name, labels⟩
  simp only []
  intro f hfm
  refine upsert_inv (fun (_ : List Char) (ss : List Series) => ∀ s ∈ ss, ∃ v, s.data = .scalar v) fams name []
    _ hf ?_ ?_ f hfm
  · intro s hs
    simp only [List.nil_append, List.mem_singleton] at hs
    subst hs
    exact ⟨_, rfl⟩
  · intro ss hss s hs
    simp only [List.mem_append, List.mem_singleton] at hs
    rcases hs with h | rfl
    · exact hss s h
    · exact ⟨_, rfl⟩

/-- one rendered family as the property describes it: at most one HELP line, exactly one TYPE line with an exposition
    type word, then only samples the type allows under the announced family name, then the blank line -/
def FamilyShaped (fam : List Line) : Prop :=
  ∃ name ty pre samples, fam = pre ++ [Line.type name ty] ++ samples ++ [Line.blank]
    ∧ (pre = [] ∨ ∃ d, pre = [Line.help name d]) ∧ isType ty = true ∧ ∀ l ∈ samples, AllowedSample ty name l

theorem renderFamily_shaped (on : Bool) (name : List Char) (desc : Option (List Char × Option MUnit))
    (ty : List Char) (series : List Series) (ht : isType ty = true) (h : ∀ s ∈ series, TyMatches ty s) :
    FamilyShaped (renderFamily on name desc ty series) := by
  obtain ⟨fam, pre, samples, e, hp, hs, _⟩ := family_shape on name desc ty series h
  exact ⟨fam, ty, pre, samples, e, hp, ht, hs⟩

/-- **whole render, one state**: in a state whose distributions have the kind their family name asks for, every family
    `render` writes is `FamilyShaped` — no hypothesis on the type words is left -/
theorem renderLines_shaped (s : Prom.St) (h : DistBuilder.KindInv s.cfg s.dists) :
    ∀ fam ∈ (Prom.renderLines s).2, FamilyShaped fam := by
  have hk := DistBuilder.drain_kind s h
  intro fam hfam
  simp only [Prom.renderLines, List.mem_append, List.mem_map] at hfam
  rcases hfam with (⟨f, hf, rfl⟩ | ⟨f, hf, rfl⟩) | ⟨f, hf, rfl⟩
  · refine renderFamily_shaped _ _ _ _ _ (by decide) ?_
    intro sr hsr
    obtain ⟨v, hv⟩ := groupFamilies_scalar _ _ f hf sr hsr
    unfold TyMatches; rw [hv]
    exact Or.inl rfl
  · refine renderFamily_shaped _ _ _ _ _ (by decide) ?_
    intro sr hsr
    obtain ⟨v, hv⟩ := groupFamilies_scalar _ _ f hf sr hsr
    unfold TyMatches; rw [hv]
    exact Or.inr rfl
  · refine renderFamily_shaped _ _ _ _ _ (isType_distType _ _) ?_
    intro sr hsr
    simp only [List.mem_map] at hsr
    obtain ⟨ld, hld, rfl⟩ := hsr
    have hkind := hk f hf ld hld
    rw [Prom.drain_cfg] at hkind
    show TyMatches (Prom.distType s.cfg f.1) (Prom.distSeries s.cfg.quantiles ld.1 ld.2)
    rw [distType_newDist, ← hkind]
    exact distSeries_tyMatches _ _ _

/-- **clauses D and E, any history** ("each family has exactly one TYPE line which precedes its samples, every sample
    name is the family name or the family name plus a suffix its type allows"): for EVERY configuration (unit suffix on or
    off, any global labels, global buckets or none, ANY list of bucket overrides, any quantiles) and EVERY history of
    describe / update / upkeep operations on ANY keys (no precondition at all), every family of every render is: optional
    HELP, one TYPE, samples allowed by that TYPE under that name, blank.  The hypothesis `TyMatches` of `family_shape` is
    discharged here. -/
theorem render_families_shaped (cfg : Prom.Cfg) (ops : List Prom.Op) :
    ∀ fam ∈ (Prom.renderLines (ops.foldl Prom.step { cfg := cfg })).2, FamilyShaped fam := by
  have h0 : DistBuilder.KindInv ({ cfg := cfg } : Prom.St).cfg ({ cfg := cfg } : Prom.St).dists := by
    intro f hf; cases hf
  exact renderLines_shaped _ (DistBuilder.run_kind ops _ h0)

/-! ### the same as a sequential reader over the whole list of lines

`FamilyShaped` speaks about each family on its own.  The reader below goes over the flattened output line by line, the way
a scraper does, with the state "what has been announced since the last blank line"; it accepts iff every block is
`HELP? TYPE sample* blank`, the HELP names the TYPE's family, and every sample is allowed by the TYPE line that precedes it
in its block.  It is independent of `renderFamily` (it never looks at how the lines were produced). -/

/-- Boolean form of `AllowedSample` -/
def allowedB (ty fam : List Char) : Line → Bool
  | .sample n sfx _ e _ =>
    n == fam &&
    ( ((ty == "counter".toList || ty == "gauge".toList) && sfx == none && e == none)
    || (ty == "histogram".toList &&
        ((sfx == some "bucket".toList && (match e with | some (k, _) => k == "le".toList | none => false))
         || (sfx == some "sum".toList && e == none) || (sfx == some "count".toList && e == none)))
    || (ty == "summary".toList &&
        ((sfx == none && (match e with | some (k, _) => k == "quantile".toList | none => false))
         || (sfx == some "sum".toList && e == none) || (sfx == some "count".toList && e == none))))
  | _ => false

theorem allowedB_of_allowed (ty fam : List Char) (l : Line) (h : AllowedSample ty fam l) : allowedB ty fam l = true := by
  cases l with
  | help _ _ => exact absurd h (by simp [AllowedSample])
  | type _ _ => exact absurd h (by simp [AllowedSample])
  | blank => exact absurd h (by simp [AllowedSample])
  | sample n sfx ls e v =>
    obtain ⟨rfl, hcase⟩ := h
    rcases hcase with ⟨hty, rfl, rfl⟩ | ⟨rfl, hh⟩ | ⟨rfl, hh⟩
    · rcases hty with rfl | rfl <;> simp [allowedB]
    · rcases hh with ⟨rfl, le, rfl⟩ | ⟨rfl, rfl⟩ | ⟨rfl, rfl⟩ <;> simp [allowedB]
    · rcases hh with ⟨rfl, q, rfl⟩ | ⟨rfl, rfl⟩ | ⟨rfl, rfl⟩ <;> simp [allowedB]

/-- reader state: between families / after a HELP line / after the TYPE line of the current family -/
inductive ScanSt
  | start
  | helped (name : List Char)
  | typed (name ty : List Char)

/-- the sequential reader: `true` iff the lines are a sequence of blocks `HELP? TYPE sample* blank` in which the HELP names
    the family of the TYPE line and every sample is allowed by the (single) TYPE line before it in its block -/
def scan : ScanSt → List Line → Bool
  | .start, [] => true
  | _, [] => false
  | .start, .help n _ :: rest => scan (.helped n) rest
  | .start, .type n t :: rest => isType t && scan (.typed n t) rest
  | .helped n, .type n' t :: rest => n' == n && isType t && scan (.typed n' t) rest
  | .typed _ _, .blank :: rest => scan .start rest
  | .typed n t, l :: rest => allowedB t n l && scan (.typed n t) rest
  | _, _ :: _ => false

theorem scan_samples (n t : List Char) (samples rest : List Line) (h : ∀ l ∈ samples, AllowedSample t n l) :
    scan (.typed n t) (samples ++ Line.blank :: rest) = scan .start rest := by
  induction samples with
  | nil => simp [scan]
  | cons l more ih =>
    have hl := h l (by simp)
    have hb := allowedB_of_allowed t n l hl
    have ih' := ih (fun x hx => h x (by simp [hx]))
    cases l with
    | help _ _ => exact absurd hl (by simp [AllowedSample])
    | type _ _ => exact absurd hl (by simp [AllowedSample])
    | blank => exact absurd hl (by simp [AllowedSample])
    | sample a b c d e => simp only [List.cons_append, scan, hb, Bool.true_and]; exact ih'

theorem scan_family (fam : List Line) (h : FamilyShaped fam) (rest : List Line) :
    scan .start (fam ++ rest) = scan .start rest := by
  obtain ⟨name, ty, pre, samples, rfl, hp, ht, hs⟩ := h
  have hsm := scan_samples name ty samples rest hs
  rcases hp with rfl | ⟨d, rfl⟩
  · simp only [List.nil_append, List.append_assoc, List.cons_append, scan, ht, Bool.true_and]
    exact hsm
  · simp only [List.nil_append, List.append_assoc, List.cons_append, scan, ht, Bool.true_and, beq_self_eq_true]
    exact hsm

theorem scan_families (fams : List (List Line)) (h : ∀ fam ∈ fams, FamilyShaped fam) :
    scan .start fams.flatten = true := by
  induction fams with
  | nil => rfl
  | cons f more ih =>
    rw [List.flatten_cons, scan_family f (h f (by simp))]
    exact ih (fun x hx => h x (by simp [hx]))

/-- **the whole output, read line by line, any history**: the sequential reader accepts the flattened output of every
    render of every history under every configuration — every sample line is preceded, inside its own block, by exactly one
    TYPE line, of a type that allows that sample under that family name (clauses D and E over the whole text, not per
    `renderFamily` call) -/
theorem render_scan_ok (cfg : Prom.Cfg) (ops : List Prom.Op) :
    scan .start (Prom.renderLines (ops.foldl Prom.step { cfg := cfg })).2.flatten = true :=
  scan_families _ (render_families_shaped cfg ops)

/-- the reader is not vacuous: a sample under the wrong family name, a histogram sample under `summary`, a second TYPE line
    in a block and a sample before its TYPE line are all rejected -/
theorem scan_rejects :
    scan .start [.type "a".toList "counter".toList, .sample "b".toList none [] none "1".toList, .blank] = false
    ∧ scan .start [.type "a".toList "summary".toList,
        .sample "a".toList (some "bucket".toList) [] (some ("le".toList, "1".toList)) "1".toList, .blank] = false
    ∧ scan .start [.type "a".toList "counter".toList, .type "a".toList "counter".toList, .blank] = false
    ∧ scan .start [.sample "a".toList none [] none "1".toList, .type "a".toList "counter".toList, .blank] = false
    ∧ scan .start [.type "a".toList "counter".toList, .sample "a".toList none [] none "1".toList] = false := by
  decide

/-! ## 8c. number texts: the `le` label value as TEXT

`render_lines_ok` is about the recorder model's number tokens.  For the values the generator uses as bucket bounds (and
`_sum` / gauge values) — exact `n / 1024` — `PromNum.dyText` is the text `Display for f64` writes (compared text against
text with the real `format!("{}", …)` by the stream `c08 letext`, and against every `le` / dyadic value of whole renders by the
harness oracle `number_text_oracle`).  It is a plain decimal `-?[0-9]+(\.[0-9]+)?`, for every `n`; hence an accepted `le`
label and a value token, so that `seriesLines_ok` / `renderFamily_ok` hold with the REAL texts in place of the model's. -/

theorem natRepr_digit (n : Nat) : ∀ c ∈ (toString n).toList, c.isDigit = true := by
  intro c hc
  rw [Nat.toString_eq_repr, Nat.toList_repr] at hc
  exact Nat.isDigit_of_mem_toDigits (by decide) (by decide) hc

theorem natRepr_ne (n : Nat) : (toString n).toList ≠ [] := by
  rw [Nat.toString_eq_repr, Nat.toList_repr]
  exact Nat.toDigits_ne_nil

theorem fracDigits_digit (fuel : Nat) : ∀ r, ∀ c ∈ PromNum.fracDigits fuel r, c.isDigit = true := by
  induction fuel with
  | zero => intro r c hc; simp [PromNum.fracDigits] at hc
  | succ k ih =>
    intro r c hc
    simp only [PromNum.fracDigits] at hc
    split at hc
    · simp at hc
    · rcases List.mem_append.mp hc with h | h
      · exact natRepr_digit _ c h
      · exact ih _ c h

theorem fracDigits_ne (k r : Nat) (hr : r ≠ 0) : PromNum.fracDigits (k + 1) r ≠ [] := by
  simp only [PromNum.fracDigits, hr, if_false]
  intro h
  exact natRepr_ne _ (List.append_eq_nil_iff.mp h).1

/-- **plain decimal, every n**: the text of `n / 1024` is an optional `-`, at least one digit, and — only when the value is
    not an integer — a `.` followed by at least one digit.  No exponent, no blank, no `+`, nothing else. -/
theorem dyText_shape (n : Int) : ∃ ip fp : List Char,
    ip ≠ [] ∧ (∀ c ∈ ip, c.isDigit = true) ∧ (∀ c ∈ fp, c.isDigit = true)
    ∧ (fp = [] ↔ n.natAbs % 1024 = 0)
    ∧ PromNum.dyText n = (if n < 0 then ['-'] else []) ++ ip ++ (if fp = [] then [] else '.' :: fp) := by
  by_cases hz : n.natAbs % 1024 = 0
  · refine ⟨(toString (n.natAbs / 1024)).toList, [], natRepr_ne _, natRepr_digit _, (by intro c hc; cases hc),
      ⟨fun _ => hz, fun _ => rfl⟩, ?_⟩
    simp [PromNum.dyText, hz]
  · have hne := fracDigits_ne 9 (n.natAbs % 1024) hz
    refine ⟨(toString (n.natAbs / 1024)).toList, PromNum.fracDigits 10 (n.natAbs % 1024), natRepr_ne _, natRepr_digit _,
      fracDigits_digit 10 _, ⟨fun h => absurd h hne, fun h => absurd h hz⟩, ?_⟩
    simp only [PromNum.dyText, hz, if_false, hne]

theorem digit_safe {c : Char} (h : c.isDigit = true) : c ≠ ' ' ∧ c ≠ '\n' ∧ c ≠ '\\' ∧ c ≠ '"' := by
  refine ⟨?_, ?_, ?_, ?_⟩ <;> (intro e; subst e; revert h; decide)

theorem dyText_safe (n : Int) : ∀ c ∈ PromNum.dyText n, c ≠ ' ' ∧ c ≠ '\n' ∧ c ≠ '\\' ∧ c ≠ '"' := by
  obtain ⟨ip, fp, _, hip, hfp, _, e⟩ := dyText_shape n
  intro c hc
  rw [e] at hc
  simp only [List.mem_append] at hc
  rcases hc with (hc | hc) | hc
  · split at hc
    · simp only [List.mem_singleton] at hc; subst hc; decide
    · cases hc
  · exact digit_safe (hip c hc)
  · split at hc
    · cases hc
    · rcases List.mem_cons.mp hc with rfl | h
      · decide
      · exact digit_safe (hfp c h)

theorem dyText_ne (n : Int) : PromNum.dyText n ≠ [] := by
  obtain ⟨ip, fp, hne, _, _, _, e⟩ := dyText_shape n
  rw [e]
  intro h
  exact hne (List.append_eq_nil_iff.mp (List.append_eq_nil_iff.mp h).1).2

/-- **the real `le` text is an accepted label value and a value token**, for every bound `n / 1024`: with the text
    `Display` writes in place of the model's token, the `le` label of a `_bucket` line is `LabelOk` and the text is `IsToken`
    (what `DataOk` asks of a histogram's buckets and of `_sum`) -/
theorem le_text_ok (n : Int) :
    LabelOk ("le".toList, PromNum.dyText n) ∧ WF false (PromNum.dyText n) ∧ IsToken (PromNum.dyText n) = true := by
  have hs := dyText_safe n
  have hwf : WF false (PromNum.dyText n) := wf_of_safe (fun c hc => ⟨(hs c hc).2.2.1, (hs c hc).2.1, (hs c hc).2.2.2⟩)
  have hle : IsLabelName "le".toList = true := by decide
  refine ⟨⟨hle, hwf⟩, hwf, ?_⟩
  have hne := dyText_ne n
  cases hv : PromNum.dyText n with
  | nil => exact absurd hv hne
  | cons a as =>
    rw [hv] at hs
    simp only [IsToken, List.isEmpty_cons, Bool.not_false, Bool.true_and, List.all_eq_true, Bool.and_eq_true,
      bne_iff_ne, ne_eq]
    intro c hc
    exact ⟨(hs c hc).1, (hs c hc).2.1⟩

/-- a histogram series whose bounds, counts and sum carry the REAL texts (`dyText` for f64, `natText` for u64) is `SeriesOk`:
    `renderFamily_ok` applies to it as it does to the model's tokens -/
theorem histSeries_realText_ok (labels : List (List Char)) (hl : LabelsOk labels) (bounds : List (Int × Nat))
    (count : Nat) (sum : Int) :
    SeriesOk ⟨labels, .hist (bounds.map (fun bc => (PromNum.dyText bc.1, Prom.natText bc.2))) (Prom.natText count)
      (PromNum.dyText sum)⟩ := by
  refine ⟨hl, ?_, natText_token count, (le_text_ok sum).2.2⟩
  intro b hb
  simp only [List.mem_map] at hb
  obtain ⟨bc, _, rfl⟩ := hb
  exact ⟨(le_text_ok bc.1).2.1, natText_token bc.2⟩

example : PromNum.dyText 512 = "0.5".toList ∧ PromNum.dyText (-1) = "-0.0009765625".toList
    ∧ PromNum.dyText 1024 = "1".toList ∧ PromNum.dyText 0 = "0".toList ∧ PromNum.dyText (-2560) = "-2.5".toList
    ∧ PromNum.dyText 2147483647 = "2097151.9990234375".toList := by decide

/-! ## 9. source facts: what a run on ASCII-only or ordinary inputs cannot tell apart -/

/-- obligation **src_char_classes**: the four character-class predicates of formatting.rs are written with
    the ASCII tests the model (`validNameStart` … `validLabelChar`, via `Char.isAlpha`/`Char.isAlphanum`, which
    are ASCII-only) encodes, no further classifying function exists, and the two sanitizers use them as
    `start` / `rest` with `_` as the replacement. -/
theorem src_char_classes :
    Generated.fmt_valid_metric_name_start_character = "c.is_ascii_alphabetic() || c == '_' || c == ':'"
    ∧ Generated.fmt_valid_metric_name_character = "c.is_ascii_alphanumeric() || c == '_' || c == ':'"
    ∧ Generated.fmt_valid_label_key_start_character = "c.is_ascii_alphabetic() || c == '_'"
    ∧ Generated.fmt_valid_label_key_character = "c.is_ascii_alphanumeric() || c == '_'"
    ∧ Generated.fmt_char_class_fns = ["valid_metric_name_start_character", "valid_metric_name_character",
        "valid_label_key_start_character", "valid_label_key_character"]
    ∧ Generated.fmt_sanitize_metric_name_shape = ["valid_metric_name_start_character", "valid_metric_name_character", "_"]
    ∧ Generated.fmt_sanitize_label_key_shape = ["valid_label_key_start_character", "valid_label_key_character", "_"] := by
  decide

/-- obligation **src_escape_arms**: the escaper matches on exactly newline, quote (label values only),
    backslash, anything else — as `escGo` — and pushes only the three escape pairs -/
theorem src_escape_arms :
    Generated.fmt_escape_arms = ["'\\n'", "'\"' if !is_desc", "'\\\\'", "c"]
    ∧ Generated.fmt_escape_pushes = ["\"\\\\n\"", "\"\\\\\\\"\"", "\"\\\\\\\\\"", "\"\\\\\\\\\"", "\"\\\\\\\\\""] := by
  decide

/-- obligation **src_escape_length_independent**: what ties `escape_append` / `escape_length` to the code at
    lengths no run reaches.  The two public escapers only forward to the shared loop (nothing is done to its
    result: no cap, no truncation); inside, the output buffer is only ever appended to (`push` / `push_str`) and
    is what the function returns; no statement of the loop looks at a length, index, capacity or byte offset;
    formatting.rs declares no constant (a limit would be one). -/
theorem src_escape_length_independent :
    Generated.fmt_sanitize_label_value_body = "sanitize_label_value_or_description(value, false)"
    ∧ Generated.fmt_sanitize_description_body = "sanitize_label_value_or_description(value, true)"
    ∧ Generated.fmt_escape_output_methods.all (fun m => m == "push" || m == "push_str") = true
    ∧ Generated.fmt_escape_output_methods.length = 6
    ∧ Generated.fmt_escape_loop_found = true
    ∧ Generated.fmt_escape_loop_length_words = []
    ∧ Generated.fmt_escape_returns_buffer = true
    ∧ Generated.fmt_consts = [] := by
  decide

/-- obligation **src_unit_table**: `Unit::as_str` is the table `MUnit.asStr` in declaration order, and the
    unit arms of `write_metric_line` and of `family_name` are those of `unitSuffix`
    (`Count`/`None` nothing, `Percent` `_ratio`, otherwise `_` + `as_str`) -/
theorem src_unit_table :
    Generated.unit_as_str.map (·.2) = MUnit.all.map MUnit.asStr
    ∧ Generated.unit_as_str.map (·.1) = ["Count", "Percent", "Seconds", "Milliseconds", "Microseconds",
        "Nanoseconds", "Tebibytes", "Gibibytes", "Mebibytes", "Kibibytes", "Bytes", "TerabitsPerSecond",
        "GigabitsPerSecond", "MegabitsPerSecond", "KilobitsPerSecond", "BitsPerSecond", "CountPerSecond"]
    ∧ Generated.fmt_write_metric_line_unit_arms = ["Some(Unit::Count) | None", "Some(Unit::Percent)", "Some(unit)",
        "pushes:", "'_'", "\"ratio\"", "'_'", "unit.as_str("]
    ∧ Generated.prom_family_name_unit_arms = ["Some(Unit::Count) | None", "Some(Unit::Percent)", "Some(unit)",
        "pushes:", "\"_ratio\"", "'_'", "unit.as_str("] := by
  decide

/-- `key_to_parts` removes duplicates on the RAW label name: two names that differ before and agree after
    sanitising give a sample with the same label name twice (outside the property's precondition, which asks
    for distinct sanitised label names; kept as a recorded oddity of the code) -/
theorem parts_dup_label_witness :
    (keyToParts "m".toList [("a.b".toList, "1".toList), ("a-b".toList, "2".toList)] []).2
      = ["a_b=\"1\"".toList, "a_b=\"2\"".toList] := by decide

/-! ## 6. non-vacuity: concrete hostile inputs satisfy the hypotheses and go through the reader -/

example : (Prom.renderLines (collisionOps.foldl Prom.step { cfg := collisionCfg })).2.flatten.length = 7 := by decide

example : ReadsBack (.sample "a_b".toList (some "bucket".toList) [formatLabel "k²".toList "v\"\\\n".toList]
    (some ("le".toList, "+Inf".toList)) "3".toList) :=
  line_reads_back _ ⟨by decide, suffixOk_lit _ (by decide),
    ⟨[(sanitizeLabelKey "k²".toList, sanitizeLabelValue "v\"\\\n".toList)], by simp [formatLabel, labelStr],
      by intro kt h; simp only [List.mem_singleton] at h; subst h
         exact ⟨label_key_grammar "k²".toList (by decide), escape_wf_value _⟩⟩,
    by intro kt h; cases h; exact ⟨by decide, wf_of_safe (by decide)⟩, by decide⟩


/-- the seed-C08-6 shape: 1023 plain characters and a quote — the escape pair is complete -/
example : sanitizeLabelValue (List.replicate 1023 'a' ++ ['"', 'b'])
    = List.replicate 1023 'a' ++ ['\\', '"', 'b'] := by
  rw [(escape_boundary 1023 'a' (by decide) ['"', 'b']).1]; rfl

example : sanitizeDescription (List.replicate 65535 'é' ++ ['\\', '\n'])
    = List.replicate 65535 'é' ++ ['\\', 'n', '\\', '\\'] := by
  rw [(escape_boundary 65535 'é' (by decide) ['\\', '\n']).2]; rfl

example : escRun false false ['a', '\\'] = (true, ['a']) ∧ escRun false true ['"', '\n'] = (false, ['\\', '"', '\\', 'n']) := by
  decide

example : parseSample (writeMetricLine (sanitizeMetricName "9lat{ency\n".toList) (some "bucket".toList)
      [formatLabel "a\"b".toList "x\"} 1\n# TYPE evil counter\\".toList] (some ("le".toList, "0.5".toList))
      "3".toList (some .seconds))
    = some ⟨"_lat_ency__bucket_seconds".toList,
            [("a_b".toList, "x\\\"} 1\\n# TYPE evil counter\\\\".toList), ("le".toList, "0.5".toList)],
            "3".toList⟩ := by decide

example : (renderFamily true "lat".toList (some ("d".toList, some .seconds)) "histogram".toList
    [⟨[], .hist [("1".toList, "0".toList)] "2".toList "3".toList⟩]).map Line.text
  = ["# HELP lat_seconds d\n".toList, "# TYPE lat_seconds histogram\n".toList,
     "lat_seconds_bucket{le=\"1\"} 0\n".toList, "lat_seconds_bucket{le=\"+Inf\"} 2\n".toList,
     "lat_seconds_sum 3\n".toList, "lat_seconds_count 2\n".toList, "\n".toList] := by decide

end MetricsVerif.C08
