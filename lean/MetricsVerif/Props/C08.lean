/-
C08 — Prometheus output is well-formed exposition text for any input strings.

Property theorems only; helper lemmas live in `Proofs/PromFmt.lean`.  Everything is for ALL strings
(`List Char` = any sequence of Unicode scalar values), all 17 units, unit suffix on and off, all three
family kinds — by induction, no sampling.
-/
import MetricsVerif.Proofs.PromFmt

namespace MetricsVerif.C08
open MetricsVerif.PromFmt MetricsVerif.PromRender MetricsVerif.Expo

/-! ## 1. names match the Prometheus grammar -/

/-- every non-empty string becomes a grammar-conforming metric name -/
theorem name_grammar (s : List Char) (h : s ≠ []) : IsMetricName (sanitizeMetricName s) = true :=
  sanitizeMetricName_grammar s h

/-- every non-empty string becomes a grammar-conforming label name -/
theorem label_key_grammar (s : List Char) (h : s ≠ []) : IsLabelName (sanitizeLabelKey s) = true :=
  sanitizeLabelKey_grammar s h

/-- sanitising keeps the length (no character is dropped or added) and is idempotent on valid names -/
theorem name_length (s : List Char) : (sanitizeMetricName s).length = s.length := sanitizeWith_length _ _ s
theorem name_idempotent (s : List Char) (h : s ≠ []) :
    sanitizeMetricName (sanitizeMetricName s) = sanitizeMetricName s :=
  sanitizeMetricName_id _ (name_grammar s h)

/-! ## 2. escaping: label values and help text are sequences of escape pairs and harmless characters -/

theorem escape_wf_value (s : List Char) : WF false (sanitizeLabelValue s) := sanitizeLabelValue_wf s
theorem escape_wf_description (s : List Char) : WF true (sanitizeDescription s) := sanitizeDescription_wf s

/-- the label string `key_to_parts` formats is one the grammar accepts, for any user strings -/
theorem formatLabel_ok (k v : List Char) (hk : k ≠ []) :
    formatLabel k v = labelStr (sanitizeLabelKey k, sanitizeLabelValue v) ∧
    LabelOk (sanitizeLabelKey k, sanitizeLabelValue v) :=
  ⟨by simp [formatLabel, labelStr], label_key_grammar k hk, escape_wf_value v⟩

/-! ## 3. an independent reader of the format reads back exactly what was meant -/

/-- suffixes `write_metric_line` is called with -/
def SuffixOk (s : Option (List Char)) : Prop := ∀ x, s = some x → x.all nameChar = true

theorem unitSuffix_chars (u : Option MUnit) : ∀ x, unitSuffix u = some x → x.all nameChar = true := by
  intro x hx
  cases u with
  | none => simp [unitSuffix] at hx
  | some u => cases u <;> simp [unitSuffix] at hx <;> (subst hx; decide)

theorem fullName_grammar (n : List Char) (hn : IsMetricName n = true) (sfx : Option (List Char))
    (hs : SuffixOk sfx) (u : Option MUnit) : IsMetricName (fullName n sfx u) = true := by
  cases n with
  | nil => simp [IsMetricName] at hn
  | cons c cs =>
    simp only [IsMetricName, Bool.and_eq_true] at hn
    simp only [fullName, List.cons_append, IsMetricName, Bool.and_eq_true, List.all_append]
    refine ⟨hn.1, ⟨hn.2, ?_⟩, ?_⟩
    · cases sfx with
      | none => simp
      | some s => simp only [List.all_cons, Bool.and_eq_true]; exact ⟨by decide, hs s rfl⟩
    · cases hu : unitSuffix u with
      | none => simp
      | some s => simp only [List.all_cons, Bool.and_eq_true]; exact ⟨by decide, unitSuffix_chars u s hu⟩

/-- **sample round trip.**  For every grammar-conforming name, every list of accepted labels (in
    particular everything `key_to_parts` produces, see `formatLabel_ok`), every additional label and every
    value token, the line `write_metric_line` writes is read by the independent reader as exactly one
    sample with that name, exactly those labels in order, and that value.  Hence no quote, backslash or
    newline in user data can end a value early, start a new line or forge a sample. -/
theorem sample_roundtrip (n : List Char) (hn : IsMetricName n = true) (sfx : Option (List Char))
    (hs : SuffixOk sfx) (u : Option MUnit) (lbls : List (List Char × List Char))
    (hl : ∀ kt ∈ lbls, LabelOk kt) (extra : Option (List Char × List Char))
    (he : ∀ kt, extra = some kt → LabelOk kt) (v : List Char) (hv : IsToken v = true) :
    parseSample (writeMetricLine n sfx (lbls.map labelStr) extra v u)
      = some ⟨fullName n sfx u, lbls ++ extra.toList, v⟩ := by
  have hfn := fullName_grammar n hn sfx hs u
  have hall := IsMetricName.all hfn
  unfold writeMetricLine
  by_cases hempty : ((lbls.map labelStr).isEmpty && extra.isNone) = true
  · -- no label block
    rw [if_pos hempty]
    simp only [Bool.and_eq_true, List.isEmpty_iff, List.map_eq_nil_iff, Option.isNone_iff_eq_none] at hempty
    obtain ⟨rfl, rfl⟩ := hempty
    simp only [parseSample, List.nil_append, List.append_assoc, List.cons_append]
    rw [spanName_append _ hall ' ' (by decide)]
    simp only [hfn, if_true]
    have := parseValue_token v hv
    simp only [List.cons_append] at this
    simp [this]
  · rw [if_neg hempty]
    rw [labelBlock_eq]
    have hne : lbls ++ extra.toList ≠ [] := by
      intro h
      simp only [List.append_eq_nil_iff] at h
      apply hempty
      cases extra <;> simp_all
    have hok : ∀ kt ∈ lbls ++ extra.toList, LabelOk kt := by
      intro kt hkt
      simp only [List.mem_append] at hkt
      rcases hkt with h | h
      · exact hl kt h
      · cases extra with
        | none => simp at h
        | some e => simp at h; exact he kt (by rw [h])
    simp only [parseSample, List.append_assoc, List.cons_append, List.nil_append]
    rw [spanName_append _ hall '{' (by decide)]
    simp only [hfn, if_true]
    rw [labelsGo_all _ hne hok]
    have := parseValue_token v hv
    simp only [List.cons_append] at this
    simp [this]

/-- **HELP round trip**: the docstring cannot break out of its line -/
theorem help_roundtrip (n : List Char) (hn : IsMetricName n = true) (d : List Char) :
    parseHelp (writeHelpLine n d) = some (n, sanitizeDescription d) := by
  have hall := IsMetricName.all hn
  have hdoc := (sanitizeDescription_wf d).docOk
  simp only [writeHelpLine, parseHelp, List.append_assoc, List.cons_append, List.nil_append]
  rw [spanName_append _ hall ' ' (by decide)]
  simp [hn, hdoc]

theorem type_roundtrip (n : List Char) (hn : IsMetricName n = true) (t : List Char) (ht : isType t = true) :
    parseType (writeTypeLine n t) = some (n, t) := by
  have hall := IsMetricName.all hn
  simp only [writeTypeLine, parseType, List.append_assoc, List.cons_append, List.nil_append]
  rw [spanName_append _ hall ' ' (by decide)]
  simp [hn, ht]


/-! ## 4. every written line is exactly one line; the text splits back into the lines written -/

/-- exactly one newline, at the end -/
def OneLine (l : List Char) : Prop := ∃ body, l = body ++ ['\n'] ∧ '\n' ∉ body

/-- what the renderer passes to the writers (established for `renderFamily` below) -/
def LineOk : Line → Prop
  | .help n _ => IsMetricName n = true
  | .type n t => IsMetricName n = true ∧ isType t = true
  | .sample n sfx ls e v => IsMetricName n = true ∧ SuffixOk sfx
      ∧ (∃ lbls : List (List Char × List Char), ls = lbls.map labelStr ∧ ∀ kt ∈ lbls, LabelOk kt)
      ∧ (∀ kt, e = some kt → LabelOk kt) ∧ IsToken v = true
  | .blank => True

theorem all_nameChar_no_newline {n : List Char} (h : n.all nameChar = true) : '\n' ∉ n := by
  intro hm
  have := List.all_eq_true.mp h _ hm
  revert this; decide

theorem isToken_no_newline {v : List Char} (h : IsToken v = true) : '\n' ∉ v := by
  intro hm
  simp only [IsToken, Bool.and_eq_true, List.all_eq_true] at h
  have := h.2 _ hm
  simp at this

theorem labelOk_no_newline {kt : List Char × List Char} (h : LabelOk kt) : '\n' ∉ labelStr kt := by
  obtain ⟨k, t⟩ := kt
  obtain ⟨hk, ht⟩ := h
  have h1 : '\n' ∉ k := by
    intro hm
    have := List.all_eq_true.mp (IsLabelName.all hk) _ hm
    revert this; decide
  have h2 := ht.no_newline
  simp only [labelStr, List.mem_append, List.mem_cons, List.not_mem_nil, not_or]
  exact ⟨⟨⟨h1, by decide, by decide, not_false⟩, h2⟩, by decide, not_false⟩

theorem joinComma_no_newline (ls : List (List Char)) (h : ∀ l ∈ ls, '\n' ∉ l) : '\n' ∉ joinComma ls := by
  induction ls with
  | nil => simp [joinComma]
  | cons l more ih =>
    cases more with
    | nil => simpa [joinComma] using h l (by simp)
    | cons m more2 =>
      simp only [joinComma, List.mem_append, List.mem_cons, not_or]
      exact ⟨h l (by simp), by decide, ih (fun x hx => h x (by simp [hx]))⟩

theorem line_oneLine (l : Line) (h : LineOk l) : OneLine l.text := by
  cases l with
  | help n d =>
    refine ⟨['#', ' ', 'H', 'E', 'L', 'P', ' '] ++ n ++ [' '] ++ sanitizeDescription d, by simp [Line.text, writeHelpLine], ?_⟩
    have h' : IsMetricName n = true := h
    have h1 := all_nameChar_no_newline (IsMetricName.all h')
    have h2 := (sanitizeDescription_wf d).no_newline
    simp only [List.mem_append, List.mem_cons, List.not_mem_nil, not_or]
    exact ⟨⟨⟨by decide, h1⟩, by decide, not_false⟩, h2⟩
  | type n t =>
    refine ⟨['#', ' ', 'T', 'Y', 'P', 'E', ' '] ++ n ++ [' '] ++ t, by simp [Line.text, writeTypeLine], ?_⟩
    have h1 := all_nameChar_no_newline (IsMetricName.all h.1)
    have h2 : '\n' ∉ t := by
      have := h.2
      simp only [isType, Bool.or_eq_true, beq_iff_eq] at this
      rcases this with (((h | h) | h) | h) | h <;> (subst h; decide)
    simp only [List.mem_append, List.mem_cons, List.not_mem_nil, not_or]
    exact ⟨⟨⟨by decide, h1⟩, by decide, not_false⟩, h2⟩
  | blank => exact ⟨[], rfl, by simp⟩
  | sample n sfx ls e v =>
    obtain ⟨hn, hs, ⟨lbls, rfl, hl⟩, he, hv⟩ := h
    have hfn := all_nameChar_no_newline (IsMetricName.all (fullName_grammar n hn sfx hs none))
    have hvn := isToken_no_newline hv
    refine ⟨fullName n sfx none ++ (if (lbls.map labelStr).isEmpty && e.isNone then [] else labelBlock (lbls.map labelStr) e)
        ++ [' '] ++ v, by simp [Line.text, writeMetricLine], ?_⟩
    have hblock : '\n' ∉ (if (lbls.map labelStr).isEmpty && e.isNone then [] else labelBlock (lbls.map labelStr) e) := by
      split
      · simp
      · rw [labelBlock_eq]
        have : '\n' ∉ joinComma ((lbls ++ e.toList).map labelStr) := by
          apply joinComma_no_newline
          intro l hl'
          simp only [List.mem_map, List.mem_append] at hl'
          obtain ⟨kt, hkt, rfl⟩ := hl'
          rcases hkt with hkt | hkt
          · exact labelOk_no_newline (hl kt hkt)
          · cases e with
            | none => simp at hkt
            | some x => simp at hkt; exact labelOk_no_newline (he kt (by rw [hkt]))
        intro hm
        simp only [List.mem_cons, List.mem_append, List.not_mem_nil, or_false] at hm
        rcases hm with (hm | hm) | hm
        · revert hm; decide
        · exact this hm
        · revert hm; decide
    simp only [List.mem_append, List.mem_cons, List.not_mem_nil, not_or]
    exact ⟨⟨⟨hfn, hblock⟩, by decide, not_false⟩, hvn⟩

theorem splitLines_oneLine_append (body rest : List Char) (h : '\n' ∉ body) :
    splitLines (body ++ ['\n'] ++ rest) = (body ++ ['\n']) :: splitLines rest := by
  induction body with
  | nil => simp [splitLines]
  | cons c cs ih =>
    simp only [List.mem_cons, not_or] at h
    have hc : c ≠ '\n' := fun e => h.1 e.symm
    simp only [List.cons_append, splitLines, hc, if_false]
    have := ih h.2
    simp only [List.append_assoc, List.cons_append, List.nil_append] at this
    simp [this]

/-- **no line injection**: splitting the rendered text at newlines gives back exactly the lines the
    renderer wrote — user data never starts a new line, for any list of well-formed lines. -/
theorem text_splits_back (ls : List Line) (h : ∀ l ∈ ls, LineOk l) :
    splitLines (renderText ls) = ls.map Line.text := by
  induction ls with
  | nil => simp [renderText, splitLines]
  | cons l more ih =>
    obtain ⟨body, hb, hnl⟩ := line_oneLine l (h l (by simp))
    have ih' := ih (fun x hx => h x (by simp [hx]))
    simp only [renderText, List.flatMap_cons, List.map_cons] at ih' ⊢
    rw [hb, splitLines_oneLine_append body _ hnl, ih']

/-! ## 5. family shape: one TYPE line, before the samples; every sample belongs to the family -/

/-- the type word matches what the series carry (C15 proves this for `get_distribution_type`) -/
def TyMatches (ty : List Char) (s : Series) : Prop :=
  match s.data with
  | .scalar _ => ty = "counter".toList ∨ ty = "gauge".toList
  | .hist .. => ty = "histogram".toList
  | .summ .. => ty = "summary".toList

/-- sample shapes the exposition format allows in a family of type `ty` named `fam` -/
def AllowedSample (ty fam : List Char) : Line → Prop
  | .sample n sfx _ e _ =>
    n = fam ∧
    ( ((ty = "counter".toList ∨ ty = "gauge".toList) ∧ sfx = none ∧ e = none)
    ∨ (ty = "histogram".toList ∧
        ((sfx = some "bucket".toList ∧ ∃ le, e = some ("le".toList, le))
         ∨ (sfx = some "sum".toList ∧ e = none) ∨ (sfx = some "count".toList ∧ e = none)))
    ∨ (ty = "summary".toList ∧
        ((sfx = none ∧ ∃ q, e = some ("quantile".toList, q))
         ∨ (sfx = some "sum".toList ∧ e = none) ∨ (sfx = some "count".toList ∧ e = none))))
  | _ => False

theorem seriesLines_allowed (ty fam : List Char) (s : Series) (h : TyMatches ty s) :
    ∀ l ∈ seriesLines fam s, AllowedSample ty fam l := by
  intro l hl
  unfold seriesLines at hl
  unfold TyMatches at h
  cases hd : s.data with
  | scalar v =>
    rw [hd] at hl h
    simp only [List.mem_singleton] at hl
    subst hl
    exact ⟨rfl, Or.inl ⟨h, rfl, rfl⟩⟩
  | hist bs c sm =>
    rw [hd] at hl h
    simp only [List.mem_append, List.mem_map, List.mem_cons, List.not_mem_nil, or_false] at hl
    rcases hl with ⟨b, _, rfl⟩ | rfl | rfl | rfl
    · exact ⟨rfl, Or.inr (Or.inl ⟨h, Or.inl ⟨rfl, _, rfl⟩⟩)⟩
    · exact ⟨rfl, Or.inr (Or.inl ⟨h, Or.inl ⟨rfl, _, rfl⟩⟩)⟩
    · exact ⟨rfl, Or.inr (Or.inl ⟨h, Or.inr (Or.inl ⟨rfl, rfl⟩)⟩)⟩
    · exact ⟨rfl, Or.inr (Or.inl ⟨h, Or.inr (Or.inr ⟨rfl, rfl⟩)⟩)⟩
  | summ qs sm c =>
    rw [hd] at hl h
    simp only [List.mem_append, List.mem_map, List.mem_cons, List.not_mem_nil, or_false] at hl
    rcases hl with ⟨b, _, rfl⟩ | rfl | rfl
    · exact ⟨rfl, Or.inr (Or.inr ⟨h, Or.inl ⟨rfl, _, rfl⟩⟩)⟩
    · exact ⟨rfl, Or.inr (Or.inr ⟨h, Or.inr (Or.inl ⟨rfl, rfl⟩)⟩)⟩
    · exact ⟨rfl, Or.inr (Or.inr ⟨h, Or.inr (Or.inr ⟨rfl, rfl⟩)⟩)⟩

/-- **family shape.**  For every name, description, unit, unit-suffix setting and list of series, a family
    is rendered as: at most one HELP line, then exactly one TYPE line, then only sample lines whose name is
    the family name of the TYPE line (plus a suffix the type allows), then a blank line.  The family name
    is the sanitised name plus the unit suffix when enabled — the same on HELP, TYPE and every sample. -/
theorem family_shape (on : Bool) (name : List Char) (desc : Option (List Char × Option MUnit))
    (ty : List Char) (series : List Series) (h : ∀ s ∈ series, TyMatches ty s) :
    ∃ fam pre samples,
      renderFamily on name desc ty series = pre ++ [Line.type fam ty] ++ samples ++ [Line.blank]
      ∧ (pre = [] ∨ ∃ d, pre = [Line.help fam d])
      ∧ (∀ l ∈ samples, AllowedSample ty fam l)
      ∧ fam = familyName name (match desc with | some (_, u) => if on then u else none | none => none) := by
  refine ⟨_, (match desc with | some (d, _) => [Line.help _ d] | none => []), series.flatMap (seriesLines _), rfl, ?_, ?_, rfl⟩
  · cases desc with
    | none => exact Or.inl rfl
    | some du => exact Or.inr ⟨du.1, rfl⟩
  · intro l hl
    simp only [List.mem_flatMap] at hl
    obtain ⟨s, hs, hl⟩ := hl
    exact seriesLines_allowed ty _ s (h s hs) l hl

/-- a sample's written name is the family name followed by `_suffix` -/
theorem sample_written_name (fam : List Char) (sfx : Option (List Char)) :
    fullName fam sfx none = fam ++ (match sfx with | some s => '_' :: s | none => []) := by
  cases sfx <;> simp [fullName, unitSuffix]

/-- family names are grammar-conforming for every unit -/
theorem familyName_grammar (n : List Char) (hn : IsMetricName n = true) (u : Option MUnit) :
    IsMetricName (familyName n u) = true := by
  exact fullName_grammar n hn none (by intro x hx; cases hx) u

/-! ## 6. non-vacuity: concrete hostile inputs satisfy the hypotheses and go through the reader -/

example : parseSample (writeMetricLine (sanitizeMetricName "9lat{ency\n".toList) (some "bucket".toList)
      [formatLabel "a\"b".toList "x\"} 1\n# TYPE evil counter\\".toList] (some ("le".toList, "0.5".toList))
      "3".toList (some .seconds))
    = some ⟨"_lat_ency__bucket_seconds".toList,
            [("a_b".toList, "x\\\"} 1\\n# TYPE evil counter\\\\".toList), ("le".toList, "0.5".toList)],
            "3".toList⟩ := by decide

example : (renderFamily true "lat".toList (some ("d".toList, some .seconds)) "histogram".toList
    [⟨[], .hist [("1".toList, "0".toList)] "2".toList "3".toList⟩]).map Line.text
  = ["# HELP lat_seconds d\n".toList, "# TYPE lat_seconds histogram\n".toList,
     "lat_seconds_bucket{le=\"1\"} 0\n".toList, "lat_seconds_bucket{le=\"+Inf\"} 2\n".toList,
     "lat_seconds_sum 3\n".toList, "lat_seconds_count 2\n".toList, "\n".toList] := by decide

end MetricsVerif.C08
