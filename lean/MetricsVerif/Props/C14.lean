/-
C14 — shared strings and label slices own their memory correctly on every path.

Model: `Model/Cow.lean` — a heap of `Vec` buffers, `Arc` blocks and statics; a `Cow` value is the three words
`(ptr, len, capacity)` and its kind is decoded from the capacity word exactly as `Metadata::kind` does.
Every theorem below is for ALL operation sequences over any number of values (construct borrowed / owned
with any length and capacity incl. empty and capacity 0 / shared; clone; deref; compare; into_owned; into
std Cow; drop; the caller creating and dropping its own `Arc`s), proved through one invariant (`Inv`,
`Proofs/Cow.lean`): every live value fits what its pointer really points to and reads back what it was built
from; a buffer is live iff exactly one value points to it and has been freed once iff it is not live; an
`Arc` block's strong count is the caller's references plus the number of values pointing to it.

What the proof is about: the bookkeeping discipline of cow.rs.  That `Vec::from_raw_parts` / `Arc::from_raw`
are used with the right *byte* layouts, that `Arc`'s counter is atomic and the allocator thread-safe (so the
same operations may run on another thread) is checked dynamically (tracking allocator) or trusted (DESIGN §2).
-/
import MetricsVerif.Proofs.Cow

namespace MetricsVerif.C14
open MetricsVerif.Cow

/-- the invariant survives any operation sequence; a failing sequence fails with a caller error -/
theorem run_inv (ops : List Op) : ∀ (s : St), Inv s →
    match run s ops with
    | .ok s' => Inv s'
    | .error e => e.isMisuse = true := by
  induction ops with
  | nil => intro s hI; exact hI
  | cons op ops ih =>
    intro s hI
    have h1 := step_inv hI op
    simp only [run]
    cases hs : step s op with
    | error e => rw [hs] at h1; exact h1
    | ok r =>
      obtain ⟨s', a⟩ := r
      rw [hs] at h1
      exact ih s' h1

/-- **memory safety**: no sequence of operations, well-formed or not, reaches a memory error (double free,
    free of something that is not a live buffer, `from_raw_parts` with a foreign length/capacity, read of
    freed or unowned memory, strong-count underflow, `Arc` use after free).  The only way a sequence can
    stop is a caller error that safe Rust cannot express or that panics before any unsafe code runs. -/
theorem cow_safe (ops : List Op) :
    match run init ops with
    | .ok _ => True
    | .error e => e.isMisuse = true := by
  have := run_inv ops init inv_init
  cases h : run init ops with
  | ok s => trivial
  | error e => rw [h] at this; exact this

theorem liveHandle_iff {s : St} {h : Nat} (hl : liveHandle s h = true) : ∃ e, s.vals[h]? = some (some e) := by
  unfold liveHandle at hl
  cases hv : s.vals[h]? with
  | none => simp [hv] at hl
  | some o => cases o with
    | none => simp [hv] at hl
    | some e => exact ⟨e, rfl⟩

theorem getVal_of_some {s : St} {h : Nat} {e : Entry} (he : s.vals[h]? = some (some e)) : getVal s h = .ok e := by
  simp [getVal, he]

def isOk {α} : Except Err α → Bool
  | .ok _ => true
  | .error _ => false

/-- a well-formed operation (live handles, held `Arc`s, owned values that are `Vec`s) always succeeds -/
theorem step_wf {s : St} (hI : Inv s) (op : Op) (hw : wfOp s op = true) : isOk (step s op) = true := by
  cases op with
  | newArc c =>
    have : ¬ usizeMax ≤ c.length := by simp [wfOp] at hw; omega
    (simp only [step, this, if_false]; try rfl)
  | dropArc a =>
    simp only [wfOp] at hw
    have hw' := hw
    unfold heldArc at hw'
    cases hc : s.arcs[a]? with
    | none => simp [hc] at hw'
    | some c =>
      simp [hc] at hw'
      obtain ⟨h1, h2, h3⟩ := hI.arc a c hc
      have hl : c.live = true := by rw [h2]; simp; omega
      have hs : c.strong ≠ 0 := by omega
      (simp only [step, hw, if_true, decArc, hc, hl, hs, if_false, bind, Except.bind]; try rfl)
  | fromBorrowed c =>
    have hc : ¬ usizeMax ≤ c.length := by simp [wfOp] at hw; omega
    have hI' := inv_pushStatic hI c (by omega)
    have hb := bindNew_ok (s := { s with statics := s.statics ++ [c] })
      (v := ⟨.stat s.statics.length, c.length, 0⟩) (g := c) hI'
    (simp only [step, hc, if_false, borrowedIntoParts, hb, bind, Except.bind]; try rfl)
  | fromOwned c cap =>
    simp [wfOp] at hw
    obtain ⟨hw1, hw2⟩ := hw
    have hspec := fromOwned_spec hI c cap
    have h1 : ¬ cap < c.length := by omega
    have h2 : ¬ usizeMax < cap := by omega
    have h3 : ¬ cap = usizeMax := by omega
    have hf : fromOwned s c cap = .ok (ownedIntoParts s c cap) := by
      simp [fromOwned, h1, h2, ownedIntoParts, h3]
    rw [hf] at hspec
    simp only at hspec
    (simp only [step, hf, bind, Except.bind, bindNew_ok hspec]; try rfl)
  | fromShared a =>
    simp only [wfOp] at hw
    unfold heldArc at hw
    cases hc : s.arcs[a]? with
    | none => simp [hc] at hw
    | some c =>
      simp [hc] at hw
      obtain ⟨h1, h2, h3⟩ := hI.arc a c hc
      have hl : c.live = true := by rw [h2]; simp; omega
      have hext : ¬ c.ext = 0 := by omega
      have hI' := inv_newShared hI a c hc hl
      simp only [step, hc, hext, if_false, incStrong, bind, Except.bind]
      rw [if_pos hl]
      simp only [bindNew_ok hI', isOk]
  | clone h =>
    obtain ⟨e, he⟩ := liveHandle_iff (by simpa [wfOp] using hw)
    obtain ⟨s1, v, hc, hI'⟩ := cloneFromParts_spec hI he
    (simp only [step, getVal_of_some he, hc, bind, Except.bind, bindNew_ok hI']; try rfl)
  | deref h =>
    obtain ⟨e, he⟩ := liveHandle_iff (by simpa [wfOp] using hw)
    (simp only [step, getVal_of_some he, bind, Except.bind, read_ok (hI.ent h e he)]; try rfl)
  | eq h1 h2 =>
    simp [wfOp] at hw
    obtain ⟨e1, he1⟩ := liveHandle_iff hw.1
    obtain ⟨e2, he2⟩ := liveHandle_iff hw.2
    (simp only [step, getVal_of_some he1, getVal_of_some he2, bind, Except.bind,
      read_ok (hI.ent h1 e1 he1), read_ok (hI.ent h2 e2 he2)]; try rfl)
  | intoOwned h fc =>
    obtain ⟨e, he⟩ := liveHandle_iff (by simpa [wfOp] using hw)
    obtain ⟨s1, o, hc, hI'⟩ := ownedFromParts_spec hI he fc
    (simp only [step, getVal_of_some he, intoOwned, hc, bind, Except.bind, bindNew_ok hI']; try rfl)
  | intoStdCow h fc =>
    obtain ⟨e, he⟩ := liveHandle_iff (by simpa [wfOp] using hw)
    cases hk : e.val.kind with
    | borrowed =>
      have hI' := inv_move hI h e he
      (simp only [step, getVal_of_some he, hk, dropFromParts, bind, Except.bind, bindNew_ok hI']; try rfl)
    | owned =>
      obtain ⟨s1, o, hc, hI'⟩ := ownedFromParts_spec hI he fc
      (simp only [step, getVal_of_some he, hk, intoOwned, hc, bind, Except.bind, bindNew_ok hI']; try rfl)
    | shared =>
      obtain ⟨s1, o, hc, hI'⟩ := ownedFromParts_spec hI he fc
      (simp only [step, getVal_of_some he, hk, intoOwned, hc, bind, Except.bind, bindNew_ok hI']; try rfl)
  | drop h =>
    obtain ⟨e, he⟩ := liveHandle_iff (by simpa [wfOp] using hw)
    obtain ⟨s1, hc, hI'⟩ := dropFromParts_spec hI he
    (simp only [step, getVal_of_some he, hc, bind, Except.bind]; try rfl)

/-- **every well-formed sequence runs to the end**: if each operation refers to live handles / held `Arc`s
    in the state in which it executes (`wfRun`, a decidable check), no error of any kind occurs. -/
theorem cow_wf_runs (ops : List Op) : ∀ (s : St), Inv s → wfRun s ops = true → ∃ s', run s ops = .ok s' ∧ Inv s' := by
  induction ops with
  | nil => intro s hI _; exact ⟨s, rfl, hI⟩
  | cons op ops ih =>
    intro s hI hw
    simp only [wfRun, Bool.and_eq_true] at hw
    have hok := step_wf hI op hw.1
    have h1 := step_inv hI op
    cases hs : step s op with
    | error e => rw [hs] at hok; simp [isOk] at hok
    | ok r =>
    obtain ⟨s', a⟩ := r
    rw [hs] at h1
    have hw2 := hw.2
    rw [hs] at hw2
    obtain ⟨s'', hr, hI''⟩ := ih s' h1 hw2
    exact ⟨s'', by simp only [run, hs, hr], hI''⟩

/-- reachable states satisfy the invariant -/
theorem reachable_inv {ops : List Op} {s : St} (h : run init ops = .ok s) : Inv s := by
  have := run_inv ops init inv_init
  rw [h] at this
  exact this

/-- **content**: in every reachable state, dereferencing any live value returns exactly the content it was
    built from (`built` is set by the constructor to its argument — see `construct_reads_back` — and copied
    by `clone` / `into_owned` / conversion to `std::borrow::Cow`). -/
theorem deref_reads_built {ops : List Op} {s : St} (hr : run init ops = .ok s) {h : Nat} {e : Entry}
    (he : s.vals[h]? = some (some e)) : step s (.deref h) = .ok (s, .content e.built) := by
  have hI := reachable_inv hr
  simp only [step, getVal_of_some he, bind, Except.bind, read_ok (hI.ent h e he)]

/-- comparing two live values compares the contents they were built from -/
theorem eq_compares_built {ops : List Op} {s : St} (hr : run init ops = .ok s) {h1 h2 : Nat} {e1 e2 : Entry}
    (he1 : s.vals[h1]? = some (some e1)) (he2 : s.vals[h2]? = some (some e2)) :
    step s (.eq h1 h2) = .ok (s, .bool (e1.built == e2.built)) := by
  have hI := reachable_inv hr
  simp only [step, getVal_of_some he1, getVal_of_some he2, bind, Except.bind,
    read_ok (hI.ent h1 e1 he1), read_ok (hI.ent h2 e2 he2)]

/-- a freshly constructed owned value — any length, any capacity, empty, capacity 0 — reads back the content
    it was given, under the next handle -/
theorem construct_reads_back {ops : List Op} {s : St} (hr : run init ops = .ok s) (c : Content) (cap : Nat)
    {s' : St} {a : Ans} (hs : step s (.fromOwned c cap) = .ok (s', a)) :
    a = .handle s.vals.length c ∧ ∃ v, s'.vals[s.vals.length]? = some (some ⟨v, c⟩) := by
  have hI := reachable_inv hr
  have hspec := fromOwned_spec hI c cap
  simp only [step] at hs
  cases hf : fromOwned s c cap with
  | error e => simp [hf, bind, Except.bind] at hs
  | ok r =>
    obtain ⟨s1, v⟩ := r
    rw [hf] at hspec
    simp only at hspec
    simp only [hf, bind, Except.bind, bindNew_ok hspec, Except.ok.injEq, Prod.mk.injEq] at hs
    obtain ⟨h1, h2⟩ := hs
    subst h1; subst h2
    have hv := fromOwned_vals hf
    refine ⟨by rw [hv], v, by simp [hv]⟩

/-- a clone reads back what its source was built from, and the source is untouched -/
theorem clone_reads_same {ops : List Op} {s : St} (hr : run init ops = .ok s) {h : Nat} {e : Entry}
    (he : s.vals[h]? = some (some e)) :
    ∃ s' h', step s (.clone h) = .ok (s', .handle h' e.built) ∧ step s' (.deref h) = .ok (s', .content e.built) := by
  have hI := reachable_inv hr
  obtain ⟨s1, v, hc, hI'⟩ := cloneFromParts_spec hI he
  have hv := cloneFromParts_vals hc
  refine ⟨pushVal s1 v e.built, s.vals.length, ?_, ?_⟩
  · simp only [step, getVal_of_some he, hc, bind, Except.bind, bindNew_ok hI', hv]
  · have he' : (pushVal s1 v e.built).vals[h]? = some (some e) := by
      simp only [pushVal_vals, hv]
      exact getElem?_append_of_some _ _ _ _ he
    simp only [step, getVal_of_some he', bind, Except.bind, read_ok (hI'.ent h e he')]

/-! ## no leak, no double free -/

/-- all values have been dropped or consumed -/
def AllDropped (s : St) : Prop := ∀ (h : Nat) (e : Entry), s.vals[h]? ≠ some (some e)

theorem refs_zero_of_allDropped {s : St} (hd : AllDropped s) (p : Option Entry → Bool) (hp : p none = false) :
    s.vals.countP p = 0 := by
  rw [List.countP_eq_zero]
  intro x hx
  cases x with
  | none => simp [hp]
  | some e =>
    obtain ⟨h, hh⟩ := List.getElem?_of_mem hx
    exact absurd hh (hd h e)

/-- **no leak, no double free**: after any operation sequence that ran to its end, once every value has
    been dropped (or consumed by `into_owned` and its result dropped),
    * every `Vec` buffer that ever existed — the ones handed to `from_owned`, the ones made by `clone`,
      `into_owned`, conversion to `std::borrow::Cow` — is not live and has been freed exactly once;
    * every `Arc` block's strong count equals the number of references the caller still holds; a block the
      caller no longer holds has been freed exactly once, a block it still holds has not been freed;
    * no element of a slice was left undestroyed by a `from_raw_parts` with a short length. -/
theorem cow_no_leak {ops : List Op} {s : St} (hr : run init ops = .ok s) (hd : AllDropped s) :
    (∀ (i : Nat) (c : VecCell), s.vecs[i]? = some c → c.live = false ∧ c.frees = 1)
    ∧ (∀ (i : Nat) (c : ArcCell), s.arcs[i]? = some c →
        c.strong = c.ext ∧ (c.ext = 0 → c.live = false ∧ c.frees = 1) ∧ (0 < c.ext → c.live = true ∧ c.frees = 0))
    ∧ s.leaked = 0 := by
  have hI := reachable_inv hr
  refine ⟨?_, ?_, hI.leak⟩
  · intro i c hc
    obtain ⟨h1, h2⟩ := hI.vec i c hc
    have hz := refs_zero_of_allDropped hd (refVec i) rfl
    simp only [vecRefs, hz] at h1
    cases hl : c.live with
    | true => simp [hl] at h1
    | false => simp [hl] at h2; exact ⟨rfl, h2⟩
  · intro i c hc
    obtain ⟨h1, h2, h3⟩ := hI.arc i c hc
    have hz := refs_zero_of_allDropped hd (refArc i) rfl
    simp only [arcRefs, hz, Nat.add_zero] at h1
    refine ⟨h1, ?_, ?_⟩
    · intro he
      have : c.live = false := by rw [h2, h1, he]; rfl
      rw [this] at h3
      exact ⟨this, by simpa using h3⟩
    · intro he
      have : c.live = true := by rw [h2, h1]; simpa using he
      rw [this] at h3
      exact ⟨this, by simpa using h3⟩

/-- the tracking allocator's view: with all values dropped, the live allocations are exactly the `Arc`
    blocks the caller still holds -/
theorem cow_no_leak_count {ops : List Op} {s : St} (hr : run init ops = .ok s) (hd : AllDropped s) :
    liveAllocs s = (s.arcs.filter (fun c => decide (0 < c.ext))).length := by
  obtain ⟨hv, ha, _⟩ := cow_no_leak hr hd
  unfold liveAllocs
  have h1 : s.vecs.filter (·.live) = [] := by
    rw [List.filter_eq_nil_iff]
    intro c hc
    obtain ⟨i, hi⟩ := List.getElem?_of_mem hc
    simp [(hv i c hi).1]
  have h2 : s.arcs.filter (·.live) = s.arcs.filter (fun c => decide (0 < c.ext)) := by
    apply List.filter_congr
    intro c hc
    obtain ⟨i, hi⟩ := List.getElem?_of_mem hc
    obtain ⟨_, hz, hp⟩ := ha i c hi
    by_cases he : 0 < c.ext
    · simp [(hp he).1, he]
    · have : c.ext = 0 := by omega
      simp [(hz this).1, this]
  rw [h1, h2]; simp

/-- **at most one free, at any time**: in every reachable state — not only at the end — no buffer or block has
    been freed more than once, and it has been freed iff it is no longer live -/
theorem freed_at_most_once {ops : List Op} {s : St} (hr : run init ops = .ok s) :
    (∀ (i : Nat) (c : VecCell), s.vecs[i]? = some c → c.frees = if c.live then 0 else 1)
    ∧ (∀ (i : Nat) (c : ArcCell), s.arcs[i]? = some c → c.frees = if c.live then 0 else 1) := by
  have hI := reachable_inv hr
  exact ⟨fun i c hc => (hI.vec i c hc).2, fun i c hc => (hI.arc i c hc).2.2⟩

/-- **exactly one owner**: in every reachable state a live buffer is pointed to by exactly one live value, a
    freed one by none; an `Arc` block's strong count is the caller's references plus the values pointing to it -/
theorem unique_owner {ops : List Op} {s : St} (hr : run init ops = .ok s) :
    (∀ (i : Nat) (c : VecCell), s.vecs[i]? = some c → vecRefs s i = if c.live then 1 else 0)
    ∧ (∀ (i : Nat) (c : ArcCell), s.arcs[i]? = some c → c.strong = c.ext + arcRefs s i) := by
  have hI := reachable_inv hr
  exact ⟨fun i c hc => (hI.vec i c hc).1, fun i c hc => (hI.arc i c hc).1⟩

/-! ## capacity 0 and empty owned values, as the code treats them -/

/-- an owned value of capacity 0 (`String::new()`, `Vec::new()`): `from_owned` allocates nothing, the value
    decodes as Borrowed, its pointer dangles and is never read through (length 0), clone / drop /
    into_owned touch no allocation — in any state whatsoever -/
theorem cap0_owned_is_borrowed (s : St) :
    fromOwned s [] 0 = .ok (s, ⟨.dangling, 0, 0⟩)
    ∧ (⟨.dangling, 0, 0⟩ : CowVal).kind = .borrowed
    ∧ readPtr s .dangling 0 = .ok []
    ∧ cloneFromParts s ⟨.dangling, 0, 0⟩ = .ok (s, ⟨.dangling, 0, 0⟩)
    ∧ dropFromParts s ⟨.dangling, 0, 0⟩ = .ok s
    ∧ ownedFromParts s ⟨.dangling, 0, 0⟩ 0 = .ok (s, ⟨.dangling, 0, 0⟩) := by
  have hk : (⟨.dangling, 0, 0⟩ : CowVal).kind = .borrowed := by decide
  have h0 : ¬ (0 = usizeMax) := by decide
  refine ⟨?_, hk, rfl, ?_, ?_, ?_⟩
  · simp [fromOwned, ownedIntoParts, allocVec, h0]
  · simp [cloneFromParts, hk]
  · simp [dropFromParts, hk]
  · simp [ownedFromParts, hk, readPtr, bind, Except.bind, ownedIntoParts, allocVec, freshCap]

/-- an empty owned value *with* capacity (`String::with_capacity(n)`) is Owned: it owns the buffer, its clone
    is a capacity-0 value that owns nothing, and dropping it frees the buffer with the capacity it was given -/
theorem empty_with_capacity (cap : Nat) (h0 : cap ≠ 0) (hm : cap < usizeMax) :
    let v : CowVal := ⟨.vec 0, 0, cap⟩
    let d : CowVal := ⟨.dangling, 0, 0⟩
    let s1 : St := { vecs := [⟨cap, [], true, 0⟩], vals := [some ⟨v, []⟩] }
    let s2 : St := { vecs := [⟨cap, [], true, 0⟩], vals := [some ⟨v, []⟩, some ⟨d, []⟩] }
    let s3 : St := { vecs := [⟨cap, [], false, 1⟩], vals := [none, some ⟨d, []⟩] }
    step init (.fromOwned [] cap) = .ok (s1, .handle 0 [])
      ∧ step s1 (.clone 0) = .ok (s2, .handle 1 [])
      ∧ step s2 (.drop 0) = .ok (s3, .unit) := by
  have hm' : cap ≠ usizeMax := by omega
  have hlt : ¬ usizeMax < cap := by omega
  have hk : kindOf cap = .owned := kindOf_owned h0 hm'
  refine ⟨?_, ?_, ?_⟩
  · simp [step, fromOwned, ownedIntoParts, allocVec, h0, hm', hlt, bindNew, pushVal, readPtr, init, bind, Except.bind]
  · simp [step, getVal, cloneFromParts, CowVal.kind, hk, readPtr, ownedIntoParts, allocVec, bindNew, pushVal,
      bind, Except.bind]
  · simp [step, getVal, dropFromParts, CowVal.kind, hk, freeVec, h0, killVal, bind, Except.bind]

/-! ## non-vacuity: concrete sequences (evaluated by the kernel) -/

/-- the sequences below are well-formed, so the hypotheses of the theorems above are satisfiable -/
def demo : List Op :=
  [ .newArc [104, 105],          -- a0 = Arc "hi"
    .fromShared 0,               -- h0 shared
    .clone 0,                    -- h1 shared (strong 3)
    .fromOwned [97, 98, 99] 8,   -- h2 owned "abc" cap 8
    .clone 2,                    -- h3 owned exact
    .fromOwned [] 16,            -- h4 empty with capacity
    .fromOwned [] 0,             -- h5 capacity 0 → borrowed
    .fromBorrowed [120],         -- h6 static "x"
    .clone 6,                    -- h7
    .intoOwned 1 8,              -- h8 String "hi" (cap 8), gives a strong ref back
    .intoOwned 2 0,              -- h9 the same buffer as h2
    .intoStdCow 6 1,             -- h10 std Borrowed
    .intoStdCow 3 3,             -- h11 std Owned
    .eq 8 0,
    .dropArc 0,                  -- caller lets go: h0 is now the last owner
    .drop 0, .drop 4, .drop 5, .drop 7, .drop 8, .drop 9, .drop 10, .drop 11 ]

example : wfRun init demo = true := by decide

example : (match run init demo with
    | .ok s => s.vals.all (·.isNone) && liveAllocs s == 0 && s.vecs.all (fun c => !c.live && c.frees == 1)
                && s.arcs.all (fun c => !c.live && c.frees == 1 && c.strong == 0) && s.vecs.length == 4
    | .error _ => false) = true := by decide

def errIs {α} (x : Except Err α) (e : Err) : Bool :=
  match x with
  | .error e' => e' == e
  | .ok _ => false

/-- the error states are reachable by *ill-behaved* callers of the primitives — the model can tell: freeing
    the same buffer twice is caught, so `cow_safe` is not true by construction -/
example : errIs (do
    let (s1, v) ← fromOwned init [1, 2] 4
    let s2 ← dropFromParts s1 v
    dropFromParts s2 v) .doubleFree = true := by decide

/-- reading through a value after its buffer was freed is caught -/
example : errIs (do
    let (s1, v) ← fromOwned init [1, 2] 4
    let s2 ← dropFromParts s1 v
    readPtr s2 v.ptr v.len) .readFreed = true := by decide

/-- a value whose capacity word lies about its pointer (Shared word on a `Vec` buffer) is caught -/
example : errIs (do
    let (s1, v) ← fromOwned init [1, 2] 4
    dropFromParts s1 { v with cap := usizeMax }) .arcUseAfterFree = true := by decide

/-- a `from_raw_parts` with a capacity that is not the buffer's is caught -/
example : errIs (do
    let (s1, v) ← fromOwned init [1, 2] 4
    dropFromParts s1 { v with cap := 2 }) .badLayout = true := by decide

/-- a caller error is reported as such, not as a memory error -/
example : (match run init [.fromOwned [1] 4, .drop 0, .deref 0] with
    | .error e => e.isMisuse | .ok _ => false) = true := by decide

end MetricsVerif.C14
