/-
C14 — shared strings and label slices own their memory correctly on every path.

Model: `Model/Cow.lean` — a heap of `Vec` buffers, `Arc` blocks and statics; a `Cow` value is the three words
`(ptr, len, capacity)` and its kind is decoded from the capacity word exactly as `Metadata::kind` does.
Every theorem below is for ALL operation sequences over any number of values (construct borrowed / owned
with any length and capacity incl. empty and capacity 0 / shared; clone; deref; compare; into_owned; into
std Cow; drop; the caller creating and dropping its own `Arc`s), proved through one invariant (`Inv`,
`Proofs/Cow.lean`): every live value fits what its pointer really points to and reads back what it was built
from; a buffer is live iff exactly one value points to it and has been freed once iff it is not live; an
`Arc` block's strong count is the caller's references plus the number of values pointing to it.

What the proof is about: the bookkeeping discipline of cow.rs.  That `Vec::from_raw_parts` / `Arc::from_raw`
are used with the right *byte* layouts, that `Arc`'s counter is atomic and the allocator thread-safe (so the
same operations may run on another thread) is checked dynamically (tracking allocator) or trusted (DESIGN §2).
-/
import MetricsVerif.Proofs.Cow
import MetricsVerif.Proofs.CowSend
import MetricsVerif.Generated.SourceFacts

namespace MetricsVerif.C14
open MetricsVerif.Cow

/-- the invariant survives any operation sequence; a failing sequence fails with a caller error -/
theorem run_inv (ops : List Op) : ∀ (s : St), Inv s →
    match run s ops with
    | .ok s' => Inv s'
    | .error e => e.isMisuse = true := by
  induction ops with
  | nil => intro s hI; exact hI
  | cons op ops ih =>
    intro s hI
    have h1 := step_inv hI op
    simp only [run]
    cases hs : step s op with
    | error e => rw [hs] at h1; exact h1
    | ok r =>
      obtain ⟨s', a⟩ := r
      rw [hs] at h1
      exact ih s' h1

/-- **memory safety**: no sequence of operations, well-formed or not, reaches a memory error (double free,
    free of something that is not a live buffer, `from_raw_parts` with a foreign length/capacity, read of
    freed or unowned memory, strong-count underflow, `Arc` use after free).  The only way a sequence can
    stop is a caller error that safe Rust cannot express or that panics before any unsafe code runs. -/
theorem cow_safe (ops : List Op) :
    match run init ops with
    | .ok _ => True
    | .error e => e.isMisuse = true := by
  have := run_inv ops init inv_init
  cases h : run init ops with
  | ok s => trivial
  | error e => rw [h] at this; exact this

theorem liveHandle_iff {s : St} {h : Nat} (hl : liveHandle s h = true) : ∃ e, s.vals[h]? = some (some e) := by
  unfold liveHandle at hl
  cases hv : s.vals[h]? with
  | none => simp [hv] at hl
  | some o => cases o with
    | none => simp [hv] at hl
    | some e => exact ⟨e, rfl⟩

theorem getVal_of_some {s : St} {h : Nat} {e : Entry} (he : s.vals[h]? = some (some e)) : getVal s h = .ok e := by
  simp [getVal, he]

def isOk {α} : Except Err α → Bool
  | .ok _ => true
  | .error _ => false

def errIs {α} (x : Except Err α) (e : Err) : Bool :=
  match x with
  | .error e' => e' == e
  | .ok _ => false

/-- the step is rejected as a use of a dead / foreign `Arc` block -/
def errIsArc {α} : Except Err α → Prop
  | .error .arcUseAfterFree => True
  | _ => False

instance {α} (x : Except Err α) : Decidable (errIsArc x) := by
  unfold errIsArc; split <;> infer_instance

/-- a well-formed operation (live handles, held `Arc`s, owned values that are `Vec`s) always succeeds -/
theorem step_wf {s : St} (hI : Inv s) (op : Op) (hw : wfOp s op = true) : isOk (step s op) = true := by
  cases op with
  | newArc c =>
    have : ¬ usizeMax ≤ c.length := by simp [wfOp] at hw; omega
    (simp only [step, stepClone, stepIntoOwned, this, if_false]; try rfl)
  | dropArc a =>
    simp only [wfOp] at hw
    have hw' := hw
    unfold heldArc at hw'
    cases hc : s.arcs[a]? with
    | none => simp [hc] at hw'
    | some c =>
      simp [hc] at hw'
      obtain ⟨h1, h2, h3⟩ := hI.arc a c hc
      have hl : c.live = true := by rw [h2]; simp; omega
      have hs : c.strong ≠ 0 := by omega
      (simp only [step, stepClone, stepIntoOwned, hw, if_true, decArc, hc, hl, hs, if_false, bind, Except.bind]; try rfl)
  | fromBorrowed c =>
    have hc : ¬ usizeMax ≤ c.length := by simp [wfOp] at hw; omega
    have hI' := inv_pushStatic hI c (by omega)
    have hb := bindNew_ok (s := { s with statics := s.statics ++ [c] })
      (v := ⟨.stat s.statics.length, c.length, 0⟩) (g := c) hI'
    (simp only [step, stepClone, stepIntoOwned, hc, if_false, borrowedIntoParts, hb, bind, Except.bind]; try rfl)
  | fromOwned c cap =>
    simp [wfOp] at hw
    obtain ⟨hw1, hw2⟩ := hw
    have hspec := fromOwned_spec hI c cap
    have h1 : ¬ cap < c.length := by omega
    have h2 : ¬ usizeMax < cap := by omega
    have h3 : ¬ cap = usizeMax := by omega
    have hf : fromOwned s c cap = .ok (ownedIntoParts s c cap) := by
      simp [fromOwned, h1, h2, ownedIntoParts, h3]
    rw [hf] at hspec
    simp only at hspec
    (simp only [step, stepClone, stepIntoOwned, hf, bind, Except.bind, bindNew_ok hspec]; try rfl)
  | fromShared a =>
    simp only [wfOp] at hw
    unfold heldArc at hw
    cases hc : s.arcs[a]? with
    | none => simp [hc] at hw
    | some c =>
      simp [hc] at hw
      obtain ⟨h1, h2, h3⟩ := hI.arc a c hc
      have hl : c.live = true := by rw [h2]; simp; omega
      have hext : ¬ c.ext = 0 := by omega
      have hI' := inv_newShared hI a c hc hl
      simp only [step, stepClone, stepIntoOwned, hc, hext, if_false, incStrong, bind, Except.bind]
      rw [if_pos hl]
      simp only [bindNew_ok hI', isOk]
  | clone h =>
    obtain ⟨e, he⟩ := liveHandle_iff (by simpa [wfOp] using hw)
    obtain ⟨s1, v, hc, hI'⟩ := cloneFromParts_spec hI he
    (simp only [step, stepClone, stepIntoOwned, getVal_of_some he, hc, bind, Except.bind, bindNew_ok hI']; try rfl)
  | deref h =>
    obtain ⟨e, he⟩ := liveHandle_iff (by simpa [wfOp] using hw)
    (simp only [step, stepClone, stepIntoOwned, getVal_of_some he, bind, Except.bind, read_ok (hI.ent h e he)]; try rfl)
  | eq h1 h2 =>
    simp [wfOp] at hw
    obtain ⟨e1, he1⟩ := liveHandle_iff hw.1
    obtain ⟨e2, he2⟩ := liveHandle_iff hw.2
    (simp only [step, stepClone, stepIntoOwned, getVal_of_some he1, getVal_of_some he2, bind, Except.bind,
      read_ok (hI.ent h1 e1 he1), read_ok (hI.ent h2 e2 he2)]; try rfl)
  | intoOwned h fc =>
    obtain ⟨e, he⟩ := liveHandle_iff (by simpa [wfOp] using hw)
    obtain ⟨s1, o, hc, hI'⟩ := ownedFromParts_spec hI he fc
    (simp only [step, stepClone, stepIntoOwned, getVal_of_some he, intoOwned, hc, bind, Except.bind, bindNew_ok hI']; try rfl)
  | intoStdCow h fc =>
    obtain ⟨e, he⟩ := liveHandle_iff (by simpa [wfOp] using hw)
    cases hk : e.val.kind with
    | borrowed =>
      have hI' := inv_move hI h e he
      (simp only [step, stepClone, stepIntoOwned, getVal_of_some he, hk, dropFromParts, bind, Except.bind, bindNew_ok hI']; try rfl)
    | owned =>
      obtain ⟨s1, o, hc, hI'⟩ := ownedFromParts_spec hI he fc
      (simp only [step, stepClone, stepIntoOwned, getVal_of_some he, hk, intoOwned, hc, bind, Except.bind, bindNew_ok hI']; try rfl)
    | shared =>
      obtain ⟨s1, o, hc, hI'⟩ := ownedFromParts_spec hI he fc
      (simp only [step, stepClone, stepIntoOwned, getVal_of_some he, hk, intoOwned, hc, bind, Except.bind, bindNew_ok hI']; try rfl)
  | drop h =>
    obtain ⟨e, he⟩ := liveHandle_iff (by simpa [wfOp] using hw)
    obtain ⟨s1, hc, hI'⟩ := dropFromParts_spec hI he
    (simp only [step, stepClone, stepIntoOwned, getVal_of_some he, hc, bind, Except.bind]; try rfl)
  | intoOwnedUnwind h fc =>
    obtain ⟨e, he⟩ := liveHandle_iff (by simpa [wfOp] using hw)
    rcases ownedFromPartsUnwind_spec hI he with ⟨_, hu⟩ | ⟨_, hu, _⟩ | ⟨_, i, c, _, _, _, _, hu, _⟩
    · obtain ⟨s1, o, hc, hI'⟩ := ownedFromParts_spec hI he fc
      (simp only [step, stepClone, stepIntoOwned, stepIntoOwnedUnwind, stepIntoOwned, getVal_of_some he, hu, intoOwned, hc, bind,
        Except.bind, bindNew_ok hI']; try rfl)
    · (simp only [step, stepClone, stepIntoOwned, stepIntoOwnedUnwind, getVal_of_some he, hu]; try rfl)
    · (simp only [step, stepClone, stepIntoOwned, stepIntoOwnedUnwind, getVal_of_some he, hu]; try rfl)
  | cloneUnwind h =>
    obtain ⟨e, he⟩ := liveHandle_iff (by simpa [wfOp] using hw)
    rcases cloneFromPartsUnwind_spec hI he with ⟨_, hu⟩ | ⟨_, hu⟩
    · (simp only [step, stepClone, stepIntoOwned, stepCloneUnwind, getVal_of_some he, hu]; try rfl)
    · obtain ⟨s1, v, hc, hI'⟩ := cloneFromParts_spec hI he
      (simp only [step, stepClone, stepIntoOwned, stepCloneUnwind, stepClone, getVal_of_some he, hu, hc, bind, Except.bind,
        bindNew_ok hI']; try rfl)
  | cloneFrom hd hs =>
    simp [wfOp] at hw
    obtain ⟨ed, hed⟩ := liveHandle_iff hw.1
    obtain ⟨es, hes⟩ := liveHandle_iff hw.2
    obtain ⟨s1, v, s2, _, _, _, _, _, _, hst⟩ := stepCloneFrom_spec hI hed hes
    simp only [step, hst, isOk]
  | cloneFromUnwind hd hs =>
    simp [wfOp] at hw
    obtain ⟨ed, hed⟩ := liveHandle_iff hw.1
    obtain ⟨es, hes⟩ := liveHandle_iff hw.2
    rcases cloneFromPartsUnwind_spec hI hes with ⟨_, hu⟩ | ⟨_, hu⟩
    · simp only [step, stepCloneFromUnwind, getVal_of_some hed, getVal_of_some hes, hu, isOk]
    · obtain ⟨s1, v, s2, _, _, _, _, _, _, hst⟩ := stepCloneFrom_spec hI hed hes
      simp only [step, stepCloneFromUnwind, getVal_of_some hed, getVal_of_some hes, hu, hst, isOk]
  | readUnwind h1 h2 =>
    simp [wfOp] at hw
    obtain ⟨e1, he1⟩ := liveHandle_iff hw.1
    obtain ⟨e2, he2⟩ := liveHandle_iff hw.2
    simp only [step, stepReadUnwind_spec hI he1 he2, isOk]

/-- **every well-formed sequence runs to the end**: if each operation refers to live handles / held `Arc`s
    in the state in which it executes (`wfRun`, a decidable check), no error of any kind occurs. -/
theorem cow_wf_runs (ops : List Op) : ∀ (s : St), Inv s → wfRun s ops = true → ∃ s', run s ops = .ok s' ∧ Inv s' := by
  induction ops with
  | nil => intro s hI _; exact ⟨s, rfl, hI⟩
  | cons op ops ih =>
    intro s hI hw
    simp only [wfRun, Bool.and_eq_true] at hw
    have hok := step_wf hI op hw.1
    have h1 := step_inv hI op
    cases hs : step s op with
    | error e => rw [hs] at hok; simp [isOk] at hok
    | ok r =>
    obtain ⟨s', a⟩ := r
    rw [hs] at h1
    have hw2 := hw.2
    rw [hs] at hw2
    obtain ⟨s'', hr, hI''⟩ := ih s' h1 hw2
    exact ⟨s'', by simp only [run, hs, hr], hI''⟩

/-- reachable states satisfy the invariant -/
theorem reachable_inv {ops : List Op} {s : St} (h : run init ops = .ok s) : Inv s := by
  have := run_inv ops init inv_init
  rw [h] at this
  exact this

/-- **content**: in every reachable state, dereferencing any live value returns exactly the content it was
    built from (`built` is set by the constructor to its argument — see `construct_reads_back` — and copied
    by `clone` / `into_owned` / conversion to `std::borrow::Cow`). -/
theorem deref_reads_built {ops : List Op} {s : St} (hr : run init ops = .ok s) {h : Nat} {e : Entry}
    (he : s.vals[h]? = some (some e)) : step s (.deref h) = .ok (s, .content e.built) := by
  have hI := reachable_inv hr
  simp only [step, stepClone, stepIntoOwned, getVal_of_some he, bind, Except.bind, read_ok (hI.ent h e he)]

/-- comparing two live values compares the contents they were built from -/
theorem eq_compares_built {ops : List Op} {s : St} (hr : run init ops = .ok s) {h1 h2 : Nat} {e1 e2 : Entry}
    (he1 : s.vals[h1]? = some (some e1)) (he2 : s.vals[h2]? = some (some e2)) :
    step s (.eq h1 h2) = .ok (s, .bool (e1.built == e2.built)) := by
  have hI := reachable_inv hr
  simp only [step, stepClone, stepIntoOwned, getVal_of_some he1, getVal_of_some he2, bind, Except.bind,
    read_ok (hI.ent h1 e1 he1), read_ok (hI.ent h2 e2 he2)]

/-- a freshly constructed owned value — any length, any capacity, empty, capacity 0 — reads back the content
    it was given, under the next handle -/
theorem construct_reads_back {ops : List Op} {s : St} (hr : run init ops = .ok s) (c : Content) (cap : Nat)
    {s' : St} {a : Ans} (hs : step s (.fromOwned c cap) = .ok (s', a)) :
    a = .handle s.vals.length c ∧ ∃ v, s'.vals[s.vals.length]? = some (some ⟨v, c⟩) := by
  have hI := reachable_inv hr
  have hspec := fromOwned_spec hI c cap
  simp only [step] at hs
  cases hf : fromOwned s c cap with
  | error e => simp [hf, bind, Except.bind] at hs
  | ok r =>
    obtain ⟨s1, v⟩ := r
    rw [hf] at hspec
    simp only at hspec
    simp only [hf, bind, Except.bind, bindNew_ok hspec, Except.ok.injEq, Prod.mk.injEq] at hs
    obtain ⟨h1, h2⟩ := hs
    subst h1; subst h2
    have hv := fromOwned_vals hf
    refine ⟨by rw [hv], v, by simp [hv]⟩

/-- a clone reads back what its source was built from, and the source is untouched -/
theorem clone_reads_same {ops : List Op} {s : St} (hr : run init ops = .ok s) {h : Nat} {e : Entry}
    (he : s.vals[h]? = some (some e)) :
    ∃ s' h', step s (.clone h) = .ok (s', .handle h' e.built) ∧ step s' (.deref h) = .ok (s', .content e.built) := by
  have hI := reachable_inv hr
  obtain ⟨s1, v, hc, hI'⟩ := cloneFromParts_spec hI he
  have hv := cloneFromParts_vals hc
  refine ⟨pushVal s1 v e.built, s.vals.length, ?_, ?_⟩
  · simp only [step, stepClone, stepIntoOwned, getVal_of_some he, hc, bind, Except.bind, bindNew_ok hI', hv]
  · have he' : (pushVal s1 v e.built).vals[h]? = some (some e) := by
      simp only [pushVal_vals, hv]
      exact getElem?_append_of_some _ _ _ _ he
    simp only [step, stepClone, stepIntoOwned, getVal_of_some he', bind, Except.bind, read_ok (hI'.ent h e he')]

/-! ## no leak, no double free -/

/-- all values have been dropped or consumed -/
def AllDropped (s : St) : Prop := ∀ (h : Nat) (e : Entry), s.vals[h]? ≠ some (some e)

theorem refs_zero_of_allDropped {s : St} (hd : AllDropped s) (p : Option Entry → Bool) (hp : p none = false) :
    s.vals.countP p = 0 := by
  rw [List.countP_eq_zero]
  intro x hx
  cases x with
  | none => simp [hp]
  | some e =>
    obtain ⟨h, hh⟩ := List.getElem?_of_mem hx
    exact absurd hh (hd h e)

/-- **no leak, no double free**: after any operation sequence that ran to its end, once every value has
    been dropped (or consumed by `into_owned` and its result dropped),
    * every `Vec` buffer that ever existed — the ones handed to `from_owned`, the ones made by `clone`,
      `into_owned`, conversion to `std::borrow::Cow` — is not live and has been freed exactly once;
    * every `Arc` block's strong count equals the number of references the caller still holds; a block the
      caller no longer holds has been freed exactly once, a block it still holds has not been freed;
    * no element of a slice was left undestroyed by a `from_raw_parts` with a short length. -/
theorem cow_no_leak {ops : List Op} {s : St} (hr : run init ops = .ok s) (hd : AllDropped s) :
    (∀ (i : Nat) (c : VecCell), s.vecs[i]? = some c → c.live = false ∧ c.frees = 1)
    ∧ (∀ (i : Nat) (c : ArcCell), s.arcs[i]? = some c →
        c.strong = c.ext ∧ (c.ext = 0 → c.live = false ∧ c.frees = 1) ∧ (0 < c.ext → c.live = true ∧ c.frees = 0))
    ∧ s.leaked = 0 := by
  have hI := reachable_inv hr
  refine ⟨?_, ?_, hI.leak⟩
  · intro i c hc
    obtain ⟨h1, h2⟩ := hI.vec i c hc
    have hz := refs_zero_of_allDropped hd (refVec i) rfl
    simp only [vecRefs, hz] at h1
    cases hl : c.live with
    | true => simp [hl] at h1
    | false => simp [hl] at h2; exact ⟨rfl, h2⟩
  · intro i c hc
    obtain ⟨h1, h2, h3⟩ := hI.arc i c hc
    have hz := refs_zero_of_allDropped hd (refArc i) rfl
    simp only [arcRefs, hz, Nat.add_zero] at h1
    refine ⟨h1, ?_, ?_⟩
    · intro he
      have : c.live = false := by rw [h2, h1, he]; rfl
      rw [this] at h3
      exact ⟨this, by simpa using h3⟩
    · intro he
      have : c.live = true := by rw [h2, h1]; simpa using he
      rw [this] at h3
      exact ⟨this, by simpa using h3⟩

/-- the tracking allocator's view: with all values dropped, the live allocations are exactly the `Arc`
    blocks the caller still holds -/
theorem cow_no_leak_count {ops : List Op} {s : St} (hr : run init ops = .ok s) (hd : AllDropped s) :
    liveAllocs s = (s.arcs.filter (fun c => decide (0 < c.ext))).length := by
  obtain ⟨hv, ha, _⟩ := cow_no_leak hr hd
  unfold liveAllocs
  have h1 : s.vecs.filter (·.live) = [] := by
    rw [List.filter_eq_nil_iff]
    intro c hc
    obtain ⟨i, hi⟩ := List.getElem?_of_mem hc
    simp [(hv i c hi).1]
  have h2 : s.arcs.filter (·.live) = s.arcs.filter (fun c => decide (0 < c.ext)) := by
    apply List.filter_congr
    intro c hc
    obtain ⟨i, hi⟩ := List.getElem?_of_mem hc
    obtain ⟨_, hz, hp⟩ := ha i c hi
    by_cases he : 0 < c.ext
    · simp [(hp he).1, he]
    · have : c.ext = 0 := by omega
      simp [(hz this).1, this]
  rw [h1, h2]; simp

/-- **at most one free, at any time**: in every reachable state — not only at the end — no buffer or block has
    been freed more than once, and it has been freed iff it is no longer live -/
theorem freed_at_most_once {ops : List Op} {s : St} (hr : run init ops = .ok s) :
    (∀ (i : Nat) (c : VecCell), s.vecs[i]? = some c → c.frees = if c.live then 0 else 1)
    ∧ (∀ (i : Nat) (c : ArcCell), s.arcs[i]? = some c → c.frees = if c.live then 0 else 1) := by
  have hI := reachable_inv hr
  exact ⟨fun i c hc => (hI.vec i c hc).2, fun i c hc => (hI.arc i c hc).2.2⟩

/-- **exactly one owner**: in every reachable state a live buffer is pointed to by exactly one live value, a
    freed one by none; an `Arc` block's strong count is the caller's references plus the values pointing to it -/
theorem unique_owner {ops : List Op} {s : St} (hr : run init ops = .ok s) :
    (∀ (i : Nat) (c : VecCell), s.vecs[i]? = some c → vecRefs s i = if c.live then 1 else 0)
    ∧ (∀ (i : Nat) (c : ArcCell), s.arcs[i]? = some c → c.strong = c.ext + arcRefs s i) := by
  have hI := reachable_inv hr
  exact ⟨fun i c hc => (hI.vec i c hc).1, fun i c hc => (hI.arc i c hc).1⟩

/-! ## capacity 0 and empty owned values, as the code treats them -/

/-- an owned value of capacity 0 (`String::new()`, `Vec::new()`): `from_owned` allocates nothing, the value
    decodes as Borrowed, its pointer dangles and is never read through (length 0), clone / drop /
    into_owned touch no allocation — in any state whatsoever -/
theorem cap0_owned_is_borrowed (s : St) :
    fromOwned s [] 0 = .ok (s, ⟨.dangling, 0, 0⟩)
    ∧ (⟨.dangling, 0, 0⟩ : CowVal).kind = .borrowed
    ∧ readPtr s .dangling 0 = .ok []
    ∧ cloneFromParts s ⟨.dangling, 0, 0⟩ = .ok (s, ⟨.dangling, 0, 0⟩)
    ∧ dropFromParts s ⟨.dangling, 0, 0⟩ = .ok s
    ∧ ownedFromParts s ⟨.dangling, 0, 0⟩ 0 = .ok (s, ⟨.dangling, 0, 0⟩) := by
  have hk : (⟨.dangling, 0, 0⟩ : CowVal).kind = .borrowed := by decide
  have h0 : ¬ (0 = usizeMax) := by decide
  refine ⟨?_, hk, rfl, ?_, ?_, ?_⟩
  · simp [fromOwned, ownedIntoParts, allocVec, h0]
  · simp [cloneFromParts, hk]
  · simp [dropFromParts, hk]
  · simp [ownedFromParts, hk, readPtr, bind, Except.bind, ownedIntoParts, allocVec, freshCap]

/-- an empty owned value *with* capacity (`String::with_capacity(n)`) is Owned: it owns the buffer, its clone
    is a capacity-0 value that owns nothing, and dropping it frees the buffer with the capacity it was given -/
theorem empty_with_capacity (cap : Nat) (h0 : cap ≠ 0) (hm : cap < usizeMax) :
    let v : CowVal := ⟨.vec 0, 0, cap⟩
    let d : CowVal := ⟨.dangling, 0, 0⟩
    let s1 : St := { vecs := [⟨cap, [], true, 0⟩], vals := [some ⟨v, []⟩] }
    let s2 : St := { vecs := [⟨cap, [], true, 0⟩], vals := [some ⟨v, []⟩, some ⟨d, []⟩] }
    let s3 : St := { vecs := [⟨cap, [], false, 1⟩], vals := [none, some ⟨d, []⟩] }
    step init (.fromOwned [] cap) = .ok (s1, .handle 0 [])
      ∧ step s1 (.clone 0) = .ok (s2, .handle 1 [])
      ∧ step s2 (.drop 0) = .ok (s3, .unit) := by
  have hm' : cap ≠ usizeMax := by omega
  have hlt : ¬ usizeMax < cap := by omega
  have hk : kindOf cap = .owned := kindOf_owned h0 hm'
  refine ⟨?_, ?_, ?_⟩
  · simp [step, stepClone, stepIntoOwned, fromOwned, ownedIntoParts, allocVec, h0, hm', hlt, bindNew, pushVal, readPtr, init, bind, Except.bind]
  · simp [step, stepClone, stepIntoOwned, getVal, cloneFromParts, CowVal.kind, hk, readPtr, ownedIntoParts, allocVec, bindNew, pushVal,
      bind, Except.bind]
  · simp [step, stepClone, stepIntoOwned, getVal, dropFromParts, CowVal.kind, hk, freeVec, h0, killVal, bind, Except.bind]

/-! ## unwinding: the element type's `Clone` panics inside `into_owned` / `clone` and the caller catches it

`run_inv`, `cow_safe`, `cow_no_leak`, `freed_at_most_once`, `unique_owner` above quantify over ALL `Op` sequences,
which now include `intoOwnedUnwind` and `cloneUnwind` anywhere: a caught panic leaves a state from which every
further sequence is still safe and leak-free.  The two theorems below say what exactly such a call leaves. -/

/-- **a failed `into_owned` gives back exactly what it held**: in every reachable state, for a live value `h`,
    * Owned: no user code runs — the call cannot unwind and is the ordinary `into_owned`;
    * Borrowed: the value is consumed, the heap is untouched (the partial copy is never a buffer);
    * Shared: the value is consumed and the block's strong count goes down by exactly ONE (not zero: that would
      leak the reference `self` held; not two: that is what running `self`'s destructor as well would do) —
      no buffer, no other block, no other value changes. -/
theorem intoOwnedUnwind_gives_back_once {ops : List Op} {s : St} (hr : run init ops = .ok s) {h : Nat} {e : Entry}
    (he : s.vals[h]? = some (some e)) (fc : Nat) :
    (e.val.kind = .owned ∧ step s (.intoOwnedUnwind h fc) = step s (.intoOwned h fc)) ∨
    (e.val.kind = .borrowed ∧ step s (.intoOwnedUnwind h fc) = .ok (killVal s h, .unwound)) ∨
    (e.val.kind = .shared ∧ ∃ i c, e.val.ptr = .arc i ∧ s.arcs[i]? = some c ∧ (c.dec 0).strong + 1 = c.strong ∧
      (c.dec 0).ext = c.ext ∧
      step s (.intoOwnedUnwind h fc) = .ok (killVal { s with arcs := s.arcs.set i (c.dec 0) } h, .unwound)) := by
  have hI := reachable_inv hr
  rcases ownedFromPartsUnwind_spec hI he with ⟨hk, hu⟩ | ⟨hk, hu, _⟩ | ⟨hk, i, c, hp, hc, _, hpos, hu, _⟩
  · refine Or.inl ⟨hk, ?_⟩
    simp only [step, stepIntoOwned, stepIntoOwnedUnwind, getVal_of_some he, hu]
  · refine Or.inr (Or.inl ⟨hk, ?_⟩)
    simp only [step, stepClone, stepIntoOwned, stepIntoOwnedUnwind, getVal_of_some he, hu]
  · refine Or.inr (Or.inr ⟨hk, i, c, hp, hc, ?_, ?_, ?_⟩)
    · simp only [ArcCell.dec]; omega
    · simp [ArcCell.dec]
    · simp only [step, stepClone, stepIntoOwned, stepIntoOwnedUnwind, getVal_of_some he, hu]

/-- **a failed `clone` changes nothing**: for an Owned source the state is untouched (the source keeps its buffer
    and content, no new value or buffer exists); Borrowed and Shared clones run no user code and are the ordinary
    `clone` -/
theorem cloneUnwind_changes_nothing {ops : List Op} {s : St} (hr : run init ops = .ok s) {h : Nat} {e : Entry}
    (he : s.vals[h]? = some (some e)) :
    (e.val.kind = .owned ∧ step s (.cloneUnwind h) = .ok (s, .unwound)) ∨
    (e.val.kind ≠ .owned ∧ step s (.cloneUnwind h) = step s (.clone h)) := by
  have hI := reachable_inv hr
  rcases cloneFromPartsUnwind_spec hI he with ⟨hk, hu⟩ | ⟨hk, hu⟩
  · refine Or.inl ⟨hk, ?_⟩
    simp only [step, stepClone, stepIntoOwned, stepCloneUnwind, getVal_of_some he, hu]
  · refine Or.inr ⟨hk, ?_⟩
    simp only [step, stepClone, stepCloneUnwind, getVal_of_some he, hu]

/-- the variant `let owned = T::owned_from_parts(..); mem::forget(self); owned` of `into_owned` (the
    `ManuallyDrop` taken AFTER the call that may unwind): when the copy unwinds, `self` is still armed and
    `Cow::drop` runs on top of what `owned_from_parts` already gave back -/
def stepIntoOwnedUnwindLate (s : St) (h : Nat) : Except Err (St × Ans) :=
  match getVal s h with
  | .error er => .error er
  | .ok e =>
    match ownedFromPartsUnwind s e.val with
    | .error er => .error er
    | .ok (some s1) =>
      match dropFromParts s1 e.val with
      | .ok s2 => .ok (killVal s2 h, .unwound)
      | .error er => .error er
    | .ok none => stepIntoOwned s h 0

/-- **why the `ManuallyDrop` must come first** (negation by witness): with the forget-after variant, one caller
    `Arc` shared with one value, then a failed `into_owned`: the block is freed while the caller still holds its
    reference (`ext = 1`, not live) — the caller's next use of its `Arc` is a use after free; with two values
    sharing it, the count says 1 for two holders.  Both states violate `unique_owner`. -/
theorem forget_after_call_unsound :
    (∃ s s' c, run init [.newArc [1, 2], .fromShared 0] = .ok s ∧ stepIntoOwnedUnwindLate s 0 = .ok (s', .unwound)
        ∧ s'.arcs[0]? = some c ∧ c.ext = 1 ∧ c.live = false ∧ errIsArc (step s' (.dropArc 0)))
    ∧ (∃ s s' c, run init [.newArc [1, 2], .fromShared 0, .clone 0] = .ok s
        ∧ stepIntoOwnedUnwindLate s 0 = .ok (s', .unwound)
        ∧ s'.arcs[0]? = some c ∧ c.strong = 1 ∧ c.ext + arcRefs s' 0 = 2) := by
  refine ⟨?_, ?_⟩
  · refine ⟨_, _, _, rfl, rfl, rfl, ?_⟩
    decide
  · refine ⟨_, _, _, rfl, rfl, rfl, ?_⟩
    decide

/-- the variant of `From<Cow<T>> for std::borrow::Cow<T>` that hands out a Shared value as `Borrowed(&*ptr)`
    ("no copy for shared"): `value` is dropped at the end of `from`, the reference outlives it -/
def intoStdSharedAsBorrowed (s : St) (h : Nat) : Except Err (St × Nat × Content) := do
  let e ← getVal s h
  let s1 ← dropFromParts s e.val
  bindNew (killVal s1 h) { e.val with cap := 0 } e.built

/-- **a Shared value must be copied on the way into `std::borrow::Cow`** (negation by witness): when the value is
    the last owner of the block, the `Borrowed` reference of the variant reads freed memory at once -/
theorem into_std_shared_must_copy :
    ∃ s, run init [.newArc [7], .fromShared 0, .dropArc 0] = .ok s
      ∧ errIs (intoStdSharedAsBorrowed s 0) .readFreed = true
      ∧ isOk (step s (.intoStdCow 0 1)) = true := ⟨_, rfl, by decide, by decide⟩

/-! ## provided trait methods: `clone_from`, and comparisons / hashes whose element operation unwinds

`impl Clone for Cow` defines only `clone` (`src_trait_methods`), so `a.clone_from(&b)` — also reached through
`Vec<Cow>::clone_from` and `Option<Cow>::clone_from` — is the standard library's `*self = source.clone()`.
`Op.cloneFrom` / `Op.cloneFromUnwind` / `Op.readUnwind` are ordinary members of `Op`: `run_inv`, `cow_safe`,
`cow_no_leak`, `freed_at_most_once`, `unique_owner` above quantify over sequences that contain them anywhere. -/

/-- **`clone_from` is clone-then-drop**: in every reachable state, for live destination `hd` and source `hs`,
    `hd.clone_from(&hs)` is exactly `clone hs` followed by `drop hd` — the clone is complete before anything of the
    destination is released, the destination's old buffer / reference is released exactly as `Cow::drop` does
    (never reused, never freed by anything else), and the destination then reads what the SOURCE was built from. -/
theorem cloneFrom_is_clone_then_drop {ops : List Op} {s : St} (hr : run init ops = .ok s) {hd hs : Nat}
    {ed es : Entry} (hed : s.vals[hd]? = some (some ed)) (hes : s.vals[hs]? = some (some es)) :
    ∃ s1 s2, step s (.clone hs) = .ok (s1, .handle s.vals.length es.built)
      ∧ step s1 (.drop hd) = .ok (s2, .unit)
      ∧ step s (.cloneFrom hd hs) = .ok (s2, .handle s.vals.length es.built)
      ∧ step s2 (.deref s.vals.length) = .ok (s2, .content es.built) := by
  have hI := reachable_inv hr
  obtain ⟨s1, v, s2, hc, hv, hI1, hcl, hdp, hI2, hst⟩ := stepCloneFrom_spec hI hed hes
  have hed' : (pushVal s1 v es.built).vals[hd]? = some (some ed) := by
    simp only [pushVal_vals, hv]
    exact getElem?_append_of_some _ _ _ _ hed
  have hne : hd ≠ s.vals.length := by
    have := lt_of_getElem?_some _ _ _ hed
    omega
  have hnew : (killVal s2 hd).vals[s.vals.length]? = some (some ⟨v, es.built⟩) := by
    simp only [killVal_vals, dropFromParts_vals hdp, pushVal_vals, hv]
    rw [getElem?_set_ne' (fun e => hne e.symm)]
    simp
  refine ⟨pushVal s1 v es.built, killVal s2 hd, ?_, ?_, ?_, ?_⟩
  · simp only [step, hcl]
  · simp only [step, getVal_of_some hed', hdp, bind, Except.bind]
  · simp only [step, hst]
  · have := read_ok (hI2.ent _ _ hnew)
    simp only at this
    simp only [step, getVal_of_some hnew, bind, Except.bind, this]

/-- **a failed `clone_from` changes nothing**: when the element type's `Clone` panics inside `hd.clone_from(&hs)`
    (Owned source — the only kind whose clone runs user code) the state is untouched: the destination still holds
    its old value, buffer and elements, the source is intact, no new value or buffer exists.  For Borrowed / Shared
    sources nothing can unwind and the call is the ordinary `clone_from`. -/
theorem cloneFromUnwind_changes_nothing {ops : List Op} {s : St} (hr : run init ops = .ok s) {hd hs : Nat}
    {ed es : Entry} (hed : s.vals[hd]? = some (some ed)) (hes : s.vals[hs]? = some (some es)) :
    (es.val.kind = .owned ∧ step s (.cloneFromUnwind hd hs) = .ok (s, .unwound)) ∨
    (es.val.kind ≠ .owned ∧ step s (.cloneFromUnwind hd hs) = step s (.cloneFrom hd hs)) := by
  have hI := reachable_inv hr
  rcases cloneFromPartsUnwind_spec hI hes with ⟨hk, hu⟩ | ⟨hk, hu⟩
  · exact Or.inl ⟨hk, by simp only [step, stepCloneFromUnwind, getVal_of_some hed, getVal_of_some hes, hu]⟩
  · exact Or.inr ⟨hk, by simp only [step, stepCloneFromUnwind, getVal_of_some hed, getVal_of_some hes, hu]⟩

/-- **a comparison or hash that unwinds changes nothing**: `eq`, `ne`, `lt`, `le`, `gt`, `ge`, `partial_cmp`, `cmp`,
    `hash`, `hash_slice` only read both values through `deref`; when the element operation panics the state is
    exactly what it was, in every reachable state and for any two live values -/
theorem readUnwind_changes_nothing {ops : List Op} {s : St} (hr : run init ops = .ok s) {h1 h2 : Nat}
    {e1 e2 : Entry} (he1 : s.vals[h1]? = some (some e1)) (he2 : s.vals[h2]? = some (some e2)) :
    step s (.readUnwind h1 h2) = .ok (s, .unwound) := by
  simp only [step, stepReadUnwind_spec (reachable_inv hr) he1 he2]

/-- the variant of `clone_from` that REUSES the destination's buffer (`source.deref().clone_into(&mut owned)` on a
    `Vec` rebuilt from `self`'s words and kept in `ManuallyDrop`, the words written back only afterwards), at the
    moment the element copy unwinds: `clone_into` has already truncated the buffer to the source's length — the
    surplus elements are destroyed — and `self` still carries its OLD words -/
def stepCloneFromInPlaceUnwind (s : St) (hd hs : Nat) : Except Err (St × Ans) :=
  match getVal s hd, getVal s hs with
  | .ok ed, .ok es =>
    match ed.val.kind, es.val.kind, ed.val.ptr with
    | .owned, .owned, .vec i =>
      match s.vecs[i]? with
      | some c => .ok ({ s with vecs := s.vecs.set i { c with content := c.content.take es.val.len } }, .unwound)
      | none => .error .wildRead
    | _, _, _ => stepCloneFromUnwind s hd hs
  | .error er, _ => .error er
  | _, .error er => .error er

/-- **why `clone_from` must not write into the destination's buffer before it owns the result** (negation by
    witness, the class of seed C14-7): destination `[1,2,3]`, source `[7]`, the copy unwinds after the truncate —
    the destination's words still say three elements over a buffer that holds one, so its destructor rebuilds a
    `Vec` of a length the buffer does not have (the two surplus elements are destroyed a second time): a memory
    error on the next `drop`, while the provided `clone_from` leaves a state in which the same `drop` is fine -/
theorem clone_from_in_place_unsound :
    ∃ s s', run init [.fromOwned [1, 2, 3] 4, .fromOwned [7] 2] = .ok s
      ∧ stepCloneFromInPlaceUnwind s 0 1 = .ok (s', .unwound)
      ∧ errIs (step s' (.drop 0)) .badLayout = true
      ∧ step s (.cloneFromUnwind 0 1) = .ok (s, .unwound)
      ∧ isOk (step s (.drop 0)) = true := ⟨_, _, rfl, rfl, by decide, rfl, by decide⟩

/-! ## facts of the source that no run can observe (tools/extract.py → Generated/SourceFacts.lean) -/

/-- reading of the arms of `Metadata::kind` as a first-match decision on the capacity word -/
def kindByArms : List (String × String) → Nat → Option Kind
  | [], _ => none
  | (pat, val) :: rest, cap =>
    let hit : Option Bool :=
      if pat = "(_, usize::MAX)" then some (decide (cap = usizeMax))
      else if pat = "(_, 0)" then some (decide (cap = 0))
      else if pat = "_" then some true
      else none
    let k : Option Kind :=
      if val = "Kind::Shared" then some .shared
      else if val = "Kind::Borrowed" then some .borrowed
      else if val = "Kind::Owned" then some .owned
      else none
    match hit, k with
    | some true, some k => some k
    | some false, some _ => kindByArms rest cap
    | _, _ => none

/-- **kind decoding**: the arms of `Metadata::kind` in the source, read in source order as a first-match decision
    on the capacity word, are `kindOf` for EVERY capacity (so reordering, dropping or re-targeting an arm breaks
    this theorem) -/
theorem src_kind_decoding (cap : Nat) : kindByArms Generated.cow_kind_arms cap = some (kindOf cap) := by
  have h : Generated.cow_kind_arms
      = [("(_, usize::MAX)", "Kind::Shared"), ("(_, 0)", "Kind::Borrowed"), ("_", "Kind::Owned")] := rfl
  rw [h]
  unfold kindOf
  have hz : ¬ ((0 : Nat) = usizeMax) := by decide
  by_cases h1 : cap = usizeMax
  · simp [kindByArms, h1]
  · by_cases h2 : cap = 0
    · subst h2
      simp [kindByArms, hz]
    · simp [kindByArms, h1, h2]

/-- **`into_owned` disarms `self` before anything that can unwind**: its statements are exactly
    `ManuallyDrop::new(self)` and then `owned_from_parts` on the wrapped value — `stepIntoOwnedUnwind`
    (not `stepIntoOwnedUnwindLate`, see `forget_after_call_unsound`); `Cow::drop` is one unconditional
    `drop_from_parts`, `from_owned` checks the capacity word after taking the value apart -/
theorem src_into_owned_manuallydrop_first :
    Generated.cow_into_owned_stmts
      = ["let cow = ManuallyDrop::new(self)", "T::owned_from_parts(cow.ptr, &cow.metadata)"]
    ∧ Generated.cow_drop_stmts = ["T::drop_from_parts(self.ptr, &self.metadata)"]
    ∧ Generated.cow_from_owned_stmts
      = ["let (ptr, metadata) = T::owned_into_parts(owned)",
         "if metadata.capacity() == usize::MAX { panic!(\"Invalid capacity of `usize::MAX` for owned value.\"); } Self::from_parts(ptr, metadata)"] :=
  ⟨rfl, rfl, rfl⟩

/-- **per-kind dispatch of `impl Cowable for str`** — `ownedFromParts` / `cloneFromParts` / `dropFromParts`:
    Borrowed copies / copies the words / does nothing; Owned rebuilds from `(ptr, len, capacity)` / deep-copies
    and takes the parts OF THE COPY (`owned_into_parts(s.to_string())`: pointer and metadata both from the new
    value) / frees with `(len, capacity)`; Shared re-materialises the `Arc` BEFORE copying / increments / decrements -/
theorem src_dispatch_str :
    Generated.cow_str_owned_from_parts_arms
      = [("Kind::Borrowed", "{ let s = UNSAFE { &*Self::borrowed_from_parts(ptr, metadata) }; s.to_owned() }"),
         ("Kind::Owned", "UNSAFE { String::from_raw_parts(ptr.as_ptr(), metadata.len(), metadata.capacity()) }"),
         ("Kind::Shared", "{ let s = UNSAFE { Arc::from_raw(Self::borrowed_from_parts(ptr, metadata)) }; s.to_string() }")]
    ∧ Generated.cow_str_clone_from_parts_arms
      = [("Kind::Borrowed", "(ptr, *metadata)"),
         ("Kind::Owned", "{ let s = UNSAFE { &*Self::borrowed_from_parts(ptr, metadata) }; Self::owned_into_parts(s.to_string()) }"),
         ("Kind::Shared", "clone_shared::<Self>(ptr, metadata)")]
    ∧ Generated.cow_str_drop_from_parts_arms
      = [("Kind::Borrowed", "{}"),
         ("Kind::Owned", "UNSAFE { drop(Vec::from_raw_parts(ptr.as_ptr(), metadata.len(), metadata.capacity())) }"),
         ("Kind::Shared", "UNSAFE { drop(Arc::from_raw(Self::borrowed_from_parts(ptr, metadata))) }")] :=
  ⟨rfl, rfl, rfl⟩

/-- **per-kind dispatch of `impl<T: Clone> Cowable for [T]`** — the same three functions of the model -/
theorem src_dispatch_slice :
    Generated.cow_slice_owned_from_parts_arms
      = [("Kind::Borrowed", "{ let data = UNSAFE { &*Self::borrowed_from_parts(ptr, metadata) }; data.to_vec() }"),
         ("Kind::Owned", "UNSAFE { Vec::from_raw_parts(ptr.as_ptr(), metadata.len(), metadata.capacity()) }"),
         ("Kind::Shared", "{ let arc = UNSAFE { Arc::from_raw(Self::borrowed_from_parts(ptr, metadata)) }; arc.to_vec() }")]
    ∧ Generated.cow_slice_clone_from_parts_arms
      = [("Kind::Borrowed", "(ptr, *metadata)"),
         ("Kind::Owned", "{ let vec_ptr = Self::borrowed_from_parts(ptr, metadata); let new_vec = UNSAFE { vec_ptr.as_ref().unwrap().to_vec() }; Self::owned_into_parts(new_vec) }"),
         ("Kind::Shared", "clone_shared::<Self>(ptr, metadata)")]
    ∧ Generated.cow_slice_drop_from_parts_arms
      = [("Kind::Borrowed", "{}"),
         ("Kind::Owned", "UNSAFE { drop(Vec::from_raw_parts(ptr.as_ptr(), metadata.len(), metadata.capacity())) }"),
         ("Kind::Shared", "UNSAFE { drop(Arc::from_raw(Self::borrowed_from_parts(ptr, metadata))) }")]
    ∧ Generated.cow_clone_shared_stmts
      = ["let arc_ptr = T::borrowed_from_parts(ptr, metadata)",
         "UNSAFE { Arc::increment_strong_count(arc_ptr); } (ptr, *metadata)"] :=
  ⟨rfl, rfl, rfl, rfl⟩

/-- **taking values apart** — `borrowedIntoParts` / `ownedIntoParts` / the `fromShared` arm of `step`: the length
    word is the ELEMENT count (`len()`, never a byte size) for both implementors, the capacity word is the
    value's own capacity / `usize::MAX` / 0, owned values are wrapped in `ManuallyDrop`, `Arc::into_raw` keeps
    the reference -/
theorem src_into_parts :
    Generated.cow_str_shared_into_parts_stmts
      = ["let metadata = Metadata::shared(arc.len())",
         "let ptr = UNSAFE { NonNull::new_unchecked(Arc::into_raw(arc) as *mut _) }", "(ptr, metadata)"]
    ∧ Generated.cow_slice_shared_into_parts_stmts = Generated.cow_str_shared_into_parts_stmts
    ∧ Generated.cow_str_owned_into_parts_stmts
      = ["let mut owned = ManuallyDrop::new(owned.into_bytes())",
         "let ptr = UNSAFE { NonNull::new_unchecked(owned.as_mut_ptr()) }",
         "let metadata = Metadata::owned(owned.len(), owned.capacity())", "(ptr, metadata)"]
    ∧ Generated.cow_slice_owned_into_parts_stmts
      = ["let mut owned = ManuallyDrop::new(owned)",
         "let ptr = UNSAFE { NonNull::new_unchecked(owned.as_mut_ptr()) }",
         "let metadata = Metadata::owned(owned.len(), owned.capacity())", "(ptr, metadata)"]
    ∧ Generated.cow_str_borrowed_into_parts_stmts
      = ["let ptr = UNSAFE { NonNull::new_unchecked(self.as_ptr() as *mut _) }",
         "let metadata = Metadata::borrowed(self.len())", "(ptr, metadata)"]
    ∧ Generated.cow_slice_borrowed_into_parts_stmts = Generated.cow_str_borrowed_into_parts_stmts
    ∧ Generated.cow_str_borrowed_from_parts_stmts = ["slice_from_raw_parts(ptr.as_ptr(), metadata.len()) as *const _"]
    ∧ Generated.cow_slice_borrowed_from_parts_stmts = Generated.cow_str_borrowed_from_parts_stmts :=
  ⟨rfl, rfl, rfl, rfl, rfl, rfl, rfl, rfl⟩

/-- **constructor lifetimes**: the three borrowing constructors take `&'a _` where `'a` is the lifetime
    parameter of the `Cow<'a, _>` they return (their bodies go through raw pointers, so the compiler would accept
    an unconstrained `&T` just as well — and every borrow the harness can make is `'static`); the owning
    constructors and `into_owned` live in the lifetime-agnostic block — the model's statics are immortal
    *because* of this -/
theorem src_ctor_lifetimes :
    Generated.cow_ctor_sigs
      = [("impl<'a, T> Cow<'a, T> where T: Cowable + ?Sized,", "pub fn from_borrowed(borrowed: &'a T) -> Self"),
         ("impl<'a, T> Cow<'a, [T]> where T: Clone,", "pub const fn const_slice(val: &'a [T]) -> Cow<'a, [T]>"),
         ("impl<'a> Cow<'a, str>", "pub const fn const_str(val: &'a str) -> Self"),
         ("impl<T> Cow<'_, T> where T: Cowable + ?Sized,", "pub fn from_owned(owned: T::Owned) -> Self"),
         ("impl<T> Cow<'_, T> where T: Cowable + ?Sized,", "pub fn from_shared(arc: Arc<T>) -> Self"),
         ("impl<T> Cow<'_, T> where T: Cowable + ?Sized,", "pub fn into_owned(self) -> <T as ToOwned>::Owned")] := rfl

/-- **`Send` / `Sync`**: the only `unsafe impl`s of the file, and the bounds each puts on `T` as the thread model
    reads them (`CowSend.Bound.ofTokens`): BOTH ask for `T: Sync + Send`, the bounds of `std::sync::Arc<T>` — the
    only sound ones (`sound_iff_arc_bounds`).  The code as found asked `Sync` for `Sync` and `Send` for `Send` only
    (`CowSend.sameTraitBounds`): `sameTraitBounds_unsound`.  The instantiations the harness can run (`str`, `Label`,
    `D`) are all `Send + Sync` and cannot tell; the decision table over element types that lack one or both traits is
    compared with the compiler's on every run (ops `cow autotrait`, type probes). -/
theorem src_send_sync_bounds :
    Generated.cow_auto_trait_impls
      = ["UNSAFE impl<T: Cowable + Sync + Send + ?Sized> Sync for Cow<'_, T>",
         "UNSAFE impl<T: Cowable + Sync + Send + ?Sized> Send for Cow<'_, T>"]
    ∧ (⟨CowSend.Bound.ofTokens Generated.cow_send_bound_tokens,
        CowSend.Bound.ofTokens Generated.cow_sync_bound_tokens⟩ : CowSend.Impls) = CowSend.arcBounds :=
  ⟨rfl, by decide⟩

/-- **conversion to `std::borrow::Cow`**: the impl still has the implicit `T: Sized` bound (no `?Sized`), which no
    implementor of `Cowable` meets — it cannot be called, which is why no correspondence stream drives it; and
    its arms are the model's `intoStdCow`: Owned and Shared go through `into_owned` (a copy for Shared — see
    `into_std_shared_must_copy`), only Borrowed hands the reference out.  If the bound is relaxed this theorem
    breaks and the conversion has to be driven by the harness. -/
theorem src_into_std_uncallable :
    Generated.cow_into_std_header = "impl<'a, T: Cowable> From<Cow<'a, T>> for std::borrow::Cow<'a, T>"
    ∧ Generated.cow_into_std_arms
      = [("Kind::Owned | Kind::Shared", "Self::Owned(value.into_owned())"),
         ("Kind::Borrowed", "{ Self::Borrowed(UNSAFE { &*T::borrowed_from_parts(value.ptr, &value.metadata) }) }")] :=
  ⟨rfl, rfl⟩

/-- **which methods the impls define** — every `impl` block of cow.rs with the methods it DEFINES, in source order.
    `Clone` defines only `clone`; `PartialEq` only `eq`; `PartialOrd` only `partial_cmp`; `Ord` only `cmp`; `Hash`
    only `hash`; `Eq` nothing: every other method of these traits (`clone_from`, `ne`, `lt` `le` `gt` `ge`, `max` `min`
    `clamp`, `hash_slice`) is the standard library's provided one, which is what `Op.cloneFrom` (= clone, then
    drop) and `Op.eq` / `Op.deref` / `Op.readUnwind` (reads) model.  An override, a new trait impl or a new inherent
    method breaks this theorem and has to be modelled and driven before the check passes again. -/
theorem src_trait_methods :
    Generated.cow_impl_methods
      = [("impl<T> Cow<'_, T> where T: Cowable + ?Sized,", "from_parts from_owned from_shared into_owned"),
         ("impl<'a, T> Cow<'a, T> where T: Cowable + ?Sized,", "from_borrowed"),
         ("impl<'a, T> Cow<'a, [T]> where T: Clone,", "const_slice"),
         ("impl<'a> Cow<'a, str>", "const_str"),
         ("impl<T> Deref for Cow<'_, T> where T: Cowable + ?Sized,", "deref"),
         ("impl<T> Clone for Cow<'_, T> where T: Cowable + ?Sized,", "clone"),
         ("impl<T> Drop for Cow<'_, T> where T: Cowable + ?Sized,", "drop"),
         ("impl<T> Hash for Cow<'_, T> where T: Hash + Cowable + ?Sized,", "hash"),
         ("impl<'a, T> Default for Cow<'a, T> where T: Cowable + ?Sized, &'a T: Default,", "default"),
         ("impl<T> Eq for Cow<'_, T> where T: Eq + Cowable + ?Sized", "-"),
         ("impl<A, B> PartialOrd<Cow<'_, B>> for Cow<'_, A> where A: Cowable + ?Sized + PartialOrd<B>, B: Cowable + ?Sized,", "partial_cmp"),
         ("impl<T> Ord for Cow<'_, T> where T: Ord + Cowable + ?Sized,", "cmp"),
         ("impl<'a, T> From<&'a T> for Cow<'a, T> where T: Cowable + ?Sized,", "from"),
         ("impl<'a, T> From<Arc<T>> for Cow<'a, T> where T: Cowable + ?Sized,", "from"),
         ("impl<'a> From<std::borrow::Cow<'a, str>> for Cow<'a, str>", "from"),
         ("impl<'a, T: Cowable> From<Cow<'a, T>> for std::borrow::Cow<'a, T>", "from"),
         ("impl From<String> for Cow<'_, str>", "from"),
         ("impl<T> From<Vec<T>> for Cow<'_, [T]> where T: Clone,", "from"),
         ("impl<T> AsRef<T> for Cow<'_, T> where T: Cowable + ?Sized,", "as_ref"),
         ("impl<T> Borrow<T> for Cow<'_, T> where T: Cowable + ?Sized,", "borrow"),
         ("impl<A, B> PartialEq<Cow<'_, B>> for Cow<'_, A> where A: Cowable + ?Sized, B: Cowable + ?Sized, A: PartialEq<B>,", "eq"),
         ("impl<T> fmt::Debug for Cow<'_, T> where T: Cowable + fmt::Debug + ?Sized,", "fmt"),
         ("impl<T> fmt::Display for Cow<'_, T> where T: Cowable + fmt::Display + ?Sized,", "fmt"),
         ("UNSAFE impl<T: Cowable + Sync + Send + ?Sized> Sync for Cow<'_, T>", "-"),
         ("UNSAFE impl<T: Cowable + Sync + Send + ?Sized> Send for Cow<'_, T>", "-"),
         ("impl Metadata", "len capacity kind shared borrowed owned"),
         ("impl Cowable for str", "borrowed_into_parts owned_into_parts shared_into_parts borrowed_from_parts owned_from_parts clone_from_parts drop_from_parts"),
         ("impl<T> Cowable for [T] where T: Clone,", "borrowed_into_parts owned_into_parts shared_into_parts borrowed_from_parts owned_from_parts clone_from_parts drop_from_parts")] := rfl

/-- **what the trait methods forward to**: every comparison, hash and formatting method reads both sides through
    `deref` and hands them to the element type's own implementation (they own nothing, so an unwinding element
    operation leaves nothing behind — `readUnwind_changes_nothing`); `clone` builds the new value from
    `clone_from_parts` alone -/
theorem src_forwarding :
    Generated.cow_forwarding_bodies
      = [("Deref::deref", "let borrowed_ptr = T::borrowed_from_parts(self.ptr, &self.metadata); UNSAFE { borrowed_ptr.as_ref().unwrap() }"),
         ("Clone::clone", "#[cfg(metrics_verif)] crate::key::verif_key_hook::point(\"cow-clone\"); let (ptr, metadata) = T::clone_from_parts(self.ptr, &self.metadata); Self { ptr, metadata, _lifetime: PhantomData }"),
         ("Hash::hash", "self.deref().hash(state)"),
         ("Default::default", "Cow::from_borrowed(Default::default())"),
         ("PartialOrd::partial_cmp", "PartialOrd::partial_cmp(self.deref(), other.deref())"),
         ("Ord::cmp", "Ord::cmp(self.deref(), other.deref())"),
         ("AsRef::as_ref", "self.borrow()"),
         ("Borrow::borrow", "self.deref()"),
         ("PartialEq::eq", "self.deref() == other.deref()"),
         ("fmt::Debug::fmt", "self.deref().fmt(f)"),
         ("fmt::Display::fmt", "self.deref().fmt(f)")] := rfl

/-! ## threads: which element types may cross (`Model/CowSend.lean`)

The clause "values can be sent to and dropped on other threads".  `Cow` holds a `NonNull`, so what may cross a
thread boundary is decided by the two `unsafe impl`s alone; the model takes their bounds as a parameter, lets any
number of threads construct, clone, move (`Send`), lend (`Sync`), give back and drop values of all three kinds, and
asks whether a state is reachable in which the promise of an auto trait of the ELEMENT type is broken: two threads
holding `&T` to the same `T: !Sync` objects at once (`racy`), or `T: !Send` objects owned / destroyed by a thread
that did not create them (`misplaced`). -/

section Threads
open MetricsVerif.CowSend

/-- **the repaired bounds are sound**: with `T: Sync + Send` asked by both impls (the bounds of `Arc<T>`), for EVERY
    element type (whatever auto traits it has or lacks), every number of threads and every sequence of
    constructions, clones, moves, loans and drops, no two threads ever reach the same `!Sync` objects and no `!Send`
    object is ever owned or destroyed away from its thread -/
theorem arc_bounds_safe (e : Elem) (ops : List CowSend.Op) :
    violates e (CowSend.run arcBounds e CowSend.init ops) = false := by
  cases he : (e.send && e.sync) with
  | false => exact atHome_not_violates (run_atHome he ops _ atHome_init) e
  | true =>
    have h1 : e.send = true := by cases hs : e.send <;> simp_all
    have h2 : e.sync = true := by cases hs : e.sync <;> simp_all
    simp [violates, racy, misplaced, h1, h2]

/-- **`Send` must ask for `T: Sync`** (the defect found in the code; RUSTSEC-2020-0122 class): whatever else the impls
    ask, if `Send for Cow` does not ask for `Sync`, then for `T = Cell<_>` (`Send`, not `Sync`) a Shared value is
    cloned and the clone MOVED to thread 1 — threads 0 and 1 now both hold `&T` to the same cells.
    Replayed on the real code: /tmp witness in REPORT.md (lost updates, heap corruption with `RefCell<String>`). -/
theorem send_needs_sync (im : Impls) (h : im.send.needSync = false) :
    racy ⟨true, false⟩ (CowSend.run im ⟨true, false⟩ CowSend.init [.fromShared 0 false, .clone 0 0, .send 1 1]) = true := by
  obtain ⟨⟨a, b⟩, ⟨c, d⟩⟩ := im
  simp only at h; subst h
  cases a <;> cases c <;> cases d <;> decide

/-- the same through the Borrowed kind: the caller keeps the `Vec` it borrowed from, the value goes to thread 1 -/
theorem send_needs_sync_borrowed (im : Impls) (h : im.send.needSync = false) :
    racy ⟨true, false⟩ (CowSend.run im ⟨true, false⟩ CowSend.init [.fromBorrowed 0, .send 0 1]) = true := by
  obtain ⟨⟨a, b⟩, ⟨c, d⟩⟩ := im
  simp only at h; subst h
  cases a <;> cases c <;> cases d <;> decide

/-- `Send` must ask for `T: Send`: an Owned value of `!Send` elements moved to another thread -/
theorem send_needs_send (im : Impls) (h : im.send.needSend = false) :
    misplaced ⟨false, true⟩ (CowSend.run im ⟨false, true⟩ CowSend.init [.fromOwned 0, .send 0 1]) = true := by
  obtain ⟨⟨a, b⟩, ⟨c, d⟩⟩ := im
  simp only at h; subst h
  cases b <;> cases c <;> cases d <;> decide

/-- `Sync` must ask for `T: Sync`: a `&Cow` handed to thread 1 is a `&T` there, while thread 0 keeps its own -/
theorem sync_needs_sync (im : Impls) (h : im.sync.needSync = false) :
    racy ⟨true, false⟩ (CowSend.run im ⟨true, false⟩ CowSend.init [.fromOwned 0, .lend 0 1]) = true := by
  obtain ⟨⟨a, b⟩, ⟨c, d⟩⟩ := im
  simp only at h; subst h
  cases a <;> cases b <;> cases c <;> decide

/-- `Sync` must ask for `T: Send` (as `Arc<T>: Sync` does): through a lent `&Cow` thread 1 clones a Shared value —
    an `Arc::increment_strong_count` — and keeps the clone; thread 0 drops the original first; the LAST reference is
    dropped on thread 1, which destroys `!Send` objects made on thread 0 -/
theorem sync_needs_send (im : Impls) (h : im.sync.needSend = false) :
    (CowSend.run im ⟨false, true⟩ CowSend.init
        [.fromShared 0 false, .lend 0 1, .clone 1 0, .unlend 0 1, .drop 0 0, .drop 1 1]).destroyed = [(⟨0, 0⟩, 1)]
    ∧ misplaced ⟨false, true⟩ (CowSend.run im ⟨false, true⟩ CowSend.init
        [.fromShared 0 false, .lend 0 1, .clone 1 0, .unlend 0 1, .drop 0 0, .drop 1 1]) = true := by
  obtain ⟨⟨a, b⟩, ⟨c, d⟩⟩ := im
  simp only at h; subst h
  cases a <;> cases b <;> cases d <;> decide

/-- **exactly the `Arc` bounds**: a pair of impls is sound for every element type, thread count and operation
    sequence if and only if both ask for `T: Sync + Send` -/
theorem sound_iff_arc_bounds (im : Impls) :
    (∀ (e : Elem) (ops : List CowSend.Op), violates e (CowSend.run im e CowSend.init ops) = false) ↔ im = arcBounds := by
  constructor
  · intro hall
    obtain ⟨⟨a, b⟩, ⟨c, d⟩⟩ := im
    have hb : b = true := by
      cases hb : b with
      | true => rfl
      | false =>
        have := send_needs_sync ⟨⟨a, b⟩, ⟨c, d⟩⟩ hb
        have h2 := hall ⟨true, false⟩ [.fromShared 0 false, .clone 0 0, .send 1 1]
        simp [violates, this] at h2
    have ha : a = true := by
      cases ha : a with
      | true => rfl
      | false =>
        have := send_needs_send ⟨⟨a, b⟩, ⟨c, d⟩⟩ ha
        have h2 := hall ⟨false, true⟩ [.fromOwned 0, .send 0 1]
        simp [violates, this] at h2
    have hd : d = true := by
      cases hd : d with
      | true => rfl
      | false =>
        have := sync_needs_sync ⟨⟨a, b⟩, ⟨c, d⟩⟩ hd
        have h2 := hall ⟨true, false⟩ [.fromOwned 0, .lend 0 1]
        simp [violates, this] at h2
    have hc : c = true := by
      cases hc : c with
      | true => rfl
      | false =>
        have := (sync_needs_send ⟨⟨a, b⟩, ⟨c, d⟩⟩ hc).2
        have h2 := hall ⟨false, true⟩ [.fromShared 0 false, .lend 0 1, .clone 1 0, .unlend 0 1, .drop 0 0, .drop 1 1]
        simp [violates, this] at h2
    subst ha hb hc hd
    rfl
  · intro h e ops
    subst h
    exact arc_bounds_safe e ops

/-- **the bounds the code had** (`Sync` for `Sync`, `Send` for `Send`) are unsound, in both directions:
    a Shared `Cow<[Cell<_>]>` is cloned and one copy sent away (two threads, one set of cells), and a Shared value
    of `Sync + !Send` elements is cloned through a `&Cow` on another thread which then drops last -/
theorem sameTraitBounds_unsound :
    (∃ e ops, violates e (CowSend.run sameTraitBounds e CowSend.init ops) = true)
    ∧ racy ⟨true, false⟩ (CowSend.run sameTraitBounds ⟨true, false⟩ CowSend.init
        [.fromShared 0 false, .clone 0 0, .send 1 1]) = true
    ∧ racy ⟨true, false⟩ (CowSend.run sameTraitBounds ⟨true, false⟩ CowSend.init [.fromBorrowed 0, .send 0 1]) = true
    ∧ misplaced ⟨false, true⟩ (CowSend.run sameTraitBounds ⟨false, true⟩ CowSend.init
        [.fromShared 0 false, .lend 0 1, .clone 1 0, .unlend 0 1, .drop 0 0, .drop 1 1]) = true :=
  ⟨⟨⟨true, false⟩, [.fromShared 0 false, .clone 0 0, .send 1 1], by decide⟩, by decide, by decide, by decide⟩

/-- **the impls of the source tree are sound**: the bounds the translator reads from cow.rs, fed to the thread
    model, admit no violation — for every element type, thread count and operation sequence -/
theorem cow_send_sync_sound (e : Elem) (ops : List CowSend.Op) :
    violates e (CowSend.run ⟨Bound.ofTokens Generated.cow_send_bound_tokens,
                            Bound.ofTokens Generated.cow_sync_bound_tokens⟩ e CowSend.init ops) = false := by
  rw [src_send_sync_bounds.2]
  exact arc_bounds_safe e ops

/-- non-vacuity: with sound bounds and `Send + Sync` elements values really do travel — moved, lent, cloned and
    dropped on other threads (the last drop of a Shared value happens away from home) — and nothing is violated -/
example : (let s := CowSend.run arcBounds ⟨true, true⟩ CowSend.init
                     [.fromShared 0 false, .clone 0 0, .send 1 1, .lend 0 2, .clone 2 0, .unlend 0 2, .drop 0 0, .drop 1 1, .drop 2 2]
           s.destroyed == [(⟨0, 0⟩, 2)] && !violates ⟨true, true⟩ s && s.vals.all (·.isNone)) = true := by decide

/-- non-vacuity: for `Cell` elements the sound bounds refuse the move — the value stays where it was -/
example : (CowSend.run arcBounds ⟨true, false⟩ CowSend.init [.fromShared 0 false, .clone 0 0, .send 1 1]).vals
    = [some ⟨⟨0, 0⟩, .shared, 0, []⟩, some ⟨⟨0, 0⟩, .shared, 0, []⟩] := by decide

end Threads

/-! ## non-vacuity: concrete sequences (evaluated by the kernel) -/

/-- the sequences below are well-formed, so the hypotheses of the theorems above are satisfiable -/
def demo : List Op :=
  [ .newArc [104, 105],          -- a0 = Arc "hi"
    .fromShared 0,               -- h0 shared
    .clone 0,                    -- h1 shared (strong 3)
    .fromOwned [97, 98, 99] 8,   -- h2 owned "abc" cap 8
    .clone 2,                    -- h3 owned exact
    .fromOwned [] 16,            -- h4 empty with capacity
    .fromOwned [] 0,             -- h5 capacity 0 → borrowed
    .fromBorrowed [120],         -- h6 static "x"
    .clone 6,                    -- h7
    .intoOwned 1 8,              -- h8 String "hi" (cap 8), gives a strong ref back
    .intoOwned 2 0,              -- h9 the same buffer as h2
    .intoStdCow 6 1,             -- h10 std Borrowed
    .intoStdCow 3 3,             -- h11 std Owned
    .eq 8 0,
    .dropArc 0,                  -- caller lets go: h0 is now the last owner
    .drop 0, .drop 4, .drop 5, .drop 7, .drop 8, .drop 9, .drop 10, .drop 11 ]

example : wfRun init demo = true := by decide

example : (match run init demo with
    | .ok s => s.vals.all (·.isNone) && liveAllocs s == 0 && s.vecs.all (fun c => !c.live && c.frees == 1)
                && s.arcs.all (fun c => !c.live && c.frees == 1 && c.strong == 0) && s.vecs.length == 4
    | .error _ => false) = true := by decide

/-- the error states are reachable by *ill-behaved* callers of the primitives — the model can tell: freeing
    the same buffer twice is caught, so `cow_safe` is not true by construction -/
example : errIs (do
    let (s1, v) ← fromOwned init [1, 2] 4
    let s2 ← dropFromParts s1 v
    dropFromParts s2 v) .doubleFree = true := by decide

/-- reading through a value after its buffer was freed is caught -/
example : errIs (do
    let (s1, v) ← fromOwned init [1, 2] 4
    let s2 ← dropFromParts s1 v
    readPtr s2 v.ptr v.len) .readFreed = true := by decide

/-- a value whose capacity word lies about its pointer (Shared word on a `Vec` buffer) is caught -/
example : errIs (do
    let (s1, v) ← fromOwned init [1, 2] 4
    dropFromParts s1 { v with cap := usizeMax }) .arcUseAfterFree = true := by decide

/-- a `from_raw_parts` with a capacity that is not the buffer's is caught -/
example : errIs (do
    let (s1, v) ← fromOwned init [1, 2] 4
    dropFromParts s1 { v with cap := 2 }) .badLayout = true := by decide

/-- unwinding ops inside a longer sequence: the failed `into_owned` of a shared value gives one reference back,
    the failed `clone` of an owned value leaves it usable; everything is released exactly once at the end -/
def demoUnwind : List Op :=
  [ .newArc [1, 2, 3], .fromShared 0, .clone 0,      -- a0, h0, h1 (strong 3)
    .intoOwnedUnwind 0 3,                            -- unwinds: strong 2, h0 consumed
    .fromOwned [4, 5] 6, .cloneUnwind 2,             -- h2 owned; its clone unwinds: nothing changes
    .cloneUnwind 1,                                  -- shared: no user code, ordinary clone → h3 (strong 3)
    .intoOwnedUnwind 2 0,                            -- owned: cannot unwind, ordinary into_owned → h4
    .fromBorrowed [9], .intoOwnedUnwind 5 1,         -- h5 borrowed: consumed
    .drop 1, .drop 3, .drop 4, .dropArc 0 ]

example : wfRun init demoUnwind = true := by decide

example : (match run init demoUnwind with
    | .ok s => s.vals.all (·.isNone) && liveAllocs s == 0 && s.vecs.all (fun c => !c.live && c.frees == 1)
                && s.arcs.all (fun c => !c.live && c.frees == 1 && c.strong == 0) && s.vecs.length == 1
    | .error _ => false) = true := by decide

/-- `clone_from` and unwinding comparisons inside a longer sequence: every kind as destination and as source,
    a failed `clone_from` in between; everything is released exactly once at the end -/
def demoCloneFrom : List Op :=
  [ .newArc [1, 2], .fromShared 0,                   -- a0, h0 shared (strong 2)
    .fromOwned [3, 4, 5] 8, .fromOwned [6] 1,        -- h1, h2 owned
    .fromBorrowed [9, 9],                            -- h3 borrowed
    .cloneFromUnwind 1 2,                            -- unwinds: h1 keeps [3,4,5]
    .readUnwind 1 2,
    .cloneFrom 1 2,                                  -- h1 dies, h4 = copy of [6] (exact capacity); old buffer freed
    .cloneFrom 2 0,                                  -- owned ← shared: h2's buffer freed, h5 shared (strong 3)
    .cloneFrom 0 3,                                  -- shared ← borrowed: one reference given back, h6 borrowed
    .cloneFromUnwind 3 5,                            -- shared source: no user code, ordinary clone_from → h7
    .deref 4, .eq 5 7,
    .drop 4, .drop 5, .drop 6, .drop 7, .dropArc 0 ]

example : wfRun init demoCloneFrom = true := by decide

example : (match run init demoCloneFrom with
    | .ok s => s.vals.all (·.isNone) && liveAllocs s == 0 && s.vecs.all (fun c => !c.live && c.frees == 1)
                && s.arcs.all (fun c => !c.live && c.frees == 1 && c.strong == 0) && s.vecs.length == 3
    | .error _ => false) = true := by decide

/-- a caller error is reported as such, not as a memory error -/
example : (match run init [.fromOwned [1] 4, .drop 0, .deref 0] with
    | .error e => e.isMisuse | .ok _ => false) = true := by decide

end MetricsVerif.C14
