import MetricsVerif.Model.BucketUnwind
/-
C05, clause "every value pushed is handed to exactly one clearing read, or else stays visible … no value is lost" —
when the callback of a clearing read UNWINDS.

The full clause is FALSE of the code for such callbacks: `unwinding_callback_loses_rest_of_chain` (a witness, replayed on
the real `AtomicBucket` by the harness stream "unwind": same results, same visible set, same orphaned values; proposed
known finding K-C05-unwind).  What does hold, for every state and every thread (`…_partial`): the unwind changes no shared
state — nothing becomes visible twice, nothing visible disappears —, the call's result is exactly what its callbacks had
been handed, and the values left behind are exactly the rest of the detached chain behind the block whose callback unwound.
-/
namespace MetricsVerif.C05
open MetricsVerif MetricsVerif.Bucket

/-- An unwinding callback changes NO shared state of the bucket: not the tail (nothing is re-attached), not a block (nothing
    is retired, nothing marked), not the block size.  Only the unwinding thread changes. -/
theorem unwind_changes_no_shared_state (s : Sys) (tid : Nat) :
    (unwindStep s tid).blocks = s.blocks ∧ (unwindStep s tid).tail = s.tail ∧ (unwindStep s tid).B = s.B := by
  unfold unwindStep
  cases s.threads[tid]? <;> simp

theorem chainData_congr (s s' : Sys) (h : s'.blocks = s.blocks) (fuel : Nat) (o : Option Nat) :
    chainData s' fuel o = chainData s fuel o := by
  induction fuel generalizing o with
  | zero => cases o <;> simp [chainData]
  | succ n ih =>
    cases o with
    | none => simp [chainData]
    | some i => simp [chainData, getBlock, h, ih]

/-- `…_partial`, visibility: what a snapshot would see is the same before and after the unwind — the values still in the
    bucket stay visible, and NONE of the detached ones comes back (the code has no "restore on unwind"). -/
theorem unwind_visible_unchanged_partial (s : Sys) (tid : Nat) : visible (unwindStep s tid) = visible s := by
  have h := unwind_changes_no_shared_state s tid
  unfold visible
  rw [h.2.1, h.1]
  exact chainData_congr s _ h.1 _ _

/-- `…_partial`, delivery: the unwound call's result is exactly what its callbacks had been handed — every block up to and
    including the one whose callback unwound, nothing else; the thread goes on with its next call. -/
theorem unwind_result_is_what_callbacks_saw_partial (t : Thread) (blk : Nat) (h : t.pc = .cNext blk) :
    (unwindThread t).results = t.results ++ [.cleared t.acc]
    ∧ (unwindThread t).calls = t.calls.tail ∧ (unwindThread t).pc = startPC t.calls.tail := by
  simp [unwindThread, h, Thread.advance]

/-- The unwinding call returns exactly what the NORMAL end of a walk returns (`cNext` on a block without successor): the
    code treats the unwind as if the chain had ended at the block whose callback unwound — the rest is simply dropped. -/
theorem unwind_is_walk_cut_short (s : Sys) (t : Thread) (blk : Nat) (h : t.pc = .cNext blk)
    (hn : (getBlock s blk).next = none) : (stepThread s t).2 = unwindThread t := by
  simp [stepThread, unwindThread, h, hn]

/-- No callback running, nothing to unwind: `unwindStep` is the identity on threads that are not right behind a
    `clear_with` callback. -/
theorem unwind_only_behind_a_clear_callback (t : Thread) (h : ∀ blk, t.pc ≠ .cNext blk) : unwindThread t = t := by
  unfold unwindThread
  cases hp : t.pc <;> simp_all

/-- WITNESS (block size 2 keeps the kernel evaluation small; the harness replays the shape with 64): five pushes have
    COMPLETED — blocks [1,2], [3,4], [5] —, then a `clear_with` detaches the chain and its callback unwinds on the first
    (newest) block.  Afterwards: the call has been handed [5]; the bucket is empty for every later reader (the thread's own
    snapshot and its second clear get nothing); the four values of the two older blocks are neither delivered nor visible —
    lost, although no pusher raced with the clear (no K1 step: every push had completed before the clear began). -/
theorem unwinding_callback_loses_rest_of_chain :
    let s0 := init 2 [[.push 1, .push 2, .push 3, .push 4, .push 5], [.clear, .data, .clear]]
    let sched : List (Nat × Bool) :=
      (List.replicate 21 (0, false)) ++ [(1, false), (1, false), (1, false), (1, false), (1, true)]
        ++ List.replicate 3 (1, false)
    let s := runMarked s0 sched
    quiescent s = true
    ∧ completedPushes s = 5
    ∧ delivered s = [5]
    ∧ visible s = []
    ∧ (s.threads.map (·.results))[1]? = some [.cleared [5], .snapshot [], .cleared []]
    ∧ orphansOfRun s0 sched = [3, 4, 1, 2] := by decide

/-- The conservation clause of C05 — every completed push is delivered to a clearing read or visible — does NOT extend to
    clearing reads whose callback unwinds, even without any concurrency between pushers and the clear. -/
theorem conservation_fails_with_unwinding_callback :
    ∃ (B : Nat) (progs : List (List Call)) (sched : List (Nat × Bool)),
      quiescent (runMarked (init B progs) sched) = true
      ∧ (delivered (runMarked (init B progs) sched)).length + (visible (runMarked (init B progs) sched)).length
          < completedPushes (runMarked (init B progs) sched) :=
  ⟨2, [[.push 1, .push 2, .push 3, .push 4, .push 5], [.clear, .data, .clear]],
   (List.replicate 21 (0, false)) ++ [(1, false), (1, false), (1, false), (1, false), (1, true)]
        ++ List.replicate 3 (1, false), by decide⟩

/-- Without marked grants `runMarked` IS `run`: every theorem of Props/C05.lean about `run` speaks about the unmarked
    schedules of this machine. -/
theorem runMarked_unmarked (s : Sys) (sched : List Nat) : runMarked s (sched.map (·, false)) = run s sched := by
  induction sched generalizing s with
  | nil => simp [runMarked, run]
  | cons a r ih => simp [runMarked, run, List.foldl] at *; exact ih (step s a)

end MetricsVerif.C05
