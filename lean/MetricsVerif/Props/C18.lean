/-
C18 — the scrape endpoint serves the current rendering and enforces its allowlist.

Model: `Model/Allowlist.lean` (`parseEntry`/`addAllowed` = `PrometheusBuilder::add_allowed_address`,
`contains` = `ipnet::IpNet::contains`, `checkAllowed` = `HttpListeningExporter::check_tcp_allowed`,
`handleHttpRequest`/`respond` = `handle_http_request`, `run` = the listener over a history of connections).
All theorems are for ALL allowlists (any length, single hosts, nested / overlapping / duplicated blocks, both
families mixed, entries written with non-zero host bits), ALL peer addresses, ALL prefix lengths `0..width`, ALL
paths and ALL renderings: nothing is enumerated; the arithmetic is on `Nat` with `/ 2^k`.

Reading of the property's words.
* "a peer whose address lies in none of the listed networks": no entry contains the address the listener's
  socket reports, nor — when that address is IPv4-mapped (`::ffff:a.b.c.d`, an IPv4 client of a dual-stack
  listener) — the IPv4 address embedded in it (`peerMatches`).  For every other peer this is plain `contains`
  (`peerMatches_v4`, `peerMatches_plain_v6`).
* "always receives 403 with an empty body and never any metric data": for EVERY path.  The code checks the
  allowlist before it looks at the path, so an outsider asking `/health` gets 403 and not "OK"
  (`outsider_health_is_403`); the wording "always receives 403" is taken literally, `/health` is no exception.
* "is served": 200 with the current rendering, or 200 "OK" when the path is exactly `/health`.
* "a rendering of the metrics at that time": the body IS the value `PrometheusHandle::render()` returned while
  handling the request (`served_body_is_render`), so everything C07 / C08 prove of `render` holds of the body.
  "At that time" when requests overlap and a rendering takes time: the body is made of values loaded AFTER the
  request arrived — one event per step of the code in `stepC` (`arrive`, one `read` per series, `respond`), any
  interleaving of any number of clients and updates: `scrape_fresh`, `scrape_sees_completed_updates` (every update
  completed before the GET arrived is in the body), with `shared_rendering_is_stale` showing that a rendering
  shared between overlapping scrapes would break the clause and `src_render_per_request` pinning that the code
  shares none.  Other clients' renderings are neither needed nor in the way (`own_rendering_suffices`,
  `refusal_and_health_never_wait`).
* "a GET on any path": ANY complete GET, also from a client that shuts down its write side right after it
  (`printf … | nc`): `half_closing_client_served` (the code sets `half_close(true)`, `src_connection_task`);
  `default_eof_drops_request` is the witness that hyper's default breaks the clause (the tree before `fix-C18`).
  "Path" is `req.uri().path()`: the path component of the target in origin-form, absolute-form, with a fragment
  (`pathOf_query`, `pathOf_fragment`, `pathOf_absolute`, `health_targets`).
* "aborted, malformed or concurrent requests never prevent later clients from being served": connections share
  no state (one task per connection, decision per connection); in the model a faulty connection is an event that
  changes nothing (`faults_transparent`).  That hyper / tokio really isolate connections is exercised by the
  harness on every run (garbage, half-open, reset, oversized, pipelined, concurrent), not proved.
-/
import MetricsVerif.Proofs.Allowlist
import MetricsVerif.Generated.SourceFacts

namespace MetricsVerif.C18
open MetricsVerif.Allowlist

/-! ## entries: both documented syntaxes -/

/-- **parse_plain**: a plain address is accepted and denotes the host network (`/32`, `/128`) of that address. -/
theorem parse_plain (f : Family) (b : Nat) (h : b < 2 ^ f.width) :
    parseEntry ⟨f, b, none⟩ = some ⟨f, b, f.width⟩ := by
  simp [parseEntry, h]

/-- **parse_cidr**: `addr/len` is accepted exactly when `len ≤ width`, and is stored as written (no truncation of
    host bits at parse time). -/
theorem parse_cidr (f : Family) (b p : Nat) (h : b < 2 ^ f.width) :
    parseEntry ⟨f, b, some p⟩ = if p ≤ f.width then some ⟨f, b, p⟩ else none := by
  simp [parseEntry, h]

/-- a plain address and the same address with the full prefix length are the same entry -/
theorem plain_eq_full_prefix (f : Family) (b : Nat) :
    parseEntry ⟨f, b, none⟩ = parseEntry ⟨f, b, some f.width⟩ := by
  simp [parseEntry]

/-- every entry that parses has a prefix length within the width and keeps family and address -/
theorem parse_sound (e : Entry) (n : Net) (h : parseEntry e = some n) :
    n.fam = e.fam ∧ n.bits = e.bits ∧ n.plen ≤ n.fam.width ∧ n.bits < 2 ^ n.fam.width := by
  unfold parseEntry at h
  split at h
  · rename_i hb
    cases hp : e.plen with
    | none => simp [hp] at h; subst h; simp [hb]
    | some p =>
      simp [hp] at h
      obtain ⟨hle, rfl⟩ := h
      simp [hb, hle]
  · cases h

/-! ## `contains`: interval = prefix -/

/-- **contains_iff_range**: `contains` is the interval test the code performs: same family and
    `network ≤ a ≤ broadcast`, where `network` is the written address with its low `width − len` bits cleared and
    `broadcast = network + 2^(width − len) − 1`. -/
theorem contains_iff_range (n : Net) (a : Addr) :
    contains n a = true ↔ n.fam = a.fam ∧ n.network ≤ a.bits ∧ a.bits ≤ n.network + (2 ^ (n.fam.width - n.plen) - 1) := by
  unfold contains Net.broadcast
  simp only [Bool.and_eq_true, beq_iff_eq, decide_eq_true_eq]
  exact Iff.rfl

/-- the block starts at a multiple of its size at or below the written address, less than one block away -/
theorem network_spec (n : Net) :
    n.network ≤ n.bits ∧ n.bits < n.network + n.size ∧ n.network % n.size = 0 := by
  have hs := n.size_pos
  unfold Net.network
  have := Nat.div_add_mod n.bits n.size
  have hm := Nat.mod_lt n.bits hs
  rw [Nat.mul_comm] at this
  refine ⟨by omega, by omega, Nat.mul_mod_left _ _⟩

/-- **contains_iff_prefix**: the interval test equals the bit-prefix test, for every prefix length: an address is
    in the block iff it is of the same family and agrees with the entry's written address after dropping the low
    `width − len` bits (`/ 2^(width−len)`), i.e. on the top `len` bits. -/
theorem contains_iff_prefix (n : Net) (a : Addr) :
    contains n a = true ↔
      n.fam = a.fam ∧ a.bits / 2 ^ (n.fam.width - n.plen) = n.bits / 2 ^ (n.fam.width - n.plen) :=
  contains_eq_true_iff n a

/-- **contains_iff_topbits**: the same in terms of single bits: for addresses of the family's width and
    `len ≤ width`, membership means that bits `width−len … width−1` (the top `len` bits) coincide. -/
theorem contains_iff_topbits (n : Net) (a : Addr) (ha : a.bits < 2 ^ n.fam.width)
    (hn : n.bits < 2 ^ n.fam.width) :
    contains n a = true ↔
      n.fam = a.fam ∧ ∀ i, n.fam.width - n.plen ≤ i → i < n.fam.width → a.bits.testBit i = n.bits.testBit i := by
  rw [contains_iff_prefix]
  refine and_congr_right (fun _ => ?_)
  constructor
  · intro h i hi _
    have := congrArg (fun x => x.testBit (i - (n.fam.width - n.plen))) h
    simp only [Nat.testBit_div_two_pow] at this
    rwa [Nat.sub_add_cancel hi] at this
  · intro h
    apply Nat.eq_of_testBit_eq
    intro i
    simp only [Nat.testBit_div_two_pow]
    by_cases hi : i + (n.fam.width - n.plen) < n.fam.width
    · exact h _ (by omega) hi
    · have hge : n.fam.width ≤ i + (n.fam.width - n.plen) := by omega
      rw [Nat.testBit_lt_two_pow (Nat.lt_of_lt_of_le ha (Nat.pow_le_pow_right (by decide) hge)),
          Nat.testBit_lt_two_pow (Nat.lt_of_lt_of_le hn (Nat.pow_le_pow_right (by decide) hge))]

/-- **host_bits_ignored**: an entry written with non-zero host bits (`10.1.2.3/8`) denotes the same block as the
    one written with its network address (`10.0.0.0/8`): `contains` masks. -/
theorem host_bits_ignored (n : Net) (a : Addr) :
    contains n a = contains ⟨n.fam, n.network, n.plen⟩ a := by
  have h : ∀ m : Net, m.fam = n.fam → m.plen = n.plen → m.size = n.size := by
    intro m h1 h2; simp [Net.size, h1, h2]
  have hs := h ⟨n.fam, n.network, n.plen⟩ rfl rfl
  rw [Bool.eq_iff_iff, contains_eq_true_iff, contains_eq_true_iff, hs]
  simp only [Net.network]
  rw [Nat.mul_div_cancel _ n.size_pos]

/-- **cross_family**: an IPv4 entry never contains an IPv6 address and vice versa. -/
theorem cross_family (n : Net) (a : Addr) (h : n.fam ≠ a.fam) : contains n a = false := by
  simp [contains, h]

/-- **host_entry**: a plain-address entry admits exactly that address. -/
theorem host_entry (f : Family) (b : Nat) (n : Net) (h : parseEntry ⟨f, b, none⟩ = some n) (a : Addr) :
    contains n a = true ↔ a = ⟨f, b⟩ := by
  unfold parseEntry at h
  split at h
  · simp at h
    subst h
    rw [contains_eq_true_iff]
    simp only [Net.size, Nat.sub_self, Nat.pow_zero, Nat.div_one]
    constructor
    · rintro ⟨h1, h2⟩; cases a; simp_all
    · rintro rfl; simp
  · cases h

/-- **prefix_zero_all**: `/0` contains every address of its family (and none of the other). -/
theorem prefix_zero_all (n : Net) (a : Addr) (hp : n.plen = 0) (hn : n.bits < 2 ^ n.fam.width)
    (ha : a.wf) : contains n a = true ↔ n.fam = a.fam := by
  rw [contains_eq_true_iff]
  constructor
  · exact fun h => h.1
  · intro hf
    refine ⟨hf, ?_⟩
    unfold Addr.wf at ha
    rw [← hf] at ha
    simp only [Net.size, hp, Nat.sub_zero]
    rw [Nat.div_eq_of_lt ha, Nat.div_eq_of_lt hn]

/-- **nested_subnet**: a block whose written address lies in a shorter-prefix block of the same family is wholly
    inside it (nested blocks). -/
theorem nested_subnet (outer inner : Net) (hlen : outer.plen ≤ inner.plen)
    (hin : contains outer ⟨inner.fam, inner.bits⟩ = true) (a : Addr) (h : contains inner a = true) :
    contains outer a = true := by
  rw [contains_eq_true_iff] at *
  obtain ⟨hf, hq⟩ := hin
  obtain ⟨hf', hq'⟩ := h
  simp only at hf hq
  refine ⟨hf.trans hf', ?_⟩
  have hle : inner.fam.width - inner.plen ≤ outer.fam.width - outer.plen := by rw [hf]; omega
  simp only [Net.size] at *
  rw [div_two_pow_of_le hle a.bits, hq', ← div_two_pow_of_le hle inner.bits, hq]

/-! ## the peer as the listener sees it -/

/-- for an IPv4 peer address the match is plain `contains` -/
theorem peerMatches_v4 (n : Net) (p : Addr) (h : p.fam = .v4) : peerMatches n p = contains n p := by
  simp [peerMatches, v4Mapped, h]

/-- for an IPv6 peer address that is not IPv4-mapped the match is plain `contains` -/
theorem peerMatches_plain_v6 (n : Net) (p : Addr) (h : p.bits / 2 ^ 32 ≠ 0xffff) :
    peerMatches n p = contains n p := by
  simp [peerMatches, v4Mapped, h]

/-- **mapped_peer**: an IPv4 client `x` of a dual-stack listener is reported as `::ffff:x`; IPv4 entries match it
    exactly as they match `x`, IPv6 entries match the reported form. -/
theorem mapped_peer (n : Net) (x : Nat) (hx : x < 2 ^ 32) :
    peerMatches n ⟨.v6, 0xffff * 2 ^ 32 + x⟩ =
      (contains n ⟨.v6, 0xffff * 2 ^ 32 + x⟩ || contains n ⟨.v4, x⟩) := by
  have h1 : (0xffff * 2 ^ 32 + x) / 2 ^ 32 = 0xffff := by omega
  have h2 : (0xffff * 2 ^ 32 + x) % 2 ^ 32 = x := by omega
  simp [peerMatches, v4Mapped, h1, h2]

/-- the embedded address is a genuine IPv4 address -/
theorem v4Mapped_wf (p p4 : Addr) (h : v4Mapped p = some p4) : p4.fam = .v4 ∧ p4.wf := by
  unfold v4Mapped at h
  split at h
  · cases h
    exact ⟨rfl, by simp only [Addr.wf, Family.width]; exact Nat.mod_lt _ (by decide)⟩
  · cases h

/-! ## the allowlist as a whole -/

/-- **allowed_iff_exists**: with an allowlist, a peer is allowed iff SOME entry matches it — the allowlist is the
    union of its networks; order and repetition of entries are irrelevant. -/
theorem allowed_iff_exists (nets : List Net) (p : Addr) :
    checkAllowed (some nets) p = true ↔ ∃ n, n ∈ nets ∧ peerMatches n p = true :=
  checkAllowed_some_iff nets p

/-- **no_allowlist_allows_all**: without any `add_allowed_address` call every peer is allowed. -/
theorem no_allowlist_allows_all (p : Addr) : checkAllowed none p = true := rfl

/-- **allowed_union**: the allowlist made of two lists allows exactly the peers one of them allows. -/
theorem allowed_union (xs ys : List Net) (p : Addr) :
    checkAllowed (some (xs ++ ys)) p = (checkAllowed (some xs) p || checkAllowed (some ys) p) := by
  simp [checkAllowed, List.any_append]

/-- **allowed_mono**: adding entries (anywhere, in any order) never locks out a peer that was allowed. -/
theorem allowed_mono (xs ys : List Net) (hsub : ∀ n, n ∈ xs → n ∈ ys) (p : Addr)
    (h : checkAllowed (some xs) p = true) : checkAllowed (some ys) p = true := by
  rw [allowed_iff_exists] at *
  obtain ⟨n, hn, hm⟩ := h
  exact ⟨n, hsub n hn, hm⟩

/-- two lists with the same entries (reordered, duplicated) decide every peer alike -/
theorem allowed_same_entries (xs ys : List Net) (h : ∀ n, n ∈ xs ↔ n ∈ ys) (p : Addr) :
    checkAllowed (some xs) p = checkAllowed (some ys) p := by
  rw [Bool.eq_iff_iff]
  exact ⟨allowed_mono xs ys (fun n => (h n).1) p, allowed_mono ys xs (fun n => (h n).2) p⟩

/-- **nested_redundant**: an entry nested inside another listed block changes nothing. -/
theorem nested_redundant (outer inner : Net) (rest : List Net) (hlen : outer.plen ≤ inner.plen)
    (hin : contains outer ⟨inner.fam, inner.bits⟩ = true) (p : Addr) :
    checkAllowed (some (outer :: inner :: rest)) p = checkAllowed (some (outer :: rest)) p := by
  rw [Bool.eq_iff_iff, allowed_iff_exists, allowed_iff_exists]
  constructor
  · rintro ⟨n, hn, hm⟩
    simp only [List.mem_cons] at hn
    rcases hn with rfl | rfl | hn
    · exact ⟨n, by simp, hm⟩
    · refine ⟨outer, by simp, ?_⟩
      rw [peerMatches_eq_true_iff] at *
      rcases hm with hm | ⟨p4, h4, hm⟩
      · exact Or.inl (nested_subnet outer n hlen hin p hm)
      · exact Or.inr ⟨p4, h4, nested_subnet outer n hlen hin p4 hm⟩
    · exact ⟨n, by simp [hn], hm⟩
  · rintro ⟨n, hn, hm⟩
    simp only [List.mem_cons] at hn
    rcases hn with rfl | hn
    · exact ⟨n, by simp, hm⟩
    · exact ⟨n, by simp [hn], hm⟩

/-- **addAllowed_nonempty**: a successful `add_allowed_address` always leaves a configured, non-empty allowlist
    ending in the parsed entry (so "allowlist configured but empty" cannot be built). -/
theorem addAllowed_nonempty (al al' : Option (List Net)) (e : Entry) (h : addAllowed al e = some al') :
    ∃ n, parseEntry e = some n ∧ al' = some (al.getD [] ++ [n]) := by
  unfold addAllowed at h
  cases hp : parseEntry e with
  | none => simp [hp] at h
  | some n => simp [hp] at h; exact ⟨n, rfl, h.symm⟩

/-- a failed `add_allowed_address` is exactly an entry outside the documented syntax -/
theorem addAllowed_fails_iff (al : Option (List Net)) (e : Entry) :
    addAllowed al e = none ↔ parseEntry e = none := by
  unfold addAllowed
  cases parseEntry e <;> simp

/-! ## the request decision -/

/-- **deny_outside**: with an allowlist, a peer that no listed network matches gets status 403 and an empty body
    — for every list, peer, path (including `/health`) and whatever the metrics are. -/
theorem deny_outside (nets : List Net) (peer : Addr) (path rendered : List Char)
    (h : ∀ n, n ∈ nets → peerMatches n peer = false) :
    respond (some nets) peer path rendered = ⟨403, []⟩ := by
  have : checkAllowed (some nets) peer = false := by
    rw [Bool.eq_false_iff]
    intro hc
    obtain ⟨n, hn, hm⟩ := (allowed_iff_exists nets peer).1 hc
    rw [h n hn] at hm
    cases hm
  simp [respond, handleHttpRequest, this]

/-- **allow_inside**: a peer that some listed network matches is served: 200 with "OK" for the path `/health`,
    200 with the current rendering for every other path. -/
theorem allow_inside (nets : List Net) (n : Net) (hn : n ∈ nets) (peer : Addr) (path rendered : List Char)
    (h : peerMatches n peer = true) :
    respond (some nets) peer path rendered = ⟨200, if path = healthPath then okBody else rendered⟩ := by
  have : checkAllowed (some nets) peer = true := (allowed_iff_exists nets peer).2 ⟨n, hn, h⟩
  simp [respond, handleHttpRequest, this]

/-- **no_allowlist_serves_all**: without an allowlist every peer is served. -/
theorem no_allowlist_serves_all (peer : Addr) (path rendered : List Char) :
    respond none peer path rendered = ⟨200, if path = healthPath then okBody else rendered⟩ := by
  simp [respond, handleHttpRequest, checkAllowed]

/-- **respond_dichotomy**: there are no other answers: either the peer is allowed and served, or it gets
    403 with an empty body; in particular a non-empty body implies the peer is allowed. -/
theorem respond_dichotomy (al : Option (List Net)) (peer : Addr) (path rendered : List Char) :
    (checkAllowed al peer = true ∧
        respond al peer path rendered = ⟨200, if path = healthPath then okBody else rendered⟩)
    ∨ (checkAllowed al peer = false ∧ respond al peer path rendered = ⟨403, []⟩) := by
  cases h : checkAllowed al peer <;> simp [respond, handleHttpRequest, h]

/-- **served_body_is_render**: the body of a 200 answer on a path other than `/health` is, byte for byte, the
    rendering handed to the request handler. -/
theorem served_body_is_render (al : Option (List Net)) (peer : Addr) (path rendered : List Char)
    (hp : path ≠ healthPath) (hs : (respond al peer path rendered).status = 200) :
    (respond al peer path rendered).body = rendered := by
  rcases respond_dichotomy al peer path rendered with ⟨_, h⟩ | ⟨_, h⟩
  · simp [h, hp]
  · rw [h] at hs; cases hs

/-- **outsider_health_is_403**: the allowlist is checked before the path: `/health` is refused to outsiders too. -/
theorem outsider_health_is_403 (nets : List Net) (peer : Addr) (rendered : List Char)
    (h : ∀ n, n ∈ nets → peerMatches n peer = false) :
    respond (some nets) peer healthPath rendered = ⟨403, []⟩ :=
  deny_outside nets peer healthPath rendered h

/-! ## the path of a request target (`req.uri().path()`)

The property says "path": the path component of the request target as RFC 3986 splits it, which is what
`http::Uri::path` returns — for the origin-form `/path?query` every client normally sends, for the absolute-form
`http://host/path?query` of a client behind a proxy, and (because `httparse` lets it through) with a `#fragment`
cut off.  `GET /health?x`, `GET /health#x` and `GET http://h/health` are all the health check. -/

/-- the path part of a text ends at the first `?` or `#` -/
theorem pathPart_cut (p q : List Char) (c : Char) (hc : endsPath c = true)
    (h : ∀ d, d ∈ p → endsPath d = false) : pathPart (p ++ c :: q) = p := by
  unfold pathPart
  induction p with
  | nil => simp [hc]
  | cons d ds ih =>
    have hd : endsPath d = false := h d (by simp)
    have := ih (fun e he => h e (by simp [he]))
    simp [hd]
    simpa using this

/-- a text without `?` and `#` is its own path part -/
theorem pathPart_all (p : List Char) (h : ∀ d, d ∈ p → endsPath d = false) : pathPart p = p := by
  unfold pathPart
  induction p with
  | nil => rfl
  | cons d ds ih =>
    have hd : endsPath d = false := h d (by simp)
    simp [hd]
    simpa using ih (fun e he => h e (by simp [he]))

/-- origin-form targets: the path is the text before the first `?` or `#` -/
theorem pathOf_origin (t : List Char) : pathOf ('/' :: t) = pathPart ('/' :: t) := rfl

/-- **pathOf_query**: the query string is not part of the path: `/health?x` is the health check -/
theorem pathOf_query (p q : List Char) (h : ∀ c, c ∈ p → endsPath c = false) :
    pathOf ('/' :: p ++ '?' :: q) = '/' :: p := by
  rw [List.cons_append, pathOf_origin, ← List.cons_append]
  exact pathPart_cut ('/' :: p) q '?' (by decide) (by
    intro d hd
    simp only [List.mem_cons] at hd
    rcases hd with rfl | hd
    · decide
    · exact h d hd)

/-- **pathOf_fragment**: a fragment (which `httparse` lets through) is not part of the path: `/health#x` is the
    health check, `/metrics#/health` is not -/
theorem pathOf_fragment (p q : List Char) (h : ∀ c, c ∈ p → endsPath c = false) :
    pathOf ('/' :: p ++ '#' :: q) = '/' :: p := by
  rw [List.cons_append, pathOf_origin, ← List.cons_append]
  exact pathPart_cut ('/' :: p) q '#' (by decide) (by
    intro d hd
    simp only [List.mem_cons] at hd
    rcases hd with rfl | hd
    · decide
    · exact h d hd)

theorem afterScheme_cons (c : Char) (cs : List Char) (h : isSchemeChar c = true) :
    afterScheme (c :: cs) = afterScheme cs := by
  have hne : c ≠ ':' := by
    intro h'; subst h'; revert h; decide
  cases cs with
  | nil => simp [afterScheme, h]
  | cons d ds =>
    cases ds with
    | nil => simp [afterScheme, h]
    | cons e es => simp [afterScheme, h, hne]

theorem afterScheme_scheme (sc rest : List Char) (h : ∀ c, c ∈ sc → isSchemeChar c = true) :
    afterScheme (sc ++ ':' :: '/' :: '/' :: rest) = some rest := by
  induction sc with
  | nil => simp [afterScheme]
  | cons c cs ih =>
    rw [List.cons_append, afterScheme_cons c _ (h c (by simp))]
    exact ih (fun d hd => h d (by simp [hd]))

theorem dropWhile_authority (auth t : List Char) (h : ∀ c, c ∈ auth → endsAuthority c = false) :
    (auth ++ '/' :: t).dropWhile (fun c => !endsAuthority c) = '/' :: t := by
  induction auth with
  | nil => simp [endsAuthority]
  | cons c cs ih =>
    have hc : endsAuthority c = false := h c (by simp)
    simp [hc]
    simpa using ih (fun d hd => h d (by simp [hd]))

/-- **pathOf_absolute**: the absolute form of a target — `scheme://authority` in front of it, what a client talking
    through a proxy sends — has the same path as the target itself: `GET http://host:9000/health` is the health
    check, `GET http://health/metrics` is not. -/
theorem pathOf_absolute (sc auth t : List Char) (hne : sc ≠ []) (hsc : ∀ c, c ∈ sc → isSchemeChar c = true)
    (hauth : ∀ c, c ∈ auth → endsAuthority c = false) :
    pathOf (sc ++ ':' :: '/' :: '/' :: (auth ++ '/' :: t)) = pathOf ('/' :: t) := by
  obtain ⟨c, cs, rfl⟩ := List.exists_cons_of_ne_nil hne
  have hc : isSchemeChar c = true := hsc c (by simp)
  have h1 : c ≠ '/' := by intro h'; subst h'; revert hc; decide
  have h2 : c ≠ '*' := by intro h'; subst h'; revert hc; decide
  have hs := afterScheme_scheme (c :: cs) (auth ++ '/' :: t) hsc
  have hd := dropWhile_authority auth t hauth
  have hp : (pathPart ('/' :: t)).isEmpty = false := by
    simp [pathPart, endsPath]
  rw [pathOf_origin]
  simp only [List.cons_append] at hs ⊢
  unfold pathOf
  split
  · rename_i heq; exact absurd (List.cons.inj heq).1 h1
  · rename_i heq; exact absurd (List.cons.inj heq).1 h2
  · rw [hs]
    simp only [hd, hp]
    rfl

/-- **health_targets**: which origin-form targets are the health check: exactly `/health` itself and `/health`
    followed by a query or a fragment — nothing with a trailing slash, another case, a prefix or an encoding. -/
theorem health_targets (t : List Char) :
    pathOf ('/' :: t) = healthPath ↔
      '/' :: t = healthPath ∨ ∃ c q, endsPath c = true ∧ '/' :: t = healthPath ++ c :: q := by
  rw [pathOf_origin]
  unfold pathPart
  generalize '/' :: t = l
  constructor
  · intro h
    have key : ∀ (l a : List Char), l.takeWhile (fun c => !endsPath c) = a →
        l = a ∨ ∃ c q, endsPath c = true ∧ l = a ++ c :: q := by
      intro l
      induction l with
      | nil => intro a h; left; simpa using h
      | cons d ds ih =>
        intro a h
        cases hd : endsPath d with
        | true =>
          simp [hd] at h
          subst h
          right; exact ⟨d, ds, hd, rfl⟩
        | false =>
          simp [hd] at h
          cases a with
          | nil => cases h
          | cons a0 as =>
            obtain ⟨h0, h1⟩ := List.cons.inj h
            subst h0
            rcases ih as h1 with h2 | ⟨c, q, hc, h2⟩
            · left; rw [h2]
            · right; exact ⟨c, q, hc, by rw [h2]; rfl⟩
    exact key l healthPath h
  · rintro (h | ⟨c, q, hc, h⟩)
    · subst h; decide
    · subst h
      exact pathPart_cut healthPath q c hc (by decide)

/-! ## histories: faults and concurrency change nothing -/

/-- the allowlist and (for everything but `update`) the metrics survive every event -/
theorem stepEv_state (render : Nat → List Char) (s : Sess) (e : Ev) :
    (stepEv render s e).1.al = s.al ∧
      (stepEv render s e).1.metrics = s.metrics + (match e with | .update n => n | _ => 0) := by
  cases e <;> simp [stepEv]

/-- **faults_transparent**: the answers to the well-formed requests of a history are the same as in the history
    with every faulty connection (garbage, half-open, reset, oversized, aborted) removed: such connections
    never change what later (or concurrent) clients receive. -/
theorem faults_transparent (render : Nat → List Char) (s : Sess) (evs : List Ev) :
    run render s evs = run render s (evs.filter (fun e => !e.isFault)) := by
  induction evs generalizing s with
  | nil => rfl
  | cons e es ih =>
    cases e with
    | update n => simp [run, stepEv, Ev.isFault, ih]
    | req p t => simp [run, stepEv, Ev.isFault, ih]
    | fault k p => simp [run, stepEv, Ev.isFault, ih]

/-- **request_sees_current_metrics**: a request after any number of updates is answered from the metrics as
    they are then (initial value plus all updates), by the allowlist the listener was built with. -/
theorem request_sees_current_metrics (render : Nat → List Char) (s : Sess) (ups : List Nat) (p : Addr)
    (t : List Char) (rest : List Ev) :
    run render s (ups.map .update ++ .req p t :: rest) =
      respond s.al p (pathOf t) (render (s.metrics + ups.sum)) ::
        run render ⟨s.al, s.metrics + ups.sum⟩ rest := by
  induction ups generalizing s with
  | nil => simp [run, stepEv]
  | cons u us ih =>
    simp only [List.map_cons, List.cons_append, run, stepEv, List.sum_cons]
    rw [ih]
    simp [Nat.add_assoc]

/-- every answer of a history is one of the two shapes: served, or 403 with an empty body -/
theorem run_answers (render : Nat → List Char) (s : Sess) (evs : List Ev) (r : Resp)
    (h : r ∈ run render s evs) : r.status = 200 ∨ r = ⟨403, []⟩ := by
  induction evs generalizing s with
  | nil => simp [run] at h
  | cons e es ih =>
    cases e with
    | update n => simp only [run, stepEv] at h; exact ih _ h
    | fault k p => simp only [run, stepEv] at h; exact ih _ h
    | req p t =>
      simp only [run, stepEv, List.mem_cons] at h
      rcases h with rfl | h
      · rcases respond_dichotomy s.al p (pathOf t) (render s.metrics) with ⟨_, h⟩ | ⟨_, h⟩
        · left; rw [h]
        · right; exact h
      · exact ih _ h

/-! ## the builder: which endpoint is built, with which allowlist -/

/-- **applyAll_spec**: a chain of builder calls that succeeds leaves exactly the allowlist made of its
    `add_allowed_address` arguments in call order, and the destination of its LAST destination call — the
    listener calls (`with_http_listener`, `with_http_uds_listener`, `with_push_gateway`) never drop or change
    the allowlist, wherever they stand in the chain. -/
theorem applyAll_spec (b b' : Builder) (ops : List BOp) (h : b.applyAll ops = some b') :
    addAll b.allowed (entriesOf ops) = some b'.allowed ∧ b'.dest = lastDest b.dest ops := by
  induction ops generalizing b with
  | nil => simp [Builder.applyAll] at h; subst h; simp [addAll, entriesOf, lastDest]
  | cons o os ih =>
    cases o with
    | httpListener a => simpa [Builder.applyAll, Builder.apply, entriesOf, lastDest] using ih _ h
    | udsListener p => simpa [Builder.applyAll, Builder.apply, entriesOf, lastDest] using ih _ h
    | pushGateway => simpa [Builder.applyAll, Builder.apply, entriesOf, lastDest] using ih _ h
    | allow e =>
      simp only [Builder.applyAll, Builder.apply] at h
      cases ha : addAllowed b.allowed e with
      | none => simp [ha] at h
      | some al =>
        simp only [ha, Option.map_some] at h
        have := ih _ h
        simpa [entriesOf, lastDest, addAll, ha] using this

/-- **applyAll_fails_iff**: a chain fails exactly when one of its `add_allowed_address` arguments is outside
    the documented syntax; the listener calls never fail and never make a later call fail. -/
theorem applyAll_fails_iff (b : Builder) (ops : List BOp) :
    b.applyAll ops = none ↔ addAll b.allowed (entriesOf ops) = none := by
  induction ops generalizing b with
  | nil => simp [Builder.applyAll, addAll, entriesOf]
  | cons o os ih =>
    cases o with
    | httpListener a => simpa [Builder.applyAll, Builder.apply, entriesOf] using ih _
    | udsListener p => simpa [Builder.applyAll, Builder.apply, entriesOf] using ih _
    | pushGateway => simpa [Builder.applyAll, Builder.apply, entriesOf] using ih _
    | allow e =>
      simp only [Builder.applyAll, Builder.apply, entriesOf, addAll]
      cases ha : addAllowed b.allowed e with
      | none => simp
      | some al => simpa using ih _

/-- **builder_order_free**: two chains with the same `add_allowed_address` arguments (in the same order)
    configure the same allowlist, however the listener calls are interleaved — in particular calling
    `with_http_listener` AFTER `add_allowed_address` keeps the allowlist. -/
theorem builder_order_free (ops ops' : List BOp) (b b' : Builder)
    (h : Builder.new.applyAll ops = some b) (h' : Builder.new.applyAll ops' = some b')
    (he : entriesOf ops = entriesOf ops') : b.allowed = b'.allowed := by
  have h1 := (applyAll_spec _ _ _ h).1
  have h2 := (applyAll_spec _ _ _ h').1
  rw [he, h2] at h1
  exact (Option.some.inj h1).symm

/-- **build_tcp_keeps_allowlist**: when the last destination call of a successful chain is
    `with_http_listener(a)` (or there is none and `a` is the default `0.0.0.0:9000`), `build` starts a TCP
    listener on `a` whose allowlist is the one made of all `add_allowed_address` arguments. -/
theorem build_tcp_keeps_allowlist (ops : List BOp) (b : Builder) (a : Nat)
    (h : Builder.new.applyAll ops = some b) (hd : lastDest (.tcp defaultListen) ops = .tcp a) :
    addAll none (entriesOf ops) = some b.allowed ∧ b.build = .tcp a b.allowed := by
  obtain ⟨h1, h2⟩ := applyAll_spec _ _ _ h
  refine ⟨h1, ?_⟩
  have : b.dest = .tcp a := by rw [h2]; exact hd
  simp [Builder.build, this]

/-- **no_calls_default_endpoint**: `PrometheusBuilder::new().build()` listens on `0.0.0.0:9000` for everybody. -/
theorem no_calls_default_endpoint : Builder.new.build = .tcp defaultListen none := rfl

/-- **build_uds_drops_allowlist** (an oddity of the code, stated as it is): when the last destination call is
    `with_http_uds_listener`, the endpoint has no allowlist whatever `add_allowed_address` calls were made —
    every unix-socket client is allowed.  (A unix-socket peer has no IP address; the property's allowlist clause
    speaks of peers with addresses.) -/
theorem build_uds_drops_allowlist (ops : List BOp) (b : Builder) (p : Nat)
    (h : Builder.new.applyAll ops = some b) (hd : lastDest (.tcp defaultListen) ops = .uds p) :
    b.build = .uds p ∧ b.build.isAllowed .unix = some true := by
  obtain ⟨_, h2⟩ := applyAll_spec _ _ _ h
  have : b.dest = .uds p := by rw [h2]; exact hd
  simp [Builder.build, this, Endpoint.isAllowed]

/-! ## whole requests: method, headers and source port play no part -/

/-- a refusal is the same on the wire for every method -/
theorem wire_forbidden (m : List Char) : wire m ⟨403, []⟩ = ⟨403, []⟩ := by
  unfold wire; split <;> rfl

/-- **deny_outside_any_request**: a TCP peer that no listed network matches is refused with 403 and an empty
    body whatever it sends: every method (`GET`, `POST`, `OPTIONS`, `HEAD`, …), every header set
    (`X-Forwarded-For` included), every target, from every source port (privileged ones included), on every
    listen address. -/
theorem deny_outside_any_request (addr : Nat) (nets : List Net) (a : Addr) (port : Nat) (q : Req)
    (rendered : List Char) (h : ∀ n, n ∈ nets → peerMatches n a = false) :
    (Endpoint.tcp addr (some nets)).isAllowed (.ip a port) = some false
      ∧ serveReq false rendered q = ⟨403, []⟩ := by
  constructor
  · have : checkAllowed (some nets) a = false := by
      rw [Bool.eq_false_iff]
      intro hc
      obtain ⟨n, hn, hm⟩ := (allowed_iff_exists nets a).1 hc
      rw [h n hn] at hm
      cases hm
    simp [Endpoint.isAllowed, this]
  · simp [serveReq, handleHttpRequest, wire_forbidden]

/-- **allow_inside_any_request**: a TCP peer that some listed network matches is served for every method,
    header set and source port: 200 with "OK" for the path `/health`, 200 with the current rendering otherwise
    (for `HEAD` the same status without body bytes). -/
theorem allow_inside_any_request (addr : Nat) (nets : List Net) (n : Net) (hn : n ∈ nets) (a : Addr)
    (port : Nat) (q : Req) (rendered : List Char) (h : peerMatches n a = true) :
    (Endpoint.tcp addr (some nets)).isAllowed (.ip a port) = some true
      ∧ serveReq true rendered q
          = wire q.method ⟨200, if pathOf q.target = healthPath then okBody else rendered⟩ := by
  constructor
  · have : checkAllowed (some nets) a = true := (allowed_iff_exists nets a).2 ⟨n, hn, h⟩
    simp [Endpoint.isAllowed, this]
  · simp [serveReq, handleHttpRequest]

/-- **request_only_path_matters**: two requests with the same path (and both `HEAD` or both not) get the same
    answer: method, headers and query string are not inputs of the decision. -/
theorem request_only_path_matters (ok : Bool) (rendered : List Char) (q q' : Req)
    (hp : pathOf q.target = pathOf q'.target) (hm : q.method = headMethod ↔ q'.method = headMethod) :
    serveReq ok rendered q = serveReq ok rendered q' := by
  unfold serveReq wire
  rw [hp]
  by_cases h : q.method = headMethod
  · simp [h, hm.1 h]
  · have : ¬ q'.method = headMethod := fun h' => h (hm.2 h')
    simp [h, this]

/-- **port_irrelevant**: the source port of a TCP peer is not an input of the decision. -/
theorem port_irrelevant (ep : Endpoint) (a : Addr) (p p' : Nat) :
    ep.isAllowed (.ip a p) = ep.isAllowed (.ip a p') := by
  cases ep <;> rfl

/-- **uds_serves_everyone**: on a unix-socket endpoint every request is served (200), for every path. -/
theorem uds_serves_everyone (p : Nat) (q : Req) (rendered : List Char) :
    (Endpoint.uds p).isAllowed .unix = some true ∧ (serveReq true rendered q).status = 200 := by
  refine ⟨rfl, ?_⟩
  unfold serveReq wire handleHttpRequest
  split <;> rfl

/-! ## histories at an endpoint: accept errors, faults, other connections -/

/-- sum of the metric updates of a history -/
def updates : List Ev2 → Nat
  | [] => 0
  | .update n :: es => n + updates es
  | _ :: es => updates es

/-- **endpoint_invariant**: with the accept loop's error arm being `continue`, NO history — faulty
    connections, accept errors (EMFILE, ECONNABORTED), any number of other clients — stops the listener or
    changes its endpoint / allowlist; the metrics are the initial value plus all updates. -/
theorem endpoint_invariant (render : Nat → List Char) (s : Sess2) (evs : List Ev2) :
    (runState2 .continue render s evs).running = s.running
      ∧ (runState2 .continue render s evs).ep = s.ep
      ∧ (runState2 .continue render s evs).metrics = s.metrics + updates evs := by
  induction evs generalizing s with
  | nil => simp [runState2, updates]
  | cons e es ih =>
    cases e with
    | update n =>
      obtain ⟨h1, h2, h3⟩ := ih ({ s with metrics := s.metrics + n })
      simp only [runState2, stepEv2, updates]
      exact ⟨h1, h2, by rw [h3]; simp [Nat.add_assoc]⟩
    | conn p rs =>
      have hs : (stepEv2 .continue render s (.conn p rs)).1 = s := by
        simp only [stepEv2]
        split
        · split <;> rfl
        · rfl
      simp only [runState2, hs, updates]; exact ih s
    | fault k p => simpa [runState2, stepEv2, updates] using ih s
    | acceptErr n => simpa [runState2, stepEv2, updates] using ih s

/-- **later_clients_served**: after ANY history (faults, accept errors, concurrent and earlier connections) a
    connection to a running listener gets exactly the answers the decision prescribes, computed from the metrics
    as they are then: one answer per request, by the allowlist the listener was built with. -/
theorem later_clients_served (render : Nat → List Char) (s : Sess2) (hr : s.running = true)
    (pre : List Ev2) (peer : Peer) (reqs : List Req) :
    (stepEv2 .continue render (runState2 .continue render s pre) (.conn peer reqs)).2 =
      match s.ep.isAllowed peer with
      | some ok => reqs.map (serveReq ok (render (s.metrics + updates pre)))
      | none => [] := by
  obtain ⟨h1, h2, h3⟩ := endpoint_invariant render s pre
  simp only [stepEv2, h1, h2, h3, hr, if_true]
  cases s.ep.isAllowed peer <;> rfl

/-- **noise_transparent**: removing every faulty connection and every accept error from a history leaves the
    answers of all remaining events unchanged (second layer of `faults_transparent`, now with accept errors). -/
theorem noise_transparent (render : Nat → List Char) (s : Sess2) (evs : List Ev2) :
    (run2 .continue render s evs).flatten
      = (run2 .continue render s (evs.filter (fun e => !e.isNoise))).flatten := by
  induction evs generalizing s with
  | nil => rfl
  | cons e es ih =>
    cases e with
    | update n => simp [run2, stepEv2, Ev2.isNoise, ih]
    | conn p rs => simp [run2, Ev2.isNoise, ih]
    | fault k p => simp [run2, stepEv2, Ev2.isNoise, ih]
    | acceptErr n => simp [run2, stepEv2, Ev2.isNoise, ih]

/-- **exit_arm_starves**: the previous three theorems depend on the error arm being `continue`: were it an exit
    from the loop (`break` / `return` / `?`), one accept error would leave every later allowed client without an
    answer.  (The arm is pinned by `src_listener_plumbing`; the harness provokes real accept errors by running
    the process out of file descriptors.) -/
theorem exit_arm_starves :
    ∃ (s : Sess2) (pre : List Ev2) (peer : Peer) (reqs : List Req),
      s.running = true ∧ s.ep.isAllowed peer = some true ∧ reqs ≠ [] ∧
      (stepEv2 .exit (fun _ => []) (runState2 .exit (fun _ => []) s pre) (.conn peer reqs)).2 = [] :=
  ⟨⟨.tcp 0 none, 0, true⟩, [.acceptErr 24], .ip ⟨.v4, 1⟩ 0, [⟨['G', 'E', 'T'], ['/'], []⟩],
    rfl, rfl, by simp, rfl⟩

/-- **run2_refines_run**: the first-layer histories (`run`: well-formed `GET`s, faults, updates) are the
    second-layer histories of a TCP endpoint with that allowlist, from any source port, under either arm: all
    first-layer theorems speak about `run2` as well. -/
theorem run2_refines_run (arm : LoopAct) (render : Nat → List Char) (addr port : Nat) (s : Sess)
    (evs : List Ev) :
    (run2 arm render ⟨.tcp addr s.al, s.metrics, true⟩ (evs.map (Ev.lift port))).flatten
      = run render s evs := by
  induction evs generalizing s with
  | nil => rfl
  | cons e es ih =>
    cases e with
    | update n =>
      simp only [List.map_cons, Ev.lift, run2, stepEv2, run, stepEv, List.flatten_cons, List.nil_append]
      exact ih ⟨s.al, s.metrics + n⟩
    | fault k p =>
      simp only [List.map_cons, Ev.lift, run2, stepEv2, run, stepEv, List.flatten_cons, List.nil_append]
      exact ih s
    | req p t =>
      have hg : (['G', 'E', 'T'] : List Char) ≠ headMethod := by decide
      simp only [List.map_cons, Ev.lift, run2, stepEv2, run, stepEv, List.flatten_cons, if_true,
        Endpoint.isAllowed, List.map_cons, List.map_nil, serveReq, wire, hg, if_false, respond]
      rw [ih s]
      rfl

/-! ## clients that half-close (complete request, then FIN, then wait for the answer)

Clause 1 quantifies over every GET: the client that shuts down its write side after a complete request has sent a
well-formed request and must be answered.  `stepEv3` has that client as an event and the connection's reaction to
the EOF as a parameter (`EofAct`), the way `stepEv2` has the accept loop's error arm. -/

/-- with `half_close(true)` a half-closing client IS an ordinary connection -/
theorem stepEv3_finish (arm : LoopAct) (render : Nat → List Char) (s : Sess2) (e : Ev3) :
    stepEv3 arm .finish render s e = stepEv2 arm render s e.plain := by
  cases e <;> rfl

/-- **run3_refines_run2**: with `half_close(true)` every third-layer history is the second-layer history in which
    each half-closing client is an ordinary connection with the same requests: all second-layer theorems
    (`endpoint_invariant`, `later_clients_served`, `noise_transparent`, `deny_outside_any_request`, …) speak about
    histories with half-closing clients as well. -/
theorem run3_refines_run2 (arm : LoopAct) (render : Nat → List Char) (s : Sess2) (evs : List Ev3) :
    run3 arm .finish render s evs = run2 arm render s (evs.map Ev3.plain)
      ∧ runState3 arm .finish render s evs = runState2 arm render s (evs.map Ev3.plain) := by
  induction evs generalizing s with
  | nil => exact ⟨rfl, rfl⟩
  | cons e es ih =>
    simp only [run3, runState3, List.map_cons, run2, runState2, stepEv3_finish]
    exact ⟨by rw [(ih _).1], (ih _).2⟩

/-- **half_closing_client_served**: with `half_close(true)`, after ANY history (faults, accept errors, other
    half-closing clients, concurrent and earlier connections) a client that sends complete requests and then shuts
    down its write side gets exactly the answers the decision prescribes — one per request, computed from the
    metrics as they are then, by the allowlist the listener was built with: 200 with the rendering (or "OK") for a
    peer inside, 403 with an empty body for a peer outside. -/
theorem half_closing_client_served (render : Nat → List Char) (s : Sess2) (hr : s.running = true)
    (pre : List Ev3) (peer : Peer) (reqs : List Req) :
    (stepEv3 .continue .finish render (runState3 .continue .finish render s pre) (.halfClose peer reqs)).2 =
      match s.ep.isAllowed peer with
      | some ok => reqs.map (serveReq ok (render (s.metrics + updates (pre.map Ev3.plain))))
      | none => [] := by
  rw [stepEv3_finish, (run3_refines_run2 .continue render s pre).2]
  exact later_clients_served render s hr (pre.map Ev3.plain) peer reqs

/-- the state after one third-layer event does not depend on the EOF option (a dropped connection and a served
    one both leave the listener as it was) -/
theorem stepEv3_state (arm : LoopAct) (eof : EofAct) (render : Nat → List Char) (s : Sess2) (e : Ev3) :
    (stepEv3 arm eof render s e).1 = (stepEv2 arm render s e.plain).1 := by
  cases e with
  | ev e => rfl
  | halfClose peer reqs =>
    cases eof with
    | finish => rfl
    | drop =>
      simp only [stepEv3, Ev3.plain, stepEv2]
      split
      · split <;> rfl
      · rfl

/-- **endpoint_invariant3**: under EITHER option, no history with half-closing clients stops the listener or
    changes its endpoint / allowlist / metrics: whatever happens to the half-closing client itself, it is never in
    the way of later clients. -/
theorem endpoint_invariant3 (eof : EofAct) (render : Nat → List Char) (s : Sess2) (evs : List Ev3) :
    runState3 .continue eof render s evs = runState2 .continue render s (evs.map Ev3.plain) := by
  induction evs generalizing s with
  | nil => rfl
  | cons e es ih =>
    simp only [runState3, List.map_cons, runState2, stepEv3_state]
    exact ih _

/-- **default_eof_drops_request**: the repair is needed.  With hyper's default (`half_close(false)`, the tree
    before `fix-C18`) there is a running listener without allowlist, a peer and ONE complete `GET /metrics` such
    that the half-closing client gets no answer at all, while the same request from a client that keeps its write
    side open is answered 200 with the rendering: clause 1 ("a GET on any path other than /health returns 200 …")
    fails for a well-formed request.  Witness replayed on the real listener by the harness (`allow hc …`). -/
theorem default_eof_drops_request :
    ∃ (s : Sess2) (peer : Peer) (q : Req),
      s.running = true ∧ s.ep.isAllowed peer = some true ∧ q.method = ['G', 'E', 'T'] ∧
      pathOf q.target ≠ healthPath ∧
      (stepEv3 .continue .drop (fun _ => ['r']) s (.halfClose peer [q])).2 = [] ∧
      (stepEv3 .continue .drop (fun _ => ['r']) s (.ev (.conn peer [q]))).2 = [⟨200, ['r']⟩] ∧
      (stepEv3 .continue .finish (fun _ => ['r']) s (.halfClose peer [q])).2 = [⟨200, ['r']⟩] :=
  ⟨⟨.tcp 0 none, 0, true⟩, .ip ⟨.v4, 2130706433⟩ 40000, ⟨['G', 'E', 'T'], ['/', 'm', 'e', 't', 'r', 'i', 'c', 's'], []⟩,
    rfl, rfl, rfl, by decide, rfl, by decide, by decide⟩

/-- **src_connection_task**: facts extracted from the current source about the task that serves one connection
    and about the request line, which no run on this machine can observe in general.
    * the options set on `HyperHttpBuilder::new()` before `.serve_connection(..)` are exactly `half_close(true)`, on
      the TCP and on the unix-socket path (`EofAct.finish`: `half_closing_client_served`) — no `max_buf_size`,
      `pipeline_flush`, `keep_alive(false)`, `header_read_timeout`;
    * the whole `tokio::spawn(async move { … })` block is `if let Err(err) = <that connection>.await { warn!(..) }`:
      nothing wraps the connection future (no `timeout(..)`, no `select!`, no permit), so a connection lives until
      hyper ends it: a persistent connection is not cut between two scrapes and a slow rendering is not cut short;
    * before the spawn, `process_tcp_stream` calls nothing but `check_tcp_allowed`, the handle's `clone` and
      `service_fn` (nothing is set on the accepted stream: no `set_ttl`, no `set_linger`); the accept arm hands the
      stream on as it is; `new_http_listener` only binds, sets non-blocking mode and converts the listener;
    * the path the handler matches on is `req.uri().path()` (`pathOf`). -/
theorem src_connection_task :
    eofOfSource Generated.tcp_conn_options = EofAct.finish
    ∧ eofOfSource Generated.uds_conn_options = EofAct.finish
    ∧ Generated.tcp_spawn_block
        = "{ifletErr(err)=HyperHttpBuilder::new().half_close(true).serve_connection(TokioIo::new(stream),service).await{warn!(error=?err,\"Errorservingconnection.\");}}"
    ∧ Generated.uds_spawn_block
        = "{ifletErr(err)=HyperHttpBuilder::new().half_close(true).serve_connection(TokioIo::new(stream),service).await{warn!(error=?err,\"Errorservingconnection.\");};}"
    ∧ Generated.tcp_process_calls = ["check_tcp_allowed", "clone", "service_fn", "Self::handle_http_request", "clone"]
    ∧ Generated.serve_tcp_ok_arm = "stream" ∧ Generated.serve_uds_ok_arm = "stream"
    ∧ Generated.new_http_listener_calls = ["set_nonblocking", "TcpListener::bind", "TcpListener::from_std"]
    ∧ Generated.http_path_scrutinee = "req.uri().path()" :=
  ⟨by decide, by decide, rfl, rfl, by decide, by decide, by decide, by decide, by decide⟩

/-! ## requests in flight: the body of a 200 response is a rendering taken AFTER the request arrived -/

theorem load_id (m : Nat → Nat) (n k : Nat) (f : Flight) : (f.load m n k).id = f.id := by
  unfold Flight.load; split <;> rfl

theorem load_ok (m : Nat → Nat) (n k : Nat) (f : Flight) : (f.load m n k).ok = f.ok := by
  unfold Flight.load; split <;> rfl

theorem load_path (m : Nat → Nat) (n k : Nat) (f : Flight) : (f.load m n k).path = f.path := by
  unfold Flight.load; split <;> rfl

/-- a load puts the CURRENT value of the series into the accumulator and touches nothing else -/
theorem load_acc (m : Nat → Nat) (n k j v : Nat) (f : Flight) (h : (f.load m n k).acc j = some v) :
    f.acc j = some v ∨ v = m j := by
  unfold Flight.load at h
  split at h
  · simp only at h
    split at h
    · rename_i hj; subst hj; right; exact (Option.some.inj h).symm
    · left; exact h
  · left; exact h

theorem findFlight_read_ne (m : Nat → Nat) (n id id' k : Nat) (fs : List Flight) (h : id' ≠ id) :
    findFlight id (readFlight m n id' k fs) = findFlight id fs := by
  induction fs with
  | nil => rfl
  | cons f fs ih =>
    unfold readFlight
    split
    · rename_i h1
      have hne : ¬ f.id = id := by rw [h1]; exact h
      simp [findFlight, load_id, hne]
    · simp only [findFlight]; rw [ih]

theorem findFlight_read_eq (m : Nat → Nat) (n id k : Nat) (fs : List Flight) (f : Flight)
    (h : findFlight id fs = some f) : findFlight id (readFlight m n id k fs) = some (f.load m n k) := by
  induction fs with
  | nil => simp [findFlight] at h
  | cons g gs ih =>
    unfold readFlight
    unfold findFlight at h
    split
    · rename_i h1
      simp only [h1, if_true] at h
      have hg : g = f := Option.some.inj h
      subst hg
      simp [findFlight, load_id, h1]
    · rename_i h1
      simp only [h1, if_false] at h
      simp only [findFlight, h1, if_false]
      exact ih h

theorem findFlight_drop_ne (id id' : Nat) (fs : List Flight) (h : id' ≠ id) :
    findFlight id (dropFlight id' fs) = findFlight id fs := by
  induction fs with
  | nil => rfl
  | cons f fs ih =>
    unfold dropFlight
    split
    · rename_i h1
      have hne : ¬ f.id = id := by rw [h1]; exact h
      simp [findFlight, hne]
    · simp only [findFlight]; rw [ih]

/-- one event other than the answer to `id`: request `id` stays in flight with its `is_allowed` and path, and
    whatever its accumulator holds afterwards it held before or is the value the series had at that moment -/
theorem flight_step (render : List Nat → List Char) (s : StC) (id : Nat) (f : Flight) (e : EvC)
    (hf : findFlight id s.flights = some f) (he : e.isRespond id = false) :
    ∃ f', findFlight id (stepC render s e).1.flights = some f' ∧ f'.ok = f.ok ∧ f'.path = f.path ∧
      ∀ k v, f'.acc k = some v → f.acc k = some v ∨ v = s.metrics k := by
  cases e with
  | update k d => exact ⟨f, hf, rfl, rfl, fun _ _ h => Or.inl h⟩
  | arrive id' ok path =>
    simp only [stepC]
    split
    · exact ⟨f, hf, rfl, rfl, fun _ _ h => Or.inl h⟩
    · rename_i hn
      have hne : ¬ id' = id := by
        intro h; rw [h, hf] at hn; cases hn
      refine ⟨f, ?_, rfl, rfl, fun _ _ h => Or.inl h⟩
      simp [findFlight, hne, hf]
  | read id' k =>
    simp only [stepC]
    by_cases h : id' = id
    · subst h
      refine ⟨f.load s.metrics s.n k, findFlight_read_eq _ _ _ _ _ _ hf, load_ok _ _ _ _, load_path _ _ _ _, ?_⟩
      intro j v hv
      exact load_acc _ _ _ _ _ _ hv
    · refine ⟨f, ?_, rfl, rfl, fun _ _ h => Or.inl h⟩
      rw [findFlight_read_ne _ _ _ _ _ _ h]; exact hf
  | respond id' =>
    have hne : id' ≠ id := by
      intro h; subst h; simp [EvC.isRespond] at he
    simp only [stepC]
    split
    · exact ⟨f, hf, rfl, rfl, fun _ _ h => Or.inl h⟩
    · split
      · refine ⟨f, ?_, rfl, rfl, fun _ _ h => Or.inl h⟩
        simp only
        rw [findFlight_drop_ne _ _ _ hne]; exact hf
      · exact ⟨f, hf, rfl, rfl, fun _ _ h => Or.inl h⟩

/-- the number of series is not changed by any event (registrations are outside this layer) -/
theorem stepC_n (render : List Nat → List Char) (s : StC) (e : EvC) : (stepC render s e).1.n = s.n := by
  cases e with
  | update k d => rfl
  | arrive id ok path => simp only [stepC]; split <;> rfl
  | read id k => rfl
  | respond id =>
    simp only [stepC]
    split
    · rfl
    · split <;> rfl

theorem runStateC_n (render : List Nat → List Char) (s : StC) (evs : List EvC) :
    (runStateC render s evs).n = s.n := by
  induction evs generalizing s with
  | nil => rfl
  | cons e es ih => simp only [runStateC]; rw [ih, stepC_n]

/-- series only grow: every event leaves each series at least where it was (updates ADD on `Nat`: counters) -/
theorem stepC_mono (render : List Nat → List Char) (s : StC) (e : EvC) (k : Nat) :
    s.metrics k ≤ (stepC render s e).1.metrics k := by
  cases e with
  | update k' d => simp only [stepC]; split <;> omega
  | arrive id ok path => simp only [stepC]; split <;> exact Nat.le_refl _
  | read id k' => exact Nat.le_refl _
  | respond id =>
    simp only [stepC]
    split
    · exact Nat.le_refl _
    · split <;> exact Nat.le_refl _

theorem runStateC_mono (render : List Nat → List Char) (s : StC) (evs : List EvC) (k : Nat) :
    s.metrics k ≤ (runStateC render s evs).metrics k := by
  induction evs generalizing s with
  | nil => exact Nat.le_refl _
  | cons e es ih => exact Nat.le_trans (stepC_mono render s e k) (ih _)

theorem runStateC_append (render : List Nat → List Char) (s : StC) (a b : List EvC) :
    runStateC render s (a ++ b) = runStateC render (runStateC render s a) b := by
  induction a generalizing s with
  | nil => rfl
  | cons e es ih => simp only [List.cons_append, runStateC]; exact ih _

/-- **flight_history**: over ANY history that does not answer request `id` — updates, arrivals, loads and answers
    of any number of OTHER requests, in any interleaving — the request stays in flight, and every value its
    accumulator holds at the end was there at the start or is the value the series had at some moment of that
    history (`t` events into it). -/
theorem flight_history (render : List Nat → List Char) (id : Nat) (mid : List EvC) (s : StC) (f : Flight)
    (hf : findFlight id s.flights = some f) (hmid : ∀ e, e ∈ mid → e.isRespond id = false) :
    ∃ f', findFlight id (runStateC render s mid).flights = some f' ∧ f'.ok = f.ok ∧ f'.path = f.path ∧
      ∀ k v, f'.acc k = some v →
        f.acc k = some v ∨ ∃ t, t ≤ mid.length ∧ v = (runStateC render s (mid.take t)).metrics k := by
  induction mid generalizing s f with
  | nil => exact ⟨f, hf, rfl, rfl, fun _ _ h => Or.inl h⟩
  | cons e es ih =>
    obtain ⟨f1, hf1, hok1, hp1, hacc1⟩ := flight_step render s id f e hf (hmid e (by simp))
    obtain ⟨f2, hf2, hok2, hp2, hacc2⟩ := ih _ f1 hf1 (fun e' he' => hmid e' (by simp [he']))
    refine ⟨f2, hf2, hok2.trans hok1, hp2.trans hp1, ?_⟩
    intro k v hv
    rcases hacc2 k v hv with h | ⟨t, ht, hv'⟩
    · rcases hacc1 k v h with h' | h'
      · exact Or.inl h'
      · exact Or.inr ⟨0, Nat.zero_le _, by simpa [runStateC] using h'⟩
    · exact Or.inr ⟨t + 1, by simp only [List.length_cons]; omega, by simpa [runStateC] using hv'⟩

/-- **scrape_fresh** — the freshness clause, for ALL histories.  Let a request arrive (in any state `s`: any
    number of other requests in flight, each anywhere in its rendering), let ANY history `mid` follow that does not
    answer it (updates, other clients arriving, their renderings' loads, their answers, its own loads — in any
    interleaving), and let it then be answered.  The answer is `handle_http_request` applied to a text that is
    made of one value per series, and EVERY one of these values is the value that series had at some moment AFTER
    the arrival (`t` events into `mid`).  No value comes from before the request arrived — whatever other
    renderings were in progress or completed meanwhile. -/
theorem scrape_fresh (render : List Nat → List Char) (s : StC) (id : Nat) (ok : Bool) (path : List Char)
    (mid : List EvC) (hnew : findFlight id s.flights = none) (hmid : ∀ e, e ∈ mid → e.isRespond id = false)
    (s' : StC) (r : Resp)
    (h : stepC render (runStateC render (stepC render s (.arrive id ok path)).1 mid) (.respond id) = (s', some r)) :
    ∃ vs : List Nat, r = handleHttpRequest ok (render vs) path ∧ vs.length = s.n ∧
      (ok = true → path ≠ healthPath → ∀ k, k < s.n → ∃ t, t ≤ mid.length ∧
        vs[k]? = some ((runStateC render (stepC render s (.arrive id ok path)).1 (mid.take t)).metrics k)) := by
  have hs1 : (stepC render s (.arrive id ok path)).1 = { s with flights := ⟨id, ok, path, fun _ => none⟩ :: s.flights } := by
    simp [stepC, hnew]
  have hf0 : findFlight id (stepC render s (.arrive id ok path)).1.flights = some ⟨id, ok, path, fun _ => none⟩ := by
    rw [hs1]; simp [findFlight]
  obtain ⟨f', hf', hok, hp, hacc⟩ := flight_history render id mid _ _ hf0 hmid
  have hn : (runStateC render (stepC render s (.arrive id ok path)).1 mid).n = s.n := by
    rw [runStateC_n, stepC_n]
  generalize runStateC render (stepC render s (.arrive id ok path)).1 mid = S at h hf' hn
  simp only [stepC, hf'] at h
  cases ha : f'.answer render S.n with
  | none => simp [ha] at h
  | some r' =>
    simp only [ha] at h
    have hr : r' = r := by
      have := (Prod.mk.inj h).2
      exact Option.some.inj this
    subst hr
    simp only at hok hp
    rw [hn] at ha
    unfold Flight.answer at ha
    split at ha
    · rename_i hc
      refine ⟨f'.values s.n, ?_, by simp [Flight.values], ?_⟩
      · rw [← hok, ← hp]; exact (Option.some.inj ha).symm
      · intro hok' hpath k hk
        have hren : f'.renders = true := by
          simp [Flight.renders, hok, hok', hp, hpath]
        have hcomp : f'.complete s.n = true := by simpa [hren] using hc
        have hk' : (f'.acc k).isSome = true := by
          unfold Flight.complete at hcomp
          exact (List.all_eq_true.1 hcomp) k (List.mem_range.2 hk)
        obtain ⟨v, hv⟩ := Option.isSome_iff_exists.1 hk'
        rcases hacc k v hv with h0 | ⟨t, ht, hv'⟩
        · simp at h0
        · refine ⟨t, ht, ?_⟩
          simp [Flight.values, hk, hv, hv']
    · cases ha

/-- **scrape_sees_completed_updates** — what the clause means for counters.  Under the hypotheses of
    `scrape_fresh`, every value in the body lies between the value the series had when the request ARRIVED and the
    value it has when the answer is written: every update that completed before the request arrived is in the body
    (read-your-writes across the scrape endpoint), nothing is older than the arrival and nothing is invented. -/
theorem scrape_sees_completed_updates (render : List Nat → List Char) (s : StC) (id : Nat) (ok : Bool)
    (path : List Char) (mid : List EvC) (hnew : findFlight id s.flights = none)
    (hmid : ∀ e, e ∈ mid → e.isRespond id = false) (s' : StC) (r : Resp)
    (h : stepC render (runStateC render (stepC render s (.arrive id ok path)).1 mid) (.respond id) = (s', some r)) :
    ∃ vs : List Nat, r = handleHttpRequest ok (render vs) path ∧ vs.length = s.n ∧
      (ok = true → path ≠ healthPath → ∀ k, k < s.n → ∃ v, vs[k]? = some v ∧ s.metrics k ≤ v ∧
        v ≤ (runStateC render (stepC render s (.arrive id ok path)).1 mid).metrics k) := by
  obtain ⟨vs, hr, hl, hv⟩ := scrape_fresh render s id ok path mid hnew hmid s' r h
  refine ⟨vs, hr, hl, ?_⟩
  intro hok hpath k hk
  obtain ⟨t, ht, hvt⟩ := hv hok hpath k hk
  refine ⟨_, hvt, ?_, ?_⟩
  · exact Nat.le_trans (stepC_mono render s (.arrive id ok path) k) (runStateC_mono render _ _ k)
  · have : mid = mid.take t ++ mid.drop t := (List.take_append_drop t mid).symm
    rw [this, runStateC_append]
    simp only [List.take_append_drop]
    exact runStateC_mono render _ _ k

/-- **refusal_and_health_never_wait**: a request that does not render — from a peer that is not allowed, or for
    `/health` — can be answered the moment it has arrived, in EVERY state: however many other clients' renderings
    are in progress, they do not stand in its way. -/
theorem refusal_and_health_never_wait (render : List Nat → List Char) (s : StC) (id : Nat) (ok : Bool)
    (path : List Char) (hnew : findFlight id s.flights = none) (hnr : ok = false ∨ path = healthPath) :
    (stepC render (stepC render s (.arrive id ok path)).1 (.respond id)).2
      = some (if ok then ⟨200, okBody⟩ else ⟨403, []⟩) := by
  have hs1 : (stepC render s (.arrive id ok path)).1 = { s with flights := ⟨id, ok, path, fun _ => none⟩ :: s.flights } := by
    simp [stepC, hnew]
  rw [hs1]
  rcases hnr with h | h
  · subst h; simp [stepC, findFlight, Flight.answer, Flight.renders, handleHttpRequest]
  · subst h
    cases ok <;> simp [stepC, findFlight, Flight.answer, Flight.renders, handleHttpRequest]

/-- after the first `j` loads of a request that arrived in state `s0` (nothing else happening), its accumulator
    holds exactly the current values of series `0 … j-1` -/
theorem reads_fill (render : List Nat → List Char) (s0 : StC) (id : Nat) (path : List Char)
    (hnew : findFlight id s0.flights = none) (hp : path ≠ healthPath) (j : Nat) (hj : j ≤ s0.n) :
    (runStateC render (stepC render s0 (.arrive id true path)).1 ((List.range j).map (EvC.read id))).n = s0.n
    ∧ (runStateC render (stepC render s0 (.arrive id true path)).1 ((List.range j).map (EvC.read id))).metrics = s0.metrics
    ∧ ∃ f, findFlight id
          (runStateC render (stepC render s0 (.arrive id true path)).1 ((List.range j).map (EvC.read id))).flights = some f
        ∧ f.ok = true ∧ f.path = path ∧ ∀ k, f.acc k = if k < j then some (s0.metrics k) else none := by
  induction j with
  | zero =>
    have hs1 : (stepC render s0 (.arrive id true path)).1
        = { s0 with flights := ⟨id, true, path, fun _ => none⟩ :: s0.flights } := by simp [stepC, hnew]
    rw [hs1]
    refine ⟨rfl, rfl, ⟨id, true, path, fun _ => none⟩, ?_, rfl, rfl, fun k => by simp⟩
    simp [runStateC, findFlight]
  | succ j ih =>
    obtain ⟨hn, hm, f, hf, hok, hpath, hacc⟩ := ih (by omega)
    rw [List.range_succ, List.map_append, runStateC_append]
    generalize runStateC render (stepC render s0 (.arrive id true path)).1 ((List.range j).map (EvC.read id)) = S
      at hn hm hf
    simp only [List.map_cons, List.map_nil, runStateC, stepC]
    refine ⟨hn, hm, _, findFlight_read_eq _ _ _ _ _ _ hf, (load_ok _ _ _ _).trans hok, (load_path _ _ _ _).trans hpath, ?_⟩
    intro k
    have hren : f.renders = true := by simp [Flight.renders, hok, hpath, hp]
    have hjn : j < S.n := by omega
    have hnone : (f.acc j).isNone = true := by rw [hacc j]; simp
    unfold Flight.load
    simp only [hren, hjn, hnone, decide_true, Bool.and_self, if_true]
    by_cases hk : k = j
    · subst hk; simp [hm]
    · rw [if_neg hk, hacc k]
      by_cases hlt : k < j
      · simp [hlt, Nat.lt_succ_of_lt hlt]
      · have : ¬ k < j + 1 := by omega
        simp [hlt, this]

/-- **own_rendering_suffices** ("concurrent requests never prevent later clients from being served", and the
    sequential layer as a special case).  In EVERY state — any number of other clients' requests in flight, each
    anywhere in its rendering, complete or not — a request that arrives, is given its own loads and is then answered
    gets 200 with the rendering of the series as they are NOW: nothing another request holds is needed, used or in
    the way.  (`stepEv2`'s one-step answer `render s.metrics` is this history run without interleaving.) -/
theorem own_rendering_suffices (render : List Nat → List Char) (s0 : StC) (id : Nat) (path : List Char)
    (hnew : findFlight id s0.flights = none) (hp : path ≠ healthPath) :
    (stepC render
        (runStateC render (stepC render s0 (.arrive id true path)).1 ((List.range s0.n).map (EvC.read id)))
        (.respond id)).2
      = some ⟨200, render ((List.range s0.n).map s0.metrics)⟩ := by
  obtain ⟨hn, _, f, hf, hok, hpath, hacc⟩ := reads_fill render s0 id path hnew hp s0.n (Nat.le_refl _)
  generalize runStateC render (stepC render s0 (.arrive id true path)).1 ((List.range s0.n).map (EvC.read id)) = S
    at hn hf
  have hcomp : f.complete s0.n = true := by
    unfold Flight.complete
    rw [List.all_eq_true]
    intro k hk
    rw [hacc k]; simp [List.mem_range.1 hk]
  have hvals : f.values s0.n = (List.range s0.n).map s0.metrics := by
    unfold Flight.values
    apply List.map_congr_left
    intro k hk
    rw [hacc k]; simp [List.mem_range.1 hk]
  simp only [stepC, hf, Flight.answer, hn, hcomp, Bool.or_true, if_true, hvals, handleHttpRequest, hok, hpath,
    if_neg hp]

/-- **src_render_per_request**: facts extracted from the current source that tie `stepC` to the code.
    * the served branch of `handle_http_request` produces the body of every path other than `/health` by
      `tokio::task::spawn_blocking(move || handle.render())`, awaited in the handler: the rendering is STARTED by the
      request it answers, after that request arrived (`EvC.arrive` before every `EvC.read` of the same id), and its
      result goes to that request only (`Flight.acc`);
    * the handler receives `is_allowed`, the handle and the request — nothing through which a payload, a counter of
      renderings or a lock could be shared; it calls `render` on that handle and on nothing else;
    * `HttpListeningExporter` has the three fields the model knows (handle, allowlist, listener) and
      `http_listener.rs` declares no shared mutable state at all (no `Mutex`, `RwLock`, atomic, `static`, cell, cache):
      connections have nothing in common but the recorder they render (`StC.flights` are independent records). -/
theorem src_render_per_request :
    Generated.http_render_arm = "tokio::task::spawn_blocking(move||handle.render()).await.unwrap().into()"
    ∧ Generated.http_handler_params = ["is_allowed", "handle", "req"]
    ∧ Generated.http_handler_render_calls = ["handle"]
    ∧ Generated.http_exporter_fields = ["handle", "allowed_addresses", "listener_type"]
    ∧ Generated.http_listener_shared_state = []
    ∧ Generated.tcp_service_call = "Self::handle_http_request(is_allowed,handle.clone(),req)"
    ∧ Generated.uds_service_call = "Self::handle_http_request(true,handle.clone(),req)" := by decide

/-- **shared_rendering_is_stale**: the clause is not automatic.  With the "coalescing" shortcut (`stepShared`: a
    request takes another request's complete rendering instead of rendering itself) there is a history — client A's
    rendering loads the series, the application adds 1, client B arrives AFTER that update, A's rendering is
    complete, B is answered — in which B's body shows the value from before B arrived.  `scrape_fresh` excludes
    exactly this for the code (`stepC`), where the same history cannot answer B at all before B's own loads. -/
theorem shared_rendering_is_stale :
    ∃ (pre : List EvC) (r : Resp),
      let s0 : StC := ⟨1, fun _ => 5, []⟩
      let run := pre.foldl (fun s e => (stepShared (fun vs => (toString vs).toList) s e).1) s0
      pre = [.arrive 1 true ['/'], .read 1 0, .update 0 1, .arrive 2 true ['/']]
      ∧ run.metrics 0 = 6
      ∧ (stepShared (fun vs => (toString vs).toList) run (.respond 2)).2 = some r
      ∧ r = ⟨200, (toString [5]).toList⟩
      ∧ (stepC (fun vs => (toString vs).toList) run (.respond 2)).2 = none :=
  ⟨_, _, rfl, by decide, by decide, rfl, by decide⟩

/-! ## tie (a): the source text has the shape the model assumes -/

/-- **source_shape**: facts extracted from the current source by `tools/extract.py`: the builder documents
    "IP address or subnet"; `add_allowed_address` tries `IpNet::from_str` then `IpAddr::from_str` (`parseEntry`);
    `check_tcp_allowed` returns `true` without an allowlist and otherwise matches the peer address and its
    `to_ipv4_mapped` form with `contains` under `any` (`checkAllowed`, `peerMatches`); `handle_http_request`
    branches on `is_allowed` first, compares the path with the literal the model calls `healthPath`, renders for
    every other path, and in the refused branch answers `FORBIDDEN` with a default (empty) body and never calls
    `render` (`handleHttpRequest`). -/
theorem source_shape :
    Generated.allow_doc_first_sentence = "Adds an IP address or subnet to the allowlist for the scrape endpoint"
    ∧ Generated.allow_entry_parsers = ["IpNet", "IpAddr"]
    ∧ Generated.allow_none_allows_all = true
    ∧ Generated.allow_check_calls = ["peer_addr", "ip", "to_ipv4_mapped", "any", "contains", "contains"]
    ∧ Generated.http_outer_condition = "is_allowed"
    ∧ Generated.http_health_literal.toList = healthPath
    ∧ Generated.http_other_paths_render = true
    ∧ Generated.http_denied_status = "FORBIDDEN"
    ∧ Generated.http_denied_body = "Full::<Bytes>::default()"
    ∧ Generated.http_denied_branch_renders = false := by decide

/-- the accept loop's error arm as read off the source: `continue` as last statement and nothing in the loop
    that could leave it (`break`, `return`, `?`) -/
def armOfSource (oneLoop : Bool) (errArmLast : String) (exits : List String) : LoopAct :=
  if oneLoop ∧ errArmLast = "continue" ∧ exits = [] then .continue else .exit

/-- **src_listener_plumbing**: facts extracted from the current source that no run on this machine can observe
    in general.
    * `process_tcp_stream` computes `is_allowed` once per connection from `check_tcp_allowed(&stream)` and hands
      exactly that value (nothing or-ed to it: no method, header or port exception) to `handle_http_request`;
      `process_uds_stream` hands `true` (`Endpoint.isAllowed`, `serveReq`).
    * `check_tcp_allowed` calls exactly these methods in this order — no `.port()`, `.take(n)`, `.skip(n)` — and
      `handle_http_request` mentions `req` once, for `req.uri()` (method, headers, body are not inputs).
    * `serve_tcp` / `serve_uds` are one `loop` whose `Err` arm ends in `continue` and which contains no `break`,
      `return` or `?` (`LoopAct.continue`: `endpoint_invariant`, `later_clients_served`).
    * the served branch appends `Content-Type: text/plain`.
    * `new_http_listener` stores the allowlist it is given, `new_http_uds_listener` stores `None`
      (`Builder.build`); `build` takes `self.allowed_addresses` and passes it as third argument; the listener
      calls of the builder assign `exporter_config` only, `add_allowed_address` touches `allowed_addresses` only
      (`Builder.apply`); `new()` starts at `0.0.0.0:9000` without allowlist (`Builder.new`);
      `install`'s own runtime is built with `enable_all()` (I/O driver present, the listener can be polled). -/
theorem src_listener_plumbing :
    Generated.tcp_is_allowed_binding = "self.check_tcp_allowed(&stream)"
    ∧ Generated.tcp_service_call = "Self::handle_http_request(is_allowed,handle.clone(),req)"
    ∧ Generated.tcp_is_allowed_uses = 2
    ∧ Generated.uds_service_call = "Self::handle_http_request(true,handle.clone(),req)"
    ∧ Generated.allow_check_all_calls
        = ["peer_addr", "map_or_else", "ip", "to_ipv4_mapped", "map", "iter", "any", "contains", "map_or", "contains"]
    ∧ Generated.http_req_reads = ["uri"] ∧ Generated.http_req_mentions = 1
    ∧ armOfSource Generated.serve_tcp_is_one_loop Generated.serve_tcp_err_arm_last Generated.serve_tcp_loop_exits
        = LoopAct.continue
    ∧ Generated.serve_tcp_loop_calls = ["accept", "process_tcp_stream"]
    ∧ armOfSource Generated.serve_uds_is_one_loop Generated.serve_uds_err_arm_last Generated.serve_uds_loop_exits
        = LoopAct.continue
    ∧ Generated.http_served_content_type = "append(CONTENT_TYPE,HeaderValue::from_static(\"text/plain\"))"
    ∧ Generated.new_http_listener_fields = "{handle,allowed_addresses,listener_type:ListenerType::Tcp(listener),}"
    ∧ Generated.new_uds_listener_fields = "{handle,allowed_addresses:None,listener_type:ListenerType::Uds(listener),}"
    ∧ Generated.build_allowed_binding = "self.allowed_addresses.take()"
    ∧ Generated.build_allowed_mentions = 3
    ∧ Generated.build_tcp_call = "new_http_listener(handle,listen_address,allowed_addresses)"
    ∧ Generated.build_uds_call = "new_http_uds_listener(handle,listen_path)"
    ∧ Generated.with_http_listener_assigns = ["exporter_config"]
    ∧ Generated.with_http_uds_listener_assigns = ["exporter_config"]
    ∧ Generated.with_push_gateway_assigns = ["exporter_config"]
    ∧ Generated.add_allowed_address_assigns = ["allowed_addresses"]
    ∧ Generated.add_allowed_address_store = "self.allowed_addresses.get_or_insert(vec![]).push(address)"
    ∧ Generated.builder_new_allowed = "None"
    ∧ Generated.builder_new_listen = "SocketAddr::new(IpAddr::V4(Ipv4Addr::new(0,0,0,0)),9000)"
    ∧ Generated.install_runtime_builders = ["new_current_thread().enable_all().build()"] := by decide

/-! ## non-vacuity: concrete blocks, edges, both syntaxes -/

section examples

/-- 127.0.0.0 as a number -/
private def lo127 : Nat := 127 * 2 ^ 24

/-- `127.0.0.0/8` written as `127.1.2.3/8` -/
private def net127 : Net := ⟨.v4, lo127 + 1 * 2 ^ 16 + 2 * 2 ^ 8 + 3, 8⟩

-- first and last address of the block are inside, the neighbours on both sides are outside
example : contains net127 ⟨.v4, lo127⟩ = true := by decide
example : contains net127 ⟨.v4, lo127 + 2 ^ 24 - 1⟩ = true := by decide
example : contains net127 ⟨.v4, lo127 - 1⟩ = false := by decide
example : contains net127 ⟨.v4, lo127 + 2 ^ 24⟩ = false := by decide
example : net127.network = lo127 ∧ net127.broadcast = lo127 + 2 ^ 24 - 1 := by decide

-- `/31`: exactly two addresses
example : (List.range 8).filter (fun i => contains ⟨.v4, lo127 + 2, 31⟩ ⟨.v4, lo127 + i⟩) = [2, 3] := by decide

-- plain address = host route: only that address
example : parseEntry ⟨.v4, lo127 + 1, none⟩ = some ⟨.v4, lo127 + 1, 32⟩ := by decide
example : (List.range 4).filter (fun i => contains ⟨.v4, lo127 + 1, 32⟩ ⟨.v4, lo127 + i⟩) = [1] := by decide

-- prefix lengths beyond the width are rejected, for both families
example : parseEntry ⟨.v4, lo127 + 1, some 33⟩ = none := by decide
example : parseEntry ⟨.v6, 1, some 129⟩ = none := by decide
example : parseEntry ⟨.v6, 1, some 128⟩ = some ⟨.v6, 1, 128⟩ := by decide

-- families never match across: ::1 is not in 0.0.0.0/0, 0.0.0.1 is not in ::/0
example : contains ⟨.v4, 0, 0⟩ ⟨.v6, 1⟩ = false := by decide
example : contains ⟨.v6, 0, 0⟩ ⟨.v4, 1⟩ = false := by decide

-- IPv4 client 127.0.0.1 of a dual-stack listener (reported as ::ffff:127.0.0.1) against 127.0.0.0/8
example : checkAllowed (some [net127]) ⟨.v6, 0xffff * 2 ^ 32 + (lo127 + 1)⟩ = true := by decide
-- … and against an allowlist that lists only ::1
example : checkAllowed (some [⟨.v6, 1, 128⟩]) ⟨.v6, 0xffff * 2 ^ 32 + (lo127 + 1)⟩ = false := by decide

-- the decision, in the order the code takes it
private def rendered : List Char := "# TYPE c18_marker counter\nc18_marker 7\n".toList
private def nested : List Net := [⟨.v4, lo127 + 256, 24⟩, ⟨.v4, lo127 + 256 + 128, 25⟩, ⟨.v4, lo127 + 511, 32⟩]

example : respond (some nested) ⟨.v4, lo127 + 256⟩ "/metrics".toList rendered = ⟨200, rendered⟩ := by decide
example : respond (some nested) ⟨.v4, lo127 + 511⟩ "/health".toList rendered = ⟨200, "OK".toList⟩ := by decide
example : respond (some nested) ⟨.v4, lo127 + 512⟩ "/metrics".toList rendered = ⟨403, []⟩ := by decide
example : respond (some nested) ⟨.v4, lo127 + 255⟩ "/health".toList rendered = ⟨403, []⟩ := by decide
example : respond (some nested) ⟨.v4, lo127 + 300⟩ "/health/".toList rendered = ⟨200, rendered⟩ := by decide
example : respond none ⟨.v4, 1⟩ "/".toList rendered = ⟨200, rendered⟩ := by decide
example : pathOf "/health?probe=1".toList = healthPath := by decide
-- request targets outside `/path?query`: fragment, absolute-form, asterisk-form, authority-form
example : pathOf "/health#x".toList = healthPath := by decide
example : pathOf "/health?a#b?c".toList = healthPath := by decide
example : pathOf "/metrics#/health".toList = "/metrics".toList := by decide
example : pathOf "http://c18.test:9000/health".toList = healthPath := by decide
example : pathOf "http://c18.test/health?x=1".toList = healthPath := by decide
example : pathOf "http://health/metrics".toList = "/metrics".toList := by decide
example : pathOf "http://c18.test".toList = "/".toList := by decide
example : pathOf "http://c18.test?/health".toList = "/".toList := by decide
example : pathOf "*".toList = "*".toList := by decide
example : pathOf "c18.test:9000".toList = [] := by decide
example : respond none ⟨.v4, 1⟩ (pathOf "http://h/health#frag".toList) rendered = ⟨200, "OK".toList⟩ := by decide

-- a history with faults in between: the later client is served the then-current value
example :
    run (fun n => (toString n).toList) ⟨some nested, 0⟩
      [.update 5, .fault 0 ⟨.v4, lo127 + 300⟩, .req ⟨.v4, lo127 + 300⟩ "/metrics".toList, .fault 2 ⟨.v4, 9⟩,
       .update 2, .req ⟨.v4, 9⟩ "/metrics".toList, .req ⟨.v4, lo127 + 300⟩ "/m".toList]
      = [⟨200, "5".toList⟩, ⟨403, []⟩, ⟨200, "7".toList⟩] := by decide

-- the builder: `with_http_listener` AFTER `add_allowed_address` keeps the allowlist; UDS drops it
example :
    (Builder.new.applyAll [.allow ⟨.v4, lo127 + 1, none⟩, .pushGateway, .httpListener 1234]).map Builder.build
      = some (.tcp 1234 (some [⟨.v4, lo127 + 1, 32⟩])) := by decide
example :
    (Builder.new.applyAll [.httpListener 1234, .allow ⟨.v4, lo127 + 1, some 8⟩, .udsListener 7]).map Builder.build
      = some (.uds 7) := by decide
example : (Builder.new.applyAll [.allow ⟨.v4, lo127 + 1, some 33⟩, .httpListener 1]).isNone = true := by decide

-- whole requests: an outsider's OPTIONS with X-Forwarded-For from port 80 is refused, an insider's POST is served
example :
    (stepEv2 .continue (fun n => (toString n).toList) ⟨.tcp 1 (some nested), 5, true⟩
      (.conn (.ip ⟨.v4, lo127 + 512⟩ 80)
        [⟨"OPTIONS".toList, "/metrics".toList, [("x-forwarded-for".toList, "127.0.1.0".toList)]⟩])).2
      = [⟨403, []⟩] := by decide
example :
    (stepEv2 .continue (fun n => (toString n).toList) ⟨.tcp 1 (some nested), 5, true⟩
      (.conn (.ip ⟨.v4, lo127 + 300⟩ 80)
        [⟨"POST".toList, "/metrics".toList, []⟩, ⟨"HEAD".toList, "/x".toList, []⟩, ⟨"GET".toList, "/health".toList, []⟩])).2
      = [⟨200, "5".toList⟩, ⟨200, []⟩, ⟨200, "OK".toList⟩] := by decide

-- accept errors in between: the later client is served the then-current value
example :
    run2 .continue (fun n => (toString n).toList) (Sess2.start (.tcp 1 (some nested)))
      [.update 5, .acceptErr 24, .acceptErr 24, .fault 1 (.ip ⟨.v4, 9⟩ 1), .update 2,
       .conn (.ip ⟨.v4, lo127 + 300⟩ 4000) [⟨"GET".toList, "/m".toList, []⟩]]
      = [[], [], [], [], [], [⟨200, "7".toList⟩]] := by decide

-- a half-closing client between faults and accept errors: served like the ordinary client after it (option of the
-- code); dropped under hyper's default while everybody else is served as before
example :
    run3 .continue .finish (fun n => (toString n).toList) (Sess2.start (.tcp 1 (some nested)))
      [.ev (.update 5), .ev (.acceptErr 24), .halfClose (.ip ⟨.v4, lo127 + 300⟩ 4000) [⟨"GET".toList, "/m".toList, []⟩, ⟨"GET".toList, "/health#x".toList, []⟩],
       .halfClose (.ip ⟨.v4, 9⟩ 4000) [⟨"GET".toList, "/m".toList, []⟩], .ev (.update 2),
       .ev (.conn (.ip ⟨.v4, lo127 + 300⟩ 4001) [⟨"GET".toList, "http://h/health".toList, []⟩, ⟨"GET".toList, "/m".toList, []⟩])]
      = [[], [], [⟨200, "5".toList⟩, ⟨200, "OK".toList⟩], [⟨403, []⟩], [], [⟨200, "OK".toList⟩, ⟨200, "7".toList⟩]] := by decide
example :
    run3 .continue .drop (fun n => (toString n).toList) (Sess2.start (.tcp 1 (some nested)))
      [.ev (.update 5), .halfClose (.ip ⟨.v4, lo127 + 300⟩ 4000) [⟨"GET".toList, "/m".toList, []⟩],
       .ev (.conn (.ip ⟨.v4, lo127 + 300⟩ 4001) [⟨"GET".toList, "/m".toList, []⟩])]
      = [[], [], [⟨200, "5".toList⟩]] := by decide

-- overlapping scrapes: A's rendering loads series 0, the application adds 3 to both series, B arrives (and a denied
-- peer, answered at once); B cannot be answered before its own loads, then shows both updates; A shows series 0 as
-- it was when A loaded it (after A arrived) and series 1 new
example :
    runC (fun vs => (toString vs).toList) ⟨2, fun _ => 5, []⟩
      [.arrive 1 true "/metrics".toList, .read 1 0, .update 0 3, .update 1 3, .arrive 2 true "/".toList,
       .arrive 3 false "/metrics".toList, .respond 3, .respond 2, .read 2 1, .read 2 0, .respond 2, .read 1 1,
       .respond 1]
      = [⟨403, []⟩, ⟨200, (toString [8, 8]).toList⟩, ⟨200, (toString [5, 8]).toList⟩] := by decide

end examples

end MetricsVerif.C18
