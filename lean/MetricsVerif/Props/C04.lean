/-
C04 — counter, gauge and histogram handles apply every update exactly once.

Model: `Model/Atomics.lean`.  The storage (`AtomicU64` as `CounterFn`/`GaugeFn`) is a step machine in which
every update is ONE atomic read-modify-write step; threads run programs of calls made through handles (any
clone of a handle = `some ()`, a no-op handle = `none`).  All theorems of the machine are for every initial
value, every list of thread programs (any number of threads/clones, any number of calls, any argument values)
and EVERY schedule (`List Nat`), by inductive invariants (`Proofs/Atomics.lean`).  They take the hypothesis
`AllRmw sh` — every update function is a single RMW call — which is discharged for the shape extracted from
atomics.rs (`src_rmw_shape`); without it they are false (`split_loses_update`).

Ghost `log`: the effective updates with their thread, NEWEST FIRST; `replay`/`foldr` apply the oldest first, so
"`foldr` over the log" = "in linearization order".

Gauge arithmetic is over an abstract carrier (`Carrier F`: add, sub, to_bits, from_bits); IEEE rounding is not
modelled (nothing below depends on what `add`/`sub` compute).

Round 4: `fetch_update` is no longer one trusted step.  `Model/AtomicsCas.lean` runs gauge increment/decrement as
std's load + `compare_exchange_weak` loop (one step per evaluation of the closure — the granularity of hook-C04's
yield point); `cas_refines_rmw` shows every run of that machine is a run of the single-RMW machine on a
subsequence of the schedule, and the `cas_*` theorems carry linearization / exactly-once / sums over.
-/
import MetricsVerif.Proofs.Atomics
import MetricsVerif.Proofs.AtomicsCas
import MetricsVerif.Generated.SourceFacts

namespace MetricsVerif.C04
open MetricsVerif.Atomics
variable {F : Type}

/-! ## linearization and exactly-once (any mix of updates) -/

/-- **every update is applied to the value current at its instant**: in every reachable state the cell is the
    initial value with the logged updates applied one after the other in the order they took effect -/
theorem linearization (A : Carrier F) {sh : Shape} (h : AllRmw sh) (c0 : Nat) (progs : List (List (Call F)))
    (sched : List Nat) :
    (run A sh (init c0 progs) sched).cell = replay A c0 (run A sh (init c0 progs) sched).log :=
  run_induct A sh (fun s => s.cell = replay A c0 s.log) (fun s tid hs => lin_step A h c0 s tid hs) sched _ rfl

/-- **none lost, none doubled**: for every thread, its updates in the log (oldest first) followed by the
    updates it has still to make are exactly the updates of its program that go through a live handle, in
    program order — at every point of every schedule -/
theorem exactly_once (A : Carrier F) {sh : Shape} (h : AllRmw sh) (c0 : Nat) (progs : List (List (Call F)))
    (sched : List Nat) (tid : Nat) (p : List (Call F)) (hp : progs[tid]? = some p) :
    ∃ t, (run A sh (init c0 progs) sched).threads[tid]? = some t
      ∧ effOps p = (proj tid (run A sh (init c0 progs) sched).log).reverse ++ effOps t.prog :=
  run_induct A sh (Once progs) (fun s t hs => once_step A h progs s t hs) sched _ (once_init c0 progs) tid p hp

/-- the log holds exactly as many entries as effective calls have been made: log length + calls still to make
    = all effective calls of all programs (so nothing is in the log that no thread issued) -/
theorem log_count (A : Carrier F) {sh : Shape} (h : AllRmw sh) (c0 : Nat) (progs : List (List (Call F)))
    (sched : List Nat) :
    (run A sh (init c0 progs) sched).log.length + pendingLen (run A sh (init c0 progs) sched)
      = (progs.map (fun p => (effOps p).length)).sum := by
  have := run_induct A sh (fun s => s.log.length + pendingLen s = (progs.map (fun p => (effOps p).length)).sum)
    (fun s t hs => by rw [count_step A h s t]; exact hs) sched (init c0 progs)
    (by rw [pendingLen_init]; simp [init])
  exact this

/-- when every thread has returned, each thread's part of the log is its whole program (effective calls, in
    program order) and the log has exactly one entry per effective call -/
theorem all_applied_when_done (A : Carrier F) {sh : Shape} (h : AllRmw sh) (c0 : Nat)
    (progs : List (List (Call F))) (sched : List Nat) (hd : AllDone (run A sh (init c0 progs) sched)) :
    (∀ tid p, progs[tid]? = some p → (proj tid (run A sh (init c0 progs) sched).log).reverse = effOps p)
    ∧ (run A sh (init c0 progs) sched).log.length = (progs.map (fun p => (effOps p).length)).sum := by
  constructor
  · intro tid p hp
    obtain ⟨t, ht, he⟩ := exactly_once A h c0 progs sched tid p hp
    have : t.prog = [] := hd t (List.mem_of_getElem? ht)
    rw [he, this]; simp [effOps]
  · have hc := log_count A h c0 progs sched
    have hz : pendingLen (run A sh (init c0 progs) sched) = 0 :=
      sum_zero_of_done pendLen _ (fun t ht => by simp [pendLen, hd t ht, effOps])
    omega

/-! ## counters -/

/-- **increments only ⇒ the counter is the sum of all increments modulo 2^64** — at EVERY point of every
    schedule: cell + (increments not yet executed) ≡ initial + (all increments) -/
theorem counter_sum_prefix (A : Carrier F) {sh : Shape} (h : AllRmw sh) (c0 : Nat) (hc : c0 < two64)
    (progs : List (List (Call F))) (hinc : ∀ p ∈ progs, IncOnlyProg p) (sched : List Nat) :
    ((run A sh (init c0 progs) sched).cell + pending (run A sh (init c0 progs) sched)) % two64
      = (c0 + (progs.map progSum).sum) % two64
    ∧ (run A sh (init c0 progs) sched).cell < two64 := by
  have hi : SumInv (c0 + (progs.map progSum).sum) (init c0 progs) := by
    refine ⟨?_, hc, by rw [pending_init]; rfl⟩
    intro t ht
    simp only [init, List.mem_map] at ht
    obtain ⟨p, hp, rfl⟩ := ht
    exact hinc p hp
  have := run_induct A sh (SumInv (c0 + (progs.map progSum).sum)) (fun s t hs => sum_step A h _ s t hs) sched _ hi
  exact ⟨this.sum, this.lt⟩

/-- **counter_sum**: only increments, through any clones on any threads, any schedule: once every thread has
    returned the counter is (initial + Σ all increments) mod 2^64 -/
theorem counter_sum (A : Carrier F) {sh : Shape} (h : AllRmw sh) (c0 : Nat) (hc : c0 < two64)
    (progs : List (List (Call F))) (hinc : ∀ p ∈ progs, IncOnlyProg p) (sched : List Nat)
    (hd : AllDone (run A sh (init c0 progs) sched)) :
    (run A sh (init c0 progs) sched).cell = (c0 + (progs.map progSum).sum) % two64 := by
  obtain ⟨hs, hl⟩ := counter_sum_prefix A h c0 hc progs hinc sched
  have hz : pending (run A sh (init c0 progs) sched) = 0 :=
    sum_zero_of_done pendSum _ (fun t ht => by simp [pendSum, progSum, hd t ht, effOps])
  rw [hz, Nat.add_zero, Nat.mod_eq_of_lt hl] at hs
  exact hs

/-- `fetch_max`: an absolute update never lowers the counter and leaves it at least the value given — in any
    state, wrapped or not -/
theorem abs_never_lowers (c n : Nat) : c ≤ counterAbsolute c n ∧ n ≤ counterAbsolute c n := by
  unfold counterAbsolute; omega

/-- **counter_abs**: counter programs (increments and absolutes), any schedule.  As long as no increment has
    wrapped around 2^64 the counter is at least its initial value and at least EVERY absolute value applied so
    far (whichever thread applied it, however long ago). -/
theorem counter_abs (A : Carrier F) {sh : Shape} (h : AllRmw sh) (c0 : Nat) (progs : List (List (Call F)))
    (hco : ∀ p ∈ progs, CounterOnlyProg p) (sched : List Nat)
    (hw : (run A sh (init c0 progs) sched).wrapped = false) :
    c0 ≤ (run A sh (init c0 progs) sched).cell
    ∧ ∀ e ∈ (run A sh (init c0 progs) sched).log, ∀ v, e.2 = Op.abs v → v ≤ (run A sh (init c0 progs) sched).cell := by
  have hi : AbsInv c0 (init c0 progs) := by
    refine ⟨?_, fun _ => ⟨Nat.le_refl _, by simp [init]⟩⟩
    intro t ht
    simp only [init, List.mem_map] at ht
    obtain ⟨p, hp, rfl⟩ := ht
    exact hco p hp
  exact (run_induct A sh (AbsInv c0) (fun s t hs => abs_step A h c0 s t hs) sched _ hi).mono hw

/-- the value trace is non-decreasing: if no increment has wrapped by the end of `s1 ++ s2`, the counter after
    `s1` is ≤ the counter after `s1 ++ s2` -/
theorem counter_abs_monotone (A : Carrier F) {sh : Shape} (h : AllRmw sh) (c0 : Nat) (progs : List (List (Call F)))
    (hco : ∀ p ∈ progs, CounterOnlyProg p) (s1 s2 : List Nat)
    (hw : (run A sh (init c0 progs) (s1 ++ s2)).wrapped = false) :
    (run A sh (init c0 progs) s1).cell ≤ (run A sh (init c0 progs) (s1 ++ s2)).cell := by
  have hi : AbsInv c0 (init c0 progs) := by
    refine ⟨?_, fun _ => ⟨Nat.le_refl _, by simp [init]⟩⟩
    intro t ht
    simp only [init, List.mem_map] at ht
    obtain ⟨p, hp, rfl⟩ := ht
    exact hco p hp
  have h1 := run_induct A sh (AbsInv c0) (fun s t hs => abs_step A h c0 s t hs) s1 _ hi
  -- re-base the invariant at the state after s1 (trivially true there when it has not wrapped; vacuous otherwise)
  have h1' : AbsInv (run A sh (init c0 progs) s1).cell (run A sh (init c0 progs) s1) :=
    ⟨h1.only, fun hw1 => ⟨Nat.le_refl _, (h1.mono hw1).2⟩⟩
  have h2 := run_induct A sh (AbsInv (run A sh (init c0 progs) s1).cell) (fun s t hs => abs_step A h _ s t hs) s2 _ h1'
  rw [run_append] at hw ⊢
  exact (h2.mono hw).1

/-- once every thread has returned and no increment wrapped, the counter is no lower than the largest absolute
    value given by anyone -/
theorem counter_abs_all_done (A : Carrier F) {sh : Shape} (h : AllRmw sh) (c0 : Nat) (progs : List (List (Call F)))
    (hco : ∀ p ∈ progs, CounterOnlyProg p) (sched : List Nat)
    (hd : AllDone (run A sh (init c0 progs) sched)) (hw : (run A sh (init c0 progs) sched).wrapped = false)
    (tid : Nat) (p : List (Call F)) (hp : progs[tid]? = some p) (v : Nat) (hv : Op.abs v ∈ effOps p) :
    v ≤ (run A sh (init c0 progs) sched).cell := by
  have hall := (all_applied_when_done A h c0 progs sched hd).1 tid p hp
  rw [← hall, List.mem_reverse] at hv
  exact (counter_abs A h c0 progs hco sched hw).2 _ (mem_of_mem_proj hv) v rfl

/-- **never decreases under absolute updates**: programs without increments (absolutes only) never wrap, so for
    EVERY schedule the value trace is non-decreasing and the counter dominates every absolute value applied -/
theorem counter_abs_only (A : Carrier F) {sh : Shape} (h : AllRmw sh) (c0 : Nat) (progs : List (List (Call F)))
    (hab : ∀ p ∈ progs, ∀ op ∈ effOps p, ∃ v, op = Op.abs v) (s1 s2 : List Nat) :
    (run A sh (init c0 progs) s1).cell ≤ (run A sh (init c0 progs) (s1 ++ s2)).cell
    ∧ ∀ e ∈ (run A sh (init c0 progs) (s1 ++ s2)).log, ∀ v, e.2 = Op.abs v → v ≤ (run A sh (init c0 progs) (s1 ++ s2)).cell := by
  have hco : ∀ p ∈ progs, CounterOnlyProg p := by
    intro p hp op hop
    obtain ⟨v, rfl⟩ := hab p hp op hop
    trivial
  have hni : ∀ p ∈ progs, ∀ op ∈ effOps p, NotInc op := by
    intro p hp op hop
    obtain ⟨v, rfl⟩ := hab p hp op hop
    trivial
  have hw := (run_induct A sh (fun s => OpsInv NotInc s ∧ s.wrapped = false) (fun s t hs => nowrap_step A h s t hs)
    (s1 ++ s2) _ ⟨ops_init NotInc c0 progs hni, rfl⟩).2
  exact ⟨counter_abs_monotone A h c0 progs hco s1 s2 hw, (counter_abs A h c0 progs hco (s1 ++ s2) hw).2⟩

/-- how wrap-around interacts: a wrapping increment lowers the counter below an absolute value given earlier
    (u64 arithmetic; `wrapped` records it) — so the hypothesis "no increment wrapped" cannot be dropped -/
theorem counter_abs_wrap_witness :
    let s := run dyCarrier allRmw (init 0 [[⟨some (), .abs (two64 - 1)⟩, ⟨some (), .inc 1⟩]]) [0, 0]
    s.cell = 0 ∧ s.wrapped = true ∧ AllDone s := by
  refine ⟨by decide, by decide, ?_⟩
  intro t ht
  have : (run dyCarrier allRmw (init 0 [[⟨some (), .abs (two64 - 1)⟩, ⟨some (), .inc 1⟩]]) [0, 0]).threads
      = [{ prog := [], tmp := none }] := by decide
  rw [this] at ht
  simp at ht
  rw [ht]

/-! ## gauges -/

/-- **gauge_linear**: gauge programs (increment / decrement / set), any schedule, carrier with
    `from_bits (to_bits x) = x`.  The gauge VALUE is the initial value with ALL logged updates applied in the
    order they took effect, each to the value current at that instant; per thread the log holds exactly the
    executed prefix of its calls (none lost, none doubled); and the log has one entry per effective call made. -/
theorem gauge_linear (A : Carrier F) (hrt : ∀ x, A.ofBits (A.toBits x) = x) {sh : Shape} (h : AllRmw sh) (c0 : Nat)
    (progs : List (List (Call F))) (hg : ∀ p ∈ progs, ∀ op ∈ effOps p, GaugeOp op) (sched : List Nat) :
    A.ofBits (run A sh (init c0 progs) sched).cell
      = (run A sh (init c0 progs) sched).log.foldr (fun e x => gApply A e.2 x) (A.ofBits c0)
    ∧ (∀ tid p, progs[tid]? = some p → ∃ t, (run A sh (init c0 progs) sched).threads[tid]? = some t
          ∧ effOps p = (proj tid (run A sh (init c0 progs) sched).log).reverse ++ effOps t.prog)
    ∧ (run A sh (init c0 progs) sched).log.length + pendingLen (run A sh (init c0 progs) sched)
        = (progs.map (fun p => (effOps p).length)).sum := by
  refine ⟨?_, fun tid p hp => exactly_once A h c0 progs sched tid p hp, log_count A h c0 progs sched⟩
  have hl := run_induct A sh (OpsInv GaugeOp) (fun s t hs => ops_step A h GaugeOp s t hs) sched _
    (ops_init GaugeOp c0 progs hg)
  rw [linearization A h c0 progs sched]
  exact replay_gauge A hrt c0 _ hl.log

/-- **gauge_set_last**: the step of a `set(v)` through a live handle leaves exactly `v` in the cell (whatever
    was there, whatever other threads did before) … -/
theorem gauge_set_last (A : Carrier F) {sh : Shape} (h : AllRmw sh) (s : Sys F) (tid : Nat) (t : Thread F)
    (u : Unit) (v : F) (rest : List (Call F)) (hg : s.threads[tid]? = some t) (hp : t.prog = ⟨some u, .gSet v⟩ :: rest) :
    (step A sh s tid).cell = A.toBits v ∧ (step A sh s tid).log = (tid, .gSet v) :: s.log := by
  unfold step
  simp only [hg]
  unfold stepThread
  simp only [hp, rmw_of_all h, if_true, commit, applyOp, gaugeSet]
  exact ⟨trivial, trivial⟩

/-- … and it stays there until the next effective update: a step that adds nothing to the log leaves the cell
    as it was -/
theorem cell_changes_only_by_updates (A : Carrier F) {sh : Shape} (h : AllRmw sh) (s : Sys F) (tid : Nat)
    (hl : (step A sh s tid).log = s.log) : (step A sh s tid).cell = s.cell := by
  have e := step_eff A h s tid
  generalize step A sh s tid = s' at e hl ⊢
  cases e with
  | stutter => rfl
  | noop t c rest hg hp hh => rfl
  | rmw t c rest u hg hp hh =>
    have := congrArg List.length hl
    simp at this

/-! ## histograms -/

/-- **record_many_n**: the default `record_many(v, n)` on the logging storage delivers `v` exactly `n` times -/
theorem record_many_n (log : List F) (v : F) (n : Nat) :
    histRecordMany (Handle.fromArc logFn) log v n = log ++ List.replicate n v := by
  simp [histRecordMany, Handle.fromArc, logFn, HistFn.ofRecord, recordManyDefault_log]

/-- `record(v)` delivers `v` once -/
theorem record_once (log : List F) (v : F) : histRecord (Handle.fromArc logFn) log v = log ++ [v] := rfl

/-- … also through any number of wrappers that only forward `record` (`Arc<T>`, `Arc<Arc<T>>`, …): `n`
    deliveries of `v`, whatever the inner's own `record_many` is -/
theorem record_many_through_wrappers (rm : List F → F → Nat → List F) (k : Nat) (log : List F) (v : F) (n : Nat) :
    histRecordMany (Handle.fromArc (HistFn.arcN ⟨logRecord, rm⟩ (k + 1))) log v n = log ++ List.replicate n v := by
  simp only [histRecordMany, Handle.fromArc, HistFn.arcN, HistFn.arc, HistFn.ofRecord, arcN_record,
    recordManyDefault_log]

/-- for ANY `record` function the default `record_many(v, n)` is `record(v)` iterated `n` times (fan-out,
    generation-tracking, … wrappers that only implement `record`) -/
theorem record_many_is_n_records {σ : Type} (record : σ → F → σ) (st : σ) (v : F) (n : Nat) :
    histRecordMany (Handle.fromArc (HistFn.ofRecord record)) st v n = Nat.repeat (fun s => record s v) n st := by
  simp [histRecordMany, Handle.fromArc, HistFn.ofRecord, recordManyDefault_iter]

/-- a clone of a handle delivers to the same storage as the handle -/
theorem clone_same_inner {I : Type} (h : Handle I) : Handle.clone h = h := rfl

/-! ## no-op handles -/

/-- **noop_no_effect**: calls through no-op handles — any updates, any values, any threads, any schedule, and
    even if the updates were not atomic — leave the cell, the log and the wrap flag untouched -/
theorem noop_no_effect (A : Carrier F) (sh : Shape) (c0 : Nat) (progs : List (List (Call F)))
    (hn : ∀ p ∈ progs, ∀ c ∈ p, c.h = none) (sched : List Nat) :
    (run A sh (init c0 progs) sched).cell = c0 ∧ (run A sh (init c0 progs) sched).log = []
    ∧ (run A sh (init c0 progs) sched).wrapped = false := by
  have hi : AllNoop (init c0 progs) := by
    intro t ht
    simp only [init, List.mem_map] at ht
    obtain ⟨p, hp, rfl⟩ := ht
    exact hn p hp
  have := run_induct A sh
    (fun s => (s.cell = c0 ∧ s.log = [] ∧ s.wrapped = false) ∧ AllNoop s)
    (fun s t hs => by
      obtain ⟨a, b, c, d⟩ := noop_step A sh s t hs.2
      exact ⟨⟨a.trans hs.1.1, b.trans hs.1.2.1, c.trans hs.1.2.2⟩, d⟩)
    sched (init c0 progs) ⟨⟨rfl, rfl, rfl⟩, hi⟩
  exact this.1

/-- no-op handles in the sequential layer: counter/gauge call, `record`, `record_many` change nothing -/
theorem noop_handle_calls {σ : Type} (A : Carrier F) (op : Op F) (c : Nat) (st : σ) (v : F) (n : Nat) :
    handleApply A Handle.noop op c = c
    ∧ histRecord (Handle.noop : Handle (HistFn σ F)) st v = st
    ∧ histRecordMany (Handle.noop : Handle (HistFn σ F)) st v n = st := ⟨rfl, rfl, rfl⟩

/-! ## totality -/

/-- **ops_total**: there is no error or blocked state — whatever the update, its argument, the handle, the cell
    and the other threads, a thread that has a call to make completes it in the one step it is granted -/
theorem ops_total (A : Carrier F) {sh : Shape} (h : AllRmw sh) (s : Sys F) (tid : Nat) (t : Thread F)
    (c : Call F) (rest : List (Call F)) (hg : s.threads[tid]? = some t) (hp : t.prog = c :: rest) :
    (step A sh s tid).threads[tid]? = some { prog := rest, tmp := none } := by
  have hlt := lt_of_getElem? hg
  unfold step
  simp only [hg]
  unfold stepThread
  simp only [hp]
  cases c.h with
  | none => simp [getElem?_setAt, hlt]
  | some u => simp [rmw_of_all h, commit, getElem?_setAt, hlt]

/-- **progress**: from every reachable state (any schedule prefix) some continuation lets every thread return —
    so the "when all threads have returned" theorems above are about schedules that exist, for all programs -/
theorem completion_exists (A : Carrier F) {sh : Shape} (h : AllRmw sh) (c0 : Nat) (progs : List (List (Call F)))
    (pre : List Nat) : ∃ post, AllDone (run A sh (init c0 progs) (pre ++ post)) := by
  obtain ⟨post, hd⟩ := exists_completion A h _ (run A sh (init c0 progs) pre) rfl
  exact ⟨post, by rw [run_append]; exact hd⟩

/-! ## the atomicity obligation is not vacuous -/

/-- a carrier on `Nat` for the witnesses -/
def natCarrier : Carrier Nat := { add := (· + ·), sub := (· - ·), toBits := id, ofBits := id }

/-- **split_loses_update**: if `CounterFn::increment` were `load; store` instead of one `fetch_add`, two threads
    incrementing by 1 can leave 1 (both read 0): `counter_sum` fails on the split machine -/
theorem split_loses_update :
    (run natCarrier { allRmw with inc := false } (init 0 [[⟨some (), .inc 1⟩], [⟨some (), .inc 1⟩]]) [0, 1, 0, 1]).cell = 1
    ∧ AllDone (run natCarrier { allRmw with inc := false } (init 0 [[⟨some (), .inc 1⟩], [⟨some (), .inc 1⟩]]) [0, 1, 0, 1]) := by
  refine ⟨by decide, ?_⟩
  have : (run natCarrier { allRmw with inc := false } (init 0 [[⟨some (), .inc 1⟩], [⟨some (), .inc 1⟩]]) [0, 1, 0, 1]).threads
      = [{ prog := [], tmp := none }, { prog := [], tmp := none }] := by decide
  intro t ht
  rw [this] at ht
  simp at ht
  rw [ht]

/-- the same for a gauge increment written as `load; store`: the log has both increments, the cell only one
    (`linearization` fails on the split machine) -/
theorem split_loses_gauge_update :
    let s := run natCarrier { allRmw with gInc := false } (init 0 [[⟨some (), .gInc 1⟩], [⟨some (), .gInc 1⟩]]) [0, 1, 0, 1]
    s.cell = 1 ∧ s.log.length = 2 ∧ replay natCarrier 0 s.log = 2 := by decide

/-! ## tie to the source: the shape of every update in atomics.rs, handles.rs, common.rs -/

/-- the shape of atomics.rs today (regenerated on every run): an update counts as ONE read-modify-write iff
    its body makes exactly one atomic call on `self`, and that call is the expected RMW method with the
    expected operand -/
def srcShape : Shape :=
  { inc := Generated.atomics_counter_increment_methods == ["fetch_add"] && Generated.atomics_counter_increment_adds_value
    abs := Generated.atomics_counter_absolute_methods == ["fetch_max"] && Generated.atomics_counter_absolute_maxes_value
    gInc := Generated.atomics_gauge_increment_methods == ["fetch_update"] && Generated.atomics_gauge_increment_closure_adds
    gDec := Generated.atomics_gauge_decrement_methods == ["fetch_update"] && Generated.atomics_gauge_decrement_closure_subs
    gSet := Generated.atomics_gauge_set_methods == ["swap"] && Generated.atomics_gauge_set_swaps_value_bits }

/-- obligation **src_rmw_shape**: each of the five update functions is exactly one RMW call of the expected
    method (`fetch_add(value)`, `fetch_max(value)`, `fetch_update(|c| Some((from_bits(c) ± value).to_bits()))`,
    `swap(value.to_bits())`).  Rewriting one as `load` + `store` breaks this — and with it every theorem
    below — although no run on x86 need show a difference. -/
theorem src_rmw_shape : AllRmw srcShape := by decide

def isOrdering (s : String) : Bool :=
  s == "Relaxed" || s == "Release" || s == "Acquire" || s == "AcqRel" || s == "SeqCst"
/-- orderings std accepts for a load (others panic: "there is no such thing as a release load") -/
def isLoadOrdering (s : String) : Bool := s == "Relaxed" || s == "Acquire" || s == "SeqCst"

def ords1 : List (List String) → Bool
  | [[o]] => isOrdering o
  | _ => false
def ords2 : List (List String) → Bool
  | [[o, f]] => isOrdering o && isLoadOrdering f
  | _ => false

/-- obligation: every atomic call carries orderings std accepts without panicking (`fetch_update`'s second
    ordering is used for a load).  Atomicity of a single RMW does not depend on which of them is chosen. -/
theorem src_orderings_legal :
    ords1 Generated.atomics_counter_increment_orderings = true
    ∧ ords1 Generated.atomics_counter_absolute_orderings = true
    ∧ ords2 Generated.atomics_gauge_increment_orderings = true
    ∧ ords2 Generated.atomics_gauge_decrement_orderings = true
    ∧ ords1 Generated.atomics_gauge_set_orderings = true := by decide

/-- obligation: the default `record_many` is `for _ in 0..count { self.record(value) }` (`recordManyDefault`),
    and `impl HistogramFn for Arc<T>` defines `record` only (`HistFn.arc`) -/
theorem src_record_many_default :
    Generated.handles_record_many_range = "0..count"
    ∧ Generated.handles_record_many_body = "self.record(value)"
    ∧ Generated.handles_arc_histogram_fns = ["record"] := by decide

/-- obligation: every handle method is `if let Some(x) = &self.inner { x.<same method>(<converted args>) }`
    (`handleApply`, `histRecord`, `histRecordMany`) -/
theorem src_handle_methods_forward :
    Generated.handles_method_bodies =
      [("Counter::increment", "inner?.increment(value)"), ("Counter::absolute", "inner?.absolute(value)"),
       ("Gauge::increment", "inner?.increment(value.into_f64())"), ("Gauge::decrement", "inner?.decrement(value.into_f64())"),
       ("Gauge::set", "inner?.set(value.into_f64())"), ("Histogram::record", "inner?.record(value.into_f64())"),
       ("Histogram::record_many", "inner?.record_many(value.into_f64(), count)")] := by decide

/-- obligation: the `IntoF64` impls in common.rs are exactly the model's table (type ↦ conversion) -/
theorem src_intof64_table : Generated.intof64_impls = intoF64Table := by decide

/-- `counter_sum` for the storage as it is in the source -/
theorem src_counter_sum (A : Carrier F) (c0 : Nat) (hc : c0 < two64) (progs : List (List (Call F)))
    (hinc : ∀ p ∈ progs, IncOnlyProg p) (sched : List Nat) (hd : AllDone (run A srcShape (init c0 progs) sched)) :
    (run A srcShape (init c0 progs) sched).cell = (c0 + (progs.map progSum).sum) % two64 :=
  counter_sum A src_rmw_shape c0 hc progs hinc sched hd

/-- `linearization` for the storage as it is in the source -/
theorem src_linearization (A : Carrier F) (c0 : Nat) (progs : List (List (Call F))) (sched : List Nat) :
    (run A srcShape (init c0 progs) sched).cell = replay A c0 (run A srcShape (init c0 progs) sched).log :=
  linearization A src_rmw_shape c0 progs sched

/-! ## round 2: `GaugeValue::update_value`, `Arc<T>` forwarding, `__into_f64`, bit-level IEEE carrier -/

/-- **update_value_is_storage_update**: for every gauge value, every carrier and every cell content,
    `update_value` applied to the value in the cell is exactly what the corresponding storage update
    (`set`/`increment`/`decrement` on the `AtomicU64`) writes -/
theorem update_value_is_storage_update (A : Carrier F) (gv : GaugeValue F) (c : Nat) :
    A.toBits (gv.updateValue A (A.ofBits c)) = applyOp A gv.toOp c := by
  cases gv <;> rfl

theorem gApply_toOp (A : Carrier F) (gv : GaugeValue F) (x : F) : gApply A gv.toOp x = gv.updateValue A x := by
  cases gv <;> rfl

theorem foldr_update_value (A : Carrier F) (z : F) :
    ∀ (log : List (Nat × Op F)) (vals : List (GaugeValue F)), log.map (·.2) = vals.map GaugeValue.toOp →
      log.foldr (fun e x => gApply A e.2 x) z = vals.foldr (fun gv x => gv.updateValue A x) z
  | [], [], _ => rfl
  | [], _ :: _, h => by simp at h
  | _ :: _, [], h => by simp at h
  | e :: log, gv :: vals, h => by
    simp only [List.map_cons, List.cons.injEq] at h
    simp only [List.foldr_cons]
    rw [foldr_update_value A z log vals h.2, h.1, gApply_toOp]

/-- **update_value_replays_gauge**: an exporter that replays the gauge values (`vals`, newest first like the
    log) in the order the updates took effect, with `update_value`, starting from the initial value, arrives
    at exactly the value the storage holds — any threads, any schedule -/
theorem update_value_replays_gauge (A : Carrier F) (hrt : ∀ x, A.ofBits (A.toBits x) = x) {sh : Shape} (h : AllRmw sh)
    (c0 : Nat) (progs : List (List (Call F))) (hg : ∀ p ∈ progs, ∀ op ∈ effOps p, GaugeOp op) (sched : List Nat)
    (vals : List (GaugeValue F))
    (hv : (run A sh (init c0 progs) sched).log.map (·.2) = vals.map GaugeValue.toOp) :
    A.ofBits (run A sh (init c0 progs) sched).cell = vals.foldr (fun gv x => gv.updateValue A x) (A.ofBits c0) := by
  rw [(gauge_linear A hrt h c0 progs hg sched).1]
  exact foldr_update_value A _ _ vals hv

/-- **arc_forwards**: a `CounterFn`/`GaugeFn` behind any number of `Arc`s does exactly what the innermost
    implementation does (`impl … for Arc<T>` forwards every method with the same argument) -/
theorem arc_forwards {σ : Type} (inner : UpdFn σ F) (k : Nat) : (UpdFn.arcN inner k).apply = inner.apply := by
  induction k with
  | zero => rfl
  | succ k ih => exact ih

/-- … in particular a handle on `Arc<…Arc<AtomicU64>…>` applies the storage update itself -/
theorem nested_arc_is_cell_update (A : Carrier F) (k : Nat) (op : Op F) (c : Nat) :
    (UpdFn.arcN (cellFn A) k).apply op c = applyOp A op c := by
  rw [arc_forwards]; rfl

/-- `__into_f64` is `into_f64` -/
theorem dunder_into_f64_is_into_f64 (a : Arg) : dunderIntoF64Bits a = intoF64Bits a := rfl

/-- the bit-level carrier has `from_bits (to_bits x) = x` (both are the identity) -/
theorem ieee_roundtrip (x : Nat) : ieeeCarrier.ofBits (ieeeCarrier.toBits x) = x := rfl

/-- **gauge_linear_ieee**: `gauge_linear` with IEEE-754 addition and subtraction on the bits themselves (rounding,
    signed zeros, subnormals, overflow, NaN/∞ included) — no hypothesis on the arithmetic is left -/
theorem gauge_linear_ieee {sh : Shape} (h : AllRmw sh) (c0 : Nat)
    (progs : List (List (Call Nat))) (hg : ∀ p ∈ progs, ∀ op ∈ effOps p, GaugeOp op) (sched : List Nat) :
    (run ieeeCarrier sh (init c0 progs) sched).cell
      = (run ieeeCarrier sh (init c0 progs) sched).log.foldr (fun e x => gApply ieeeCarrier e.2 x) c0
    ∧ (∀ tid p, progs[tid]? = some p → ∃ t, (run ieeeCarrier sh (init c0 progs) sched).threads[tid]? = some t
          ∧ effOps p = (proj tid (run ieeeCarrier sh (init c0 progs) sched).log).reverse ++ effOps t.prog)
    ∧ (run ieeeCarrier sh (init c0 progs) sched).log.length + pendingLen (run ieeeCarrier sh (init c0 progs) sched)
        = (progs.map (fun p => (effOps p).length)).sum :=
  gauge_linear ieeeCarrier ieee_roundtrip h c0 progs hg sched

/-- every magnitude below 2^53 (all subnormals and the first binade) is representable: no rounding -/
theorem roundMag_small (s : Nat) (h : s < 2 ^ 53) : roundMag s = s := by
  simp [roundMag, h]

/-- a NaN operand makes the sum a NaN, whatever the other operand -/
theorem f64Add_nan (a b : Nat) (h : f64IsNaN a = true ∨ f64IsNaN b = true) : f64IsNaN (f64Add a b) = true := by
  have hd : f64IsNaN defaultNaN = true := by decide
  unfold f64Add
  rcases h with h | h <;> simp [h, hd]

/-- IEEE addition on concrete operands (kernel evaluation): 0.1 + 0.2 = 0.30000000000000004; −0 + −0 = −0;
    −0 + +0 = +0; x − x = +0; 2^53 + 1 = 2^53 (tie to even); 2^53 + 3 = 2^53 + 4; MAX + MAX = +∞;
    ∞ − ∞ = NaN; MIN_POSITIVE − 5e-324 = the largest subnormal; 5e-324 + 5e-324 = 1e-323 -/
theorem f64Add_witnesses :
    f64Add 0x3fb999999999999a 0x3fc999999999999a = 0x3fd3333333333334
    ∧ f64Add 0x8000000000000000 0x8000000000000000 = 0x8000000000000000
    ∧ f64Add 0x8000000000000000 0 = 0
    ∧ f64Sub 0x3fb999999999999a 0x3fb999999999999a = 0
    ∧ f64Add 0x4340000000000000 0x3ff0000000000000 = 0x4340000000000000
    ∧ f64Add 0x4340000000000000 0x4008000000000000 = 0x4340000000000002
    ∧ f64Add 0x7fefffffffffffff 0x7fefffffffffffff = 0x7ff0000000000000
    ∧ f64IsNaN (f64Sub 0x7ff0000000000000 0x7ff0000000000000) = true
    ∧ f64Sub 0x0010000000000000 1 = 0x000fffffffffffff
    ∧ f64Add 1 1 = 2 := by decide +kernel

/-- **split_abs_loses_absolute**: if `CounterFn::absolute` were `load; store(max(loaded, v))` instead of one
    `fetch_max`, an `absolute(50)` that loaded before another thread's `absolute(100)` took effect lowers the
    counter to 50 — below an absolute value given — although nothing wrapped: `counter_abs` fails on the split
    machine (the class of seed C04-3: a check-then-act `absolute`) -/
theorem split_abs_loses_absolute :
    let s := run natCarrier { allRmw with abs := false } (init 0 [[⟨some (), .abs 100⟩], [⟨some (), .abs 50⟩]]) [1, 0, 0, 1]
    s.cell = 50 ∧ s.wrapped = false ∧ s.log.length = 2 := by decide +kernel

/-- obligation: the five update functions of atomics.rs are, in full, the single calls the model takes them for
    (nothing before, after or around the call: no shadowed `value`, no guard, no second access) -/
theorem src_update_bodies_exact :
    Generated.atomics_update_bodies =
      [("counter_increment", "{ let _ = self.fetch_add(value, Ordering::_); }"),
       ("counter_absolute", "{ let _ = self.fetch_max(value, Ordering::_); }"),
       ("gauge_increment", "{ loop { let result = self.fetch_update(Ordering::_, Ordering::_, |curr| { let input = f64::from_bits(curr); let output = input + value; Some(output.to_bits()) }); if result.is_ok() { break; } } }"),
       ("gauge_decrement", "{ loop { let result = self.fetch_update(Ordering::_, Ordering::_, |curr| { let input = f64::from_bits(curr); let output = input - value; Some(output.to_bits()) }); if result.is_ok() { break; } } }"),
       ("gauge_set", "{ let _ = self.swap(value.to_bits(), Ordering::_); }")] := by decide +kernel

/-- obligation: the arms of `GaugeValue::update_value` are the model's (`GaugeValue.updateValue`) -/
theorem src_update_value_arms : Generated.common_update_value_arms = updateValueArms := by decide

/-- obligation: `__into_f64(value)` is `value.into_f64()` -/
theorem src_dunder_into_f64 : Generated.common_dunder_into_f64_body = "value.into_f64()" := by decide

/-- obligation: every method of `impl CounterFn/GaugeFn/HistogramFn for Arc<T>` forwards to the same method of
    `T` with the same argument (`UpdFn.arc`, `HistFn.arc`) -/
theorem src_arc_impls_forward : Generated.handles_arc_forward_bodies = arcForwardTable := by decide

/-- obligation: `from_arc(a)` is `Self { inner: Some(a) }` and `From<Arc<T>>` is `from_arc` (`Handle.fromArc`) -/
theorem src_ctor_bodies : Generated.handles_ctor_bodies = ctorTable := by decide

/-! ## round 4: inside `fetch_update` — the compare-and-swap loop (`Model/AtomicsCas.lean`)

Up to round 3 `fetch_update` was ONE trusted step.  Here the gauge increment / decrement are what std executes:
`prev = load; loop { next = closure(prev); CAS(prev → next) succeeds → return | fails → prev = value seen }`, a
thread can be stopped between the load / a failed CAS and the next CAS (the `#[cfg(metrics_verif)]` yield point
at the head of the closure: hook-C04), and `compare_exchange_weak` may fail spuriously.  All statements are for
every shape (any update may be a CAS loop), every schedule incl. spurious failures, any number of threads. -/

/-- **cas_refines_rmw**: whatever the CAS-loop machine does under a schedule, the single-RMW machine does under a
    subsequence of that schedule's thread ids (the steps at which a CAS succeeded, a single instruction ran, or a
    no-op call returned): same cell, same log, same wrap flag, same calls left in every thread.  Loads and failed
    CASes change nothing but the thread's private `prev`. -/
theorem cas_refines_rmw (A : Carrier F) (sh : Shape) (c0 : Nat) (progs : List (List (Call F)))
    (sched : List (Nat × Bool)) :
    ∃ sched' : List Nat, sched'.Sublist (sched.map Prod.fst)
      ∧ erase (casRun A sh (init c0 progs) sched) = run A allRmw (init c0 progs) sched' := by
  obtain ⟨sched', hs, he⟩ := cas_run_refines A sh sched (init c0 progs)
  exact ⟨sched', hs, by rw [he, erase_init]⟩

/-- **cas_linearization**: on the CAS-loop machine too the cell is, in every reachable state, the initial value
    with the logged updates applied one after the other — a successful CAS applies the closure to the value that
    IS in the cell at that instant (`prev` = cell), so no update is computed from a stale value -/
theorem cas_linearization (A : Carrier F) (sh : Shape) (c0 : Nat) (progs : List (List (Call F)))
    (sched : List (Nat × Bool)) :
    (casRun A sh (init c0 progs) sched).cell = replay A c0 (casRun A sh (init c0 progs) sched).log := by
  obtain ⟨sched', _, he⟩ := cas_refines_rmw A sh c0 progs sched
  have h := linearization A allRmw_all c0 progs sched'
  rw [← he] at h
  exact h

/-- **cas_exactly_once**: none lost, none doubled on the CAS-loop machine: per thread, logged updates followed by
    the updates still to make are its program's effective updates in program order — retries do not re-apply -/
theorem cas_exactly_once (A : Carrier F) (sh : Shape) (c0 : Nat) (progs : List (List (Call F)))
    (sched : List (Nat × Bool)) (tid : Nat) (p : List (Call F)) (hp : progs[tid]? = some p) :
    ∃ t, (casRun A sh (init c0 progs) sched).threads[tid]? = some t
      ∧ effOps p = (proj tid (casRun A sh (init c0 progs) sched).log).reverse ++ effOps t.prog := by
  obtain ⟨sched', _, he⟩ := cas_refines_rmw A sh c0 progs sched
  obtain ⟨t', ht', hpr⟩ := exactly_once A allRmw_all c0 progs sched' tid p hp
  rw [← he, erase_threads_get] at ht'
  rw [← he] at hpr
  cases hg : (casRun A sh (init c0 progs) sched).threads[tid]? with
  | none => rw [hg] at ht'; cases ht'
  | some t =>
    rw [hg] at ht'
    simp only [Option.map_some, Option.some.injEq] at ht'
    subst ht'
    exact ⟨t, rfl, hpr⟩

/-- **cas_gauge_linear_ieee**: gauge programs (increment / decrement / set, any f64 operands) on the CAS-loop
    machine with IEEE-754 arithmetic on the bits: the cell is the fold of ALL logged updates in the order they
    took effect, and log length + calls still to make = all effective calls -/
theorem cas_gauge_linear_ieee (sh : Shape) (c0 : Nat) (progs : List (List (Call Nat)))
    (hg : ∀ p ∈ progs, ∀ op ∈ effOps p, GaugeOp op) (sched : List (Nat × Bool)) :
    (casRun ieeeCarrier sh (init c0 progs) sched).cell
      = (casRun ieeeCarrier sh (init c0 progs) sched).log.foldr (fun e x => gApply ieeeCarrier e.2 x) c0
    ∧ (casRun ieeeCarrier sh (init c0 progs) sched).log.length + pendingLen (casRun ieeeCarrier sh (init c0 progs) sched)
        = (progs.map (fun p => (effOps p).length)).sum := by
  obtain ⟨sched', _, he⟩ := cas_refines_rmw ieeeCarrier sh c0 progs sched
  have h := gauge_linear_ieee allRmw_all c0 progs hg sched'
  rw [← he, erase_pendingLen] at h
  exact ⟨h.1, h.2.2⟩

/-- **cas_counter_sum**: increments only, even if `fetch_add` itself were a CAS loop (as on targets without a
    native 64-bit RMW): once every thread has returned the counter is (initial + Σ increments) mod 2^64 -/
theorem cas_counter_sum (A : Carrier F) (sh : Shape) (c0 : Nat) (hc : c0 < two64) (progs : List (List (Call F)))
    (hinc : ∀ p ∈ progs, IncOnlyProg p) (sched : List (Nat × Bool))
    (hd : AllDone (casRun A sh (init c0 progs) sched)) :
    (casRun A sh (init c0 progs) sched).cell = (c0 + (progs.map progSum).sum) % two64 := by
  obtain ⟨sched', _, he⟩ := cas_refines_rmw A sh c0 progs sched
  have hd' : AllDone (run A allRmw (init c0 progs) sched') := by rw [← he]; exact (erase_allDone _).mpr hd
  have h := counter_sum A allRmw_all c0 hc progs hinc sched' hd'
  rw [← he] at h
  exact h

/-- a thread whose `prev` is what the cell holds (or whose call is a single instruction, or goes through a no-op
    handle) completes its call in the step it is granted -/
theorem cas_commits_when_fresh (A : Carrier F) (sh : Shape) (s1 : Sys F) (tid : Nat) (t1 : Thread F) (c : Call F)
    (rest : List (Call F)) (hg1 : s1.threads[tid]? = some t1) (hp1 : t1.prog = c :: rest)
    (htmp : ∀ u, c.h = some u → sh.rmw c.op = false → t1.tmp = some s1.cell) :
    ∃ t2, (casStep A sh s1 (tid, false)).threads[tid]? = some t2 ∧ t2.prog = rest := by
  have hlt1 := lt_of_getElem? hg1
  unfold casStep
  simp only [hg1]
  unfold casStepThread
  simp only [hp1]
  cases hh : c.h with
  | none => exact ⟨{ prog := rest, tmp := none }, by simp [getElem?_setAt, hlt1], rfl⟩
  | some u =>
    cases hr : sh.rmw c.op with
    | true => exact ⟨{ prog := rest, tmp := none }, by simp [commit, getElem?_setAt, hlt1], rfl⟩
    | false =>
      simp only [Bool.false_eq_true, if_false, htmp u hh hr, and_self, if_true]
      exact ⟨{ prog := rest, tmp := none }, by simp [commit, getElem?_setAt, hlt1], rfl⟩

/-- **cas_fails_only_on_interference**: a thread has read the cell (`prev` = cell); other threads then take any
    steps (`mid`: loads, failed and spurious CASes, calls through no-op handles — anything) during which NO update
    takes effect (the log does not grow).  Then the thread's next compare-exchange succeeds and its call returns.
    Contrapositive: every real CAS failure — every re-evaluation of the closure — is paid for by an update of
    another thread that took effect since the value was read; a gauge update cannot be starved by readers or by
    threads that themselves keep failing. -/
theorem cas_fails_only_on_interference (A : Carrier F) (sh : Shape) (s : Sys F) (tid : Nat) (t : Thread F)
    (c : Call F) (rest : List (Call F)) (hg : s.threads[tid]? = some t) (hp : t.prog = c :: rest)
    (htmp : t.tmp = some s.cell) (mid : List (Nat × Bool)) (hmid : ∀ x ∈ mid, x.1 ≠ tid)
    (hlog : (casRun A sh s mid).log.length = s.log.length) :
    ∃ t2, (casStep A sh (casRun A sh s mid) (tid, false)).threads[tid]? = some t2 ∧ t2.prog = rest := by
  have hth := casRun_other_threads A sh tid mid s hmid
  have hcell := casRun_cell_of_log A sh mid s hlog
  exact cas_commits_when_fresh A sh _ tid t c rest (by rw [hth, hg]) hp (fun _ _ _ => by rw [hcell]; exact htmp)

/-- **cas_obstruction_free**: a thread that is granted two steps in a row (no other thread in between, no spurious
    failure) completes the call it is in — whatever `prev` it held: the first step (re)loads or commits, the
    second commits.  So every retry is CAUSED by another thread's step in between; there is no livelock of a
    thread running alone, for any operand (NaN and ±0.0 cells included: the CAS compares bits). -/
theorem cas_obstruction_free (A : Carrier F) (sh : Shape) (s : Sys F) (tid : Nat) (t : Thread F) (c : Call F)
    (rest : List (Call F)) (hg : s.threads[tid]? = some t) (hp : t.prog = c :: rest) :
    (∃ t1, (casStep A sh s (tid, false)).threads[tid]? = some t1 ∧ t1.prog = rest)
    ∨ (∃ t2, (casStep A sh (casStep A sh s (tid, false)) (tid, false)).threads[tid]? = some t2 ∧ t2.prog = rest) := by
  have hlt := lt_of_getElem? hg
  -- a step of a thread parked at the CAS with `prev` = cell commits
  have hcas : ∀ (s1 : Sys F) (t1 : Thread F), s1.threads[tid]? = some t1 → t1.prog = c :: rest →
      (∀ u, c.h = some u → sh.rmw c.op = false → t1.tmp = some s1.cell) →
      ∃ t2, (casStep A sh s1 (tid, false)).threads[tid]? = some t2 ∧ t2.prog = rest := by
    intro s1 t1 hg1 hp1 htmp
    have hlt1 := lt_of_getElem? hg1
    unfold casStep
    simp only [hg1]
    unfold casStepThread
    simp only [hp1]
    cases hh : c.h with
    | none => exact ⟨{ prog := rest, tmp := none }, by simp [getElem?_setAt, hlt1], rfl⟩
    | some u =>
      cases hr : sh.rmw c.op with
      | true => exact ⟨{ prog := rest, tmp := none }, by simp [commit, getElem?_setAt, hlt1], rfl⟩
      | false =>
        simp only [Bool.false_eq_true, if_false, htmp u hh hr, and_self, if_true]
        exact ⟨{ prog := rest, tmp := none }, by simp [commit, getElem?_setAt, hlt1], rfl⟩
  cases hh : c.h with
  | none => exact .inl (hcas s t hg hp (fun u hu => by rw [hh] at hu; cases hu))
  | some u =>
    cases hr : sh.rmw c.op with
    | true => exact .inl (hcas s t hg hp (fun _ _ hf => by rw [hr] at hf; cases hf))
    | false =>
      by_cases hc : t.tmp = some s.cell
      · exact .inl (hcas s t hg hp (fun _ _ _ => hc))
      · -- the first step only reloads: cell unchanged, `prev` = cell afterwards
        refine .inr ?_
        have h1 : casStep A sh s (tid, false) = { s with threads := setAt s.threads tid { t with tmp := some s.cell } } := by
          unfold casStep
          simp only [hg]
          unfold casStepThread
          simp only [hp, hh, hr, Bool.false_eq_true, if_false]
          cases ht : t.tmp with
          | none => rfl
          | some prev =>
            have hne : ¬ (prev = s.cell ∧ True) := by
              intro hx; apply hc; rw [ht, hx.1]
            simp only [if_neg hne]
        rw [h1]
        exact hcas _ { t with tmp := some s.cell } (by simp [getElem?_setAt, hlt]) hp (fun _ _ _ => rfl)

/-- the shape of atomics.rs at CAS-loop granularity, from the source: `fetch_add`, `fetch_max`, `swap` are single
    instructions, an update made with `fetch_update` is a CAS loop -/
def srcCasShape : Shape :=
  { inc := Generated.atomics_counter_increment_methods == ["fetch_add"]
    abs := Generated.atomics_counter_absolute_methods == ["fetch_max"]
    gInc := !(Generated.atomics_gauge_increment_methods == ["fetch_update"])
    gDec := !(Generated.atomics_gauge_decrement_methods == ["fetch_update"])
    gSet := Generated.atomics_gauge_set_methods == ["swap"] }

/-- obligation: the machine the scheduled correspondence runs use (`casShape`) is the source's -/
theorem src_cas_shape : srcCasShape = casShape := by decide

/-- obligation: each `fetch_update` closure has exactly one yield point, as its FIRST statement (so a scheduled
    thread stops once per closure evaluation, after the load / failed CAS and before the next CAS — the step
    granularity of `casStepThread`), and no other update function has one -/
theorem src_cas_yield_points :
    Generated.atomics_yield_points =
      [("counter_increment", "none"), ("counter_absolute", "none"),
       ("gauge_increment", "closure-head:atomics.gauge.cas"), ("gauge_decrement", "closure-head:atomics.gauge.cas"),
       ("gauge_set", "none")] := by decide

/-- obligation: `AtomicU64` is std's on every target with 64-bit atomics and `portable_atomic`'s on 32-bit
    targets — the two `pub use` lines and nothing else define the name (a crate-local type with hand-written
    `fetch_update`/`fetch_max`/`swap` would keep every body above textually identical) -/
theorem src_atomic_u64_is_std :
    Generated.atomics_atomic_u64_defs =
      ["#[cfg(target_pointer_width = \"32\")] pub use portable_atomic::AtomicU64;",
       "#[cfg(not(target_pointer_width = \"32\"))] pub use std::sync::atomic::AtomicU64;"]
    ∧ Generated.atomics_items = ["use std::sync::atomic::Ordering;", "use super::{CounterFn, GaugeFn};",
        "impl CounterFn for AtomicU64", "impl GaugeFn for AtomicU64"] := by decide

/-- obligation: the three handle structs are `#[derive(Clone)] { inner: Option<Arc<dyn …Fn + Send + Sync>> }`
    (`Handle I = Option I`, `Handle.clone h = h`: the derived clone copies the `Arc`), `noop()` is
    `Self { inner: None }` (`Handle.noop`), and handles.rs has no impl besides Debug, the inherent ones, the
    `Arc<T>` forwards and `From<Arc<T>>` — no hand-written `Clone`, `Drop` or `Deref` that could make a clone of
    a clone (or the third live clone) behave differently from the handle it came from -/
theorem src_handle_decls :
    Generated.handles_struct_decls =
      [("Counter", "derive(Clone)", "inner: Option<Arc<dyn CounterFn + Send + Sync>>"),
       ("Gauge", "derive(Clone)", "inner: Option<Arc<dyn GaugeFn + Send + Sync>>"),
       ("Histogram", "derive(Clone)", "inner: Option<Arc<dyn HistogramFn + Send + Sync>>")]
    ∧ Generated.handles_noop_bodies =
      [("Counter::noop", "Self { inner: None }"), ("Gauge::noop", "Self { inner: None }"),
       ("Histogram::noop", "Self { inner: None }")]
    ∧ Generated.handles_impl_headers =
      ["impl Debug for Counter", "impl Debug for Gauge", "impl Debug for Histogram", "impl Counter", "impl Gauge",
       "impl Histogram", "impl<T> CounterFn for Arc<T> where T: CounterFn,", "impl<T> GaugeFn for Arc<T> where T: GaugeFn,",
       "impl<T> HistogramFn for Arc<T> where T: HistogramFn,",
       "impl<T> From<Arc<T>> for Counter where T: CounterFn + Send + Sync + 'static,",
       "impl<T> From<Arc<T>> for Gauge where T: GaugeFn + Send + Sync + 'static,",
       "impl<T> From<Arc<T>> for Histogram where T: HistogramFn + Send + Sync + 'static,"] := by decide

/-- obligation: the trait surface — `CounterFn`/`GaugeFn` have exactly the modelled methods (`Op`), taking `&self`
    and a `u64`/`f64`, none with a default body; `HistogramFn` has `record` and `record_many`, the latter the only
    default method (`HistFn.ofRecord`) -/
theorem src_trait_decls :
    Generated.handles_trait_decls =
      [("CounterFn", ["fn increment(&self, value: u64)", "fn absolute(&self, value: u64)"]),
       ("GaugeFn", ["fn increment(&self, value: f64)", "fn decrement(&self, value: f64)", "fn set(&self, value: f64)"]),
       ("HistogramFn", ["fn record(&self, value: f64)", "fn record_many(&self, value: f64, count: usize) {default}"])] := by
  decide

/-- obligation: the modules the facts are read from are the ones compiled — `atomics`, `common`, `handles` are
    declared once each in lib.rs, without `#[path]`/`#[cfg]` attributes; handles.rs imports only `Debug`, `Arc`
    and `IntoF64` (no extension trait that could capture a method call of the pinned bodies) -/
theorem src_module_files :
    Generated.lib_mod_decls = ["pub mod atomics;", "mod common;", "mod handles;"]
    ∧ Generated.handles_uses = ["use std::{fmt::Debug, sync::Arc};", "use crate::IntoF64;"] := by decide

/-- the two-thread race the scheduled runs replay on the real code: A loads 0.1, B's `set(−0.0)` takes effect, A's
    CAS fails and retries on −0.0, then B increments by 0.2: the log has three entries, the cell is their fold
    (−0.0 + 0.1 = 0.1, + 0.2 = 0.30000000000000004), A's closure ran twice -/
theorem cas_retry_witness :
    let s := casRun ieeeCarrier casShape
      (init 0x3fb999999999999a [[⟨some (), .gInc 0x3fb999999999999a⟩], [⟨some (), .gSet 0x8000000000000000⟩, ⟨some (), .gInc 0x3fc999999999999a⟩]])
      [(0, false), (1, false), (0, false), (0, false), (1, false), (1, false)]
    s.cell = 0x3fd3333333333334 ∧ s.log.length = 3 ∧ replay ieeeCarrier 0x3fb999999999999a s.log = s.cell := by
  decide +kernel

/-! ## non-vacuity -/

/-- update_value on the IEEE carrier: −0.0 incremented by −0.0 stays −0.0, by +0.0 becomes +0.0; Absolute ignores the input -/
example : (GaugeValue.increment 0x8000000000000000).updateValue ieeeCarrier 0x8000000000000000 = 0x8000000000000000
    ∧ (GaugeValue.increment 0).updateValue ieeeCarrier 0x8000000000000000 = 0
    ∧ (GaugeValue.decrement 0x3ff0000000000000).updateValue ieeeCarrier 0x3ff8000000000000 = 0x3fe0000000000000
    ∧ (GaugeValue.absolute 7).updateValue ieeeCarrier 0x3ff8000000000000 = 7 := by decide +kernel

/-- two threads on the IEEE carrier: 0.1 then 0.2 (another clone) then −0.30000000000000004: exactly +0.0 -/
example :
    let s := run ieeeCarrier allRmw
      (init 0 [[⟨some (), .gInc 0x3fb999999999999a⟩, ⟨some (), .gDec 0x3fd3333333333334⟩], [⟨some (), .gInc 0x3fc999999999999a⟩]]) [0, 1, 0]
    s.cell = 0 ∧ s.log.length = 3 := by decide +kernel

/-- three clones on three threads, increments that wrap around 2^64, an interleaved schedule -/
example :
    let progs : List (List (Call Val)) :=
      [[⟨some (), .inc (two64 - 1)⟩, ⟨some (), .inc 5⟩], [⟨some (), .inc 7⟩, ⟨none, .inc 1000⟩], [⟨some (), .inc 2⟩]]
    let s := run dyCarrier allRmw (init 3 progs) [1, 0, 2, 1, 0, 0]
    s.cell = 16 ∧ s.wrapped = true ∧ s.log.length = 4 ∧ (3 + (progs.map progSum).sum) % two64 = 16 := by decide

/-- absolutes racing with increments: the older (smaller) absolute arrives late and does not lower the counter -/
example :
    let s := run dyCarrier allRmw
      (init 0 [[⟨some (), .abs 100⟩], [⟨some (), .abs 40⟩], [⟨some (), .inc 3⟩]]) [0, 2, 1]
    s.cell = 103 ∧ s.wrapped = false := by decide

/-- gauge: +1.5, set 8.0, −0.25 from two threads; the log replays to the cell, the value is 7.75 (= 7936/1024) -/
example :
    let s := run dyCarrier allRmw
      (init 0 [[⟨some (), .gInc (.dy 1536)⟩, ⟨some (), .gDec (.dy 256)⟩], [⟨some (), .gSet (.dy 8192)⟩]]) [0, 1, 0]
    decodeF64 s.cell = .dy 7936 ∧ s.cell = 0x401f000000000000 ∧ replay dyCarrier 0 s.log = s.cell := by decide

/-- record_many through a handle on `Arc<Arc<Log>>` whose inner `record_many` is broken: still 3 deliveries -/
example : histRecordMany (Handle.fromArc (HistFn.arcN ⟨logRecord, fun l _ _ => l⟩ 2)) [1] (7 : Nat) 3 = [1, 7, 7, 7] := by
  decide

/-- the dyadic carrier round-trips on its exact values -/
example : decodeF64 (Val.toBits (.dy (-1536))) = .dy (-1536) ∧ decodeF64 (Val.toBits (.inf true)) = .inf true
    ∧ decodeF64 0x8000000000000000 = .raw 0x8000000000000000 := by decide

end MetricsVerif.C04
