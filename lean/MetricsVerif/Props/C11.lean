import MetricsVerif.Proofs.Tcp
import MetricsVerif.Proofs.TcpProd
import MetricsVerif.Generated.SourceFacts

/-
C11 — the TCP exporter streams whole frames to every connected client, whatever others do.

Theorems about the model `Model/Tcp.lean` of `run_transport` / `drive_connection`
(`metrics-exporter-tcp/src/lib.rs`) with the three repairs of this round (`Fixes` all `true`), for ALL
sequences of events `wake` / `accept` / `writable` and ALL write results the sockets may answer
(`ok n`, `ok 0`, `wouldBlock`, `interrupted`, `err`), for `buffer_size` `None` and every `Some n`.
Unbounded: induction over the event list (`run_inv`) and over the write results (`drive_preserves`).

The model is tied to the code by trace validation (harness/src/c11.rs): the hook's event trace of real exporter
sessions, with the kernel's actual write results, is replayed through this model and compared step by step.
Eventual delivery (that a WRITABLE event does arrive) is the kernel's and mio's business and only exercised.
-/
namespace MetricsVerif.C11
open MetricsVerif.Tcp

/-! ### the inductive invariant -/

/-- per client: framing (`FramedAny`, and `FramedW` while connected), order/at-most-once (`Ordered`),
    nothing lost while nothing was discarded (`NoLoss`) -/
def ClientInv (cl : Client) : Prop :=
  FramedAny cl ∧ Ordered cl ∧ NoLoss cl ∧ MetaFirst cl ∧ (cl.alive = true → FramedW cl)

/-- `client_count` counts the connected clients and `should_send` says whether there is one -/
def Gate (s : State) : Prop :=
  s.clientCount = aliveCount s.clients ∧ s.shouldSend = decide (0 < s.clientCount)

def StateInv (s : State) : Prop :=
  s.fixes = {} ∧ Gate s ∧ ∀ p ∈ s.clients, ClientInv p.2

theorem wakeClient_inv (fx : Fixes) (hfx : fx.block = true) (lim : Nat) (batch : List Frame) (cl : Client)
    (rs : List WriteResult) (h : ClientInv cl) : ClientInv (wakeClient fx lim batch cl rs).cl := by
  obtain ⟨hA, hO, hN, hM, hW⟩ := h
  unfold wakeClient
  cases ha : cl.alive with
  | false => exact ⟨hA, hO, hN, hM, by simp [ha]⟩
  | true =>
    have d1 := drive_framed fx hfx rs cl (hW ha)
    have o1 := drive_ordered fx hfx rs cl hO
    have n1 := drive_noLoss fx hfx rs cl hN
    have m1 := drive_metaFirst fx hfx rs cl hM
    cases hd : (drive fx cl rs).done with
    | true =>
      simp only [Bool.not_true, Bool.false_eq_true, if_false, hd, if_true]
      exact ⟨d1.2, o1, n1, m1, fun h => by cases h⟩
    | false =>
      simp only [Bool.not_true, Bool.false_eq_true, if_false, hd]
      have hF2 : FramedW (enqueue lim batch (drive fx cl rs).cl) := (enqueue_framedW _ _ _).2 (d1.1 hd)
      have d2 := drive_framed fx hfx (drive fx cl rs).rest _ hF2
      have o2 := drive_ordered fx hfx (drive fx cl rs).rest _ (enqueue_ordered lim batch _ o1)
      have n2 := drive_noLoss fx hfx (drive fx cl rs).rest _ (enqueue_noLoss lim batch _ n1)
      have m2 := drive_metaFirst fx hfx (drive fx cl rs).rest _ (enqueue_metaFirst lim batch _ m1)
      refine ⟨d2.2, o2, n2, m2, fun hal => d2.1 ?_⟩
      simpa using hal

theorem writableClient_inv (fx : Fixes) (hfx : fx.block = true) (c : Nat) (rs : List WriteResult) (k : Nat)
    (cl : Client) (h : ClientInv cl) : ClientInv (writableClient fx c rs k cl).cl := by
  obtain ⟨hA, hO, hN, hM, hW⟩ := h
  unfold writableClient
  split
  · rename_i hc
    have ha : cl.alive = true := by simp at hc; exact hc.2
    have d1 := drive_framed fx hfx rs cl (hW ha)
    refine ⟨d1.2, drive_ordered fx hfx rs cl hO, drive_noLoss fx hfx rs cl hN,
      drive_metaFirst fx hfx rs cl hM, fun hal => d1.1 ?_⟩
    simpa using hal
  · exact ⟨hA, hO, hN, hM, hW⟩

theorem wakeClient_stepOk (fx : Fixes) (lim : Nat) (batch : List Frame)
    (g : Nat → List WriteResult) : StepOk (fun k cl => wakeClient fx lim batch cl (g k)) := by
  intro k cl
  simp only [wakeClient]
  cases ha : cl.alive with
  | false => simp [ha]
  | true =>
    cases hd : (drive fx cl (g k)).done with
    | true => simp
    | false =>
      simp only [Bool.not_true, Bool.false_eq_true, if_false]
      cases (drive fx (enqueue lim batch (drive fx cl (g k)).cl) (drive fx cl (g k)).rest).done <;> simp

theorem writableClient_stepOk (fx : Fixes) (c : Nat) (rs : List WriteResult) :
    StepOk (writableClient fx c rs) := by
  intro k cl
  simp only [writableClient]
  split
  · rename_i hc
    have ha : cl.alive = true := by simp at hc; exact hc.2
    cases (drive fx cl rs).done <;> simp [ha]
  · cases cl.alive <;> simp

theorem aliveCount_append_alive (cs : List (Nat × Client)) (t : Nat) (cl : Client) (h : cl.alive = true) :
    aliveCount (cs ++ [(t, cl)]) = aliveCount cs + 1 := by
  simp [aliveCount, List.filter_append, h]

theorem step_fixes (s : State) (e : Event) : (step s e).fixes = s.fixes := by
  cases e with
  | wake m f r => simp only [step, wakeFull]; split <;> rfl
  | accept p => rfl
  | writable c r => rfl

/-- one event keeps the invariant -/
theorem step_inv (s : State) (e : Event) (h : StateInv s) : StateInv (step s e) := by
  obtain ⟨hfx, ⟨hc, hs⟩, hcl⟩ := h
  refine ⟨by rw [step_fixes, hfx], ?_, ?_⟩
  · -- gate
    cases e with
    | wake metas frames rs =>
      simp only [step, wakeFull]
      split
      · exact ⟨hc, hs⟩
      · simp only [hfx, if_true]
        have hk := alive_removed _ (wakeClient_stepOk {} s.limit (frames.take s.limit)
          (fun k => (lookupKey k rs).getD [])) s.clients
        rw [decN_spec _ _ _ (by omega) hs]
        exact ⟨by simp only []; omega, rfl⟩
    | accept perm =>
      simp only [Gate, step, accept, incrementClients]
      rw [aliveCount_append_alive _ _ _ rfl]
      exact ⟨by omega, by simp⟩
    | writable c rs =>
      simp only [step, writableFull]
      have hk := alive_removed _ (writableClient_stepOk s.fixes c rs) s.clients
      rw [decN_spec _ _ _ (by omega) hs]
      exact ⟨by simp only []; omega, rfl⟩
  · -- clients
    cases e with
    | wake metas frames rs =>
      simp only [step, wakeFull]
      split
      · exact hcl
      · intro p hp
        obtain ⟨q, hq, rfl⟩ := mem_newClients hp
        exact wakeClient_inv _ (by rw [hfx]) _ _ _ _ (hcl q hq)
    | accept perm =>
      intro p hp
      simp only [step, accept, List.mem_append, List.mem_singleton] at hp
      rcases hp with hp | rfl
      · exact hcl p hp
      · refine ⟨⟨[], by simp [flat], Or.inl rfl⟩, ⟨[], by simp, List.Sublist.refl _⟩, fun _ => by simp,
          List.prefix_refl _, fun _ => ⟨by simp [flat], Or.inl rfl⟩⟩
    | writable c rs =>
      intro p hp
      simp only [step, writableFull] at hp
      obtain ⟨q, hq, rfl⟩ := mem_newClients hp
      exact writableClient_inv _ (by rw [hfx]) _ _ _ _ (hcl q hq)

theorem init_eq (fx : Fixes) (bs : Option Nat) (s : State) (h : initTransport fx bs = some s) :
    s = { fixes := fx, bufferSize := bs } := by
  simp only [initTransport, Option.ite_none_right_eq_some, Option.some.injEq] at h
  exact h.2.symm

theorem init_inv (bs : Option Nat) (s : State) (h : initTransport {} bs = some s) : StateInv s := by
  rw [init_eq _ _ _ h]
  exact ⟨rfl, ⟨rfl, rfl⟩, fun p hp => by cases hp⟩

/-- the invariant holds after any sequence of events (induction over the event list) -/
theorem run_inv (s : State) (evs : List Event) (h : StateInv s) : StateInv (run s evs) := by
  induction evs generalizing s with
  | nil => exact h
  | cons e es ih => exact ih _ (step_inv s e h)

/-! ### the property theorems -/

/-- **starts_for_all_configs.** The transport thread survives its initialisation for "no limit" and for
    every explicit limit whose queue `VecDeque::with_capacity` can allocate (n · 32 bytes ≤ isize::MAX; for
    larger `n` `crossbeam_channel::bounded(n)` already fails in `TcpBuilder::build` on the caller's thread). -/
theorem starts_for_all_configs (bs : Option Nat) (h : bs = none ∨ ∃ n, bs = some n ∧ n * bytesSize ≤ isizeMax) :
    (initTransport {} bs).isSome = true := by
  rcases h with rfl | ⟨n, rfl, hn⟩
  · rfl
  · simp [initTransport, withCapacityOk, hn]

/-- **gate.** In every reachable state `client_count` is the number of clients in the `clients` map and
    `should_send` is true exactly when there is one. -/
theorem gate (bs : Option Nat) (s : State) (evs : List Event) (h : initTransport {} bs = some s) :
    (run s evs).clientCount = aliveCount (run s evs).clients ∧
    (run s evs).shouldSend = decide (0 < aliveCount (run s evs).clients) := by
  obtain ⟨_, ⟨hc, hs⟩, _⟩ := run_inv s evs (init_inv bs s h)
  exact ⟨hc, by rw [hs, hc]⟩

/-- … so whatever other clients do (connect, stall, disconnect, reset), emitters keep sending while some
    client is connected: the gate is open whenever a client is in the map. -/
theorem gate_open_while_connected (bs : Option Nat) (s : State) (evs : List Event)
    (h : initTransport {} bs = some s) (p : Nat × Client) (hp : p ∈ (run s evs).clients)
    (ha : p.2.alive = true) : (run s evs).shouldSend = true := by
  rw [(gate bs s evs h).2]
  have hm : p ∈ (run s evs).clients.filter (fun p => p.2.alive) := List.mem_filter.mpr ⟨hp, ha⟩
  exact decide_eq_true (List.length_pos_of_mem hm)

/-- **framing.** For a connected client, the bytes its socket has accepted followed by the leftover parked
    in `wbuf` are exactly the concatenation of the frames started so far — whole frames, nothing else; and
    the leftover is empty or the tail of the last started frame (the only incomplete frame). -/
theorem framing (bs : Option Nat) (s : State) (evs : List Event) (h : initTransport {} bs = some s)
    (p : Nat × Client) (hp : p ∈ (run s evs).clients) (ha : p.2.alive = true) :
    p.2.received ++ p.2.wbuf.getD [] = flat p.2.started ∧
    (p.2.wbuf.getD [] = [] ∨ ∃ pre f q, p.2.started = pre ++ [f] ∧ q ++ p.2.wbuf.getD [] = f.bytes) :=
  ((run_inv s evs (init_inv bs s h)).2.2 p hp).2.2.2.2 ha

/-- … in particular with nothing parked the socket has received whole frames only. -/
theorem framing_whole_when_idle (bs : Option Nat) (s : State) (evs : List Event)
    (h : initTransport {} bs = some s) (p : Nat × Client) (hp : p ∈ (run s evs).clients)
    (ha : p.2.alive = true) (hw : p.2.wbuf = none) : p.2.received = flat p.2.started := by
  have := (framing bs s evs h p hp ha).1
  simpa [hw] using this

/-- **framing, any client** (also one that was removed): what its socket accepted is a concatenation of whole
    frames except that the last started frame may be cut short — never torn in the middle of the stream. -/
theorem framing_any (bs : Option Nat) (s : State) (evs : List Event) (h : initTransport {} bs = some s)
    (p : Nat × Client) (hp : p ∈ (run s evs).clients) :
    ∃ rem, p.2.received ++ rem = flat p.2.started ∧
      (rem = [] ∨ ∃ pre f q, p.2.started = pre ++ [f] ∧ q ++ rem = f.bytes) :=
  ((run_inv s evs (init_inv bs s h)).2.2 p hp).1

/-- **order, at most once.** The frames started for a client are, in enqueue order and each enqueued
    position at most once, among the frames enqueued for it, and the queue is exactly the rest: nothing is
    interleaved, reordered or duplicated; frames can only be missing (discarded from the queue). -/
theorem order_once (bs : Option Nat) (s : State) (evs : List Event) (h : initTransport {} bs = some s)
    (p : Nat × Client) (hp : p ∈ (run s evs).clients) :
    ∃ pre, p.2.sent = pre ++ p.2.msgs ∧ p.2.started.Sublist pre :=
  ((run_inv s evs (init_inv bs s h)).2.2 p hp).2.1

/-- … so if the enqueued frames are pairwise distinct (they are: every metric frame carries its own
    timestamp / is a distinct emission), no frame is started twice. -/
theorem started_nodup (bs : Option Nat) (s : State) (evs : List Event) (h : initTransport {} bs = some s)
    (p : Nat × Client) (hp : p ∈ (run s evs).clients) (hd : (p.2.sent.map Frame.id).Nodup) :
    (p.2.started.map Frame.id).Nodup := by
  obtain ⟨pre, hs, hsub⟩ := order_once bs s evs h p hp
  rw [hs, List.map_append] at hd
  exact ((List.nodup_append.mp hd).1).sublist (hsub.map _)

/-- **metadata first.** Everything enqueued for a client starts with the metadata frames it was given when
    its connection was accepted; together with `order_once` (the stream follows the enqueue order) no metric
    precedes them in its stream. -/
theorem metadata_first (bs : Option Nat) (s : State) (evs : List Event) (h : initTransport {} bs = some s)
    (p : Nat × Client) (hp : p ∈ (run s evs).clients) : p.2.atConnect <+: p.2.sent :=
  ((run_inv s evs (init_inv bs s h)).2.2 p hp).2.2.2.1

/-- … and those are all the metadata known at that moment: the accepted client (token `s.nextToken`) starts
    with `atConnect = sent = msgs`, which contains the current frame of every described name whenever the
    iteration order `perm` enumerates the known keys. -/
theorem accept_enqueues_known_metadata (s : State) (perm : List Nat) :
    ∃ cl, (accept s perm).clients = s.clients ++ [(s.nextToken, cl)] ∧ cl.alive = true ∧
      cl.atConnect = cl.msgs ∧ cl.sent = cl.msgs ∧ cl.received = [] ∧ cl.wbuf = none ∧
      ∀ k f, k ∈ perm → lookupKey k s.metadata = some f → f ∈ cl.msgs := by
  refine ⟨_, rfl, rfl, rfl, rfl, rfl, rfl, ?_⟩
  intro k f hk hf
  exact List.mem_filterMap.mpr ⟨k, hk, hf⟩

/-- **no_loss_for_reader.** For a connected client for which nothing was ever discarded (its queue stayed
    within `buffer_size`), every byte of every frame enqueued for it — the metadata at connect, then every
    fanned-out metric — has been accepted by its socket, is parked in `wbuf`, or is still queued, in order. -/
theorem no_loss_for_reader (bs : Option Nat) (s : State) (evs : List Event) (h : initTransport {} bs = some s)
    (p : Nat × Client) (hp : p ∈ (run s evs).clients) (ha : p.2.alive = true) (hd : p.2.dropped = 0) :
    p.2.received ++ p.2.wbuf.getD [] ++ flat p.2.msgs = flat p.2.sent := by
  obtain ⟨_, _, hN, _, hW⟩ := (run_inv s evs (init_inv bs s h)).2.2 p hp
  rw [hN hd, flat_append, (hW ha).1]

/-- **a reading client receives everything.** If such a client's socket then takes every buffer whole (a
    client that reads), one `drive_connection` call leaves nothing parked or queued and its socket has
    received exactly the concatenation of ALL frames enqueued for it since it connected. -/
theorem reader_receives_everything (bs : Option Nat) (s : State) (evs : List Event)
    (h : initTransport {} bs = some s) (p : Nat × Client) (hp : p ∈ (run s evs).clients)
    (ha : p.2.alive = true) (hd : p.2.dropped = 0) (N : Nat) (hN : 0 < N) (rs : List WriteResult)
    (hrs : ∀ r ∈ rs, r = .ok N) (hwb : ∀ b, p.2.wbuf = some b → b.length ≤ N)
    (hmb : ∀ f ∈ p.2.msgs, f.bytes.length ≤ N)
    (hlen : (if p.2.wbuf.isSome then 1 else 0) + p.2.msgs.length ≤ rs.length) :
    (drive {} p.2 rs).done = false ∧ (drive {} p.2 rs).cl.wbuf = none ∧ (drive {} p.2 rs).cl.msgs = [] ∧
    (drive {} p.2 rs).cl.received = flat p.2.sent := by
  obtain ⟨h1, h2, h3, h4⟩ := drive_full_accept {} N hN rs p.2 hrs hwb hmb hlen
  exact ⟨h1, h2, h3, by rw [h4, no_loss_for_reader bs s evs h p hp ha hd]⟩

/-- the rate condition: a batch that fits into the client's queue discards nothing -/
theorem within_buffer_no_drop (lim : Nat) (batch : List Frame) (cl : Client)
    (h : cl.msgs.length + batch.length ≤ lim) :
    (enqueue lim batch cl).dropped = cl.dropped ∧ (enqueue lim batch cl).msgs = cl.msgs ++ batch := by
  have hk := toDrain_fits lim cl.msgs.length batch.length h
  simp only [enqueue, hk, Nat.zero_min, List.drop_zero]
  exact ⟨by omega, by rw [List.take_of_length_le (by omega)]⟩

/-- **drop_only_whole_oldest.** Making room touches neither the partially written frame (`wbuf`) nor what
    was received or started: only whole, not-yet-started frames leave, from the front of the queue (oldest
    first), no more of them than the queue holds, and the new batch goes in whole behind the survivors. -/
theorem drop_only_whole_oldest (lim : Nat) (batch : List Frame) (cl : Client) (hb : batch.length ≤ lim) :
    (enqueue lim batch cl).wbuf = cl.wbuf ∧ (enqueue lim batch cl).received = cl.received ∧
    (enqueue lim batch cl).started = cl.started ∧
    toDrain lim cl.msgs.length batch.length ≤ cl.msgs.length ∧
    (enqueue lim batch cl).msgs = cl.msgs.drop (toDrain lim cl.msgs.length batch.length) ++ batch := by
  refine ⟨rfl, rfl, rfl, toDrain_le _ _ _ hb, ?_⟩
  simp only [enqueue]
  rw [List.take_of_length_le hb]

/-- … and no more are discarded than needed: afterwards the queue holds `min limit (old + batch)` frames. -/
theorem drop_no_more_than_needed (lim : Nat) (batch : List Frame) (cl : Client) (hb : batch.length ≤ lim)
    (hm : cl.msgs.length ≤ lim) :
    (enqueue lim batch cl).msgs.length = min lim (cl.msgs.length + batch.length) := by
  rw [(drop_only_whole_oldest lim batch cl hb).2.2.2.2]
  simp only [List.length_append, List.length_drop, toDrain]
  split <;> omega

/-- the batch the fan-out hands to `enqueue` never exceeds the limit (the read loop stops there) -/
theorem wake_batch_le (s : State) (frames : List Frame) : (frames.take s.limit).length ≤ s.limit := by
  simp [List.length_take]; omega

/-- **only a slow client has messages discarded.** The fan-out removes frames from a client's queue
    (`to_drain > 0`) only if the `drive_connection` call just before it -- in this very fan-out -- came back
    with the socket refusing: a parked buffer in `wbuf` and at least one `write` attempted.  So a client whose
    socket takes what it is offered (a freshly accepted one with its metadata still queued, one whose backlog
    the socket would take now) never loses a frame, whatever its queue length compared with `buffer_size`. -/
theorem drop_only_after_refusal (fx : Fixes) (hfx : fx.block = true) (lim : Nat) (batch : List Frame)
    (cl : Client) (rs : List WriteResult) (hb : batch.length ≤ lim) (hd : (drive fx cl rs).done = false)
    (hk : 0 < toDrain lim (drive fx cl rs).cl.msgs.length batch.length) :
    (drive fx cl rs).cl.wbuf.isSome = true ∧ (drive fx cl rs).attempts ≠ [] := by
  refine drive_queue_left_parked fx hfx rs cl hd ?_
  intro hm
  have := toDrain_le lim (drive fx cl rs).cl.msgs.length batch.length hb
  rw [hm] at this hk
  simp only [List.length_nil] at this hk
  omega

/-- … the same in terms of what the trace shows for one client of one fan-out (`ClientLog`): a positive drop
    count comes with a first drive that ended parked (`wbuf` = `Some`) after at least one `write`. -/
theorem wake_drop_only_for_slow_client (fx : Fixes) (hfx : fx.block = true) (lim : Nat) (batch : List Frame)
    (cl : Client) (rs : List WriteResult) (hb : batch.length ≤ lim) (lg : ClientLog) (k e : Nat) (p2 : Phase)
    (h : (wakeClient fx lim batch cl rs).log = some lg) (h2 : lg.second = some (k, e, p2)) (hk : 0 < k) :
    lg.p1.wbuf.isSome = true ∧ lg.p1.attempts ≠ [] := by
  unfold wakeClient at h
  cases ha : cl.alive with
  | false => simp [ha] at h
  | true =>
    cases hd : (drive fx cl rs).done with
    | true =>
      simp only [ha, Bool.not_true, Bool.false_eq_true, if_false, hd, if_true, Option.some.injEq] at h
      subst h
      simp at h2
    | false =>
      simp only [ha, Bool.not_true, Bool.false_eq_true, if_false, hd, Option.some.injEq] at h
      subst h
      simp only [Option.some.injEq, Prod.mk.injEq] at h2
      obtain ⟨hk', _, _⟩ := h2
      subst hk'
      have := drop_only_after_refusal fx hfx lim batch cl rs hb hd hk
      simpa [DriveOut.phase] using this

/-- **a healthy client keeps its metadata.** A freshly accepted client (nothing parked, its metadata still
    queued because its first WRITABLE event has not been handled) that is reached by a fan-out in that state and
    whose socket takes every buffer whole: nothing is discarded (the drop count is 0) however many metadata
    frames are queued compared with `buffer_size`, and the first drive has already written them all. -/
theorem fresh_client_keeps_metadata (N : Nat) (hN : 0 < N) (lim : Nat) (batch : List Frame) (md : List Frame)
    (rs : List WriteResult) (hrs : ∀ r ∈ rs, r = .ok N) (hmb : ∀ f ∈ md, f.bytes.length ≤ N)
    (hlen : md.length ≤ rs.length) :
    let cl : Client := { msgs := md, sent := md, atConnect := md }
    (drive {} cl rs).done = false ∧ (drive {} cl rs).cl.received = flat md ∧
    toDrain lim (drive {} cl rs).cl.msgs.length batch.length = batch.length - lim := by
  intro cl
  obtain ⟨h1, _, h3, h4⟩ := drive_full_accept {} N hN rs cl hrs (by simp [cl]) hmb (by simpa [cl] using hlen)
  refine ⟨h1, by simpa [cl] using h4, ?_⟩
  rw [h3]
  simp [toDrain]
  split <;> omega

/-- **no_tear_on_wouldblock.** `WouldBlock` (before any byte, or after a partial write): nothing is lost —
    the buffer taken from `wbuf`/`msgs` goes back into `wbuf` and is the very next thing written. -/
theorem no_tear_on_wouldblock (cl cl' : Client) (buf : List UInt8) (rs : List WriteResult)
    (h : takeBuf cl = some (buf, cl')) :
    drive {} cl (.wouldBlock :: rs) = ⟨{ cl' with wbuf := some buf }, false, rs, [buf.length], false⟩ ∧
    ∃ c'', takeBuf { cl' with wbuf := some buf } = some (buf, c'') := by
  refine ⟨by simp [drive, h, onBlock], ?_⟩
  exact ⟨{ cl' with wbuf := none }, by simp [takeBuf]⟩

/-- a short write keeps exactly the unwritten tail and accounts the written head as received -/
theorem partial_write_keeps_tail (cl cl' : Client) (buf : List UInt8) (n : Nat) (rs : List WriteResult)
    (h : takeBuf cl = some (buf, cl')) (h0 : 0 < n) (hn : n < buf.length) :
    drive {} cl (.ok n :: rs) =
      ⟨{ cl' with wbuf := some (buf.drop n), received := cl'.received ++ buf.take n }, false, rs, [buf.length], false⟩ := by
  have : n ≠ 0 := by omega
  simp [drive, h, this, hn]

/-- `Interrupted`: the same buffer is written again -/
theorem interrupted_retries_same_buffer (cl cl' : Client) (buf : List UInt8) (rs : List WriteResult)
    (h : takeBuf cl = some (buf, cl')) :
    drive {} cl (.interrupted :: rs) = (drive {} { cl' with wbuf := some buf } rs).push buf.length := by
  simp [drive, h, onBlock]

/-- **other clients cannot interfere.** What an event does to client `c` depends on `c`'s own state and
    `c`'s own write results only: a writable event of another client leaves it untouched, … -/
theorem writable_other_client_untouched (s : State) (c c' : Nat) (rs : List WriteResult) (h : c' ≠ c) :
    lookupKey c (step s (.writable c' rs)).clients = lookupKey c s.clients := by
  simp only [step, writableFull]
  rw [lookup_newClients]
  cases lookupKey c s.clients with
  | none => rfl
  | some cl =>
    have : ¬ (c = c') := fun e => h e.symm
    simp [writableClient, this]

/-- … and the fan-out treats it as if it were alone. -/
theorem wake_client_alone (s : State) (c : Nat) (metas : List (Nat × Frame)) (frames : List Frame)
    (rs : List (Nat × List WriteResult)) (hne : (frames.take s.limit).isEmpty = false) :
    lookupKey c (step s (.wake metas frames rs)).clients =
      (lookupKey c s.clients).map (fun cl =>
        (wakeClient s.fixes s.limit (frames.take s.limit) cl ((lookupKey c rs).getD [])).cl) := by
  simp only [step, wakeFull, hne, Bool.false_eq_true, if_false]
  rw [lookup_newClients]

/-! ### quiescence: what is left parked when the emitters go quiet

The sockets are registered edge-triggered.  When the transport thread is back in `poll` and no further emission
follows, a frame that is parked (`wbuf`) or queued (`msgs`) for a client is sent only when the kernel reports a
WRITABLE edge for that client, and the kernel owes such an edge only after it REFUSED a write (`WouldBlock`, or
a short write: the send buffer was full).  So the exporter may leave something parked only behind a refused
write; after `Interrupted`, which says nothing about the socket, it has to retry by itself.  (That the owed edge
does arrive is the kernel's and mio's business: exercised by the harness's quiet oracle on real sockets.) -/

/-- **parked_only_after_refusal.** Whatever the socket answers (every list of write results, every client
    state): if `drive_connection` returns `false` with a buffer parked in `wbuf`, the LAST `write` it made was
    refused by the socket -- `WouldBlock` or a short write of that very buffer -- never `Interrupted`, never a
    write taken whole.  (`starved` = the model was given fewer results than `write` calls; the driver rejects
    such a replay as `bad-op`.) -/
theorem parked_only_after_refusal (fx : Fixes) (rs : List WriteResult) (cl : Client)
    (hd : (drive fx cl rs).done = false) (hw : (drive fx cl rs).cl.wbuf.isSome = true) :
    (drive fx cl rs).starved = true ∨
    ∃ pre r as a, rs = pre ++ r :: (drive fx cl rs).rest ∧ (drive fx cl rs).attempts = as ++ [a] ∧ Refused r a :=
  drive_parks_only_on_refusal fx rs cl hd hw

/-- **interrupted_is_transparent.** `Interrupted` changes nothing but the number of `write` calls: the same
    buffer is offered again at once and the call ends exactly where it would have ended without the
    interruption -- for EVERY continuation of write results.  In particular an interrupted write of the last
    frame before a silence leaves nothing parked that the socket would have taken. -/
theorem interrupted_is_transparent (fx : Fixes) (hfx : fx.block = true) (cl cl' : Client) (buf : List UInt8)
    (rs : List WriteResult) (h : takeBuf cl = some (buf, cl')) :
    drive fx cl (.interrupted :: rs) = (drive fx cl rs).push buf.length := by
  have h2 := takeBuf_putBack h
  simp only [drive, h, onBlock, hfx, if_true]
  rw [drive_congr_some fx h2 h rs]

theorem wakeClient_qbp (fx : Fixes) (hfx : fx.block = true) (lim : Nat) (batch : List Frame) (cl : Client)
    (rs : List WriteResult) (h : QueueBehindParked cl) : QueueBehindParked (wakeClient fx lim batch cl rs).cl := by
  unfold wakeClient
  cases ha : cl.alive with
  | false => simpa [ha] using h
  | true =>
    cases hd : (drive fx cl rs).done with
    | true =>
      simp only [Bool.not_true, Bool.false_eq_true, if_false, hd, if_true]
      intro hal
      simp at hal
    | false =>
      simp only [Bool.not_true, Bool.false_eq_true, if_false, hd]
      intro hal hm
      have hd2 : (drive fx (enqueue lim batch (drive fx cl rs).cl) (drive fx cl rs).rest).done = false := by
        simpa using hal
      exact Or.inl (drive_queue_left_parked fx hfx _ _ hd2 hm).1

theorem writableClient_qbp (fx : Fixes) (hfx : fx.block = true) (c : Nat) (rs : List WriteResult) (k : Nat)
    (cl : Client) (h : QueueBehindParked cl) : QueueBehindParked (writableClient fx c rs k cl).cl := by
  unfold writableClient
  split
  · intro hal hm
    have hd : (drive fx cl rs).done = false := by simpa using hal
    exact Or.inl (drive_queue_left_parked fx hfx _ _ hd hm).1
  · exact h

theorem step_qbp (s : State) (e : Event) (hfx : s.fixes.block = true)
    (h : ∀ p ∈ s.clients, QueueBehindParked p.2) : ∀ p ∈ (step s e).clients, QueueBehindParked p.2 := by
  cases e with
  | wake metas frames rs =>
    simp only [step, wakeFull]
    split
    · exact h
    · intro p hp
      obtain ⟨q, hq, rfl⟩ := mem_newClients hp
      exact wakeClient_qbp _ hfx _ _ _ _ (h q hq)
  | accept perm =>
    intro p hp
    simp only [step, accept, List.mem_append, List.mem_singleton] at hp
    rcases hp with hp | rfl
    · exact h p hp
    · intro _ _; exact Or.inr rfl
  | writable c rs =>
    intro p hp
    simp only [step, writableFull] at hp
    obtain ⟨q, hq, rfl⟩ := mem_newClients hp
    exact writableClient_qbp _ hfx _ _ _ _ (h q hq)

theorem run_qbp (s : State) (evs : List Event) (hfx : s.fixes.block = true)
    (h : ∀ p ∈ s.clients, QueueBehindParked p.2) : ∀ p ∈ (run s evs).clients, QueueBehindParked p.2 := by
  induction evs generalizing s with
  | nil => exact h
  | cons e es ih => exact ih _ (by rw [step_fixes]; exact hfx) (step_qbp s e hfx h)

/-- **quiet_queue_only_behind_parked_buffer.** After EVERY sequence of events, for every connected client:
    frames are still queued only behind a parked write buffer (which by `parked_only_after_refusal` a refusing
    socket left there, so a WRITABLE edge is owed), or the client has just been accepted and never been driven
    (its registration edge is owed).  The loop never goes back to `poll` leaving a queue that the socket was not
    asked to take. -/
theorem quiet_queue_only_behind_parked_buffer (bs : Option Nat) (s : State) (evs : List Event)
    (h : initTransport {} bs = some s) (p : Nat × Client) (hp : p ∈ (run s evs).clients)
    (ha : p.2.alive = true) (hm : p.2.msgs ≠ []) : p.2.wbuf.isSome = true ∨ p.2.started = [] := by
  have hs := init_eq _ _ _ h
  subst hs
  exact run_qbp _ evs rfl (fun p hp => by cases hp) p hp ha hm

/-- **quiet_unparked_client_has_everything.** After every sequence of events: a connected client that has been
    driven at least once, has nothing parked in `wbuf` and never had a frame discarded has been handed EVERY
    frame enqueued for it, whole and in order -- nothing waits for a later fan-out.  Together with
    `parked_only_after_refusal`: when the emitters go quiet, every reading client either holds everything or is
    owed a WRITABLE edge by the kernel. -/
theorem quiet_unparked_client_has_everything (bs : Option Nat) (s : State) (evs : List Event)
    (h : initTransport {} bs = some s) (p : Nat × Client) (hp : p ∈ (run s evs).clients)
    (ha : p.2.alive = true) (hw : p.2.wbuf = none) (hst : p.2.started ≠ []) (hd : p.2.dropped = 0) :
    p.2.msgs = [] ∧ p.2.received = flat p.2.sent := by
  have hm : p.2.msgs = [] := by
    apply Classical.byContradiction
    intro hne
    rcases quiet_queue_only_behind_parked_buffer bs s evs h p hp ha hne with h1 | h1
    · rw [hw] at h1; cases h1
    · exact hst h1
  refine ⟨hm, ?_⟩
  have := no_loss_for_reader bs s evs h p hp ha hd
  simpa [hw, hm, flat] using this

/-- the seed-C11-8 demo on the model: one client, the write of the last frame is interrupted once, then the
    socket takes it -- everything is received, nothing parked; and when instead the socket REFUSES (`WouldBlock`)
    the frame is parked, which is the only way to get there -/
example : ∃ s, initTransport {} (some 16) = some s ∧
    (run s [.accept [], .wake [] [⟨0, [3, 10, 20, 30]⟩] [(2, [.ok 4])],
      .wake [] [⟨1, [2, 40, 50]⟩] [(2, [.interrupted, .ok 3])]]).clients.map
        (fun p => (p.2.received, p.2.wbuf, p.2.msgs.length)) = [([3, 10, 20, 30, 2, 40, 50], none, 0)] ∧
    (run s [.accept [], .wake [] [⟨0, [3, 10, 20, 30]⟩] [(2, [.ok 4])],
      .wake [] [⟨1, [2, 40, 50]⟩] [(2, [.interrupted, .wouldBlock])]]).clients.map
        (fun p => (p.2.received, p.2.wbuf, p.2.msgs.length)) = [([3, 10, 20, 30], some [2, 40, 50], 0)] :=
  ⟨_, rfl, by decide, by decide⟩

/-! ### the behaviour before each repair (kernel-evaluated witnesses) -/

/-- before fix 1: `buffer_size(None)` → `VecDeque::with_capacity(usize::MAX)` panics; the exporter never serves -/
theorem legacy_no_limit_does_not_start : initTransport { cap := false } none = none := by decide

private def fA : Frame := ⟨0, [3, 10, 20, 30]⟩
private def fB : Frame := ⟨1, [2, 40, 50]⟩

/-- before fix 2: two clients, one found dead during a fan-out → `client_count = 0`, gate closed for the
    survivor (after the repair: 1 and open) -/
theorem legacy_double_decrement_closes_gate :
    let evs := [Event.accept [], Event.accept [], Event.wake [] [fA] [(2, [.err]), (3, [.ok 4])]]
    let old := run { fixes := { dec := false }, bufferSize := some 8 } evs
    let new := run { bufferSize := some 8 } evs
    (old.clientCount, old.shouldSend, aliveCount old.clients) = (0, false, 1) ∧
    (new.clientCount, new.shouldSend, aliveCount new.clients) = (1, true, 1) := by decide

/-- before fix 3: a short write followed by `WouldBlock` loses the tail of the frame — the next frame
    follows a torn one (after the repair the stream is `fA ++ fB`) -/
theorem legacy_wouldblock_tears_stream :
    let evs := [Event.accept [], Event.wake [] [fA] [(2, [.ok 1])], Event.wake [] [fB] [(2, [.wouldBlock, .ok 3])],
      Event.writable 2 [.ok 9]]
    let old := run { fixes := { block := false }, bufferSize := some 8 } evs
    let new := run { bufferSize := some 8 } evs
    (old.clients.map (·.2.received)) = [[3, 2, 40, 50]] ∧
    (new.clients.map (·.2.received)) = [[3, 10, 20, 30, 2, 40, 50]] := by decide

/-! ### non-vacuity -/

/-- a run with two clients, metadata at connect, a short write, `WouldBlock`, `Interrupted`, a reset client
    and a full queue: the hypotheses of the theorems above are met by a non-trivial state -/
private def demoEvs : List Event :=
  [ .wake [(0, ⟨100, [1, 7]⟩)] [] [],
    .accept [0], .accept [0],
    .writable 2 [.ok 2],
    .wake [] [fA, fB] [(2, [.ok 2, .wouldBlock]), (3, [.ok 1])],
    .writable 2 [.interrupted, .ok 2, .ok 3],
    .wake [] [fB] [(2, []), (3, [.err])],
    .writable 2 [.ok 3] ]

example : ∃ s, initTransport {} (some 2) = some s ∧
    (run s demoEvs).clientCount = 1 ∧ (run s demoEvs).shouldSend = true ∧
    (run s demoEvs).clients.map (fun p => (p.1, p.2.alive, p.2.received, p.2.dropped)) =
      [(2, true, [1, 7, 3, 10, 20, 30, 2, 40, 50, 2, 40, 50], 0), (3, false, [1], 0)] :=
  ⟨_, rfl, by decide⟩

/-- "no limit" starts and serves -/
example : ∃ s, initTransport {} none = some s ∧
    (run s [.accept [], .wake [] [fA] [(2, [.ok 4])]]).clients.map (·.2.received) = [[3, 10, 20, 30]] :=
  ⟨_, rfl, by decide⟩

/-- a slow client with `buffer_size = 1`: older whole frames are discarded, the started one is finished -/
example : ∃ s, initTransport {} (some 1) = some s ∧
    (run s [.accept [], .wake [] [fA] [(2, [.ok 1])], .wake [] [fB] [(2, [.wouldBlock, .wouldBlock])],
      .wake [] [fA] [(2, [.wouldBlock, .wouldBlock])], .writable 2 [.ok 3, .ok 4]]).clients.map
        (fun p => (p.2.received, p.2.dropped)) = [([3, 10, 20, 30, 3, 10, 20, 30], 1)] :=
  ⟨_, rfl, by decide⟩

/-- a client accepted in the same poll round as a fan-out (`buffer_size = 2`, three metadata frames still
    queued, batch of two): the first drive writes the metadata, nothing is discarded, metadata then metrics -/
example : ∃ s, initTransport {} (some 2) = some s ∧
    (run s [.wake [(0, fA), (1, fB), (2, ⟨7, [1, 9]⟩)] [] [], .accept [0, 1, 2],
      .wake [] [⟨8, [1, 8]⟩, ⟨9, [1, 7]⟩] [(2, [.ok 4, .ok 3, .ok 2, .ok 2, .ok 2])]]).clients.map
        (fun p => (p.2.received, p.2.dropped)) = [([3, 10, 20, 30, 2, 40, 50, 1, 9, 1, 8, 1, 7], 0)] :=
  ⟨_, rfl, by decide⟩

/-- … whereas a client whose socket refuses in that fan-out (a parked buffer) does lose its oldest queued frames -/
example : ∃ s, initTransport {} (some 2) = some s ∧
    (run s [.wake [(0, fA), (1, fB), (2, ⟨7, [1, 9]⟩)] [] [], .accept [0, 1, 2],
      .wake [] [⟨8, [1, 8]⟩, ⟨9, [1, 7]⟩] [(2, [.ok 4, .wouldBlock, .wouldBlock])]]).clients.map
        (fun p => (p.2.received, p.2.wbuf, p.2.msgs.map (·.id), p.2.dropped)) =
      [([3, 10, 20, 30], some [2, 40, 50], [8, 9], 1)] :=
  ⟨_, rfl, by decide⟩

/-! ### the producer side: emitters, channel, waker, read loop (`Model/TcpProd.lean`)

Clause "every metric emitted at a rate within the configured buffer is delivered …": what links an emission
(`Handle::increment` → `State::push_metric`) to a batch of the fan-out.  All theorems are for ALL schedules of
ANY number of emitting threads against the transport thread, at the granularity of one shared-memory operation
(gate load / `try_send` / `wake` / poll return / one `try_recv`), by induction over the schedule
(`TcpProd.run_inv`). -/

/-- the system as the code has it: `push_metric` sends, then wakes -/
abbrev prodInit (cap : Option Nat) (gate : Bool) (progs : List (List Nat)) : TcpProd.Sys :=
  TcpProd.init .sendThenWake cap gate progs

/-- **no lost wake-up.** In every reachable state a non-empty channel is covered: a wake-up is pending, or the
    transport thread is still inside its read loop (it will look at the channel again before it polls), or
    some emitter has enqueued and is about to call `wake()`. -/
theorem producer_no_lost_wakeup (cap : Option Nat) (gate : Bool) (progs : List (List Nat))
    (sched : List TcpProd.Tid) :
    let s := TcpProd.run (prodInit cap gate progs) sched
    s.chan ≠ [] → s.wakePending = true ∨ s.tpc = .loop ∨ ∃ i, (s.ems i).pc = .wake :=
  (TcpProd.run_inv _ sched (TcpProd.init_inv cap gate progs)).covered

/-- … hence the system is never stuck with an event in the channel: some thread can move. -/
theorem producer_never_stuck (cap : Option Nat) (gate : Bool) (progs : List (List Nat))
    (sched : List TcpProd.Tid) :
    (TcpProd.run (prodInit cap gate progs) sched).chan ≠ [] →
      ∃ tid, TcpProd.enabled (TcpProd.run (prodInit cap gate progs) sched) tid = true := by
  intro hne
  rcases producer_no_lost_wakeup cap gate progs sched hne with hw | hl | ⟨i, hi⟩
  · exact ⟨.t, by simp [TcpProd.enabled, hw]⟩
  · exact ⟨.t, by simp [TcpProd.enabled, hl]⟩
  · exact ⟨.em i, by simp [TcpProd.enabled, hi]⟩

/-- **channel to batch: nothing lost, FIFO.** What the channel accepted is, in order, what was handed to the
    fan-out, then what the read loop holds, then what is still queued. -/
theorem accepted_is_delivered_buffered_queued (cap : Option Nat) (gate : Bool) (progs : List (List Nat))
    (sched : List TcpProd.Tid) :
    let s := TcpProd.run (prodInit cap gate progs) sched
    s.accepted = s.delivered ++ s.buffered ++ s.chan :=
  (TcpProd.run_inv _ sched (TcpProd.init_inv cap gate progs)).conserved

/-- **every accepted emission reaches a batch.** When nothing can move any more — every emitter has returned,
    the transport thread is blocked in `poll` and no wake-up is pending — the channel and the read loop are
    empty and everything the channel ever accepted has been handed to the fan-out, in channel order. -/
theorem quiescent_all_delivered (cap : Option Nat) (gate : Bool) (progs : List (List Nat))
    (sched : List TcpProd.Tid) :
    let s := TcpProd.run (prodInit cap gate progs) sched
    (∀ i, (s.ems i).pc = .done) → s.tpc = .idle → s.wakePending = false →
    s.chan = [] ∧ s.buffered = [] ∧ s.delivered = s.accepted := by
  intro s hdone hidle hwp
  have hinv := TcpProd.run_inv _ sched (TcpProd.init_inv cap gate progs)
  have hch : s.chan = [] := by
    apply Classical.byContradiction
    intro hne
    rcases hinv.covered hne with hw | hl | ⟨i, hi⟩
    · rw [hwp] at hw; cases hw
    · rw [hidle] at hl; cases hl
    · rw [hdone i] at hi; cases hi
  have hb : s.buffered = [] := hinv.idleEmpty hidle
  refine ⟨hch, hb, ?_⟩
  have hc : s.accepted = s.delivered ++ s.buffered ++ s.chan := hinv.conserved
  rw [hc, hb, hch]; simp

/-- **within the buffer = accepted.** `try_send` takes the metric whenever the channel holds fewer than
    `buffer_size` events (always, without a limit): an emission is only ever dropped on the producer side when
    the channel is full, which is the documented back-pressure rule. -/
theorem send_accepted_within_buffer (s : TcpProd.Sys) (id : Nat)
    (h : s.cap = none ∨ ∃ n, s.cap = some n ∧ s.chan.length < n) :
    (s.trySend id).chan = s.chan ++ [id] ∧ (s.trySend id).accepted = s.accepted ++ [id] := by
  have hr : s.room = true := by
    rcases h with h | ⟨n, h, hn⟩
    · simp [TcpProd.Sys.room, h]
    · simp [TcpProd.Sys.room, h, hn]
  simp [TcpProd.Sys.trySend, hr]

/-- a closed gate (no client connected) means the emitter neither enqueues nor wakes: its call returns -/
theorem closed_gate_emits_nothing (s : TcpProd.Sys) (i : Nat) (hg : s.gate = false) :
    (TcpProd.emGate s i).chan = s.chan ∧ (TcpProd.emGate s i).wakePending = s.wakePending ∧
    (TcpProd.emGate s i).ems i = (s.ems i).next := by
  simp [TcpProd.emGate, hg, TcpProd.Sys.setEm]

/-- **the full clause "serves for every buffer configuration" is false of the code: `Some(0)`.**
    With `buffer_size(Some(0))` (zero-capacity channel, zero batch limit) no emission is ever accepted and no
    batch is ever non-empty, for every schedule, every number of emitters and an open gate … -/
theorem zero_buffer_never_delivers (shape : TcpProd.Shape) (gate : Bool) (progs : List (List Nat))
    (sched : List TcpProd.Tid) :
    (TcpProd.run (TcpProd.init shape (some 0) gate progs) sched).accepted = [] ∧
    (TcpProd.run (TcpProd.init shape (some 0) gate progs) sched).delivered = [] := by
  have h := TcpProd.run_zero (TcpProd.init shape (some 0) gate progs) sched ⟨rfl, rfl, rfl, rfl, rfl⟩
  exact ⟨h.2.2.1, h.2.2.2.2⟩

/-- … and from its first wake-up on the transport thread never blocks again: each pass through the `WAKER`
    branch re-arms the waker (`buffered_pmsgs.len() >= 0`), a busy loop. -/
theorem zero_buffer_spins (shape : TcpProd.Shape) (gate : Bool) (progs : List (List Nat))
    (pre post : List TcpProd.Tid)
    (h : TcpProd.Spinning (TcpProd.run (TcpProd.init shape (some 0) gate progs) pre)) :
    TcpProd.Spinning (TcpProd.run (TcpProd.run (TcpProd.init shape (some 0) gate progs) pre) post) := by
  have hz := TcpProd.run_zero (TcpProd.init shape (some 0) gate progs) pre ⟨rfl, rfl, rfl, rfl, rfl⟩
  generalize TcpProd.run (TcpProd.init shape (some 0) gate progs) pre = s at h hz
  induction post generalizing s with
  | nil => exact h
  | cons t' ts ih =>
    refine ih _ (TcpProd.step_spinning s t' hz h) ?_
    cases t' with
    | em i => exact TcpProd.emStep_zero s i hz
    | t => exact TcpProd.tStep_zero s hz

/-- concrete witness: one emitter, open gate, `Some(0)`: after the emission and any number of transport
    passes nothing was delivered and the transport is still runnable -/
theorem zero_buffer_witness :
    let s := TcpProd.run (TcpProd.init .sendThenWake (some 0) true [[7]])
      [.em 0, .em 0, .em 0, .t, .t, .t, .t]
    s.delivered = [] ∧ s.accepted = [] ∧ (s.ems 0).pc = .done ∧ TcpProd.enabled s .t = true := by decide

/-- the provable part of "starts and serves for every buffer configuration": for `None` and every
    `Some(n)`, `n ≥ 1`, an emission made while the channel has room is accepted, and by
    `quiescent_all_delivered` reaches a batch. -/
theorem serves_for_all_configs_partial (s : TcpProd.Sys) (id : Nat)
    (h : s.cap = none ∨ ∃ n, s.cap = some (n + 1)) (hempty : s.chan = []) :
    id ∈ (s.trySend id).accepted := by
  have := (send_accepted_within_buffer s id (by
    rcases h with h | ⟨n, h⟩
    · exact Or.inl h
    · exact Or.inr ⟨n + 1, h, by rw [hempty]; simp⟩)).2
  rw [this]; simp

/-! #### depth: how many events the channel takes and how many one wake-up ingests (capacity plumbing) -/

theorem trySend_cap (s : TcpProd.Sys) (id : Nat) : (s.trySend id).cap = s.cap := by
  unfold TcpProd.Sys.trySend; split <;> rfl

/-- **every emission within the configured buffer is accepted, at any depth.** Starting from a channel that holds
    `q` events, `k` emissions in a row (the transport thread not running at all in between) are ALL taken by the
    channel as long as `q + k ≤ buffer_size` (always, without a limit), in order. -/
theorem within_buffer_all_accepted (ids : List Nat) (s : TcpProd.Sys)
    (h : s.cap = none ∨ ∃ n, s.cap = some n ∧ s.chan.length + ids.length ≤ n) :
    (TcpProd.sendAll s ids).chan = s.chan ++ ids ∧ (TcpProd.sendAll s ids).accepted = s.accepted ++ ids := by
  induction ids generalizing s with
  | nil => simp [TcpProd.sendAll]
  | cons id rest ih =>
    have h1 := send_accepted_within_buffer s id (by
      rcases h with h | ⟨n, h, hn⟩
      · exact Or.inl h
      · exact Or.inr ⟨n, h, by simp at hn; omega⟩)
    have h2 := ih (s.trySend id) (by
      rcases h with h | ⟨n, h, hn⟩
      · exact Or.inl (by rw [trySend_cap]; exact h)
      · refine Or.inr ⟨n, by rw [trySend_cap]; exact h, ?_⟩
        rw [h1.1]; simp at hn ⊢; omega)
    have e : TcpProd.sendAll s (id :: rest) = TcpProd.sendAll (s.trySend id) rest := by
      simp [TcpProd.sendAll]
    rw [e, h2.1, h2.2, h1.1, h1.2]; simp

/-- … and an emission that meets a channel holding `buffer_size` events changes nothing (dropped, the documented
    back-pressure rule): the bound of `within_buffer_all_accepted` is exact. -/
theorem full_channel_drops (s : TcpProd.Sys) (n id : Nat) (hc : s.cap = some n) (hf : n ≤ s.chan.length) :
    s.trySend id = s := by
  have : s.room = false := by simp [TcpProd.Sys.room, hc]; omega
  simp [TcpProd.Sys.trySend, this]

theorem tSteps_succ (k : Nat) (s : TcpProd.Sys) : TcpProd.tSteps (k + 1) s = TcpProd.tStep (TcpProd.tSteps k s) := by
  induction k generalizing s with
  | zero => rfl
  | succ k ih =>
    show TcpProd.tSteps (k + 1) (TcpProd.tStep s) = _
    rw [ih]; rfl

theorem tStep_recv (s : TcpProd.Sys) (hloop : s.tpc = .loop) (id : Nat) (rest : List Nat)
    (hch : s.chan = id :: rest) (hlt : s.buffered.length < s.limit) :
    (TcpProd.tStep s).chan = rest ∧ (TcpProd.tStep s).buffered = s.buffered ++ [id] ∧
    (TcpProd.tStep s).tpc = .loop ∧ (TcpProd.tStep s).cap = s.cap ∧
    (TcpProd.tStep s).delivered = s.delivered ∧ (TcpProd.tStep s).wakePending = s.wakePending := by
  have hn : ¬ s.limit ≤ s.buffered.length := by omega
  simp [TcpProd.tStep, hloop, TcpProd.tLoop, hn, hch]

/-- `k` iterations of the read loop take exactly the `k` oldest events, as long as the channel has them and the
    batch stays within `buffer_limit` -/
theorem read_loop_takes (k : Nat) (s : TcpProd.Sys) (hloop : s.tpc = .loop) (hk : k ≤ s.chan.length)
    (hl : s.buffered.length + k ≤ s.limit) :
    (TcpProd.tSteps k s).chan = s.chan.drop k ∧ (TcpProd.tSteps k s).buffered = s.buffered ++ s.chan.take k ∧
    (TcpProd.tSteps k s).tpc = .loop ∧ (TcpProd.tSteps k s).cap = s.cap ∧
    (TcpProd.tSteps k s).delivered = s.delivered ∧ (TcpProd.tSteps k s).wakePending = s.wakePending := by
  induction k generalizing s with
  | zero => simp [TcpProd.tSteps, hloop]
  | succ k ih =>
    cases hch : s.chan with
    | nil => rw [hch] at hk; simp at hk
    | cons id rest =>
      obtain ⟨a1, b1, c1, d1, e1, f1⟩ := tStep_recv s hloop id rest hch (by omega)
      have hlim : (TcpProd.tStep s).limit = s.limit := by simp [TcpProd.Sys.limit, d1]
      obtain ⟨a, b, c, d, e, f⟩ := ih (TcpProd.tStep s) c1
        (by rw [a1]; rw [hch] at hk; simp at hk; omega) (by rw [b1, hlim]; simp; omega)
      have hs : TcpProd.tSteps (k + 1) s = TcpProd.tSteps k (TcpProd.tStep s) := rfl
      rw [hs]
      refine ⟨by rw [a, a1]; simp, by rw [b, b1, a1]; simp, c, by rw [d, d1], by rw [e, e1], by rw [f, f1]⟩

/-- **one wake-up ingests min(queue, buffer_limit) events, whatever the depth.** Entering the read loop with an
    empty batch and `q` events in the channel, the transport fans out exactly the `min q buffer_limit` oldest
    events as ONE batch, leaves the others in the channel, and re-arms its own waker exactly when it stopped at
    the limit (`q ≥ buffer_limit`). No smaller hidden limit cuts a batch; no event within the limit waits for a
    later wake-up. -/
theorem read_loop_batch (s : TcpProd.Sys) (hloop : s.tpc = .loop) (hb : s.buffered = []) :
    let k := min s.chan.length s.limit
    (TcpProd.tSteps (k + 1) s).delivered = s.delivered ++ s.chan.take k ∧
    (TcpProd.tSteps (k + 1) s).chan = s.chan.drop k ∧
    (TcpProd.tSteps (k + 1) s).tpc = .idle ∧
    (TcpProd.tSteps (k + 1) s).buffered = [] ∧
    (TcpProd.tSteps (k + 1) s).wakePending = (s.wakePending || decide (s.limit ≤ s.chan.length)) := by
  intro k
  have hk1 : k ≤ s.chan.length := Nat.min_le_left _ _
  have hk2 : k ≤ s.limit := Nat.min_le_right _ _
  obtain ⟨a, b, c, d, e, f⟩ := read_loop_takes k s hloop hk1 (by rw [hb]; simpa using hk2)
  rw [tSteps_succ]
  generalize TcpProd.tSteps k s = t at a b c d e f
  have hlim : t.limit = s.limit := by simp [TcpProd.Sys.limit, d]
  have hbl : t.buffered.length = k := by rw [b, hb]; simp [List.length_take]; omega
  by_cases hfull : s.limit ≤ s.chan.length
  · have hkl : k = s.limit := Nat.min_eq_right hfull
    have : t.limit ≤ t.buffered.length := by rw [hlim, hbl, hkl]; exact Nat.le_refl _
    have hstep : TcpProd.tStep t = ({ t with wakePending := true } : TcpProd.Sys).fanout := by
      simp only [TcpProd.tStep, c, TcpProd.tLoop, if_pos this]
    rw [hstep]
    simp [TcpProd.Sys.fanout, a, b, e, hb, hfull]
  · have hkl : k = s.chan.length := Nat.min_eq_left (by omega)
    have hnot : ¬ t.limit ≤ t.buffered.length := by rw [hlim, hbl, hkl]; omega
    have hnil : t.chan = [] := by rw [a, hkl]; simp
    have hstep : TcpProd.tStep t = t.fanout := by
      simp only [TcpProd.tStep, c, TcpProd.tLoop, if_neg hnot, hnil]
    rw [hstep]
    simp [TcpProd.Sys.fanout, hnil, b, e, f, hb, hfull, hkl]

/-- the number the fan-out uses for each client's queue, the number the read loop stops at and the capacity of
    the channel are ONE configuration value: the transport model's `limit`, the producer model's `limit` / `cap`
    and `plumb` agree for every `buffer_size`; the builder's default is 1024 for all three, and the exporter
    starts with it. -/
theorem capacity_plumbing (bs : Option Nat) (s : State) (h : initTransport {} bs = some s)
    (shape : TcpProd.Shape) (gate : Bool) (progs : List (List Nat)) :
    s.limit = (plumb bs).clientLimit ∧ s.limit = (plumb bs).batchLimit ∧
    (TcpProd.init shape bs gate progs).limit = (plumb bs).batchLimit ∧
    (TcpProd.init shape bs gate progs).cap = (plumb bs).chanCap := by
  have e := init_eq {} bs s h
  subst e
  exact ⟨rfl, rfl, rfl, rfl⟩

theorem default_config_is_1024 :
    plumb defaultBufferSize = ⟨some 1024, 1024, 1024⟩ ∧ (initTransport {} defaultBufferSize).isSome = true := by
  decide

/-- non-vacuity: five queued events, `buffer_size` 3: one wake-up fans out `[1, 2, 3]`, leaves `[4, 5]` and re-arms
    the waker; a sixth emission into a full channel of 3 is dropped, three into an empty one are all taken -/
example :
    (TcpProd.tSteps 4 { cap := some 3, tpc := .loop, chan := [1, 2, 3, 4, 5] }).delivered = [1, 2, 3] ∧
    (TcpProd.tSteps 4 { cap := some 3, tpc := .loop, chan := [1, 2, 3, 4, 5] }).chan = [4, 5] ∧
    (TcpProd.tSteps 4 { cap := some 3, tpc := .loop, chan := [1, 2, 3, 4, 5] }).wakePending = true ∧
    (TcpProd.sendAll { cap := some 3 } [7, 8, 9, 10]).chan = [7, 8, 9] := by decide

/-! #### the two other orders of the producer's operations lose wake-ups (witnesses; NOT the code) -/

/-- `let w = tx.is_empty(); try_send(..); if w { wake() }` (seeded change C11-2): emitter 1 samples a non-empty
    channel, the transport drains it and goes back to `poll`, emitter 1 enqueues without waking: metric 2
    sits in the channel and nothing can move. -/
theorem wake_if_was_empty_loses_wakeup :
    let s := TcpProd.run (TcpProd.init .wakeIfWasEmpty (some 1024) true [[1], [2]])
      [.em 0, .em 0, .em 0, .t, .em 1, .t, .t, .em 1]
    s.chan = [2] ∧ s.delivered = [1] ∧ (s.ems 0).pc = .done ∧ (s.ems 1).pc = .done ∧
    s.tpc = .idle ∧ s.wakePending = false := by decide

/-- `wake(); try_send(..)`: the transport handles the wake-up before the event is enqueued -/
theorem wake_before_send_loses_wakeup :
    let s := TcpProd.run (TcpProd.init .wakeThenSend (some 1024) true [[1]])
      [.em 0, .em 0, .t, .t, .em 0]
    s.chan = [1] ∧ s.delivered = [] ∧ (s.ems 0).pc = .done ∧ s.tpc = .idle ∧ s.wakePending = false := by
  decide

/-- non-vacuity: two emitters and the transport interleaved, everything delivered in channel order -/
example :
    let s := TcpProd.run (prodInit (some 2) true [[1, 3], [2]])
      [.em 0, .em 1, .em 1, .em 0, .em 1, .t, .t, .em 0, .em 0, .em 0, .em 0, .t, .t, .t, .t, .t, .t]
    s.delivered = [2, 1, 3] ∧ s.chan = [] ∧ s.wakePending = false ∧ s.tpc = .idle := by decide

/-! ### source facts (tools/extract.py → Generated/SourceFacts.lean): what a run cannot observe -/

/-- `State::push_metric` is `if should_send() { try_send(..); wake() }`: the model's shape is the code's -/
theorem src_push_metric_shape :
    TcpProd.shapeOf Generated.tcp_push_metric_calls Generated.tcp_push_metric_ifs = some .sendThenWake := by
  decide

/-- `State::register_metric` (describe_*) enqueues and wakes unconditionally -/
theorem src_register_metric_wakes :
    Generated.tcp_register_metric_calls = ["try_send", "wake"] ∧ Generated.tcp_register_metric_ifs = 0 := by
  decide

/-- `register_*` never consult the gate and `Handle::new` stores nothing but key and state: a handle that
    outlives a gate transition keeps working (the gate is read per emission, in `push_metric`) -/
theorem src_handles_ignore_gate :
    Generated.tcp_register_handle_calls =
      [("register_counter", "from_arc Handle::new"), ("register_gauge", "from_arc Handle::new"),
       ("register_histogram", "from_arc Handle::new")] ∧
    Generated.tcp_handle_new_body = "{ Handle { key, state } }" := by decide

/-- orderings of the gate: load Acquire; fetch_add AcqRel then store(true) Release; fetch_sub AcqRel then
    store(false) Release when the old count was 1 -/
theorem src_gate_orderings :
    Generated.tcp_gate_orderings = ["Acquire", "AcqRel", "Release", "AcqRel", "Release"] ∧
    Generated.tcp_decrement_test = "count == 1" := by decide

/-- the write path compiled WITHOUT the verification cfg is a single `conn.write(buf)` (the hook's `verif::write`
    stands for exactly this call), and `drive_connection` writes only through it -/
theorem src_production_write_is_single_write :
    Generated.tcp_write_to_client_prod = "{ conn.write(buf) }" ∧
    Generated.tcp_drive_write_calls = ["write_to_client"] := by decide

/-- the per-client branch of the event loop acts on WRITABLE only: it never reads from a client and does not
    look at read-closed / error readiness (a half-closed or talking client keeps being served) -/
theorem src_client_branch_writes_only :
    Generated.tcp_client_event_calls = ["is_writable", "drive_connection", "decrement_clients"] ∧
    Generated.tcp_client_interest = "Interest::READABLE.add(Interest::WRITABLE)" := by decide

/-- the accept loop takes a fresh token inside the loop for every connection and only leaves on WouldBlock
    (`break`); EINTR asks again (`continue`) and any other accept error leaves the accept loop only (`break`, since fix), never the transport thread -/
theorem src_accept_loop :
    Generated.tcp_accept_loop_tokens =
      ["loop", "accept", "next", "register", "register", "increment_clients", "insert", "break", "continue", "break"] := by
  decide

/-- the fan-out loop is `drive; if done { push; continue }; available = limit - len (or 0); to_drain =
    batch.saturating_sub(available); drain(0..to_drain); extend(batch.take(limit)); drive; if done { push }`:
    the drive BEFORE the drop-oldest computation is unconditional (the model's `wakeClient`), so
    `drop_only_after_refusal` speaks about the code -/
theorem src_fanout_shape :
    Generated.tcp_fanout_tokens =
      ["drive_connection", "if", "push", "continue", "if", "else", "saturating_sub", "drain", "extend",
       "drive_connection", "if", "push"] ∧
    Generated.tcp_fanout_available = "if msgs.len() < buffer_limit { buffer_limit - msgs.len() } else { 0 }" ∧
    Generated.tcp_fanout_to_drain = "buffered_pmsgs.len().saturating_sub(available)" ∧
    Generated.tcp_fanout_drain_extend =
      ["msgs.drain(0..to_drain)", "msgs.extend(buffered_pmsgs.iter().take(buffer_limit).cloned())"] := by
  decide

/-- the arms of `drive_connection`'s `match write_to_client(..)` are the model's `drive`: `Ok(0)` and other errors
    remove the client; a short write parks the remainder and returns; `WouldBlock` parks the buffer and returns;
    `Interrupted` puts the buffer back and goes round the loop AGAIN (`continue`, the model's recursive call:
    `interrupted_is_transparent`) -- it does not return with the frame parked, for which no WRITABLE edge would
    ever be reported; and the two predicates test exactly the two error kinds -/
theorem src_drive_arms :
    Generated.tcp_drive_arms =
      [("Ok(0)", "return true"), ("Ok(n) if n < buf.len()", "replace(remaining) return false"),
       ("Ok(_)", "continue"), ("Err(ref e) if would_block(e)", "replace(buf) return false"),
       ("Err(ref e) if interrupted(e)", "replace(buf) continue"), ("Err(e)", "return true")] ∧
    Generated.tcp_would_block_body = "{ err.kind() == io::ErrorKind::WouldBlock }" ∧
    Generated.tcp_interrupted_body = "{ err.kind() == io::ErrorKind::Interrupted }" := by decide

/-- **capacity plumbing** (round 6): the builder's default is `Some(1024)` and `Default` forwards to `new()`;
    `buffer_size(..)` stores its argument; `build` hands the SAME value to the channel (`bounded(size)` /
    `unbounded()`) and to `run_transport`; there `buffer_limit = buffer_size.unwrap_or(usize::MAX)` is bound once
    and neither name is ever assigned again; the read loop stops at `buffered_pmsgs.len() >= buffer_limit`, wakes
    itself and breaks, otherwise `try_recv`s, breaks on empty, returns on disconnect.  These are `Tcp.plumb`,
    `Tcp.defaultBufferSize` and `TcpProd.tLoop` (deep race cases reach the numbers at run time). -/
theorem src_capacity_plumbing :
    Generated.tcp_builder_new_buffer = "Some(1024)" ∧
    Generated.tcp_builder_default_body = "{ TcpBuilder::new() }" ∧
    Generated.tcp_builder_buffer_size_stmts = ["self.buffer_size = size"] ∧
    Generated.tcp_build_buffer_binding = ["self.buffer_size"] ∧
    Generated.tcp_build_channel_arms = [("None", "unbounded()"), ("Some(size)", "bounded(size)")] ∧
    Generated.tcp_build_spawn_call = "run_transport(poll, listener, rx, state, buffer_size)" ∧
    Generated.tcp_transport_limit_bindings = ["let buffer_limit = buffer_size.unwrap_or(std::usize::MAX)"] ∧
    Generated.tcp_transport_limit_assigns = 0 ∧
    Generated.tcp_transport_prealloc = "buffer_size.map_or_else(VecDeque::new, VecDeque::with_capacity)" ∧
    Generated.tcp_read_loop_guard = "buffered_pmsgs.len() >= buffer_limit" ∧
    Generated.tcp_read_loop_tokens =
      ["if", "wake", "break", "try_recv", "if", "is_empty", "break", "return", "push_back"] := by decide

/-- `Handle` implements exactly the required methods of the three handle traits, each one a single
    `push_metric` with its own operation; the provided method `HistogramFn::record_many` is NOT overridden, so it
    is the trait's loop of `record` calls: `n` emissions, `n` frames (the harness calls it; a one-frame-per-batch
    override would change this fact and lose `n - 1` frames at run time) -/
theorem src_handle_methods :
    Generated.tcp_handle_methods =
      [("CounterFn::increment", "{ self.state.push_metric(&self.key, MetricOperation::IncrementCounter(value)) }"),
       ("CounterFn::absolute", "{ self.state.push_metric(&self.key, MetricOperation::SetCounter(value)) }"),
       ("GaugeFn::increment", "{ self.state.push_metric(&self.key, MetricOperation::IncrementGauge(value)) }"),
       ("GaugeFn::decrement", "{ self.state.push_metric(&self.key, MetricOperation::DecrementGauge(value)) }"),
       ("GaugeFn::set", "{ self.state.push_metric(&self.key, MetricOperation::SetGauge(value)) }"),
       ("HistogramFn::record", "{ self.state.push_metric(&self.key, MetricOperation::RecordHistogram(value)) }")] := by
  decide

/-- the removal loop that ends the `WAKER` branch counts a client out only if it is still in the table
    (`if let Some(..) = clients.get_mut(&token)`), removes it and decrements once: the model's `removedCount` /
    `decN` of `wakeFull` (a token pushed twice by the two drives of one fan-out is counted once) -/
theorem src_removal_loop :
    Generated.tcp_removal_loop_tokens = ["if", "get_mut", "remove", "decrement_clients"] := by decide

/-- every metric frame gets its own `SystemTime::now()` -/
theorem src_timestamp_per_metric :
    Generated.tcp_metric_timestamp_calls = ["now", "encode_length_delimited"] := by decide

end MetricsVerif.C11
