import MetricsVerif.Proofs.Tcp

/-
C11 — the TCP exporter streams whole frames to every connected client, whatever others do.

Theorems about the model `Model/Tcp.lean` of `run_transport` / `drive_connection`
(`metrics-exporter-tcp/src/lib.rs`) with the three repairs of this round (`Fixes` all `true`), for ALL
sequences of events `wake` / `accept` / `writable` and ALL write results the sockets may answer
(`ok n`, `ok 0`, `wouldBlock`, `interrupted`, `err`), for `buffer_size` `None` and every `Some n`.
Unbounded: induction over the event list (`run_inv`) and over the write results (`drive_preserves`).

The model is tied to the code by trace validation (harness/src/c11.rs): the hook's event trace of real exporter
sessions, with the kernel's actual write results, is replayed through this model and compared step by step.
Eventual delivery (that a WRITABLE event does arrive) is the kernel's and mio's business and only exercised.
-/
namespace MetricsVerif.C11
open MetricsVerif.Tcp

/-! ### the inductive invariant -/

/-- per client: framing (`FramedAny`, and `FramedW` while connected), order/at-most-once (`Ordered`),
    nothing lost while nothing was discarded (`NoLoss`) -/
def ClientInv (cl : Client) : Prop :=
  FramedAny cl ∧ Ordered cl ∧ NoLoss cl ∧ MetaFirst cl ∧ (cl.alive = true → FramedW cl)

/-- `client_count` counts the connected clients and `should_send` says whether there is one -/
def Gate (s : State) : Prop :=
  s.clientCount = aliveCount s.clients ∧ s.shouldSend = decide (0 < s.clientCount)

def StateInv (s : State) : Prop :=
  s.fixes = {} ∧ Gate s ∧ ∀ p ∈ s.clients, ClientInv p.2

theorem wakeClient_inv (fx : Fixes) (hfx : fx.block = true) (lim : Nat) (batch : List Frame) (cl : Client)
    (rs : List WriteResult) (h : ClientInv cl) : ClientInv (wakeClient fx lim batch cl rs).cl := by
  obtain ⟨hA, hO, hN, hM, hW⟩ := h
  unfold wakeClient
  cases ha : cl.alive with
  | false => exact ⟨hA, hO, hN, hM, by simp [ha]⟩
  | true =>
    have d1 := drive_framed fx hfx rs cl (hW ha)
    have o1 := drive_ordered fx hfx rs cl hO
    have n1 := drive_noLoss fx hfx rs cl hN
    have m1 := drive_metaFirst fx hfx rs cl hM
    cases hd : (drive fx cl rs).done with
    | true =>
      simp only [Bool.not_true, Bool.false_eq_true, if_false, hd, if_true]
      exact ⟨d1.2, o1, n1, m1, fun h => by cases h⟩
    | false =>
      simp only [Bool.not_true, Bool.false_eq_true, if_false, hd]
      have hF2 : FramedW (enqueue lim batch (drive fx cl rs).cl) := (enqueue_framedW _ _ _).2 (d1.1 hd)
      have d2 := drive_framed fx hfx (drive fx cl rs).rest _ hF2
      have o2 := drive_ordered fx hfx (drive fx cl rs).rest _ (enqueue_ordered lim batch _ o1)
      have n2 := drive_noLoss fx hfx (drive fx cl rs).rest _ (enqueue_noLoss lim batch _ n1)
      have m2 := drive_metaFirst fx hfx (drive fx cl rs).rest _ (enqueue_metaFirst lim batch _ m1)
      refine ⟨d2.2, o2, n2, m2, fun hal => d2.1 ?_⟩
      simpa using hal

theorem writableClient_inv (fx : Fixes) (hfx : fx.block = true) (c : Nat) (rs : List WriteResult) (k : Nat)
    (cl : Client) (h : ClientInv cl) : ClientInv (writableClient fx c rs k cl).cl := by
  obtain ⟨hA, hO, hN, hM, hW⟩ := h
  unfold writableClient
  split
  · rename_i hc
    have ha : cl.alive = true := by simp at hc; exact hc.2
    have d1 := drive_framed fx hfx rs cl (hW ha)
    refine ⟨d1.2, drive_ordered fx hfx rs cl hO, drive_noLoss fx hfx rs cl hN,
      drive_metaFirst fx hfx rs cl hM, fun hal => d1.1 ?_⟩
    simpa using hal
  · exact ⟨hA, hO, hN, hM, hW⟩

theorem wakeClient_stepOk (fx : Fixes) (lim : Nat) (batch : List Frame)
    (g : Nat → List WriteResult) : StepOk (fun k cl => wakeClient fx lim batch cl (g k)) := by
  intro k cl
  simp only [wakeClient]
  cases ha : cl.alive with
  | false => simp [ha]
  | true =>
    cases hd : (drive fx cl (g k)).done with
    | true => simp
    | false =>
      simp only [Bool.not_true, Bool.false_eq_true, if_false]
      cases (drive fx (enqueue lim batch (drive fx cl (g k)).cl) (drive fx cl (g k)).rest).done <;> simp

theorem writableClient_stepOk (fx : Fixes) (c : Nat) (rs : List WriteResult) :
    StepOk (writableClient fx c rs) := by
  intro k cl
  simp only [writableClient]
  split
  · rename_i hc
    have ha : cl.alive = true := by simp at hc; exact hc.2
    cases (drive fx cl rs).done <;> simp [ha]
  · cases cl.alive <;> simp

theorem aliveCount_append_alive (cs : List (Nat × Client)) (t : Nat) (cl : Client) (h : cl.alive = true) :
    aliveCount (cs ++ [(t, cl)]) = aliveCount cs + 1 := by
  simp [aliveCount, List.filter_append, h]

theorem step_fixes (s : State) (e : Event) : (step s e).fixes = s.fixes := by
  cases e with
  | wake m f r => simp only [step, wakeFull]; split <;> rfl
  | accept p => rfl
  | writable c r => rfl

/-- one event keeps the invariant -/
theorem step_inv (s : State) (e : Event) (h : StateInv s) : StateInv (step s e) := by
  obtain ⟨hfx, ⟨hc, hs⟩, hcl⟩ := h
  refine ⟨by rw [step_fixes, hfx], ?_, ?_⟩
  · -- gate
    cases e with
    | wake metas frames rs =>
      simp only [step, wakeFull]
      split
      · exact ⟨hc, hs⟩
      · simp only [hfx, if_true]
        have hk := alive_removed _ (wakeClient_stepOk {} s.limit (frames.take s.limit)
          (fun k => (lookupKey k rs).getD [])) s.clients
        rw [decN_spec _ _ _ (by omega) hs]
        exact ⟨by simp only []; omega, rfl⟩
    | accept perm =>
      simp only [Gate, step, accept, incrementClients]
      rw [aliveCount_append_alive _ _ _ rfl]
      exact ⟨by omega, by simp⟩
    | writable c rs =>
      simp only [step, writableFull]
      have hk := alive_removed _ (writableClient_stepOk s.fixes c rs) s.clients
      rw [decN_spec _ _ _ (by omega) hs]
      exact ⟨by simp only []; omega, rfl⟩
  · -- clients
    cases e with
    | wake metas frames rs =>
      simp only [step, wakeFull]
      split
      · exact hcl
      · intro p hp
        obtain ⟨q, hq, rfl⟩ := mem_newClients hp
        exact wakeClient_inv _ (by rw [hfx]) _ _ _ _ (hcl q hq)
    | accept perm =>
      intro p hp
      simp only [step, accept, List.mem_append, List.mem_singleton] at hp
      rcases hp with hp | rfl
      · exact hcl p hp
      · refine ⟨⟨[], by simp [flat], Or.inl rfl⟩, ⟨[], by simp, List.Sublist.refl _⟩, fun _ => by simp,
          List.prefix_refl _, fun _ => ⟨by simp [flat], Or.inl rfl⟩⟩
    | writable c rs =>
      intro p hp
      simp only [step, writableFull] at hp
      obtain ⟨q, hq, rfl⟩ := mem_newClients hp
      exact writableClient_inv _ (by rw [hfx]) _ _ _ _ (hcl q hq)

theorem init_eq (fx : Fixes) (bs : Option Nat) (s : State) (h : initTransport fx bs = some s) :
    s = { fixes := fx, bufferSize := bs } := by
  simp only [initTransport, Option.ite_none_right_eq_some, Option.some.injEq] at h
  exact h.2.symm

theorem init_inv (bs : Option Nat) (s : State) (h : initTransport {} bs = some s) : StateInv s := by
  rw [init_eq _ _ _ h]
  exact ⟨rfl, ⟨rfl, rfl⟩, fun p hp => by cases hp⟩

/-- the invariant holds after any sequence of events (induction over the event list) -/
theorem run_inv (s : State) (evs : List Event) (h : StateInv s) : StateInv (run s evs) := by
  induction evs generalizing s with
  | nil => exact h
  | cons e es ih => exact ih _ (step_inv s e h)

/-! ### the property theorems -/

/-- **starts_for_all_configs.** The transport thread survives its initialisation for "no limit" and for
    every explicit limit whose queue `VecDeque::with_capacity` can allocate (n · 32 bytes ≤ isize::MAX; for
    larger `n` `crossbeam_channel::bounded(n)` already fails in `TcpBuilder::build` on the caller's thread). -/
theorem starts_for_all_configs (bs : Option Nat) (h : bs = none ∨ ∃ n, bs = some n ∧ n * bytesSize ≤ isizeMax) :
    (initTransport {} bs).isSome = true := by
  rcases h with rfl | ⟨n, rfl, hn⟩
  · rfl
  · simp [initTransport, withCapacityOk, hn]

/-- **gate.** In every reachable state `client_count` is the number of clients in the `clients` map and
    `should_send` is true exactly when there is one. -/
theorem gate (bs : Option Nat) (s : State) (evs : List Event) (h : initTransport {} bs = some s) :
    (run s evs).clientCount = aliveCount (run s evs).clients ∧
    (run s evs).shouldSend = decide (0 < aliveCount (run s evs).clients) := by
  obtain ⟨_, ⟨hc, hs⟩, _⟩ := run_inv s evs (init_inv bs s h)
  exact ⟨hc, by rw [hs, hc]⟩

/-- … so whatever other clients do (connect, stall, disconnect, reset), emitters keep sending while some
    client is connected: the gate is open whenever a client is in the map. -/
theorem gate_open_while_connected (bs : Option Nat) (s : State) (evs : List Event)
    (h : initTransport {} bs = some s) (p : Nat × Client) (hp : p ∈ (run s evs).clients)
    (ha : p.2.alive = true) : (run s evs).shouldSend = true := by
  rw [(gate bs s evs h).2]
  have hm : p ∈ (run s evs).clients.filter (fun p => p.2.alive) := List.mem_filter.mpr ⟨hp, ha⟩
  exact decide_eq_true (List.length_pos_of_mem hm)

/-- **framing.** For a connected client, the bytes its socket has accepted followed by the leftover parked
    in `wbuf` are exactly the concatenation of the frames started so far — whole frames, nothing else; and
    the leftover is empty or the tail of the last started frame (the only incomplete frame). -/
theorem framing (bs : Option Nat) (s : State) (evs : List Event) (h : initTransport {} bs = some s)
    (p : Nat × Client) (hp : p ∈ (run s evs).clients) (ha : p.2.alive = true) :
    p.2.received ++ p.2.wbuf.getD [] = flat p.2.started ∧
    (p.2.wbuf.getD [] = [] ∨ ∃ pre f q, p.2.started = pre ++ [f] ∧ q ++ p.2.wbuf.getD [] = f.bytes) :=
  ((run_inv s evs (init_inv bs s h)).2.2 p hp).2.2.2.2 ha

/-- … in particular with nothing parked the socket has received whole frames only. -/
theorem framing_whole_when_idle (bs : Option Nat) (s : State) (evs : List Event)
    (h : initTransport {} bs = some s) (p : Nat × Client) (hp : p ∈ (run s evs).clients)
    (ha : p.2.alive = true) (hw : p.2.wbuf = none) : p.2.received = flat p.2.started := by
  have := (framing bs s evs h p hp ha).1
  simpa [hw] using this

/-- **framing, any client** (also one that was removed): what its socket accepted is a concatenation of whole
    frames except that the last started frame may be cut short — never torn in the middle of the stream. -/
theorem framing_any (bs : Option Nat) (s : State) (evs : List Event) (h : initTransport {} bs = some s)
    (p : Nat × Client) (hp : p ∈ (run s evs).clients) :
    ∃ rem, p.2.received ++ rem = flat p.2.started ∧
      (rem = [] ∨ ∃ pre f q, p.2.started = pre ++ [f] ∧ q ++ rem = f.bytes) :=
  ((run_inv s evs (init_inv bs s h)).2.2 p hp).1

/-- **order, at most once.** The frames started for a client are, in enqueue order and each enqueued
    position at most once, among the frames enqueued for it, and the queue is exactly the rest: nothing is
    interleaved, reordered or duplicated; frames can only be missing (discarded from the queue). -/
theorem order_once (bs : Option Nat) (s : State) (evs : List Event) (h : initTransport {} bs = some s)
    (p : Nat × Client) (hp : p ∈ (run s evs).clients) :
    ∃ pre, p.2.sent = pre ++ p.2.msgs ∧ p.2.started.Sublist pre :=
  ((run_inv s evs (init_inv bs s h)).2.2 p hp).2.1

/-- … so if the enqueued frames are pairwise distinct (they are: every metric frame carries its own
    timestamp / is a distinct emission), no frame is started twice. -/
theorem started_nodup (bs : Option Nat) (s : State) (evs : List Event) (h : initTransport {} bs = some s)
    (p : Nat × Client) (hp : p ∈ (run s evs).clients) (hd : (p.2.sent.map Frame.id).Nodup) :
    (p.2.started.map Frame.id).Nodup := by
  obtain ⟨pre, hs, hsub⟩ := order_once bs s evs h p hp
  rw [hs, List.map_append] at hd
  exact ((List.nodup_append.mp hd).1).sublist (hsub.map _)

/-- **metadata first.** Everything enqueued for a client starts with the metadata frames it was given when
    its connection was accepted; together with `order_once` (the stream follows the enqueue order) no metric
    precedes them in its stream. -/
theorem metadata_first (bs : Option Nat) (s : State) (evs : List Event) (h : initTransport {} bs = some s)
    (p : Nat × Client) (hp : p ∈ (run s evs).clients) : p.2.atConnect <+: p.2.sent :=
  ((run_inv s evs (init_inv bs s h)).2.2 p hp).2.2.2.1

/-- … and those are all the metadata known at that moment: the accepted client (token `s.nextToken`) starts
    with `atConnect = sent = msgs`, which contains the current frame of every described name whenever the
    iteration order `perm` enumerates the known keys. -/
theorem accept_enqueues_known_metadata (s : State) (perm : List Nat) :
    ∃ cl, (accept s perm).clients = s.clients ++ [(s.nextToken, cl)] ∧ cl.alive = true ∧
      cl.atConnect = cl.msgs ∧ cl.sent = cl.msgs ∧ cl.received = [] ∧ cl.wbuf = none ∧
      ∀ k f, k ∈ perm → lookupKey k s.metadata = some f → f ∈ cl.msgs := by
  refine ⟨_, rfl, rfl, rfl, rfl, rfl, rfl, ?_⟩
  intro k f hk hf
  exact List.mem_filterMap.mpr ⟨k, hk, hf⟩

/-- **no_loss_for_reader.** For a connected client for which nothing was ever discarded (its queue stayed
    within `buffer_size`), every byte of every frame enqueued for it — the metadata at connect, then every
    fanned-out metric — has been accepted by its socket, is parked in `wbuf`, or is still queued, in order. -/
theorem no_loss_for_reader (bs : Option Nat) (s : State) (evs : List Event) (h : initTransport {} bs = some s)
    (p : Nat × Client) (hp : p ∈ (run s evs).clients) (ha : p.2.alive = true) (hd : p.2.dropped = 0) :
    p.2.received ++ p.2.wbuf.getD [] ++ flat p.2.msgs = flat p.2.sent := by
  obtain ⟨_, _, hN, _, hW⟩ := (run_inv s evs (init_inv bs s h)).2.2 p hp
  rw [hN hd, flat_append, (hW ha).1]

/-- **a reading client receives everything.** If such a client's socket then takes every buffer whole (a
    client that reads), one `drive_connection` call leaves nothing parked or queued and its socket has
    received exactly the concatenation of ALL frames enqueued for it since it connected. -/
theorem reader_receives_everything (bs : Option Nat) (s : State) (evs : List Event)
    (h : initTransport {} bs = some s) (p : Nat × Client) (hp : p ∈ (run s evs).clients)
    (ha : p.2.alive = true) (hd : p.2.dropped = 0) (N : Nat) (hN : 0 < N) (rs : List WriteResult)
    (hrs : ∀ r ∈ rs, r = .ok N) (hwb : ∀ b, p.2.wbuf = some b → b.length ≤ N)
    (hmb : ∀ f ∈ p.2.msgs, f.bytes.length ≤ N)
    (hlen : (if p.2.wbuf.isSome then 1 else 0) + p.2.msgs.length ≤ rs.length) :
    (drive {} p.2 rs).done = false ∧ (drive {} p.2 rs).cl.wbuf = none ∧ (drive {} p.2 rs).cl.msgs = [] ∧
    (drive {} p.2 rs).cl.received = flat p.2.sent := by
  obtain ⟨h1, h2, h3, h4⟩ := drive_full_accept {} N hN rs p.2 hrs hwb hmb hlen
  exact ⟨h1, h2, h3, by rw [h4, no_loss_for_reader bs s evs h p hp ha hd]⟩

/-- the rate condition: a batch that fits into the client's queue discards nothing -/
theorem within_buffer_no_drop (lim : Nat) (batch : List Frame) (cl : Client)
    (h : cl.msgs.length + batch.length ≤ lim) :
    (enqueue lim batch cl).dropped = cl.dropped ∧ (enqueue lim batch cl).msgs = cl.msgs ++ batch := by
  have hk := toDrain_fits lim cl.msgs.length batch.length h
  simp only [enqueue, hk, Nat.zero_min, List.drop_zero]
  exact ⟨by omega, by rw [List.take_of_length_le (by omega)]⟩

/-- **drop_only_whole_oldest.** Making room touches neither the partially written frame (`wbuf`) nor what
    was received or started: only whole, not-yet-started frames leave, from the front of the queue (oldest
    first), no more of them than the queue holds, and the new batch goes in whole behind the survivors. -/
theorem drop_only_whole_oldest (lim : Nat) (batch : List Frame) (cl : Client) (hb : batch.length ≤ lim) :
    (enqueue lim batch cl).wbuf = cl.wbuf ∧ (enqueue lim batch cl).received = cl.received ∧
    (enqueue lim batch cl).started = cl.started ∧
    toDrain lim cl.msgs.length batch.length ≤ cl.msgs.length ∧
    (enqueue lim batch cl).msgs = cl.msgs.drop (toDrain lim cl.msgs.length batch.length) ++ batch := by
  refine ⟨rfl, rfl, rfl, toDrain_le _ _ _ hb, ?_⟩
  simp only [enqueue]
  rw [List.take_of_length_le hb]

/-- … and no more are discarded than needed: afterwards the queue holds `min limit (old + batch)` frames. -/
theorem drop_no_more_than_needed (lim : Nat) (batch : List Frame) (cl : Client) (hb : batch.length ≤ lim)
    (hm : cl.msgs.length ≤ lim) :
    (enqueue lim batch cl).msgs.length = min lim (cl.msgs.length + batch.length) := by
  rw [(drop_only_whole_oldest lim batch cl hb).2.2.2.2]
  simp only [List.length_append, List.length_drop, toDrain]
  split <;> omega

/-- the batch the fan-out hands to `enqueue` never exceeds the limit (the read loop stops there) -/
theorem wake_batch_le (s : State) (frames : List Frame) : (frames.take s.limit).length ≤ s.limit := by
  simp [List.length_take]; omega

/-- **no_tear_on_wouldblock.** `WouldBlock` (before any byte, or after a partial write): nothing is lost —
    the buffer taken from `wbuf`/`msgs` goes back into `wbuf` and is the very next thing written. -/
theorem no_tear_on_wouldblock (cl cl' : Client) (buf : List UInt8) (rs : List WriteResult)
    (h : takeBuf cl = some (buf, cl')) :
    drive {} cl (.wouldBlock :: rs) = ⟨{ cl' with wbuf := some buf }, false, rs, [buf.length], false⟩ ∧
    ∃ c'', takeBuf { cl' with wbuf := some buf } = some (buf, c'') := by
  refine ⟨by simp [drive, h, onBlock], ?_⟩
  exact ⟨{ cl' with wbuf := none }, by simp [takeBuf]⟩

/-- a short write keeps exactly the unwritten tail and accounts the written head as received -/
theorem partial_write_keeps_tail (cl cl' : Client) (buf : List UInt8) (n : Nat) (rs : List WriteResult)
    (h : takeBuf cl = some (buf, cl')) (h0 : 0 < n) (hn : n < buf.length) :
    drive {} cl (.ok n :: rs) =
      ⟨{ cl' with wbuf := some (buf.drop n), received := cl'.received ++ buf.take n }, false, rs, [buf.length], false⟩ := by
  have : n ≠ 0 := by omega
  simp [drive, h, this, hn]

/-- `Interrupted`: the same buffer is written again -/
theorem interrupted_retries_same_buffer (cl cl' : Client) (buf : List UInt8) (rs : List WriteResult)
    (h : takeBuf cl = some (buf, cl')) :
    drive {} cl (.interrupted :: rs) = (drive {} { cl' with wbuf := some buf } rs).push buf.length := by
  simp [drive, h, onBlock]

/-- **other clients cannot interfere.** What an event does to client `c` depends on `c`'s own state and
    `c`'s own write results only: a writable event of another client leaves it untouched, … -/
theorem writable_other_client_untouched (s : State) (c c' : Nat) (rs : List WriteResult) (h : c' ≠ c) :
    lookupKey c (step s (.writable c' rs)).clients = lookupKey c s.clients := by
  simp only [step, writableFull]
  rw [lookup_newClients]
  cases lookupKey c s.clients with
  | none => rfl
  | some cl =>
    have : ¬ (c = c') := fun e => h e.symm
    simp [writableClient, this]

/-- … and the fan-out treats it as if it were alone. -/
theorem wake_client_alone (s : State) (c : Nat) (metas : List (Nat × Frame)) (frames : List Frame)
    (rs : List (Nat × List WriteResult)) (hne : (frames.take s.limit).isEmpty = false) :
    lookupKey c (step s (.wake metas frames rs)).clients =
      (lookupKey c s.clients).map (fun cl =>
        (wakeClient s.fixes s.limit (frames.take s.limit) cl ((lookupKey c rs).getD [])).cl) := by
  simp only [step, wakeFull, hne, Bool.false_eq_true, if_false]
  rw [lookup_newClients]

/-! ### the behaviour before each repair (kernel-evaluated witnesses) -/

/-- before fix 1: `buffer_size(None)` → `VecDeque::with_capacity(usize::MAX)` panics; the exporter never serves -/
theorem legacy_no_limit_does_not_start : initTransport { cap := false } none = none := by decide

private def fA : Frame := ⟨0, [3, 10, 20, 30]⟩
private def fB : Frame := ⟨1, [2, 40, 50]⟩

/-- before fix 2: two clients, one found dead during a fan-out → `client_count = 0`, gate closed for the
    survivor (after the repair: 1 and open) -/
theorem legacy_double_decrement_closes_gate :
    let evs := [Event.accept [], Event.accept [], Event.wake [] [fA] [(2, [.err]), (3, [.ok 4])]]
    let old := run { fixes := { dec := false }, bufferSize := some 8 } evs
    let new := run { bufferSize := some 8 } evs
    (old.clientCount, old.shouldSend, aliveCount old.clients) = (0, false, 1) ∧
    (new.clientCount, new.shouldSend, aliveCount new.clients) = (1, true, 1) := by decide

/-- before fix 3: a short write followed by `WouldBlock` loses the tail of the frame — the next frame
    follows a torn one (after the repair the stream is `fA ++ fB`) -/
theorem legacy_wouldblock_tears_stream :
    let evs := [Event.accept [], Event.wake [] [fA] [(2, [.ok 1])], Event.wake [] [fB] [(2, [.wouldBlock, .ok 3])],
      Event.writable 2 [.ok 9]]
    let old := run { fixes := { block := false }, bufferSize := some 8 } evs
    let new := run { bufferSize := some 8 } evs
    (old.clients.map (·.2.received)) = [[3, 2, 40, 50]] ∧
    (new.clients.map (·.2.received)) = [[3, 10, 20, 30, 2, 40, 50]] := by decide

/-! ### non-vacuity -/

/-- a run with two clients, metadata at connect, a short write, `WouldBlock`, `Interrupted`, a reset client
    and a full queue: the hypotheses of the theorems above are met by a non-trivial state -/
private def demoEvs : List Event :=
  [ .wake [(0, ⟨100, [1, 7]⟩)] [] [],
    .accept [0], .accept [0],
    .writable 2 [.ok 2],
    .wake [] [fA, fB] [(2, [.ok 2, .wouldBlock]), (3, [.ok 1])],
    .writable 2 [.interrupted, .ok 2, .ok 3],
    .wake [] [fB] [(2, []), (3, [.err])],
    .writable 2 [.ok 3] ]

example : ∃ s, initTransport {} (some 2) = some s ∧
    (run s demoEvs).clientCount = 1 ∧ (run s demoEvs).shouldSend = true ∧
    (run s demoEvs).clients.map (fun p => (p.1, p.2.alive, p.2.received, p.2.dropped)) =
      [(2, true, [1, 7, 3, 10, 20, 30, 2, 40, 50, 2, 40, 50], 0), (3, false, [1], 0)] :=
  ⟨_, rfl, by decide⟩

/-- "no limit" starts and serves -/
example : ∃ s, initTransport {} none = some s ∧
    (run s [.accept [], .wake [] [fA] [(2, [.ok 4])]]).clients.map (·.2.received) = [[3, 10, 20, 30]] :=
  ⟨_, rfl, by decide⟩

/-- a slow client with `buffer_size = 1`: older whole frames are discarded, the started one is finished -/
example : ∃ s, initTransport {} (some 1) = some s ∧
    (run s [.accept [], .wake [] [fA] [(2, [.ok 1])], .wake [] [fB] [(2, [.wouldBlock, .wouldBlock])],
      .wake [] [fA] [(2, [.wouldBlock, .wouldBlock])], .writable 2 [.ok 3, .ok 4]]).clients.map
        (fun p => (p.2.received, p.2.dropped)) = [([3, 10, 20, 30, 3, 10, 20, 30], 1)] :=
  ⟨_, rfl, by decide⟩

end MetricsVerif.C11
