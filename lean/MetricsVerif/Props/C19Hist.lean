/-
C19, histogram clause under concurrency — "for histograms, exactly the values recorded since the previous snapshot, each
value appearing in exactly one snapshot", when `Histogram::record` / `record_many` calls and `Snapshotter::snapshot()`
calls RUN CONCURRENTLY on one `DebuggingRecorder`.

Model: `Model/DebuggingHist.lean` — one histogram of the recorder on the step machine of the lock-free bucket
(`Model/Bucket.lean`, one step = one shared-memory operation): `record(v)` = `push v`, `record_many(v, n)` = `n` pushes,
one `snapshot()` = ONE `clear_with` whose `cleared` result is what the snapshot shows for the key.  Any number of
recording threads, any number of snapshotting threads, any number of calls each, any block size, EVERY schedule.  This
refines the two steps that `Model/DebuggingConc.lean` (Props/C19Conc.lean) takes as atomic.  Built on C05's universal
theorems and their C07 forms (`Props/C05.lean`, `Props/C07Conc.lean`: the programs have the same shape, `progsOf_eq`).

* `shown_eq_delivered` — what the returned snapshots show, all together, is what the bucket's clears were handed.
* `conc_hist_never_in_two_snapshots` — ALL schedules, EVERY moment, per value: shown by returned snapshots + collected by
  snapshots still running + pending in the bucket ≤ recorded.  No value is ever shown twice (by two snapshots or by one),
  none is both shown and still pending, none is invented.  `conc_hist_value_in_one_snapshot`: a value recorded once is
  in at most one snapshot, counted over the individual snapshots.
* `conc_hist_partition_partial` — every schedule WITHOUT a K1 step, once all calls have returned: the snapshots together
  with what is still pending are a permutation of the recorded values — the values PARTITION across the snapshots (and
  the next one).  `conc_hist_final_snapshot_partial`: with one more snapshot taken after everything, the snapshots alone
  are a permutation of the recorded values and nothing is pending.
* `conc_hist_accounting_partial` — without a K1 step, at EVERY moment: every completed record() is in exactly one of:
  shown by a returned snapshot, collected by a running one, pending, in a detached block a running snapshot will read.
* `conc_snapshot_shows_completed_partial` — without a K1 step: a snapshot that BEGAN after a record() had returned and
  has itself returned: that value has been shown (by it or by a snapshot that returned before it).
* `conc_hist_exact_fails` — the full statement (without "no K1 step") is FALSE of the code (known finding K-C19-K1,
  inherits K-C05-K1): two record() calls return, the snapshots show one value, nothing is pending; the value whose claim
  was the K1 step is the lost one (`k1Vals = [2]`).
* `k1Vals_length` / `k1Vals_nil_of_noK1` / `k1ValsAcc_eq` — the ghost list of blamed values has exactly one element per
  K1 step (what the driver's `debug hconc` answers as `k1vals=` next to the count `k1=`).
* `record_many_is_n_records`, `src_hist_handle_path` — `record_many(v, n)` on the recorder's handle is `n` times
  `record(v)`, which is one `push` on the very bucket `snapshot` drains (source facts, regenerated on every run).
-/
import MetricsVerif.Model.DebuggingHist
import MetricsVerif.Props.C07Conc

namespace MetricsVerif.C19
open MetricsVerif.Bucket MetricsVerif.DebuggingHist

/-- the programs are those of `Model/PromConc` (recording threads push, the others run `clear_with`): C07's theorems
    about the bucket apply to the DebuggingRecorder's histogram as they stand -/
theorem progsOf_eq (recs : List (List Nat)) (snaps : List Nat) :
    DebuggingHist.progsOf recs snaps = PromConc.progsOf recs snaps := rfl

theorem recorded_eq (recs : List (List Nat)) : DebuggingHist.recorded recs = PromConc.recorded recs := rfl

theorem flatten_clearedOf (rs : List Res) :
    (rs.filterMap clearedOf).flatten = rs.flatMap (fun r => match r with | .cleared vs => vs | _ => []) := by
  induction rs with
  | nil => rfl
  | cons r rs ih =>
    cases r <;> simp [clearedOf, List.filterMap_cons, List.flatMap_cons, ih]

theorem flatten_flatMap_snaps (ts : List Thread) :
    (ts.flatMap snapsOfThread).flatten
      = ts.flatMap (fun t => t.results.flatMap (fun r => match r with | .cleared vs => vs | _ => [])) := by
  induction ts with
  | nil => rfl
  | cons t ts ih =>
    simp only [List.flatMap_cons, List.flatten_append, ih, snapsOfThread, flatten_clearedOf]

/-- **what the snapshots show is what the bucket handed out**: the values of all returned snapshots, thread by thread and
    snapshot by snapshot, are exactly the values handed to the callbacks of the finished `clear_with` calls -/
theorem shown_eq_delivered (s : Sys) : shown s = delivered s := by
  unfold shown snapshots delivered
  exact flatten_flatMap_snaps s.threads

/-! ### all schedules: never in two snapshots, never invented -/

/-- **no value is ever shown twice, none is invented — in every interleaving, at every moment.**  Any recording threads
    `recs`, any snapshotting threads `snaps`, any block size, EVERY schedule, value by value: (occurrences shown by the
    snapshots that have returned) + (occurrences collected by snapshots still walking their chain) + (occurrences still
    pending in the bucket) ≤ (times the value was recorded). -/
theorem conc_hist_never_in_two_snapshots (B : Nat) (recs : List (List Nat)) (snaps : List Nat) (sched : List Nat) (v : Nat) :
    (shown (run (Bucket.init B (progsOf recs snaps)) sched)).count v
      + (inRunningClears (run (Bucket.init B (progsOf recs snaps)) sched)).count v
      + (pending (run (Bucket.init B (progsOf recs snaps)) sched)).count v ≤ (recorded recs).count v := by
  rw [shown_eq_delivered]
  exact C07.conc_never_counted_twice B recs snaps sched v

/-- counted over the INDIVIDUAL snapshots: a value recorded once is in at most one snapshot, at most once -/
theorem conc_hist_value_in_one_snapshot (B : Nat) (recs : List (List Nat)) (snaps : List Nat) (sched : List Nat) (v : Nat)
    (hone : (recorded recs).count v ≤ 1) :
    ((snapshots (run (Bucket.init B (progsOf recs snaps)) sched)).map (fun sn => sn.count v)).sum ≤ 1 := by
  have h := conc_hist_never_in_two_snapshots B recs snaps sched v
  unfold shown at h
  rw [List.count_flatten] at h
  have e : (fun sn : List Nat => sn.count v) = List.count v := rfl
  rw [e]
  omega

/-- a snapshot never shows a value whose record() has not at least claimed its slot -/
theorem conc_hist_shown_le_begun (B : Nat) (recs : List (List Nat)) (snaps : List Nat) (sched : List Nat) (v : Nat) :
    (shown (run (Bucket.init B (progsOf recs snaps)) sched)).count v
      + (inRunningClears (run (Bucket.init B (progsOf recs snaps)) sched)).count v
      + (pending (run (Bucket.init B (progsOf recs snaps)) sched)).count v
      ≤ cellsCount v (run (Bucket.init B (progsOf recs snaps)) sched) := by
  rw [shown_eq_delivered]
  exact C07.conc_count_le_begun B recs snaps sched v

/-! ### schedules without a K1 step: the values partition across the snapshots -/

/-- **partition** (per value): any recording and snapshotting threads, any block size, EVERY schedule in which no
    record()'s slot claim lands on a block a snapshot has already detached (no K1 step), once all calls have returned:
    shown by the snapshots + still pending = recorded. -/
theorem conc_hist_partition_count_partial (B : Nat) (recs : List (List Nat)) (snaps : List Nat) (sched : List Nat)
    (hk : C05.stragglerClaims B (progsOf recs snaps) sched = 0)
    (hq : quiescent (run (Bucket.init B (progsOf recs snaps)) sched) = true) (v : Nat) :
    (shown (run (Bucket.init B (progsOf recs snaps)) sched)).count v
      + (pending (run (Bucket.init B (progsOf recs snaps)) sched)).count v = (recorded recs).count v := by
  rw [shown_eq_delivered]
  exact C07.conc_hist_conserved_partial B recs snaps sched hk hq v

/-- **the values partition across the snapshots** (outside K1): same scope — all snapshots taken, one after the other,
    followed by what the next snapshot would show, are a permutation of the recorded values: every value appears in
    exactly one snapshot (or is still pending for the next one), none twice, none lost, none invented. -/
theorem conc_hist_partition_partial (B : Nat) (recs : List (List Nat)) (snaps : List Nat) (sched : List Nat)
    (hk : C05.stragglerClaims B (progsOf recs snaps) sched = 0)
    (hq : quiescent (run (Bucket.init B (progsOf recs snaps)) sched) = true) :
    ((snapshots (run (Bucket.init B (progsOf recs snaps)) sched)).flatten
      ++ pending (run (Bucket.init B (progsOf recs snaps)) sched)).Perm (recorded recs) := by
  rw [List.perm_iff_count]
  intro v
  rw [List.count_append]
  exact conc_hist_partition_count_partial B recs snaps sched hk hq v

/-- **with a final snapshot the snapshots alone hold everything**: recording threads `recs`, snapshotting threads `snaps`,
    plus ONE more snapshot (thread `f`, the last one) that has not started when all the other threads have finished
    (`pre`), and then runs (`fin`).  For every such schedule without a K1 step: the snapshots are a permutation of the
    recorded values and nothing is left pending. -/
theorem conc_hist_final_snapshot_partial (B : Nat) (recs : List (List Nat)) (snaps : List Nat) (pre fin : List Nat)
    (hk : C05.stragglerClaims B (progsOf recs (snaps ++ [1])) (pre ++ fin) = 0)
    (hothers : ∀ (i : Nat) (t : Thread), (run (Bucket.init B (progsOf recs (snaps ++ [1]))) pre).threads[i]? = some t →
        i ≠ recs.length + snaps.length → t.pc = .done)
    (hme : (run (Bucket.init B (progsOf recs (snaps ++ [1]))) pre).threads[recs.length + snaps.length]?
        = some (mkThread [.clear]))
    (hq : quiescent (run (Bucket.init B (progsOf recs (snaps ++ [1]))) (pre ++ fin)) = true) :
    ((snapshots (run (Bucket.init B (progsOf recs (snaps ++ [1]))) (pre ++ fin))).flatten).Perm (recorded recs)
      ∧ pending (run (Bucket.init B (progsOf recs (snaps ++ [1]))) (pre ++ fin)) = [] := by
  have h := C07.conc_final_render_exact_partial B recs snaps pre fin hk hothers hme hq
  refine ⟨?_, h.2.1⟩
  rw [List.perm_iff_count]
  intro v
  have := h.2.2 v
  rw [← shown_eq_delivered] at this
  exact this

/-- **accounting at every moment** (schedules without a K1 step, NOT only at quiescence): every completed record() of `v`
    (published slot) is in exactly one of: shown by a returned snapshot, collected by a snapshot that is still walking its
    chain, pending in a block reachable from the tail, or in a detached block that a running snapshot has not read yet. -/
theorem conc_hist_accounting_partial (B : Nat) (recs : List (List Nat)) (snaps : List Nat) (sched : List Nat)
    (hk : C05.stragglerClaims B (progsOf recs snaps) sched = 0) (v : Nat) :
    pubCount v (run (Bucket.init B (progsOf recs snaps)) sched)
      = (shown (run (Bucket.init B (progsOf recs snaps)) sched)).count v
        + (inRunningClears (run (Bucket.init B (progsOf recs snaps)) sched)).count v
        + pubIn v isLive (grun (Bucket.init B (progsOf recs snaps)) own0 sched).2 (run (Bucket.init B (progsOf recs snaps)) sched)
        + pubIn v isDet (grun (Bucket.init B (progsOf recs snaps)) own0 sched).2 (run (Bucket.init B (progsOf recs snaps)) sched) := by
  rw [shown_eq_delivered]
  exact C05.accounting_except_K1 B (progsOf recs snaps) sched hk v

/-- **a snapshot shows (or a previous one has shown) every value recorded before it began — outside K1.**  EVERY schedule
    `pre ++ mid` without a K1 step such that after `pre` the snapshotting thread `d` has not yet loaded the tail in its
    current snapshot and after `pre ++ mid` that snapshot has returned, and no thread is inside a `clear_with` walk at that
    moment: every value whose record() had returned when `pre` ended is among the values shown by the returned snapshots,
    at least as often as it had been recorded by then (and by `conc_hist_never_in_two_snapshots` not more often than
    recorded). -/
theorem conc_snapshot_shows_completed_partial (B : Nat) (recs : List (List Nat)) (snaps : List Nat) (pre mid : List Nat)
    (d : Nat) (t0 t1 : Thread)
    (hk : C05.stragglerClaims B (progsOf recs snaps) (pre ++ mid) = 0)
    (h0 : (run (Bucket.init B (progsOf recs snaps)) pre).threads[d]? = some t0)
    (hcall : t0.calls.head? = some .clear) (hpc : t0.pc = .start ∨ t0.pc = .cLoadTail)
    (h1 : (run (Bucket.init B (progsOf recs snaps)) (pre ++ mid)).threads[d]? = some t1)
    (hret : t0.results.length < t1.results.length)
    (hidle : ∀ (i : Nat) (t : Thread),
      (run (Bucket.init B (progsOf recs snaps)) (pre ++ mid)).threads[i]? = some t → claim t.pc = none)
    (v : Nat) :
    pubCount v (run (Bucket.init B (progsOf recs snaps)) pre)
      ≤ (shown (run (Bucket.init B (progsOf recs snaps)) (pre ++ mid))).count v := by
  rw [shown_eq_delivered]
  exact C05.delivered_once_clear_returned B (progsOf recs snaps) pre mid d t0 t1 hk h0 hcall hpc h1 hret hidle v

/-! ### the ghost list of blamed values -/

/-- one blamed value per K1 step -/
theorem k1Vals_length (sched : List Nat) : ∀ (s : Sys) (own : Nat → Owner),
    (k1Vals s own sched).length = k1Count s own sched := by
  induction sched with
  | nil => intro s own; rfl
  | cons t ts ih =>
    intro s own
    simp only [k1Vals, k1Count, List.length_append, ih]
    cases k1Step s own t <;> simp

/-- a run without a K1 step blames no value -/
theorem k1Vals_nil_of_noK1 (B : Nat) (progs : List (List Call)) (sched : List Nat)
    (hk : C05.stragglerClaims B progs sched = 0) : k1Vals (Bucket.init B progs) own0 sched = [] := by
  apply List.eq_nil_of_length_eq_zero
  rw [k1Vals_length]
  exact hk

/-- the driver's accumulator form is `k1Vals` -/
theorem k1ValsAcc_eq (sched : List Nat) : ∀ (s : Sys) (own : Nat → Owner) (acc : List Nat),
    k1ValsAcc s own acc sched = acc.reverse ++ k1Vals s own sched := by
  induction sched with
  | nil => intro s own acc; simp [k1ValsAcc, k1Vals]
  | cons t ts ih =>
    intro s own acc
    simp only [k1ValsAcc, k1Vals, ih]
    cases k1Step s own t <;> simp

/-! ### the full statement is false of the code: K-C19-K1 -/

/-- the clause "each value appears in exactly one snapshot however record() and snapshot() are interleaved" is FALSE of
    the code without the K1 hypothesis (known finding K-C19-K1, inherits K-C05-K1): recorder 1 loads the tail, the
    snapshot of thread 2 detaches the chain, waits for recorder 0 and shows its value, then recorder 1 claims and publishes
    its slot in the detached block.  Both record() calls have returned; the final snapshot (thread 3), started after
    everything else has finished, shows nothing: 2 values recorded, the snapshots show `[[1], []]`, nothing is pending —
    value 2 is in no snapshot, ever.  The schedule has exactly ONE K1 step and the value it blames is the lost one.
    (Block size 2 keeps the kernel evaluation small; the harness replays the schedule on the real recorder with 64.) -/
theorem conc_hist_exact_fails :
    let progs := progsOf [[1], [2]] ([1] ++ [1])
    let pre := [0, 1, 2, 0, 0, 0, 0, 1, 2, 2, 2, 2, 2, 1, 1]
    let s := run (Bucket.init 2 progs) (pre ++ [3, 3])
    quiescent s = true ∧ completedPushes s = 2
    ∧ (run (Bucket.init 2 progs) pre).threads[3]? = some (mkThread [.clear])
    ∧ snapshots s = [[1], []] ∧ pending s = []
    ∧ recorded [[1], [2]] = [1, 2]
    ∧ C05.stragglerClaims 2 progs (pre ++ [3, 3]) = 1
    ∧ k1Vals (Bucket.init 2 progs) own0 (pre ++ [3, 3]) = [2] := by decide

/-! ### record_many, and the path of a value into the bucket -/

/-- `record_many(v, n)` records `n` times `v`: the thread's program is `n` pushes of `v`, and `v` is recorded `n` more
    times than without the call -/
theorem record_many_is_n_records (v n : Nat) (before after : List Nat) :
    recCalls (before ++ recordMany v n ++ after) = recCalls before ++ List.replicate n (.push v) ++ recCalls after
    ∧ (recorded [before ++ recordMany v n ++ after]).count v = (recorded [before ++ after]).count v + n := by
  constructor
  · simp [recCalls, recordMany, List.map_append, List.map_replicate]
  · simp [recorded, recordMany, List.count_append, List.count_replicate_self]
    omega

/-- SOURCE FACT (regenerated on every run): the handle `register_histogram` returns is `Histogram::from_arc` of the
    registry's own cell, the cell is an `Arc<AtomicBucket<f64>>` made empty; metrics-util/src/storage/mod.rs implements
    `HistogramFn for AtomicBucket<f64>` with `record` only, as one `push(value)`; so `record_many` on this handle is the
    trait's default: `count` times `record(value)` (the model's `recordMany`).  A `record_many` written there (batched,
    capped at the block size, skipping a sample) breaks this obligation.  metrics-util/src/handles.rs holds a second copy
    of that impl but is no module of the crate (`lib.rs` declares no `mod handles`): pinned by the module list. -/
theorem src_hist_handle_path :
    Generated.debug_register_histogram_handle = "|h|Histogram::from_arc(h.clone())"
    ∧ Generated.debug_atomic_storage_histogram_type = "Arc<AtomicBucket<f64>>"
    ∧ Generated.debug_atomic_storage_histogram_new = "{Arc::new(AtomicBucket::new())}"
    ∧ Generated.debug_storage_mod_impls
        = ["HistogramFnforAtomicBucket<f64>", "HistogramFnforself::reservoir::AtomicSamplingReservoir"]
    ∧ Generated.debug_util_lib_mods
        = ["debugging", "quantile", "registry", "storage", "common", "key", "kind", "recoverable", "layers", "test_util"]
    ∧ Generated.debug_bucket_histogram_fn_methods = ["record"]
    ∧ Generated.debug_bucket_histogram_fn_record = "{self.push(value);}"
    ∧ Generated.debug_histogram_fn_record_many_default = "{for_in0..count{self.record(value);}}" := by decide

/-! ### non-vacuity -/

/-- `conc_hist_partition_partial` / `conc_hist_final_snapshot_partial` on a run with a hand-over (block size 2), two
    recorders (one through `record_many`), a snapshotter whose first detach CAS fails (it retries) and the final snapshot:
    all hypotheses hold; the snapshots are `[[4, 1, 1]]` and `[[3]]`, together the 4 recorded values -/
example :
    let recs := [recordMany 1 2 ++ [3], [4]]
    let progs := progsOf recs ([1] ++ [1])
    let pre := [0,0,0,0,0, 0,0, 2,2, 1,1,1,1,1, 2, 2,2,2,2, 1, 2,2,2,2, 0, 2,2,2, 0,0,0,0]
    let fin := [3, 3, 3, 3, 3, 3, 3]
    let s := run (Bucket.init 2 progs) (pre ++ fin)
    C05.stragglerClaims 2 progs (pre ++ fin) = 0
    ∧ (run (Bucket.init 2 progs) pre).threads[3]? = some (mkThread [.clear])
    ∧ ((run (Bucket.init 2 progs) pre).threads.map (·.pc)) = [.done, .done, .done, .start]
    ∧ quiescent s = true
    ∧ snapshots s = [[4, 1, 1], [3]] ∧ pending s = []
    ∧ k1Vals (Bucket.init 2 progs) own0 (pre ++ fin) = [] := by decide

/-- a run stopped in the middle (a snapshot has collected one block and waits on the next, one record() in flight):
    `conc_hist_never_in_two_snapshots` / `conc_hist_accounting_partial` speak about such states -/
example :
    let recs := [[1, 2, 3], [4]]
    let progs := progsOf recs [2]
    let sched := [0,0,0,0,0, 0,0, 2,2, 1,1,1,1,1, 2, 2,2,2,2, 1, 2,2,2,2]
    let s := run (Bucket.init 2 progs) sched
    quiescent s = false ∧ snapshots s = [] ∧ inRunningClears s = [4] ∧ pending s = []
    ∧ pubCount 1 s = 1 ∧ inFlight 2 s = 1 := by decide

end MetricsVerif.C19
