/-
C16 — the sampling reservoir reports true counts and favours no stream position.

Model: `Model/Reservoir.lean` (`Reservoir::push/drain`, `Drain::sample_rate`, `Drain::drop`,
`AtomicSamplingReservoir::{new,push,consume,is_empty}`), sequential histories.  The random choice of every push
is an input, so "for all choice vectors" is a plain universal quantifier, and the uniformity statement is an exact
count over the finite product of the ranges the code asks its generator for — no sampling, no floats.

Pushes overlapping `consume` are covered by the step machine `Model/ReservoirConc` (theorems `conc_*` below): no panic
and the length/rate bounds hold under every schedule; a drain whose swap finds no push in flight is exact; the two
witnesses of known finding K-C16-straddle show that the full statement fails otherwise.
-/
import MetricsVerif.Proofs.Reservoir
import MetricsVerif.Proofs.ReservoirConc
import MetricsVerif.Proofs.ReservoirPushers
import MetricsVerif.Proofs.ReservoirIter
import MetricsVerif.Proofs.SrcShapes
import MetricsVerif.Generated.SourceFacts

namespace MetricsVerif.C16
open MetricsVerif.Reservoir

/-! ## what a drain yields, for every capacity, every history of pushes and drains, every choice vector -/

/-- **drain_sound.** After any sequential history `ops` on a reservoir of any capacity (any values, any random
    choices, any number of earlier push/drain cycles), the next drain
    * yields a sub-multiset of the values pushed since the previous drain (`pendOf ops`),
    * yields exactly `min(pushed, capacity)` values — never more than the capacity,
    * knows the true number of values pushed since the previous drain. -/
theorem drain_sound (cap : Nat) (ops : List Op) :
    let d := (run (ASR.new cap) ops).consume.2
    (∀ x, d.values.count x ≤ (pendOf ops).count x)
    ∧ d.values.length = min (pendOf ops).length cap
    ∧ d.len = d.values.length
    ∧ d.unsampled = (pendOf ops).length := by
  have h := inv_run cap ops
  have hl := h.active_len
  simp only [consume_out, drain_values, drain_len, drain_unsampled]
  refine ⟨h.act.sub, ?_, ?_, h.act.count_eq⟩
  · rw [List.length_take, hl, h.act.count_eq]; omega
  · rw [List.length_take, hl]; omega

/-- **drain_all.** When no more than `capacity` values were pushed since the previous drain, the drain yields
    all of them (in push order). -/
theorem drain_all (cap : Nat) (ops : List Op) (hn : (pendOf ops).length ≤ cap) :
    (run (ASR.new cap) ops).consume.2.values = pendOf ops := by
  have h := inv_run cap ops
  have hl := h.active_len
  have hc := h.act.count_eq
  rw [consume_out, drain_values, Nat.min_eq_left (by omega)]
  exact h.act.all (by omega)

/-- **rate_exact.** The sample rate the drain reports, as the exact fraction `num/den` the code divides
    (`1.0` is `1/1`), satisfies `rate · pushed = yielded` with `den ≠ 0`: it is `1` when no more than `capacity`
    values were pushed since the previous drain and `capacity / pushed` otherwise. -/
theorem rate_exact (cap : Nat) (ops : List Op) :
    let d := (run (ASR.new cap) ops).consume.2
    d.rate.1 * (pendOf ops).length = d.values.length * d.rate.2
    ∧ 0 < d.rate.2
    ∧ d.rate = if (pendOf ops).length ≤ cap then (1, 1) else (cap, (pendOf ops).length) := by
  have h := inv_run cap ops
  have hl := h.active_len
  have hc := h.act.count_eq
  simp only [DrainOut.rate, consume_out, drain_values, drain_len, drain_unsampled, List.length_take, hl, hc]
  by_cases hn : (pendOf ops).length ≤ cap
  · have e : min (pendOf ops).length cap = (pendOf ops).length := by omega
    simp [hn, e]
  · have e : min (pendOf ops).length cap = cap := by omega
    have ne : ¬ (pendOf ops).length = cap := by omega
    simp only [hn, e, ne, if_false]
    refine ⟨by rw [Nat.min_self], by omega, trivial⟩

/-- **next_drain_empty.** A drain leaves the reservoir empty: `is_empty()` holds, and a drain that follows with no
    push in between yields nothing, reports 0 pushed and rate 1. (With pushes in between, `drain_sound` applies to
    the longer history: it only ever sees the values pushed after this drain.) -/
theorem next_drain_empty (cap : Nat) (ops : List Op) :
    let a := (run (ASR.new cap) ops).consume.1
    a.isEmpty = true ∧ a.consume.2 = { values := [], unsampled := 0, len := 0 } ∧ a.consume.2.rate = (1, 1) := by
  have h := (inv_run cap ops).consume
  have hc := h.act.count_eq
  simp only [List.length_nil] at hc
  have hd : (run (ASR.new cap) ops).consume.1.consume.2 = { values := [], unsampled := 0, len := 0 } := by
    rw [consume_out]
    simp [Res.drain, hc]
  refine ⟨by simp [ASR.isEmpty, hc], hd, by rw [hd]; rfl⟩

/-- `pendOf` really is "the values pushed since the previous drain": a history that ends with a drain followed by
    the pushes `vs` (with any choices `cs`) has exactly `vs` pending, whatever happened before. -/
theorem pendOf_after_consume (before : List Op) (vcs : List (Nat × Nat)) :
    pendOf (before ++ [Op.consume] ++ vcs.map (fun vc => Op.push vc.1 vc.2)) = vcs.map (·.1) := by
  have gen : ∀ (vcs : List (Nat × Nat)) (p : List Nat),
      (vcs.map (fun vc => Op.push vc.1 vc.2)).foldl pendStep p = p ++ vcs.map (·.1) := by
    intro vcs
    induction vcs with
    | nil => intro p; simp
    | cons vc vcs ih => intro p; simp [pendStep, ih]
  simp [pendOf, List.foldl_append, pendStep, gen]

/-! ## pushing never panics -/

/-- **push_total (step).** `Reservoir::push` never reaches the panicking call `fastrand(0)`: for every state
    (any capacity including 0, any count), value and random number the panic flag is unchanged. -/
theorem push_total (r : Res) (v c : Nat) : (r.push v c).panicked = r.panicked := push_panicked r v c

/-- **no_panic.** No sequential history on a reservoir of any capacity (including 0) ever panics. -/
theorem no_panic (cap : Nat) (ops : List Op) :
    (run (ASR.new cap) ops).primary.panicked = false ∧ (run (ASR.new cap) ops).secondary.panicked = false :=
  ⟨(inv_run cap ops).okP, (inv_run cap ops).okS⟩


/-! ## pushes concurrent with drains: the step machine `Model/ReservoirConc` (any number of threads, any schedule)

One `cstep` is one grant of the deterministic scheduler: one shared-memory operation of `push` (`use_primary.load`,
`count.fetch_add`, the slot store) or of `consume` (lock + swap + `count.load`; one slot load; reset + unlock).  The
harness replays every executed schedule of the real code on this machine (`reservoir crun`). -/

/-- `Reservoir::push` is exactly "claim an index with `fetch_add`, then run the store step with that index": the
    concurrent machine splits `push` at this point and nowhere else -/
theorem push_is_claim_then_store (r : Res) (v c : Nat) : r.push v c = (r.claim.1).storeAt r.claim.2 v c :=
  push_eq_claim_store r v c

/-- **conc_no_panic.** Under every schedule of every set of thread programs (pushes overlapping drains, several
    pushers, several consumers, any capacity including 0) no push reaches `fastrand(0)`: the replacement step asks for
    `idx + 1` of the index THIS push claimed, which no reset of `count` by a drain can turn into 0. -/
theorem conc_no_panic (cap : Nat) (progs : List (List COp)) (sched : List Nat) :
    (crun (Sys.init cap progs) sched).panicked = false := by
  have h := (CInv.init cap progs).run sched
  simp [Sys.panicked, h.okP, h.okS]

/-- **conc_drain_bounds.** Under every schedule, every drain that completes yields exactly `min(count it loaded,
    capacity)` values — never more than the capacity — and reports that count; so its sample rate is
    `yielded / count loaded` also when pushes overlap it. -/
theorem conc_drain_bounds (cap : Nat) (progs : List (List COp)) (sched : List Nat) :
    ∀ td ∈ (crun (Sys.init cap progs) sched).drains,
      td.2.len = min td.2.unsampled cap ∧ td.2.values.length = td.2.len ∧ td.2.values.length ≤ cap := by
  intro td htd
  have h := ((CInv.init cap progs).run sched).dr td htd
  exact ⟨h.1, h.2, by omega⟩

/-- **conc_quiescent_drain_exact_partial.** The part of `drain_sound`/`drain_all`/`rate_exact` that survives
    concurrency: if a consumer takes the lock at a moment when no thread is inside a push on the active side (no
    thread has loaded `use_primary` and not yet stored) then, WHATEVER is scheduled afterwards — pushes of any number
    of threads, which all go to the other side, other consumers queueing for the lock — the drain it completes is
    exactly the sequential drain `consume.2` of the state at the swap (to which `drain_sound`, `drain_all`,
    `rate_exact` apply), and it is the next drain recorded. -/
theorem conc_quiescent_drain_exact_partial (s0 : Sys) (t : Nat) (asked : List (Option Nat)) (rest : List COp)
    (hth : s0.threads[t]? = some { prog := .consume :: rest, pc := .idle, asked := asked })
    (hfree : s0.locked = false)
    (hq : ∀ (i : Nat) (th : Thread), s0.threads[i]? = some th →
      th.midPushOn s0.asr.usePrimary = false ∧ ∀ q u l vs, th.pc ≠ .reading q u l vs)
    (sched : List Nat) :
    (crun (cstep s0 t) sched).drains = s0.drains
    ∨ ∃ tail, (crun (cstep s0 t) sched).drains = s0.drains ++ [(t, s0.asr.consume.2)] ++ tail := by
  obtain ⟨hq', e⟩ := QInv.start s0 t asked rest hth hfree hq
  have := hq'.run sched
  rw [e] at this
  rw [consume_out]
  exact this

/-- the full statement is false when a push overlaps the drain (known finding K-C16-straddle), witness 1: the push
    loaded `use_primary` before the swap and claims its index after the drain's `count.load`; the reset wipes it.
    All three drains (both sides) are empty and report 0 pushed although `push(7)` completed. -/
theorem conc_straddle_late_claim_lost :
    let s := crun (Sys.init 4 [[.push 7 0], [.consume, .consume, .consume]]) [0, 1, 0, 0, 1, 1, 1, 1, 1]
    s.finished = true ∧ s.drains.map (fun td => (td.2.values, td.2.unsampled)) = [([], 0), ([], 0), ([], 0)] := by
  decide

/-- … witness 2: the push has claimed slot 0 but not stored yet when the drain reads it: the drain yields the old
    slot content `0`, which was never pushed, and reports 1 pushed -/
theorem conc_straddle_stale_yield :
    let s := crun (Sys.init 4 [[.push 7 0], [.consume]]) [0, 0, 1, 1, 1, 0]
    s.finished = true ∧ s.drains = [(1, { values := [0], unsampled := 1, len := 1 })] := by
  decide

/-- a closure that leaks the `Drain` (`mem::forget`) skips the reset: the values come out again two drains later
    (assumption "the closure drops the Drain" of the sequential theorems is necessary) -/
theorem forget_breaks_next_drain :
    let a := run (ASR.new 2) [.push 1 0, .push 2 0]
    let (a1, d1) := a.consumeForget
    let (a2, _) := a1.consume
    d1.values = [1, 2] ∧ a2.consume.2.values = [1, 2] := by
  decide

/-! ## concurrent pushers (any number of threads, every schedule, no drain in flight): counts and retention

An *epoch of pushers* starts in a state where every thread is between two operations and the active side has been
reset (the initial state; any state after a drain that overlapped no push), and is a schedule none of whose grants
executes a step of `consume` (`pushOnlySched`).  `pendingOf s0.threads` lists the values the threads push before
their next `consume`; the hypothesis `hdone` says that all these pushes have completed. -/

/-- **conc_pushers_epoch_exact.** Any number of pusher threads, EVERY schedule of their steps (`use_primary.load`,
    `fetch_add`, slot store — interleaved in any way, stores overtaking each other, replacement stores landing before
    the fill store of the same slot, …): once all pushes have completed, the drain that comes next
    * reports exactly the number of pushes made (`unsampled = n`),
    * yields exactly `min(n, capacity)` values,
    * yields only values that were pushed, and no push more than once (sub-multiset: no invention, no duplication),
    * yields ALL pushed values when `n ≤ capacity` (as a rearrangement: with several pushers slot order is claim
      order, not program order),
    * reports `sample_rate = yielded / pushed`;
    and the epoch leaves every thread between operations, the lock and the recorded drains untouched. -/
theorem conc_pushers_epoch_exact (s0 : Sys) (cap : Nat) (sched : List Nat)
    (hidle : ∀ th ∈ s0.threads, th.pc = .idle)
    (hlen : s0.asr.active.slots.length = cap) (hcnt : s0.asr.active.count = 0)
    (hsched : pushOnlySched s0 sched = true)
    (hdone : ∀ th ∈ (crun s0 sched).threads, pushPrefix th.prog = []) :
    let d := (crun s0 sched).asr.consume.2
    let tot := pendingOf s0.threads
    d.unsampled = tot.length ∧ d.len = min tot.length cap ∧ d.values.length = min tot.length cap
    ∧ (∀ x, d.values.count x ≤ tot.count x)
    ∧ (tot.length ≤ cap → d.values.Perm tot)
    ∧ d.rate.1 * tot.length = d.values.length * d.rate.2 ∧ 0 < d.rate.2
    ∧ (crun s0 sched).asr.usePrimary = s0.asr.usePrimary ∧ (crun s0 sched).locked = s0.locked
    ∧ (crun s0 sched).drains = s0.drains ∧ ∀ th ∈ (crun s0 sched).threads, th.pc = .idle := by
  obtain ⟨⟨sh, h⟩, hl, hd⟩ := (PInv.start s0.asr s0.threads cap hidle hlen hcnt).run sched hsched
  obtain ⟨hc, hsub, hid⟩ := h.done hdone
  have hact : (crun s0 sched).asr.active = (crun s0 sched).asr.side s0.asr.usePrimary := by
    rw [active_eq_side, h.up]
  have hslen := h.len
  simp only
  rw [consume_out, hact]
  have hv : ((crun s0 sched).asr.side s0.asr.usePrimary).drain.values
      = ((crun s0 sched).asr.side s0.asr.usePrimary).slots.take (min (pendingOf s0.threads).length cap) := by
    rw [drain_values, hc, hslen]
  have hvl : ((crun s0 sched).asr.side s0.asr.usePrimary).drain.values.length = min (pendingOf s0.threads).length cap := by
    rw [hv, List.length_take, hslen]; omega
  have hlen' : ((crun s0 sched).asr.side s0.asr.usePrimary).drain.len = min (pendingOf s0.threads).length cap := by
    rw [drain_len, hc, hslen]
  have hsub' : ∀ x, ((crun s0 sched).asr.side s0.asr.usePrimary).drain.values.count x ≤ (pendingOf s0.threads).count x := by
    intro x; rw [hv]; exact hsub x
  refine ⟨hc, hlen', hvl, hsub', ?_, ?_, ?_, h.up, hl, hd, hid⟩
  · intro hle
    exact perm_of_count_le_of_length_eq _ _ hsub' (by rw [hvl]; omega)
  · simp only [DrainOut.rate, drain_unsampled, hlen', hc, hvl]
    split
    · omega
    · rfl
  · simp only [DrainOut.rate]
    split
    · exact Nat.one_pos
    · rename_i hne
      simp only [drain_unsampled, hlen', hc] at hne ⊢
      omega

/-- **conc_pushers_first_epoch.** The same from the initial state: thread programs `progs` (any number of threads),
    any schedule that grants no `consume` step, all pushes (before each thread's first `consume`) completed: the first
    drain reports `n` = the number of these pushes, yields `min(n, cap)` of their values, each push at most once. -/
theorem conc_pushers_first_epoch (cap : Nat) (progs : List (List COp)) (sched : List Nat)
    (hsched : pushOnlySched (Sys.init cap progs) sched = true)
    (hdone : ∀ th ∈ (crun (Sys.init cap progs) sched).threads, pushPrefix th.prog = []) :
    let d := (crun (Sys.init cap progs) sched).asr.consume.2
    let tot := progs.flatMap pushPrefix
    d.unsampled = tot.length ∧ d.len = min tot.length cap ∧ d.values.length = min tot.length cap
    ∧ (∀ x, d.values.count x ≤ tot.count x) ∧ (tot.length ≤ cap → d.values.Perm tot)
    ∧ d.rate.1 * tot.length = d.values.length * d.rate.2 ∧ 0 < d.rate.2 := by
  have e : pendingOf (Sys.init cap progs).threads = progs.flatMap pushPrefix := by
    simp [pendingOf, Sys.init, List.flatMap_map]
  have h := conc_pushers_epoch_exact (Sys.init cap progs) cap sched
    (by intro th hth; simp only [Sys.init, List.mem_map] at hth; obtain ⟨_, _, rfl⟩ := hth; rfl)
    (by simp [Sys.init, ASR.new, ASR.active]) (by simp [Sys.init, ASR.new, ASR.active]) hsched hdone
  simp only [e] at h
  exact ⟨h.1, h.2.1, h.2.2.1, h.2.2.2.1, h.2.2.2.2.1, h.2.2.2.2.2.1, h.2.2.2.2.2.2.1⟩

/-- **conc_pushers_then_drain_exact.** End to end with the consumer in the machine: after an epoch of pushers (as in
    `conc_pushers_epoch_exact`), a thread `t` whose next operation is `consume` takes the free lock; WHATEVER is
    scheduled afterwards (further pushes of any thread — they go to the other side —, other consumers queueing), the
    next drain recorded is `t`'s and it is exact: it reports all `n` pushes of the epoch, yields `min(n, cap)` values,
    all of them pushed in the epoch and no push twice, and `sample_rate · n = yielded`. -/
theorem conc_pushers_then_drain_exact (s0 : Sys) (cap : Nat) (sched1 : List Nat)
    (hidle : ∀ th ∈ s0.threads, th.pc = .idle)
    (hlen : s0.asr.active.slots.length = cap) (hcnt : s0.asr.active.count = 0)
    (hsched : pushOnlySched s0 sched1 = true)
    (hdone : ∀ th ∈ (crun s0 sched1).threads, pushPrefix th.prog = [])
    (hfree : s0.locked = false)
    (t : Nat) (asked : List (Option Nat)) (rest : List COp)
    (ht : (crun s0 sched1).threads[t]? = some { prog := .consume :: rest, pc := .idle, asked := asked })
    (sched2 : List Nat) :
    let tot := pendingOf s0.threads
    (crun s0 (sched1 ++ t :: sched2)).drains = s0.drains
    ∨ ∃ d tail, (crun s0 (sched1 ++ t :: sched2)).drains = s0.drains ++ [(t, d)] ++ tail
        ∧ d.unsampled = tot.length ∧ d.values.length = min tot.length cap
        ∧ (∀ x, d.values.count x ≤ tot.count x) ∧ (tot.length ≤ cap → d.values.Perm tot)
        ∧ d.rate.1 * tot.length = d.values.length * d.rate.2 ∧ 0 < d.rate.2 := by
  have h := conc_pushers_epoch_exact s0 cap sched1 hidle hlen hcnt hsched hdone
  simp only at h
  obtain ⟨h1, _, h3, h4, h5, h6, h7, _, h9, h10, h11⟩ := h
  have hq : ∀ (i : Nat) (th : Thread), (crun s0 sched1).threads[i]? = some th →
      th.midPushOn (crun s0 sched1).asr.usePrimary = false ∧ ∀ q u l vs, th.pc ≠ .reading q u l vs := by
    intro i th hi
    have := h11 th (List.mem_of_getElem? hi)
    simp [Thread.midPushOn, this]
  have hrun : crun s0 (sched1 ++ t :: sched2) = crun (cstep (crun s0 sched1) t) sched2 := by
    simp [crun, List.foldl_append]
  rw [hrun]
  rcases conc_quiescent_drain_exact_partial (crun s0 sched1) t asked rest ht (by rw [h9, hfree]) hq sched2 with e | ⟨tail, e⟩
  · left; rw [e, h10]
  · right
    exact ⟨_, tail, by rw [e, h10], h1, h3, h4, h5, h6, h7⟩

/-- **conc_retention_is_sequential_on_claim_order_partial.** The index a push works with is its claim order (the
    result of its own `fetch_add`).  For every epoch of pushers whose slot stores land in claim order
    (`storesInOrder`: no store step overtakes a push that claimed a smaller index and has not stored yet), the side is,
    after all pushes completed, EXACTLY the state sequential `Reservoir::push` reaches on the pushes taken in claim
    order (`claimLog`) with the same random choices — so everything proved about sequential streams (`drain_sound`,
    `retained_values`, `uniform`) applies with "stream position" read as "claim order".
    Without `storesInOrder` this is false of the code: `conc_late_store_breaks_uniformity`. -/
theorem conc_retention_is_sequential_on_claim_order_partial (s0 : Sys) (sched : List Nat)
    (hidle : ∀ th ∈ s0.threads, th.pc = .idle) (hcnt : s0.asr.active.count = 0)
    (hsched : pushOnlySched s0 sched = true) (hord : storesInOrder s0 sched = true)
    (hdone : ∀ th ∈ (crun s0 sched).threads, pushPrefix th.prog = []) :
    (crun s0 sched).asr.active = seqRun s0.asr.active (claimLog s0 sched)
    ∧ (crun s0 sched).asr.consume.2 = (seqRun s0.asr.active (claimLog s0 sched)).drain := by
  obtain ⟨k, h⟩ := (BInv.start s0.asr s0.threads hidle hcnt).run sched hsched hord
  have h1 := h.done hdone
  simp only [List.nil_append] at h1
  have hact : (crun s0 sched).asr.active = seqRun s0.asr.active (claimLog s0 sched) := by
    rw [active_eq_side, h.up]; exact h1
  exact ⟨hact, by rw [consume_out, hact]⟩

/-- **conc_in_order_drain_is_retained.** … in the vocabulary of `uniform`: from the initial state, with at least
    `cap` pushes and stores in claim order, the first drain yields exactly the values at the claim positions
    `retained cap cs`, where `cs` are the random choices of the pushes that claimed the indices `cap, cap+1, …`, in
    claim order.  `uniform` counts, over all such `cs`, how often each position is in `retained cap cs`: `cap/n` of
    them, for every position — i.e. no CLAIM position is favoured. -/
theorem conc_in_order_drain_is_retained (cap : Nat) (progs : List (List COp)) (sched : List Nat)
    (hsched : pushOnlySched (Sys.init cap progs) sched = true)
    (hord : storesInOrder (Sys.init cap progs) sched = true)
    (hdone : ∀ th ∈ (crun (Sys.init cap progs) sched).threads, pushPrefix th.prog = [])
    (hn : cap ≤ (claimLog (Sys.init cap progs) sched).length) :
    let log := claimLog (Sys.init cap progs) sched
    (crun (Sys.init cap progs) sched).asr.consume.2.values
      = (retained cap ((log.drop cap).map (·.2))).map (fun k => (log.getD k (0, 0)).1) := by
  have h := (conc_retention_is_sequential_on_claim_order_partial (Sys.init cap progs) sched
    (by intro th hth; simp only [Sys.init, List.mem_map] at hth; obtain ⟨_, _, rfl⟩ := hth; rfl)
    (by simp [Sys.init, ASR.new, ASR.active]) hsched hord hdone).2
  have ha : (Sys.init cap progs).asr.active = Res.new cap := by simp [Sys.init, ASR.new, ASR.active]
  simp only
  rw [h, ha, seqRun_as_stream _ [] (Res.new cap) rfl]
  simp only [List.nil_append]
  have hsplit : (claimLog (Sys.init cap progs) sched).map (·.2)
      = ((claimLog (Sys.init cap progs) sched).take cap).map (·.2)
        ++ ((claimLog (Sys.init cap progs) sched).drop cap).map (·.2) := by
    rw [← List.map_append, List.take_append_drop]
  rw [hsplit]
  have h0 : (((claimLog (Sys.init cap progs) sched).take cap).map (·.2)).length = cap := by
    rw [List.length_map, List.length_take]; omega
  exact drain_values_of_positions (fun k => ((claimLog (Sys.init cap progs) sched).getD k (0, 0)).1) cap _ _ h0

/-- **conc_late_store_breaks_uniformity** (the restriction to stores in claim order is necessary; replayed on the real
    code by the harness, `conc corpus late store`).  Capacity 1, two pushers: thread 0 claims index 0 and is delayed
    before its store; thread 1 claims index 1, draws its replacement slot and stores; then thread 0 stores into slot 0.
    For EITHER random choice of thread 1 the drain yields thread 0's value: claim position 0 is retained under 2 of 2
    choice vectors, position 1 under 0 of 2 (`uniform` says 1 of 2 each), and for choice 0 the result differs from
    sequential `push` on the claim order (which retains position 1).  The counts are still exact. -/
theorem conc_late_store_breaks_uniformity :
    ∀ c, c < 2 →
      (crun (Sys.init 1 [[.push 10 0], [.push 11 c]]) [0, 0, 1, 1, 1, 0]).finished = true
      ∧ pushOnlySched (Sys.init 1 [[.push 10 0], [.push 11 c]]) [0, 0, 1, 1, 1, 0] = true
      ∧ storesInOrder (Sys.init 1 [[.push 10 0], [.push 11 c]]) [0, 0, 1, 1, 1, 0] = false
      ∧ claimLog (Sys.init 1 [[.push 10 0], [.push 11 c]]) [0, 0, 1, 1, 1, 0] = [(10, 0), (11, c)]
      ∧ (crun (Sys.init 1 [[.push 10 0], [.push 11 c]]) [0, 0, 1, 1, 1, 0]).asr.consume.2
          = { values := [10], unsampled := 2, len := 1 }
      ∧ (seqRun (Res.new 1) [(10, 0), (11, 0)]).drain.values = [11]
      ∧ (seqRun (Res.new 1) [(10, 0), (11, 1)]).drain.values = [10] := by
  decide

/-- the same two pushes with the stores in claim order: the drain depends on the choice as `uniform` counts it -/
theorem conc_in_order_two_pushers_uniform :
    ∀ c, c < 2 →
      storesInOrder (Sys.init 1 [[.push 10 0], [.push 11 c]]) [0, 0, 1, 1, 0, 1] = true
      ∧ (crun (Sys.init 1 [[.push 10 0], [.push 11 c]]) [0, 0, 1, 1, 0, 1]).asr.consume.2.values
          = (if c = 0 then [11] else [10]) := by
  decide

/-! ## the code before the repair (`fastrand(idx)`), kept as witnesses of the two defects -/

/-- before the repair a reservoir of capacity 0 panicked on its first push (`fastrand(0)`) -/
theorem old_cap0_panics (v c : Nat) : ((Res.new 0).pushOld v c).panicked = true := by
  simp [Res.pushOld, Res.pushWith, Res.new]

/-- before the repair, with capacity 1 and two pushes the first value was never retained, whatever the generator
    returned: the second push asked for `fastrand(1)`, whose only answer is slot 0 -/
theorem old_first_never_retained (v0 v1 c0 c1 : Nat) :
    (((Res.new 1).pushOld v0 c0).pushOld v1 c1).drain.values = [v1] := by
  simp [Res.pushOld, Res.pushWith, Res.new, Res.drain, Nat.mod_one]

/-- … whereas the repaired `push` keeps the first value for one of the two choices and the second for the other -/
example (v0 v1 : Nat) :
    (((Res.new 1).push v0 0).push v1 1).drain.values = [v0]
    ∧ (((Res.new 1).push v0 0).push v1 0).drain.values = [v1] := by
  simp [Res.push, Res.pushWith, Res.new, Res.drain, fastrandArg]

/-! ## no stream position is favoured: exact counting over all random choices

`vectors cap extra` lists every vector of random choices the code can draw during the pushes
`cap, …, cap + extra - 1` of a stream (the choice for the push that claims index `m` ranges over
`0 .. fastrandArg m`, the range `Reservoir::push` asks `fastrand` for; the first `cap` pushes draw nothing).
`retained cap cs` is what a drain of the model yields after these `n = cap + extra` pushes when the values pushed
are the stream positions `0, 1, …, n-1` themselves.  `retainCount cap extra i` counts the vectors retaining `i`. -/

/-- `vectors` is exactly the product of the ranges the code asks for: a vector belongs to it iff it has one entry
    per sampling push and entry `t` lies in `0 .. fastrandArg (cap + t)` … -/
theorem vectors_complete (cap extra : Nat) (cs : List Nat) :
    cs ∈ vectors cap extra ↔ cs.length = extra ∧ ∀ t (h : t < cs.length), cs[t] < fastrandArg (cap + t) :=
  mem_vectors_iff cap extra cs

/-- … and lists each such vector once, so counting list entries is counting choice vectors -/
theorem vectors_distinct (cap extra : Nat) : (vectors cap extra).Nodup := vectors_nodup cap extra

/-- the number of choice vectors grows by the factor `n + 1` with the push that claims index `n = cap + extra`
    (so there are `(cap+1)(cap+2)⋯n` of them) -/
theorem vectors_count (cap extra : Nat) :
    (vectors cap 0).length = 1 ∧ (vectors cap (extra + 1)).length = (vectors cap extra).length * (cap + extra + 1) :=
  ⟨rfl, vectors_length_succ cap extra⟩

/-- what is retained is always a set of `cap` distinct stream positions below `n` -/
theorem retained_positions (cap extra : Nat) (cs : List Nat) (h : cs ∈ vectors cap extra) :
    (retained cap cs).length = cap ∧ (retained cap cs).Nodup ∧ ∀ p ∈ retained cap cs, p < cap + extra := by
  have g := vectors_good cap extra cs h
  have e : retained cap cs = (runChoices cap cs).slots := g.retained
  rw [e]
  exact ⟨g.len, g.nd, g.lt⟩

/-- **retained_values.** `retained` speaks about arbitrary values, not only about positions: for ANY stream
    `f 0, f 1, …` (so any f64 bit patterns, repeated or not), pushing its first `cap + cs.length` values — the first
    `cap` with any unconsulted raw numbers `cs0`, the rest with the choices `cs` — and draining yields exactly the
    values at the retained stream positions. -/
theorem retained_values (f : Nat → Nat) (cap : Nat) (cs0 cs : List Nat) (h0 : cs0.length = cap) :
    ((cs0 ++ cs).foldl (fun r c => r.push (f r.count) c) (Res.new cap)).drain.values = (retained cap cs).map f :=
  drain_values_of_positions f cap cs0 cs h0

/-- **uniform.** For every capacity, every stream length `n = cap + extra ≥ cap` and every stream position
    `i < n`: (number of choice vectors under which position `i` is retained) × `n` = `cap` × (number of choice
    vectors).  I.e. with a uniform generator every position is retained with probability exactly `cap / n`.
    Exact counting, by induction on the stream length; no sampling. -/
theorem uniform (cap extra i : Nat) (hi : i < cap + extra) :
    retainCount cap extra i * (cap + extra) = cap * (vectors cap extra).length :=
  retainCount_mul cap extra i hi

/-- `uniform` in the wording of the property: more values than the capacity (`cap < n`), position `i < n` -/
theorem uniform_n (cap n i : Nat) (h : cap < n) (hi : i < n) :
    ((vectors cap (n - cap)).countP (fun cs => decide (i ∈ retained cap cs))) * n
      = cap * (vectors cap (n - cap)).length := by
  have := uniform cap (n - cap) i (by omega)
  have e : cap + (n - cap) = n := by omega
  rw [e] at this
  exact this

/-- the statement has teeth: for the code before the repair (choices for index `m` drawn from `0..m`) it is false —
    capacity 1, two pushes: the only choice vector is `[0]`, it retains position 1, never position 0 -/
theorem old_not_uniform :
    ∀ c, c < 1 → (((Res.new 1).pushOld 0 0).pushOld 1 c).drain.values = [1] := by
  intro c _; exact old_first_never_retained 0 1 0 c

/-! ### tests (kernel-evaluated sanity checks of the definitions on small instances; not the general claim) -/

-- test: capacity 1, 3 pushes: 6 choice vectors, each position retained under 2 of them
example : (vectors 1 2).length = 6 ∧ (List.range 3).map (retainCount 1 2) = [2, 2, 2] := by decide
-- test: capacity 2, 5 pushes: 60 choice vectors, each position retained under 24 of them (24·5 = 2·60)
example : (vectors 2 3).length = 60 ∧ (List.range 5).map (retainCount 2 3) = [24, 24, 24, 24, 24] := by decide
-- test: capacity 0 retains nothing under any of the 6 vectors
example : (vectors 0 3).length = 6 ∧ (List.range 3).map (retainCount 0 3) = [0, 0, 0] := by decide
-- test: one concrete run — capacity 2, pushes 0..4, choices 2 (miss), 0 (slot 0 := 3), 1 (slot 1 := 4)
example : retained 2 [2, 0, 1] = [3, 4] := by decide

/-! ## non-vacuity -/

/-- three cycles on a reservoir of capacity 2 (the A/B halves alternate): below, at and above capacity -/
example :
    let a0 := ASR.new 2
    let a1 := run a0 [.push 10 0]
    let (a1', d1) := a1.consume
    let a2 := run a1' [.push 20 0, .push 21 0]
    let (a2', d2) := a2.consume
    let a3 := run a2' [.push 30 0, .push 31 0, .push 32 1, .push 33 3, .push 34 0]
    let d3 := a3.consume.2
    d1.values = [10] ∧ d1.rate = (1, 1)
    ∧ d2.values = [20, 21] ∧ d2.rate = (1, 1)
    ∧ d3.values = [34, 32] ∧ d3.unsampled = 5 ∧ d3.rate = (2, 5) := by decide

/-- the hypotheses of `drain_all` and the else-branch of `rate_exact` are both inhabited -/
example : (pendOf [.push 1 0, .consume, .push 7 0, .push 8 0]).length ≤ 2
    ∧ ¬ (pendOf [.push 1 0, .push 2 0, .push 3 0]).length ≤ 2 := by decide

/-- capacity 0: pushing is harmless, the drain yields nothing and reports rate 0/3 -/
example :
    let a := run (ASR.new 0) [.push 5 0, .push 6 1, .push 7 2]
    a.consume.2.values = [] ∧ a.consume.2.rate = (0, 3) ∧ a.primary.panicked = false := by decide

/-- `uniform` is about non-trivial sets: with capacity 2 and 4 pushes there are 12 choice vectors and position 0
    is retained under exactly 6 of them -/
example : (vectors 2 2).length = 12 ∧ retainCount 2 2 0 = 6 ∧ [0, 0] ∈ vectors 2 2 ∧ [2, 3] ∈ vectors 2 2 := by
  decide


/-! ### source facts (regenerated from /repo on every run)

The model's `push` claims an index with one RMW on `count`, stores into a slot, and asks the generator for a
number below `idx + 1`; `consume` swaps the active side under the `swap` lock and drains the side that WAS
active; dropping the drain resets that side's count.  These are the program points the theorems above are
about; the translator reads them off the source. -/

open MetricsVerif.Src in
theorem src_reservoir_shape :
    names Generated.shape_reservoir_push = ["count.fetch_add", "values.store", "values.store"]
    ∧ Generated.reservoir_choice_range = "idx + 1"
    ∧ names Generated.shape_reservoir_drain = ["count.load"]
    ∧ names Generated.shape_reservoir_drain_drop = ["count.store"]
    ∧ names Generated.shape_reservoir_outer_push = ["use_primary.load", "primary.push", "secondary.push"]
    ∧ names Generated.shape_reservoir_consume
        = ["swap.lock", "use_primary.load", "use_primary.store", "primary.drain", "secondary.drain"]
    ∧ names Generated.shape_reservoir_is_empty = ["use_primary.load", "count.load", "count.load"] := by decide

open MetricsVerif.Src in
/-- the side switch is published with Release and observed with Acquire by the next consumer; the reset of the
    drained side is a Release store -/
theorem src_reservoir_orderings :
    allRelease Generated.shape_reservoir_consume "use_primary.store" = true
    ∧ allAcquire Generated.shape_reservoir_consume "use_primary.load" = true
    ∧ allRelease Generated.shape_reservoir_drain_drop "count.store" = true := by decide

/-- what the step machine relies on and no run on x86 can see: `consume` keeps the guard in a NAMED binding (a `_`
    pattern would release the lock at once); `Drain::drop` stores 0; the index a push works with is the result of
    its own `fetch_add` and `impl Reservoir` reads `count` in one place only (`drain`), so the replacement step cannot
    observe a reset; `fastrand` draws from `0..upper`; `sample_rate` divides `len` by `unsampled_len` as `f64` -/
theorem src_reservoir_guard_and_reset :
    Generated.reservoir_consume_guard_binding = "_guard"
    ∧ Generated.reservoir_drop_store_args = "0, Release"
    ∧ Generated.reservoir_push_idx_source = "self.count.fetch_add(1, Relaxed)"
    ∧ Generated.reservoir_inner_count_loads = 1
    ∧ Generated.reservoir_fastrand_range = "0..upper"
    ∧ Generated.reservoir_sample_rate_body
        = "{ if self.unsampled_len == self.len { 1.0 } else { self.len as f64 / self.unsampled_len as f64 } }" :=
  ⟨rfl, rfl, rfl, rfl, rfl, rfl⟩

/-- the DogStatsD wiring of the sampled histogram: `sampling = true` selects the reservoir with the configured size,
    the flush hands on the drain's own `sample_rate()`, the default size is 1024 -/
theorem src_dogstatsd_sampled_wiring :
    Generated.dogstatsd_histogram_new_body
      = "{ if sampling { AtomicHistogram::Sampled(AtomicSamplingReservoir::new(reservoir_size)) } else { AtomicHistogram::Raw(AtomicBucket::new()) } }"
    ∧ Generated.dogstatsd_histogram_flush_sampled_rate = "Some(values.sample_rate())"
    ∧ Generated.dogstatsd_default_reservoir_size = "1024"
    ∧ Generated.dogstatsd_storage_histogram_body
      = "{ Arc::new(AtomicHistogram::new(self.histogram_sampling, self.histogram_reservoir_size)) }" :=
  ⟨rfl, rfl, rfl, rfl⟩

/-! ## the `Drain` OBJECT, read in every way a closure can read it (round 6)

`Model/Reservoir.DrainIt` is the iterator object (`idx`, `len`, `unsampled_len`), `next` its only own method
(`src_drain_iterator_inventory`); `nth`, the collecting loops and the `by_ref()` adaptors are the trait's default
methods, i.e. loops over `next`.  The harness runs random closure scripts on the real `Drain` (`reservoir consumes`),
including calls made after `next()` has returned `None`, `nth` past the end and the by-value consumers `count`,
`last`, `sum`, `fold`, `collect`, `for_each`, `skip`, `size_hint`. -/

/-- **drain_iter_any_script.** However the closure reads the `Drain` — any sequence of `next()`, `nth(k)`, `len()`,
    `sample_rate()` and exhausting loops, in any order, also after the iterator has returned `None` — the values it
    is handed, in order, are a sublist of the values of `drain_sound`: every slot is handed out at most once, never
    more than `capacity` values in total, and each value no more often than it was pushed since the previous drain. -/
theorem drain_iter_any_script (cap : Nat) (ops : List Op) (script : List ItOp) :
    let a := run (ASR.new cap) ops
    let outs := (a.active.drainIt.runIt script).2
    outs.Sublist a.consume.2.values
    ∧ outs.length ≤ cap
    ∧ ∀ x, outs.count x ≤ (pendOf ops).count x := by
  intro a outs
  have hs := (runIt_spec script a.active.drainIt (drainIt_wf _)).2.2
  have hsub : outs.Sublist a.consume.2.values := by
    rw [consume_out, ← drainIt_rest]
    exact (List.sublist_append_left _ _).trans hs
  have hd := drain_sound cap ops
  refine ⟨hsub, ?_, fun x => ?_⟩
  · have := hsub.length_le
    have h2 : a.consume.2.values.length = min (pendOf ops).length cap := hd.2.1
    omega
  · exact Nat.le_trans (hsub.count_le x) (hd.1 x)

/-- **drain_iter_fused.** `next()` never rewinds: once it has returned `None` the object is unchanged, and nothing a
    closure does afterwards yields a value again. -/
theorem drain_iter_fused (d : DrainIt) (w : d.WF) (h : d.next.2 = none) :
    d.next.1 = d ∧ ∀ script, (d.runIt script).2 = [] := by
  have hn : ¬ d.idx < d.len := by
    intro hlt; rw [next_some d hlt] at h; simp at h
  refine ⟨by rw [next_none d hn], fun script => ?_⟩
  have hs := (runIt_spec script d w).2.2
  rw [rest_nil d hn] at hs
  have := List.eq_nil_of_sublist_nil hs
  exact (List.append_eq_nil_iff.mp this).1

/-- **drain_iter_collect_is_drain.** The plain loop over the object (`for v in drain`, `collect`, `fold`) yields
    exactly the values of `Res.drain` — the list every theorem above speaks about —, `len()` announces exactly that
    number beforehand, `sample_rate()` is the rate of `rate_exact`, and the loop leaves the iterator exhausted. -/
theorem drain_iter_collect_is_drain (r : Res) :
    r.drainIt.pullAll.2 = r.drain.values
    ∧ r.drainIt.remaining = r.drain.values.length
    ∧ r.drainIt.pullAll.1.next.2 = none
    ∧ r.drainIt.rate = r.drain.rate := by
  have w := drainIt_wf r
  rw [pullAll_spec _ w, ← drainIt_rest, rest_length _ w]
  refine ⟨rfl, rfl, ?_, rfl⟩
  rw [next_none _ (by simp)]

/-- **drain_iter_len_exact.** At every moment of every closure script `len()` is exactly the number of values the
    object will still yield, and `sample_rate()` is still the rate of the whole drain (it does not depend on how
    much has been read). -/
theorem drain_iter_len_exact (r : Res) (script : List ItOp) :
    let d := (r.drainIt.runIt script).1
    d.remaining = d.pullAll.2.length ∧ d.rate = r.drain.rate := by
  intro d
  have h := runIt_spec script r.drainIt (drainIt_wf r)
  refine ⟨?_, ?_⟩
  · rw [pullAll_spec d h.1, rest_length d h.1]
  · have hl : d.len = r.drainIt.len := h.2.1.len
    have hu : d.unsampled = r.drainIt.unsampled := h.2.1.unsampled
    simp only [DrainIt.rate, hl, hu]; rfl

/-! ## the DogStatsD builder decides which histogram storage exists, and with which capacity (round 6) -/

/-- **builder_last_setting_wins.** For every chain of builder calls the configuration that reaches
    `AtomicHistogram::new` is the LAST `with_histogram_sampling` argument (or the default of the code, `false`) and
    the LAST `with_histogram_reservoir_size` argument (or 1024) — unchanged, not rounded, not clamped. -/
theorem builder_last_setting_wins (calls : List BOp) :
    (Builder.configure calls).sampling = (lastSampling calls).getD false
    ∧ (Builder.configure calls).size = (lastSize calls).getD 1024 :=
  configure_fold calls Builder.default

/-- **builder_sampled_histogram_has_configured_capacity.** When the last `with_histogram_sampling` call said `true`,
    every histogram of the exporter is a sampling reservoir whose capacity is exactly the configured size (any size,
    0 included), so after any history its drain yields `min(pushed, configured size)` values. -/
theorem builder_sampled_histogram_has_configured_capacity (calls : List BOp)
    (h : lastSampling calls = some true) (ops : List Op) :
    (Builder.configure calls).histogram = .sampled (ASR.new ((lastSize calls).getD 1024))
    ∧ (run (ASR.new ((lastSize calls).getD 1024)) ops).consume.2.values.length
        = min (pendOf ops).length ((lastSize calls).getD 1024) := by
  have hc := builder_last_setting_wins calls
  refine ⟨?_, (drain_sound _ ops).2.1⟩
  simp [Builder.histogram, hc.1, hc.2, h]

/-- **builder_default_is_unsampled.** The CODE's default is the raw bucket: a builder on which
    `with_histogram_sampling` was never called (or last called with `false`) creates no reservoir at all, whatever
    size was configured.  (The setter's doc comment says "Defaults to `true`"; see REPORT.) -/
theorem builder_default_is_unsampled (calls : List BOp) (h : (lastSampling calls).getD false = false) :
    (Builder.configure calls).histogram = .raw := by
  simp [Builder.histogram, (builder_last_setting_wins calls).1, h]

/-- what `DrainIt` relies on: `Drain` has exactly these impl blocks; `impl Iterator for Drain` defines `next` and
    nothing else (so `nth`, `count`, `last`, `fold`, `size_hint`, … are the trait's default loops over `next`, as in
    the model — an overriding method added later breaks this fact), `ExactSizeIterator` only `len`; `next` reads slot
    `idx` while `idx < len` and otherwise returns `None` WITHOUT touching `idx`; `len` is `len - idx`; and past the
    verification override `fastrand` is one draw of the thread-local generator from `0..upper`, nothing else -/
theorem src_drain_iterator_inventory :
    Generated.reservoir_drain_impls
      = ["Drain<'a>", "Drop for Drain<'a>", "ExactSizeIterator for Drain<'_>", "Iterator for Drain<'a>"]
    ∧ Generated.reservoir_drain_iterator_fns = ["next"]
    ∧ Generated.reservoir_drain_exactsize_fns = ["len"]
    ∧ Generated.reservoir_drain_inherent_fns = ["sample_rate"]
    ∧ Generated.reservoir_drain_next_body
      = "{ if self.idx < self.len { let value = f64::from_bits(self.reservoir.values[self.idx].load(Relaxed)); self.idx += 1; Some(value) } else { None } }"
    ∧ Generated.reservoir_drain_len_body = "{ self.len - self.idx }"
    ∧ Generated.reservoir_fastrand_real_body
      = "{ let rng = UNSAFE { &mut *rng.get() }; rng.random_range(0..upper) }" :=
  ⟨rfl, rfl, rfl, rfl, rfl, rfl, rfl⟩

/-- the path of the two sampling settings from the builder to `AtomicHistogram::new` (`Builder.configure`,
    `Builder.histogram`): each setter assigns its argument unchanged and these are the only two assignments to the
    fields; `build()` copies both fields into the `StateConfiguration` literal; `Default` has `false` and
    `DEFAULT_HISTOGRAM_RESERVOIR_SIZE`; `State::new` hands both to `ClientSideAggregatedStorage::new`, which stores
    them (and `histogram()` passes them on: `src_dogstatsd_sampled_wiring`) -/
theorem src_dogstatsd_builder_wiring :
    Generated.dogstatsd_builder_with_sampling_body = "{ self.histogram_sampling = histogram_sampling; self }"
    ∧ Generated.dogstatsd_builder_with_size_body = "{ self.histogram_reservoir_size = reservoir_size; self }"
    ∧ Generated.dogstatsd_builder_histogram_field_writes = 2
    ∧ Generated.dogstatsd_builder_build_histogram_fields
      = ["histogram_sampling: self.histogram_sampling", "histogram_reservoir_size: self.histogram_reservoir_size"]
    ∧ Generated.dogstatsd_builder_default_histogram_fields
      = ["histogram_sampling: false", "histogram_reservoir_size: DEFAULT_HISTOGRAM_RESERVOIR_SIZE"]
    ∧ Generated.dogstatsd_state_new_body
      = "{ State { registry: Registry::new(ClientSideAggregatedStorage::new( config.histogram_sampling, config.histogram_reservoir_size, )), config, } }"
    ∧ Generated.dogstatsd_storage_new_body = "{ Self { histogram_sampling, histogram_reservoir_size } }" :=
  ⟨rfl, rfl, rfl, rfl, rfl, rfl, rfl⟩

/-! non-vacuity of the round-6 statements on concrete inputs -/
example : ((Res.new 2 |>.push 7 0 |>.push 8 0 |>.push 9 1).drainIt.runIt [.next, .len, .nth 5, .next, .collect]).2 = [7] := by decide
example : ((Res.new 3 |>.push 7 0 |>.push 8 0 |>.push 9 0).drainIt.runIt [.nth 1, .collect, .next]).2 = [8, 9] := by decide
example : (Builder.configure [.size 4, .sampling true, .size 7]).histogram = .sampled (ASR.new 7) := by decide
example : (Builder.configure [.size 4]).histogram = .raw := by decide

/-! ## whole histories: counts are conserved across any number of push/drain cycles (session 4) -/

/-- what the drains of a history report in total: the sum of `unsampled_len` over every `consume` of `ops`, started
    in state `a` (each drain read through the model's own `ASR.consume`, not through the ghost `pendOf`) -/
def reportedTotal (a : ASR) : List Op → Nat
  | [] => 0
  | .push v c :: ops => reportedTotal (a.push v c) ops
  | .consume :: ops => a.consume.2.unsampled + reportedTotal a.consume.1 ops

/-- the values the drains of a history hand out in total -/
def yieldedTotal (a : ASR) : List Op → Nat
  | [] => 0
  | .push v c :: ops => yieldedTotal (a.push v c) ops
  | .consume :: ops => a.consume.2.values.length + yieldedTotal a.consume.1 ops

/-- number of `push` operations of a history -/
def pushesIn : List Op → Nat
  | [] => 0
  | .push _ _ :: ops => pushesIn ops + 1
  | .consume :: ops => pushesIn ops

private theorem pendOf_snoc_push (pre : List Op) (v c : Nat) : pendOf (pre ++ [Op.push v c]) = pendOf pre ++ [v] := by
  simp [pendOf, List.foldl_append, pendStep]

private theorem pendOf_snoc_consume (pre : List Op) : pendOf (pre ++ [Op.consume]) = [] := by
  simp [pendOf, List.foldl_append, pendStep]

private theorem run_snoc (a : ASR) (pre : List Op) (op : Op) : run a (pre ++ [op]) = step (run a pre) op := by
  simp [run, List.foldl_append]

private theorem conservation_gen (cap : Nat) (rest : List Op) : ∀ pre : List Op,
    reportedTotal (run (ASR.new cap) pre) rest + (pendOf (pre ++ rest)).length
      = (pendOf pre).length + pushesIn rest
    ∧ yieldedTotal (run (ASR.new cap) pre) rest ≤ reportedTotal (run (ASR.new cap) pre) rest := by
  induction rest with
  | nil => intro pre; simp [reportedTotal, yieldedTotal, pushesIn]
  | cons op rest ih =>
    intro pre
    have e : pre ++ op :: rest = (pre ++ [op]) ++ rest := by simp
    cases op with
    | push v c =>
      have h := ih (pre ++ [Op.push v c])
      rw [run_snoc, pendOf_snoc_push] at h
      simp only [step, List.length_append, List.length_cons, List.length_nil] at h
      rw [e]
      simp only [reportedTotal, yieldedTotal, pushesIn]
      omega
    | consume =>
      have h := ih (pre ++ [Op.consume])
      rw [run_snoc, pendOf_snoc_consume] at h
      simp only [step, List.length_nil] at h
      have hd := drain_sound cap pre
      simp only at hd
      obtain ⟨_, hlen, _, hun⟩ := hd
      rw [e]
      simp only [reportedTotal, yieldedTotal, pushesIn]
      omega

/-- **counts_conserved.** Over ANY sequential history (any capacity including 0, any number of push/drain cycles, any
    values and random choices) the numbers the drains report add up to the truth: the sum of `unsampled_len` over all
    drains of the history, plus the values still pending at its end, is exactly the number of pushes made — no push is
    ever counted twice, in two cycles, or not at all.  (`drain_sound`/`rate_exact` are the per-drain statements; this is
    their lift to whole histories, with the drains read from the model's `consume`, not from the ghost.) -/
theorem counts_conserved (cap : Nat) (ops : List Op) :
    reportedTotal (ASR.new cap) ops + (pendOf ops).length = pushesIn ops := by
  have h := (conservation_gen cap ops []).1
  simpa [run, pendOf] using h

/-- **yield_never_exceeds_report.** Over any history the drains never hand out more values than they report pushed, and
    a history that ends with a drain has reported every push. -/
theorem yield_never_exceeds_report (cap : Nat) (ops : List Op) :
    yieldedTotal (ASR.new cap) ops ≤ reportedTotal (ASR.new cap) ops
    ∧ reportedTotal (ASR.new cap) (ops ++ [Op.consume]) = pushesIn (ops ++ [Op.consume]) := by
  refine ⟨by simpa [run] using (conservation_gen cap ops []).2, ?_⟩
  have h := counts_conserved cap (ops ++ [Op.consume])
  rw [pendOf_snoc_consume] at h
  simpa using h

example : reportedTotal (ASR.new 1) [.push 7 0, .push 8 0, .consume, .push 9 0, .consume, .push 1 0] = 3
    ∧ yieldedTotal (ASR.new 1) [.push 7 0, .push 8 0, .consume, .push 9 0, .consume, .push 1 0] = 2
    ∧ pushesIn [.push 7 0, .push 8 0, .consume, .push 9 0, .consume, .push 1 0] = 4 := by decide

end MetricsVerif.C16
