/-
C19, concurrent part — several threads register / update / snapshot through ONE `DebuggingRecorder` at the same
time (`Model/DebuggingConc.lean`: the registry step machine of `Model/Registry` with the storage cells, `seen`
and per-thread handles on top).

Every theorem is for ANY number of threads, ANY programs of register / update / snapshot calls, ANY keys (a
carrier with `Key::eq` / `Hashable` satisfying `KeyLaws`, which is what C03 establishes), ANY shard count > 0 and
EVERY schedule of the steps between the yield points `c19.call`, `reg.goc.read`, `reg.goc.write` — in particular
every schedule in which two threads register the same NEW key at the same time and both miss under the shard's
read lock.  "Counter and gauge values equal to their state at snapshot time" then reads: whatever a snapshot shows
for a key is the fold of ALL operations that ANY thread made through ANY handle of an equal key, in the order they
took effect; no update is made on a cell the snapshot does not read.

Granularity: `Histogram::record` and `Snapshotter::snapshot` are one step each here; their interleavings inside
the lock-free bucket are C05's machine (K-C05-K1 is inherited from there, see `run_concurrent` in the harness).
-/
import MetricsVerif.Proofs.DebuggingConc

namespace MetricsVerif.C19
open MetricsVerif MetricsVerif.Registry MetricsVerif.DebuggingConc

variable {K : Type}

/-- a state reached from a fresh recorder by some programs under some schedule -/
def ConcReach (ko : KeyOps K) (s : CSys K) : Prop :=
  ∃ count progs sched, 0 < count ∧ s = DebuggingConc.run ko (CSys.init count progs) sched

/-- the invariant holds after every schedule -/
theorem conc_inv {ko : KeyOps K} (L : KeyLaws ko) {s : CSys K} (h : ConcReach ko s) : CInv ko s := by
  obtain ⟨count, progs, sched, hc, rfl⟩ := h
  exact (run_inv L sched _ (init_inv ko count hc progs)).1

/-- **a handle is the registry's cell**: whatever thread holds it, whenever it was obtained (read section hit,
    write section that created the entry, or write section whose re-check found another thread's entry), a handle
    registered for `(kind, key)` is the cell the registry holds for `(kind, key)` NOW -/
theorem conc_handle_is_registry_cell {ko : KeyOps K} (L : KeyLaws ko) {s : CSys K} (h : ConcReach ko s)
    (t : CThread K) (ht : t ∈ s.threads) (hd : Handle K) (hh : hd ∈ t.handles) :
    readSection ko s.reg hd.kd hd.key = some hd.id :=
  ((conc_inv L h).t t ht).handles hd hh

/-- **concurrent registrations of one key share one cell**: two handles of the same kind for equal keys (built in
    any way, on any two threads, under any interleaving of their registrations) are the same cell -/
theorem conc_same_key_same_cell {ko : KeyOps K} (L : KeyLaws ko) {s : CSys K} (h : ConcReach ko s)
    (t₁ t₂ : CThread K) (ht₁ : t₁ ∈ s.threads) (ht₂ : t₂ ∈ s.threads) (h₁ h₂ : Handle K)
    (hh₁ : h₁ ∈ t₁.handles) (hh₂ : h₂ ∈ t₂.handles) (hkd : h₁.kd = h₂.kd) (heq : ko.eqv h₁.key h₂.key = true) :
    h₁.id = h₂.id := by
  have a := conc_handle_is_registry_cell L h t₁ ht₁ h₁ hh₁
  have b := conc_handle_is_registry_cell L h t₂ ht₂ h₂ hh₂
  rw [← hkd, readSection_congr L s.reg h₁.kd heq, a] at b
  exact Option.some.inj b

/-- different kinds or different keys never share a cell -/
theorem conc_other_key_other_cell {ko : KeyOps K} (L : KeyLaws ko) {s : CSys K} (h : ConcReach ko s)
    (t₁ t₂ : CThread K) (ht₁ : t₁ ∈ s.threads) (ht₂ : t₂ ∈ s.threads) (h₁ h₂ : Handle K)
    (hh₁ : h₁ ∈ t₁.handles) (hh₂ : h₂ ∈ t₂.handles) (hid : h₁.id = h₂.id) :
    h₁.kd = h₂.kd ∧ ko.eqv h₁.key h₂.key = true := by
  have a := conc_handle_is_registry_cell L h t₁ ht₁ h₁ hh₁
  have b := conc_handle_is_registry_cell L h t₂ ht₂ h₂ hh₂
  rw [← hid] at b
  exact read_inj L s.reg (conc_inv L h).g.reg a b

/-- **the cell of a key is the fold of all operations of all threads on that key**: the cell the registry holds for
    `(kind, key)` has seen exactly the operations that any thread made through a handle of an equal key (and the
    snapshots' drains), in the order they took effect -/
theorem conc_value_is_fold {ko : KeyOps K} (L : KeyLaws ko) {s : CSys K} (h : ConcReach ko s) (kd : Kind) (k : K)
    (i : Nat) (hr : readSection ko s.reg kd k = some i) :
    s.cells[i]? = some (foldCell kd (keyLog ko s.ulog kd k)) :=
  (conc_inv L h).g.fold kd k i hr

/-- **what a snapshot shows**: every entry of a snapshot taken in a reachable state is an element of `seen` and
    shows the fold of all operations made on its key by all threads -/
theorem conc_snapshot_shows_fold {ko : KeyOps K} (L : KeyLaws ko) {s : CSys K} (h : ConcReach ko s)
    (e : SnapEntry K) (he : e ∈ (DebuggingConc.snapshot ko s).2) :
    (e.1, e.2.1) ∈ s.seen ∧ e.2.2 = foldCell e.1 (keyLog ko s.ulog e.1 e.2.1) := by
  simp only [DebuggingConc.snapshot, List.mem_filterMap] at he
  obtain ⟨x, hx, hs⟩ := he
  unfold snapEntry at hs
  split at hs
  · next i hr =>
    rw [conc_value_is_fold L h x.1 x.2 i hr] at hs
    simp only [Option.map_some, Option.some.injEq] at hs
    subst hs
    exact ⟨hx, rfl⟩
  · cases hs

/-- **a completed registration is listed, with everything recorded so far**: once any thread holds a handle for
    `(kind, key)`, every snapshot lists an entry of that kind with an equal key, and the entry shows the fold of
    all operations of all threads on that key -/
theorem conc_registered_is_listed {ko : KeyOps K} (L : KeyLaws ko) {s : CSys K} (h : ConcReach ko s)
    (t : CThread K) (ht : t ∈ s.threads) (hd : Handle K) (hh : hd ∈ t.handles) :
    ∃ e ∈ (DebuggingConc.snapshot ko s).2, e.1 = hd.kd ∧ ko.eqv hd.key e.2.1 = true
      ∧ e.2.2 = foldCell hd.kd (keyLog ko s.ulog hd.kd hd.key) := by
  have hr := conc_handle_is_registry_cell L h t ht hd hh
  have hseen := (conc_inv L h).g.tracked hd.kd hd.key (by rw [hr]; simp)
  simp only [seenHas, List.any_eq_true, sameMetric, Bool.and_eq_true, decide_eq_true_eq] at hseen
  obtain ⟨x, hx, hk, hq⟩ := hseen
  have hr' : readSection ko s.reg x.1 x.2 = some hd.id := by rw [hk, readSection_congr L s.reg hd.kd hq]; exact hr
  refine ⟨(x.1, x.2, foldCell hd.kd (keyLog ko s.ulog hd.kd hd.key)), ?_, hk, hq, rfl⟩
  simp only [DebuggingConc.snapshot, List.mem_filterMap]
  refine ⟨x, hx, ?_⟩
  simp only [snapEntry, hr', conc_value_is_fold L h hd.kd hd.key hd.id hr, Option.map_some]

/-- a snapshot lists its entries in the order of `seen` (first `track_metric`), each element at most once -/
theorem conc_snapshot_in_seen_order (ko : KeyOps K) (s : CSys K) :
    ((DebuggingConc.snapshot ko s).2.map (fun e => (e.1, e.2.1))).Sublist s.seen := by
  simp only [DebuggingConc.snapshot]
  induction s.seen with
  | nil => exact List.Sublist.slnil
  | cons x xs ih =>
    simp only [List.filterMap_cons]
    cases hx : snapEntry ko s x with
    | none => exact ih.cons x
    | some e =>
      have : (e.1, e.2.1) = x := by
        unfold snapEntry at hx
        split at hx
        · next i _ =>
          cases hc : s.cells[i]? with
          | none => rw [hc] at hx; cases hx
          | some c => rw [hc] at hx; simp only [Option.map_some, Option.some.injEq] at hx; subst hx; rfl
        · cases hx
      simp only [List.map_cons, this]
      exact ih.cons_cons x

/-! ### what the fold is, kind by kind -/

/-- sum of the increments of a list of counter operations -/
def incSum : List Upd → Nat
  | [] => 0
  | .cinc n :: us => n + incSum us
  | _ :: us => incSum us

theorem fold_cinc_gen (us : List Upd) (h : ∀ u ∈ us, ∃ n, u = .cinc n) : ∀ c : Nat,
    us.foldl applyUpd (.counter (c % two64)) = .counter ((c + incSum us) % two64) := by
  induction us with
  | nil => intro c; rfl
  | cons u us ih =>
    intro c
    obtain ⟨n, rfl⟩ := h u (List.mem_cons_self ..)
    simp only [List.foldl_cons, applyUpd, incSum, Nat.mod_add_mod]
    rw [ih (fun u hu => h u (List.mem_cons_of_mem _ hu)) (c + n), Nat.add_assoc]

/-- **a counter that was only incremented shows the sum of all increments of all threads** (mod 2^64), whatever
    the interleaving -/
theorem conc_counter_is_sum {ko : KeyOps K} (L : KeyLaws ko) {s : CSys K} (h : ConcReach ko s) (k : K) (i : Nat)
    (hr : readSection ko s.reg .counter k = some i)
    (honly : ∀ u ∈ keyLog ko s.ulog .counter k, ∃ n, u = .cinc n) :
    s.cells[i]? = some (.counter (incSum (keyLog ko s.ulog .counter k) % two64)) := by
  rw [conc_value_is_fold L h .counter k i hr]
  have := fold_cinc_gen _ honly 0
  simp only [Nat.zero_add] at this
  exact congrArg some this

theorem fold_gauge_stays (us : List Upd) : ∀ g : Int, ∃ g', us.foldl applyUpd (.gauge g) = .gauge g' := by
  induction us with
  | nil => intro g; exact ⟨g, rfl⟩
  | cons u us ih => intro g; cases u <;> simp only [List.foldl_cons, applyUpd] <;> exact ih _

/-- **a gauge shows the last value set by any thread** (when a `set` took effect last) -/
theorem conc_gauge_last_set (us : List Upd) (v : Int) : foldCell .gauge (us ++ [.gset v]) = .gauge v := by
  obtain ⟨g', hg⟩ := fold_gauge_stays us 0
  simp only [foldCell, List.foldl_append, List.foldl_cons, List.foldl_nil, fresh, hg, applyUpd]

theorem fold_hist_stays (us : List Upd) : ∀ vs : List Int, ∃ ws, us.foldl applyUpd (.hist vs) = .hist ws := by
  induction us with
  | nil => intro vs; exact ⟨vs, rfl⟩
  | cons u us ih => intro vs; cases u <;> simp only [List.foldl_cons, applyUpd] <;> exact ih _

theorem fold_hrec_gen (vals : List Int) : ∀ vs : List Int,
    (vals.map Upd.hrec).foldl applyUpd (.hist vs) = .hist (vs ++ vals) := by
  induction vals with
  | nil => intro vs; simp
  | cons v vals ih => intro vs; simp only [List.map_cons, List.foldl_cons, applyUpd, ih]; simp

/-- **a histogram holds exactly the values recorded (by any thread) since the last drain**, in the order they took
    effect: a value drained by one snapshot is not shown by the next -/
theorem conc_hist_since_drain (us : List Upd) (vals : List Int) :
    foldCell .histogram (us ++ [.drain] ++ vals.map Upd.hrec) = .hist vals := by
  obtain ⟨ws, hw⟩ := fold_hist_stays us []
  simp only [foldCell, List.foldl_append, List.foldl_cons, List.foldl_nil, fresh, hw, applyUpd]
  rw [fold_hrec_gen]; rfl

/-- before any snapshot: everything recorded -/
theorem conc_hist_first (vals : List Int) : foldCell .histogram (vals.map Upd.hrec) = .hist vals := by
  simp only [foldCell, fresh]; rw [fold_hrec_gen]; rfl

/-! ### non-vacuity -/

/-- keys `(class, how it was built)`; classes 0 and 3 share their full hash -/
def concKo : KeyOps (Nat × Nat) := { eqv := fun a b => a.1 == b.1, hash := fun a => a.1 % 3 }

theorem concLaws : KeyLaws concKo := by
  refine ⟨?_, ?_, ?_, ?_⟩ <;> simp only [concKo, beq_iff_eq]
  · intro a; trivial
  · intro a b h; exact h.symm
  · intro a b c h1 h2; exact h1.trans h2
  · intro a b h; rw [h]

/-- the race of the seeded defect C19-6: threads 0 and 1 register the same NEW counter (built differently); both
    miss under the read lock (grants 0,1 after `track`), thread 0 creates the entry, thread 1's write section finds
    it on its re-check.  Both handles are cell 0, one cell exists, the increments 5 and 7 both land in it, the
    snapshot of thread 2 shows 12 under the key instance tracked first. -/
example :
    let s := DebuggingConc.run concKo (CSys.init 4
        [[.register .counter (0, 0), .update 0 (.cinc 5)], [.register .counter (0, 1), .update 0 (.cinc 7)], [.snapshot]])
      [0, 1, 0, 1, 0, 1, 0, 1, 0, 1, 2, 2]
    s.threads.map (fun t => t.handles.map (·.id)) = [[0], [0], []] ∧ s.cells = [.counter 12]
    ∧ s.threads.map (·.snaps) = [[], [], [[(.counter, (0, 0), .counter 12)]]] ∧ s.seen = [(.counter, (0, 0))] := by
  decide

/-- the same race on a histogram, a snapshot between the two records: each value in exactly one snapshot -/
example :
    let s := DebuggingConc.run concKo (CSys.init 2
        [[.register .histogram (3, 0), .update 0 (.hrec 1024)], [.register .histogram (3, 1), .update 0 (.hrec 2048)],
         [.snapshot, .snapshot]])
      [0, 1, 2, 0, 1, 0, 1, 0, 1, 0, 2, 1, 2]
    s.threads.map (·.snaps) = [[], [], [[(.histogram, (3, 0), .hist [1024])], [(.histogram, (3, 0), .hist [2048])]]]
    ∧ s.cells = [.hist []] := by
  decide

end MetricsVerif.C19
