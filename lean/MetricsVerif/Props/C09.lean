/-
C09 — DogStatsD payloads are valid, within the size limit, and account for every point.

Property theorems only; definitions of the vocabulary (`frame`, `renderMsg`, `scalarPayloads`, `histChunks`,
`chunkLoop` …) and the refinement lemmas live in `Proofs/Statsd.lean`, the independent reader in
`Model/StatsdRead.lean`, its lemmas in `Proofs/StatsdRead.lean`.

Shape of the argument.  `payloadsOf max op` / `droppedOf max op` say what ONE call emits and drops, as a
function of the limit and the call's arguments only.  `history_exact` proves, for ALL histories of writes and
drains on one writer (any length, any interleaving of rejected writes, successful writes and drains, both
framings, any `max < 2³²`), that the model of the repaired writer never panics and outputs exactly: for each
write the counts of `payloadsOf`/`droppedOf`, for each drain the framed payloads of the writes since the
previous drain.  The remaining theorems are about `payloadsOf` of an arbitrary call: size, accounting, and
what the independent DogStatsD reader sees.

Everything is by induction over the history / the value list; nothing is sampled.
-/
import MetricsVerif.Proofs.Statsd
import MetricsVerif.Proofs.StatsdRead
import MetricsVerif.Proofs.StatsdFwd
import MetricsVerif.Generated.SourceFacts

namespace MetricsVerif.C09
open MetricsVerif.Statsd

/-! ## vocabulary -/

/-- the payload bodies one operation emits (a drain emits no new payload) -/
def payloadsOf (max : Nat) : Op → List Bytes
  | .scalar c v => scalarPayloads max c v
  | .hist c vs => histPayloads max c vs
  | .drain => []

/-- the points one operation reports as dropped -/
def droppedOf (max : Nat) : Op → Nat
  | .scalar c v => scalarDropped max c v
  | .hist c vs => (histChunks max c vs).2
  | .drain => 0

/-- the input points of one operation -/
def pointsOf : Op → Nat
  | .scalar _ _ => 1
  | .hist _ vs => vs.length
  | .drain => 0

/-- the reference behaviour: `pend` = payloads written and not yet drained -/
def specStep (max : Nat) (lp : Bool) (pend : List Bytes) : Op → List Bytes × Out
  | .scalar c v => (pend ++ payloadsOf max (.scalar c v), .wrote (payloadsOf max (.scalar c v)).length (droppedOf max (.scalar c v)))
  | .hist c vs => (pend ++ payloadsOf max (.hist c vs), .wrote (payloadsOf max (.hist c vs)).length (droppedOf max (.hist c vs)))
  | .drain => ([], .drained (pend.map (frame lp)))

def specRun (max : Nat) (lp : Bool) : List Bytes → List Op → List Bytes × List Out
  | pend, [] => (pend, [])
  | pend, op :: ops =>
    ((specRun max lp (specStep max lp pend op).1 ops).1,
     (specStep max lp pend op).2 :: (specRun max lp (specStep max lp pend op).1 ops).2)

/-! ## all histories -/

theorem step_refines {max lp w pend} (h : InvB max lp w pend []) (op : Op) :
    ∃ w', step w op = some (w', (specStep max lp pend op).2) ∧ InvB max lp w' (specStep max lp pend op).1 [] := by
  cases op with
  | scalar c v =>
    obtain ⟨w', hw, hi⟩ := writeScalar_spec h c v
    exact ⟨w', by simp [step, hw, specStep, payloadsOf, droppedOf], hi⟩
  | hist c vs =>
    obtain ⟨w', hw, hi⟩ := writeHist_spec h c vs
    exact ⟨w', by simp [step, hw, specStep, payloadsOf, droppedOf], hi⟩
  | drain =>
    obtain ⟨hp, hi⟩ := payloads_spec h
    exact ⟨(payloads w).1, by simp [step, specStep, hp], hi⟩

theorem run_refines {max lp} : ∀ (ops : List Op) (w : Writer) (pend : List Bytes), InvB max lp w pend [] →
    ∃ w', run w ops = some (w', (specRun max lp pend ops).2) ∧ InvB max lp w' (specRun max lp pend ops).1 [] := by
  intro ops
  induction ops with
  | nil => intro w pend h; exact ⟨w, rfl, h⟩
  | cons op ops ih =>
    intro w pend h
    obtain ⟨w1, hs, hi⟩ := step_refines h op
    obtain ⟨w2, hr, hi2⟩ := ih w1 _ hi
    exact ⟨w2, by simp [run, hs, hr, specRun], hi2⟩

/-- **no_panic.**  A writer can be created for every limit below 2³² (the builder guarantees that), and then no
    history of writes and drains — any keys, value texts, prefix, global labels, rate, timestamps, limit from 0
    up, either framing — reaches a panic (`assert!(self.commit())`, `current_len` underflow, the `u32`
    conversion, out-of-range slicing of the length placeholder). -/
theorem no_panic (max : Nat) (lp : Bool) (hmax : max < 4294967296) :
    ∃ w0, new max lp Fixes.all = some w0 ∧ ∀ ops : List Op, (run w0 ops).isSome = true := by
  have hnew : new max lp Fixes.all = some (prepareForWrite ⟨max, lp, [], [], Fixes.all⟩) := by simp [new, hmax]
  refine ⟨_, hnew, ?_⟩
  intro ops
  obtain ⟨w', hr, _⟩ := run_refines ops _ [] (new_inv hnew)
  rw [hr]; rfl

/-- **history_exact.**  Whatever happened before on the same writer — rejected metrics, successful ones,
    earlier drains — every write reports exactly the counts of `payloadsOf` / `droppedOf` of that call alone, and
    every drain hands out exactly the payloads of the writes since the previous drain, in order, each framed. -/
theorem history_exact {max lp w0} (h0 : new max lp Fixes.all = some w0) (ops : List Op) :
    ∃ w, run w0 ops = some (w, (specRun max lp [] ops).2) := by
  obtain ⟨w', hr, _⟩ := run_refines ops w0 [] (new_inv h0)
  exact ⟨w', hr⟩

theorem specRun_append (max : Nat) (lp : Bool) : ∀ (a b : List Op) (pend : List Bytes),
    specRun max lp pend (a ++ b) =
      ((specRun max lp (specRun max lp pend a).1 b).1, (specRun max lp pend a).2 ++ (specRun max lp (specRun max lp pend a).1 b).2) := by
  intro a
  induction a with
  | nil => intro b pend; simp [specRun]
  | cons op a ih => intro b pend; simp [specRun, ih]

/-- a stretch of writes without a drain accumulates the payloads of each call -/
theorem specRun_writes (max : Nat) (lp : Bool) : ∀ (ws : List Op) (pend : List Bytes), (∀ op ∈ ws, op ≠ .drain) →
    (specRun max lp pend ws).1 = pend ++ ws.flatMap (payloadsOf max) := by
  intro ws
  induction ws with
  | nil => intro pend _; simp [specRun]
  | cons op ws ih =>
    intro pend h
    have hrest : ∀ o ∈ ws, o ≠ .drain := fun o ho => h o (by simp [ho])
    cases op with
    | drain => exact absurd rfl (h .drain (by simp))
    | scalar c v => simp [specRun, specStep, ih _ hrest, List.append_assoc]
    | hist c vs => simp [specRun, specStep, ih _ hrest, List.append_assoc]

/-- **framed (exactly-once delivery).**  After ANY earlier history `pre` that ends in a drain, the next drain
    delivers precisely the payloads of the writes `ws` in between — concatenated in call order, nothing from
    before the previous drain, nothing lost — and the byte stream handed to the socket is the concatenation of
    `le32 |p| ++ p` in length-prefixed mode (of the bare payloads otherwise). -/
theorem drain_exact {max lp w0} (h0 : new max lp Fixes.all = some w0) (pre ws : List Op)
    (hws : ∀ op ∈ ws, op ≠ .drain) :
    ∃ w outs, run w0 (pre ++ [.drain] ++ ws ++ [.drain]) = some (w, outs)
      ∧ outs.getLast? = some (.drained ((ws.flatMap (payloadsOf max)).map (frame lp)))
      ∧ ((ws.flatMap (payloadsOf max)).map (frame lp)).flatten
          = (ws.flatMap (payloadsOf max)).flatMap (fun p => (if lp then le32 p.length else []) ++ p) := by
  obtain ⟨w, hr⟩ := history_exact h0 (pre ++ [.drain] ++ ws ++ [.drain])
  refine ⟨w, _, hr, ?_, ?_⟩
  · have e1 : (specRun max lp [] (pre ++ [.drain])).1 = [] := by
      rw [specRun_append]; simp [specRun, specStep]
    have e2 : (specRun max lp [] (pre ++ [.drain] ++ ws)).1 = ws.flatMap (payloadsOf max) := by
      rw [specRun_append, e1, specRun_writes max lp ws [] hws]; simp
    rw [specRun_append]
    simp only [specRun, specStep, e2]
    exact List.getLast?_concat
  · exact (List.flatMap_def (l := ws.flatMap (payloadsOf max)) (f := frame lp)).symm

/-- what a well-formed drain result looks like: framed bodies, each within the limit -/
def DrainOk (max : Nat) (lp : Bool) : Out → Prop
  | .drained slices => ∃ bodies : List Bytes, slices = bodies.map (frame lp) ∧ ∀ b ∈ bodies, b.length ≤ max
  | .wrote _ _ => True

theorem run_outs_ok {max lp} : ∀ (ops : List Op) (w : Writer) (pend : List Bytes), InvB max lp w pend [] →
    ∀ w' outs, run w ops = some (w', outs) → ∀ o ∈ outs, DrainOk max lp o := by
  intro ops
  induction ops with
  | nil => intro w pend _ w' outs hr o ho; simp [run] at hr; rw [hr.2] at ho; cases ho
  | cons op ops ih =>
    intro w pend h w' outs hr o ho
    obtain ⟨w1, hs, hi⟩ := step_refines h op
    obtain ⟨w2, hr2, _⟩ := run_refines ops w1 _ hi
    simp only [run, hs, hr2, Option.some.injEq, Prod.mk.injEq] at hr
    rw [← hr.2] at ho
    simp only [List.mem_cons] at ho
    rcases ho with rfl | ho
    · cases op with
      | scalar c v => simp [specStep, DrainOk]
      | hist c vs => simp [specStep, DrainOk]
      | drain => exact ⟨pend, rfl, h.bounded⟩
    · exact ih w1 _ hi w2 _ hr2 o ho

/-- **bounded + framed, for every drain of every history.**  Each slice handed to the socket is one payload body
    of at most `max` bytes, in length-prefixed mode preceded by exactly its own little-endian byte length — also
    when earlier metrics were rejected for size and when earlier payloads were drained by a previous flush. -/
theorem framed {max lp w0} (h0 : new max lp Fixes.all = some w0) (ops : List Op) (w : Writer) (outs : List Out)
    (hr : run w0 ops = some (w, outs)) (slices : List Bytes) (hd : Out.drained slices ∈ outs) :
    ∃ bodies : List Bytes,
      slices = bodies.map (fun p => (if lp then le32 p.length else []) ++ p)
      ∧ ∀ b ∈ bodies, b.length ≤ max := by
  obtain ⟨bodies, hs, hb⟩ := run_outs_ok ops w0 [] (new_inv h0) w outs hr _ hd
  exact ⟨bodies, hs, hb⟩

/-- `le32` is the exact little-endian encoding: the four bytes decode back to the length (for lengths < 2³²,
    which `bounded` and the limit on `max` guarantee) -/
theorem le32_exact (n : Nat) (h : n < 4294967296) :
    (le32 n).length = 4 ∧
    (le32 n)[0]!.toNat + 256 * (le32 n)[1]!.toNat + 65536 * (le32 n)[2]!.toNat + 16777216 * (le32 n)[3]!.toNat = n := by
  refine ⟨rfl, ?_⟩
  simp only [le32, List.getElem!_cons_zero, List.getElem!_cons_succ, UInt8.toNat_ofNat']
  omega

/-! ## one call -/

/-- **bounded.**  No call ever emits a payload longer than the limit: all keys, values, prefixes, labels,
    rates, any limit from 0 up. -/
theorem bounded (max : Nat) (op : Op) : ∀ p ∈ payloadsOf max op, p.length ≤ max := by
  intro p hp
  cases op with
  | drain => cases hp
  | scalar c v =>
    simp only [payloadsOf, scalarPayloads] at hp
    split at hp
    · simp only [List.mem_singleton] at hp; subst hp; assumption
    · cases hp
  | hist c vs =>
    simp only [payloadsOf, histPayloads, histChunks] at hp
    split at hp
    · cases hp
    · have hb := chunkLoop_bounded max c.minLen vs [] (by simp)
      simp only [List.mem_map, List.mem_append] at hp
      obtain ⟨ch, hch, rfl⟩ := hp
      rw [renderMsg_length]
      rcases hch with hch | hch
      · exact (hb.1 ch hch).2
      · split at hch
        · cases hch
        · simp only [List.mem_singleton] at hch; subst hch; rename_i hne; exact hb.2 hne

/-- the values of a histogram call that can be sent at all (the others are reported as dropped) -/
def keptValues (max : Nat) (c : Call) (vs : List Bytes) : List Bytes :=
  if max < c.minLen + 2 then [] else vs.filter (fits max c.minLen)

/-- **accounted (histograms / distributions).**  The emitted payloads are the messages of non-empty chunks whose
    concatenation is the input values minus the dropped ones, in input order; every input point is in exactly
    one chunk or counted as dropped. -/
theorem accounted_hist (max : Nat) (c : Call) (vs : List Bytes) :
    payloadsOf max (.hist c vs) = (histChunks max c vs).1.map (renderMsg c.fullName c.ty c.histTrailer)
    ∧ (∀ ch ∈ (histChunks max c vs).1, ch ≠ [])
    ∧ (histChunks max c vs).1.flatten = keptValues max c vs
    ∧ (keptValues max c vs).Sublist vs
    ∧ droppedOf max (.hist c vs) + (keptValues max c vs).length = pointsOf (.hist c vs) := by
  refine ⟨rfl, ?_, ?_, ?_, ?_⟩
  · intro ch hch
    simp only [histChunks] at hch
    split at hch
    · cases hch
    · have hb := chunkLoop_bounded max c.minLen vs [] (by simp)
      simp only [List.mem_append] at hch
      rcases hch with hch | hch
      · exact (hb.1 ch hch).1
      · split at hch
        · cases hch
        · simp only [List.mem_singleton] at hch; subst hch; assumption
  · simp only [histChunks, keptValues]
    split
    · rfl
    · have hf := chunkLoop_flat max c.minLen vs []
      simp only [List.nil_append] at hf
      rw [← hf]
      split <;> simp_all
  · simp only [keptValues]
    split
    · exact List.nil_sublist _
    · exact List.filter_sublist
  · simp only [droppedOf, histChunks, keptValues, pointsOf]
    split
    · simp
    · exact chunkLoop_dropped max c.minLen vs []

/-- **accounted (counters / gauges).**  The one point is either emitted as the one message of the call or
    reported as dropped, never both, never neither. -/
theorem accounted_scalar (max : Nat) (c : Call) (v : Bytes) :
    (payloadsOf max (.scalar c v) = [renderMsg c.fullName c.ty c.scalarTrailer [v]] ∧ droppedOf max (.scalar c v) = 0)
    ∨ (payloadsOf max (.scalar c v) = [] ∧ droppedOf max (.scalar c v) = 1) := by
  simp only [payloadsOf, droppedOf, scalarPayloads, scalarDropped]
  split <;> simp

/-! ## what the independent reader sees -/

/-- **DelimFree**: the call's strings can be carried by a DogStatsD datagram at all.  DogStatsD has no escaping,
    so this is a precondition, not something the writer could repair: the (prefixed) name is non-empty and free
    of `: | \n`; every tag key is non-empty and free of `: , | \n`, every tag value free of `, | \n`; the
    type byte is one of `c g h d`; the number texts are what `itoa` / `ryu` produce (timestamp: decimal digits;
    sample rate: non-empty, no `| \n`).  Decidable. -/
def DelimFree (c : Call) : Bool :=
  StatsdRead.nameOk c.fullName && StatsdRead.tyOk c.ty && (c.globals ++ c.labels).all StatsdRead.tagOk && StatsdRead.optOk StatsdRead.tsOk c.ts && StatsdRead.optOk StatsdRead.rateOk c.rate

theorem DelimFree.parts {c : Call} (h : DelimFree c = true) :
    StatsdRead.nameOk c.fullName = true ∧ StatsdRead.tyOk c.ty = true ∧ (∀ t ∈ c.globals ++ c.labels, StatsdRead.tagOk t = true)
    ∧ StatsdRead.optOk StatsdRead.tsOk c.ts = true ∧ StatsdRead.optOk StatsdRead.rateOk c.rate = true := by
  simp only [DelimFree, Bool.and_eq_true, List.all_eq_true] at h
  exact ⟨h.1.1.1.1, h.1.1.1.2, h.1.1.2, h.1.2, h.2⟩

/-- **payload_parses (counters / gauges).**  The emitted payload is one complete datagram: the (prefixed) name,
    the one value, the type, no sample rate, the global labels followed by the metric's own, the timestamp. -/
theorem payload_parses_scalar (max : Nat) (c : Call) (v : Bytes) (hc : DelimFree c = true) (hv : StatsdRead.valOk v = true) :
    ∀ p ∈ payloadsOf max (.scalar c v),
      StatsdRead.parsePayload p = some ⟨c.fullName, [v], [c.ty], none, c.globals ++ c.labels, c.ts⟩ := by
  intro p hp
  obtain ⟨hn, hty, htags, hts, _⟩ := DelimFree.parts hc
  simp only [payloadsOf, scalarPayloads] at hp
  split at hp
  · simp only [List.mem_singleton] at hp
    subst hp
    exact StatsdRead.render_parses c.fullName c.ty c.labels c.globals c.ts none v [] hn hty
      (by intro x hx; simp only [List.mem_singleton] at hx; subst hx; exact hv) htags hts rfl
  · cases hp

/-- **payload_parses (histograms / distributions).**  Every emitted payload is one complete datagram: the
    (prefixed) name, the chunk's values in order, the type, the sample rate, the global labels followed by the
    metric's own, no timestamp — for every chunk, whatever the number of values and the limit. -/
theorem payload_parses_hist (max : Nat) (c : Call) (vs : List Bytes) (hc : DelimFree c = true)
    (hv : ∀ v ∈ vs, StatsdRead.valOk v = true) :
    ∀ ch ∈ (histChunks max c vs).1,
      StatsdRead.parsePayload (renderMsg c.fullName c.ty c.histTrailer ch)
        = some ⟨c.fullName, ch, [c.ty], c.rate, c.globals ++ c.labels, none⟩ := by
  intro ch hch
  obtain ⟨hn, hty, htags, _, hrate⟩ := DelimFree.parts hc
  obtain ⟨_, hne, hflat, hsub, _⟩ := accounted_hist max c vs
  have hvals : ∀ x ∈ ch, StatsdRead.valOk x = true := by
    intro x hx
    apply hv
    apply hsub.subset
    rw [← hflat]
    exact List.mem_flatten.mpr ⟨ch, hch, hx⟩
  cases ch with
  | nil => exact absurd rfl (hne [] hch)
  | cons x xs => exact StatsdRead.render_parses c.fullName c.ty c.labels c.globals none c.rate x xs hn hty hvals htags rfl hrate

/-! ## configuration: the writer a built exporter runs with (builder validation, framing mode, defaults) -/

/-- `PayloadWriter::new` panics exactly for limits that do not fit a `u32` -/
theorem new_panics_iff (max : Nat) (lp : Bool) (fx : Fixes) : new max lp fx = none ↔ 4294967296 ≤ max := by
  unfold new
  by_cases h : max < 4294967296
  · simp [h]
  · simp [h]; omega

set_option linter.unusedSimpArgs false in
/-- **validate_iff.**  The builder accepts a limit iff it fits a `u32` and, for UDP, one datagram
    (`65535 - 8` bytes); nothing else is rejected. -/
theorem validate_iff (t : Transport) (configured : Option Nat) :
    validateMaxPayloadLen t configured = true ↔
      getMaxPayloadLen t configured ≤ 4294967295 ∧ (t = Transport.udp → getMaxPayloadLen t configured ≤ 65527) := by
  unfold validateMaxPayloadLen udpDatagramMaxPayloadLen u32Max
  by_cases ht : t = Transport.udp <;> by_cases h1 : 65535 - 8 < getMaxPayloadLen t configured <;>
    by_cases h2 : 4294967295 < getMaxPayloadLen t configured <;> simp [ht, h1, h2] <;> omega

/-- the transport defaults (1432 for UDP, 8192 for both unix socket kinds) pass validation -/
theorem defaults_valid (t : Transport) : validateMaxPayloadLen t none = true := by
  cases t <;> decide

/-- **lp_iff_unix_stream.**  Payloads are length-prefixed exactly on the stream transport (`unix://`); the two
    datagram transports carry bare payloads. -/
theorem lp_iff_unix_stream (t : Transport) : isLengthPrefixed t = true ↔ t = Transport.unix := by
  cases t <;> simp [isLengthPrefixed]

/-- **build_no_panic.**  For EVERY transport and every configured limit (`None` or any number, also ≥ 2³²) the
    builder either refuses (`BuildError`, no exporter, nothing panics) or the forwarder's `PayloadWriter::new`
    succeeds with exactly the configured-or-default limit and the transport's framing mode, and from then on no
    history of writes and drains panics.  This discharges the hypothesis `max < 2³²` of `no_panic` for built
    exporters. -/
theorem build_no_panic (t : Transport) (configured : Option Nat) :
    buildWriter t configured Fixes.all = none
    ∨ ∃ w0, buildWriter t configured Fixes.all = some (some w0)
        ∧ new (getMaxPayloadLen t configured) (isLengthPrefixed t) Fixes.all = some w0
        ∧ w0.max = getMaxPayloadLen t configured ∧ w0.lp = isLengthPrefixed t
        ∧ getMaxPayloadLen t configured < 4294967296
        ∧ ∀ ops : List Op, (run w0 ops).isSome = true := by
  by_cases hv : validateMaxPayloadLen t configured = true
  · right
    have hm : getMaxPayloadLen t configured < 4294967296 := by
      have := ((validate_iff t configured).mp hv).1; omega
    have hnew : new (getMaxPayloadLen t configured) (isLengthPrefixed t) Fixes.all
        = some (prepareForWrite ⟨getMaxPayloadLen t configured, isLengthPrefixed t, [], [], Fixes.all⟩) := by
      simp [new, hm]
    refine ⟨_, by simp [buildWriter, hv, hnew], hnew, rfl, rfl, hm, ?_⟩
    intro ops
    obtain ⟨w', hr, _⟩ := run_refines ops _ [] (new_inv hnew)
    rw [hr]; rfl
  · left
    simp [buildWriter, hv]

/-- **built_udp_fits_datagram.**  Whatever a UDP exporter that could be built drains, after any history, is a
    bare payload (no length prefix) of at most 65527 bytes, i.e. it fits one UDP datagram. -/
theorem built_udp_fits_datagram (configured : Option Nat) (w0 : Writer)
    (hb : buildWriter Transport.udp configured Fixes.all = some (some w0)) (ops : List Op) (w : Writer)
    (outs : List Out) (hr : run w0 ops = some (w, outs)) (slices : List Bytes) (hd : Out.drained slices ∈ outs) :
    ∀ s ∈ slices, s.length ≤ 65527 := by
  rcases build_no_panic Transport.udp configured with hnone | ⟨w1, hb1, hnew, _, _, _, _⟩
  · rw [hnone] at hb; cases hb
  · rw [hb1] at hb
    have hw : w1 = w0 := by injection hb with h; injection h
    subst hw
    have hval : validateMaxPayloadLen Transport.udp configured = true := by
      by_cases hv : validateMaxPayloadLen Transport.udp configured = true
      · exact hv
      · simp [buildWriter, hv] at hb1
    have hlim := ((validate_iff Transport.udp configured).mp hval).2 rfl
    obtain ⟨bodies, hs, hbd⟩ := framed hnew ops w outs hr slices hd
    intro s hsl
    rw [hs] at hsl
    simp only [isLengthPrefixed, List.mem_map] at hsl
    obtain ⟨b, hbm, rfl⟩ := hsl
    have := hbd b hbm
    simp
    omega

/-- `isPrefixOf` is `str::starts_with` -/
theorem isPrefixOf_iff : ∀ (p s : Bytes), isPrefixOf p s = true ↔ ∃ r, s = p ++ r := by
  intro p
  induction p with
  | nil => intro s; simp [isPrefixOf]
  | cons a as ih =>
    intro s
    cases s with
    | nil => simp [isPrefixOf]
    | cons b bs =>
      simp only [isPrefixOf, Bool.and_eq_true, beq_iff_eq, ih, List.cons_append, List.cons.injEq]
      constructor
      · rintro ⟨rfl, r, rfl⟩; exact ⟨r, rfl, rfl⟩
      · rintro ⟨r, rfl, rfl⟩; exact ⟨rfl, r, rfl⟩

/-- **flush_prefix.**  `State::flush` passes the global prefix for every metric except those whose name starts
    with `datadog.dogstatsd.client` (the exporter's own telemetry), which are never prefixed — starts with, not
    contains, and not merely `datadog.`. -/
theorem flush_prefix (g : Option Bytes) (name : Bytes) :
    ((∃ r, name = clientNamespace ++ r) → flushPrefix g name = none)
    ∧ ((¬ ∃ r, name = clientNamespace ++ r) → flushPrefix g name = g) := by
  unfold flushPrefix
  constructor
  · intro h; rw [if_pos ((isPrefixOf_iff _ _).mpr h)]
  · intro h
    have : ¬ isPrefixOf clientNamespace name = true := fun hp => h ((isPrefixOf_iff _ _).mp hp)
    rw [if_neg this]

/-! ## source facts (tools/extract.py, regenerated from the repository on every run) -/

set_option maxRecDepth 100000 in
/-- **src_config.**  The configuration plumbing of the current source is the one modelled: transport defaults,
    which transport is length-prefixed, the two validation tests and their order, `build()` validating first and
    handing the validated limit and every builder field to the state / forwarder configuration unchanged,
    `Forwarder::run` creating its writer from `(max_payload_len, is_length_prefixed())`, the stream arm sending
    with `write_all` (a short `write` would tear a frame), the datagram arms with one `send` per payload. -/
theorem src_config :
    Generated.dsd_default_max_arms = [("Udp", "1432"), ("Unix|Unixgram", "8192")]
    ∧ defaultMaxPayloadLen Transport.udp = 1432 ∧ defaultMaxPayloadLen Transport.unix = 8192
    ∧ defaultMaxPayloadLen Transport.unixgram = 8192
    ∧ Generated.dsd_length_prefixed_arms = [("Udp", "false"), ("Unix", "true"), ("Unixgram", "false")]
    ∧ Generated.dsd_udp_datagram_max = "(u16::MAX as usize) - 8"
    ∧ Generated.dsd_validate_guards = ["RemoteAddr::Udp(_) = &self.remote_addr"]
    ∧ Generated.dsd_validate_tests = ["max_payload_len > UDP_DATAGRAM_MAX_PAYLOAD_LEN", "max_payload_len > u32::MAX as usize"]
    ∧ Generated.dsd_validate_results = ["Err", "Err", "Ok"]
    ∧ Generated.dsd_get_max = "{ self.max_payload_len.unwrap_or_else(|| self.remote_addr.default_max_payload_len()) }"
    ∧ Generated.dsd_build_first_stmt = "self.validate_max_payload_len()?;"
    ∧ Generated.dsd_build_max_let = "let max_payload_len = self.get_max_payload_len();"
    ∧ Generated.dsd_build_forwarder_cfg = [("remote_addr", "self.remote_addr"), ("max_payload_len", "max_payload_len"),
        ("flush_interval", "flush_interval"), ("write_timeout", "self.write_timeout")]
    ∧ Generated.dsd_build_state_cfg = [("agg_mode", "self.agg_mode"), ("telemetry", "self.telemetry"),
        ("histogram_sampling", "self.histogram_sampling"), ("histogram_reservoir_size", "self.histogram_reservoir_size"),
        ("histograms_as_distributions", "self.histograms_as_distributions"), ("global_labels", "self.global_labels"),
        ("global_prefix", "self.global_prefix")]
    ∧ Generated.dsd_run_writer_new = "PayloadWriter::new(self.config.max_payload_len, self.config.is_length_prefixed())"
    ∧ Generated.dsd_run_flush_call = "self.state.flush(&mut flush_state, &mut writer, &mut telemetry_update);"
    ∧ Generated.dsd_unix_send = "socket.write_all(buf)"
    ∧ Generated.dsd_dgram_sends = ["socket.send(buf)", "socket.send(buf)"] := by
  decide

set_option maxRecDepth 100000 in
/-- **src_writer_shape.**  The statements of the writer that make a call's output independent of the writer's
    history are the modelled ones: the writer has no state besides the limit, the buffer, the offsets, the framing
    flag and the scratch trailer buffer; the scratch buffer is cleared and re-rendered UNCONDITIONALLY from this
    call's key, sample rate and global labels at the start of every histogram call; dropping `Payloads` clears the
    buffer, re-adds the placeholder and does nothing else; the minimum length uses the prefix's BYTE length; the
    length header is the full `u32` of the body length; the limit test is on the body length; `new` asserts the
    `u32` bound.  (`State::flush`: the three prefix exemptions are `starts_with("datadog.dogstatsd.client")`, the
    histogram type follows `histograms_as_distributions`, sampled flushes pass `Some(values.sample_rate())`, and
    the reported point count is scaled by dividing by the sample rate.) -/
theorem src_writer_shape :
    Generated.dsd_writer_fields = ["max_payload_len", "buf", "trailer_buf", "offsets", "with_length_prefix"]
    ∧ Generated.dsd_hist_trailer_prologue
        = "self.trailer_buf.clear(); write_metric_trailer( key, None, &mut self.trailer_buf, maybe_sample_rate, global_labels.iter(), );"
    ∧ Generated.dsd_payloads_drop_body
        = "{ self.buf.clear(); if self.with_length_prefix { self.buf.extend_from_slice(&[0, 0, 0, 0]); } }"
    ∧ Generated.dsd_hist_prefix_len = "prefix.map_or(0, |prefix| prefix.len() + 1)"
    ∧ Generated.dsd_hist_min_len = "prefix_len + key.name().len() + self.trailer_buf.len() + 2"
    ∧ Generated.dsd_commit_len_conv = "u32::try_from(current_len).unwrap().to_le_bytes()"
    ∧ Generated.dsd_commit_test = "current_len > self.max_payload_len"
    ∧ Generated.dsd_new_assert = "u32::try_from(max_payload_len).is_ok()"
    ∧ Generated.dsd_prefix_exemptions = ["key.name().starts_with(\"datadog.dogstatsd.client\")",
        "key.name().starts_with(\"datadog.dogstatsd.client\")", "key.name().starts_with(\"datadog.dogstatsd.client\")"]
    ∧ Generated.dsd_hist_as_dist_test = "self.config.histograms_as_distributions"
    ∧ Generated.dsd_hist_flush_calls = ["None, Values::Raw(values.iter())", "Some(values.sample_rate()), Values::Sampled(values)"]
    ∧ Generated.dsd_hist_points_flushed = "((points_len as u64 - result.points_dropped()) as f64 / sample_rate) as u64" := by
  decide

/-! ## the three defects of the unrepaired code, as theorems about the model with one repair switched off -/

/-- `run` from a fresh writer, outputs only -/
def outputs (max : Nat) (lp : Bool) (fx : Fixes) (ops : List Op) : Option (List Out) :=
  (new max lp fx).bind (fun w => (run w ops).map (·.2))

/-- `latency` prefixed with `myservice`, 20 values `1.5`, limit 40 -/
def witnessA : List Op :=
  [.hist ⟨104, [108, 97, 116, 101, 110, 99, 121], [], none, none, some [109, 121, 115, 101, 114, 118, 105, 99, 101], []⟩
    (List.replicate 20 [49, 46, 53])]

/-- a counter whose name is longer than the limit 20, then `ok:2|c`, then a drain -/
def witnessB : List Op :=
  [.scalar ⟨99, List.replicate 30 97, [], none, none, none, []⟩ [49],
   .scalar ⟨99, [111, 107], [], none, none, none, []⟩ [50],
   .drain]

/-- `requests:1|c`, drain, `requests:2|c`, drain -/
def witnessC : List Op :=
  [.scalar ⟨99, [114, 101, 113, 117, 101, 115, 116, 115], [], none, none, none, []⟩ [49], .drain,
   .scalar ⟨99, [114, 101, 113, 117, 101, 115, 116, 115], [], none, none, none, []⟩ [50], .drain]

set_option maxRecDepth 8000 in
/-- (a) without fix-C09-a the prefixed histogram near the limit panics … -/
theorem defect_a_panics : outputs 40 false ⟨false, true, true⟩ witnessA = none := by decide
set_option maxRecDepth 8000 in
/-- … with it, the call emits 4 payloads and drops nothing -/
theorem defect_a_repaired : outputs 40 false Fixes.all witnessA = some [.wrote 4 0] := by decide

/-- (b) without fix-C09-b the payload after a rejected metric is mis-framed: `03 00 00 00 "|c\n"` … -/
theorem defect_b_misframed : outputs 20 true ⟨true, false, true⟩ witnessB
    = some [.wrote 0 1, .wrote 1 0, .drained [[3, 0, 0, 0, 124, 99, 10]]] := by decide
/-- … with it: `07 00 00 00 "ok:2|c\n"` -/
theorem defect_b_repaired : outputs 20 true Fixes.all witnessB
    = some [.wrote 0 1, .wrote 1 0, .drained [[7, 0, 0, 0, 111, 107, 58, 50, 124, 99, 10]]] := by decide

/-- (b') without fix-C09-b a histogram that writes nothing after a rejected metric panics (`current_len` underflow) -/
theorem defect_b_underflow : outputs 20 true ⟨true, false, true⟩
    [.scalar ⟨99, List.replicate 30 97, [], none, none, none, []⟩ [49],
     .hist ⟨104, [104], [], none, none, none, []⟩ []] = none := by decide

/-- (c) without fix-C09-c the first payload of the second flush cycle loses its first four bytes:
    `09 00 00 00 "ests:2|c\n"` … -/
theorem defect_c_overwritten : (outputs 8192 true ⟨true, true, false⟩ witnessC).map (·.getLast?)
    = some (some (.drained [[9, 0, 0, 0, 101, 115, 116, 115, 58, 50, 124, 99, 10]])) := by decide
/-- … with it: `0d 00 00 00 "requests:2|c\n"` -/
theorem defect_c_repaired : (outputs 8192 true Fixes.all witnessC).map (·.getLast?)
    = some (some (.drained [[13, 0, 0, 0, 114, 101, 113, 117, 101, 115, 116, 115, 58, 50, 124, 99, 10]])) := by decide

/-! ## non-vacuity: concrete non-trivial inputs meet the hypotheses and go through every theorem -/

/-- `svc.lat` with global tag `env:prod`, own tags `k:a:b` (colon in the value) and bare `canary`, rate `0.5`,
    values `1.0 22.5 1e300 3.25` and thirty 9s, limit 52: two chunks, one value dropped, each chunk read back exactly -/
def exCall : Call :=
  ⟨104, [108, 97, 116], [([107], [97, 58, 98]), ([99, 97, 110, 97, 114, 121], [])], none, some [48, 46, 53],
   some [115, 118, 99], [([101, 110, 118], [112, 114, 111, 100])]⟩
def exVals : List Bytes := [[49, 46, 48], [50, 50, 46, 53], [49, 101, 51, 48, 48], [51, 46, 50, 53], List.replicate 30 57]

example : DelimFree exCall = true := by decide
example : ∀ v ∈ exVals, StatsdRead.valOk v = true := by decide
example : histChunks 52 exCall exVals = ([[[49, 46, 48], [50, 50, 46, 53]], [[49, 101, 51, 48, 48], [51, 46, 50, 53]]], 1) := by decide
example : (histPayloads 52 exCall exVals).map (·.length) = [47, 49] := by decide
example : StatsdRead.parsePayload ((histPayloads 52 exCall exVals)[0]!) =
    some ⟨[115, 118, 99, 46, 108, 97, 116], [[49, 46, 48], [50, 50, 46, 53]], [104], some [48, 46, 53],
          [([101, 110, 118], [112, 114, 111, 100]), ([107], [97, 58, 98]), ([99, 97, 110, 97, 114, 121], [])], none⟩ := by decide
/-- a hostile name is rejected by the hypothesis, and indeed read differently: `a|c:1|c\n` -/
example : DelimFree ⟨99, [97, 124, 99], [], none, none, none, []⟩ = false := by decide
/-- a history with a rejected write, a multi-chunk histogram and two drains, length-prefixed -/
example : outputs 52 true Fixes.all
    [.scalar ⟨99, List.replicate 60 97, [], none, none, none, []⟩ [49], .hist exCall exVals, .drain,
     .scalar ⟨103, [103], [], some [49, 55], none, none, []⟩ [45, 48, 46, 48], .drain]
    = some [.wrote 0 1, .wrote 2 1,
        .drained ((histPayloads 52 exCall exVals).map (frame true)),
        .wrote 1 0, .drained [[13, 0, 0, 0, 103, 58, 45, 48, 46, 48, 124, 103, 124, 84, 49, 55, 10]]] := by decide

/-- configuration: UDP refuses 65528, accepts 65527; every transport refuses 2³²; a unix stream exporter with the
    default limit runs a length-prefixed writer of 8192; `new` itself would panic at 2³² -/
example : buildWriter Transport.udp (some 65528) Fixes.all = none := by decide
example : (buildWriter Transport.udp (some 65527) Fixes.all).map (·.map (fun w => (w.max, w.lp))) = some (some (65527, false)) := by decide
example : buildWriter Transport.unix (some 4294967296) Fixes.all = none := by decide
example : (buildWriter Transport.unix none Fixes.all).map (·.map (fun w => (w.max, w.lp, w.buf))) = some (some (8192, true, [0, 0, 0, 0])) := by decide
example : (buildWriter Transport.unixgram (some 4294967295) Fixes.all).map (·.map (fun w => (w.max, w.lp))) = some (some (4294967295, false)) := by decide
example : new 4294967296 true Fixes.all = none := by decide
/-- `datadog.dogstatsd.client.x` is exempt, `xdatadog.dogstatsd.client` and `datadog.other` are not -/
example : flushPrefix (some [112]) (clientNamespace ++ [46, 120]) = none := by decide
example : flushPrefix (some [112]) (120 :: clientNamespace) = some [112] := by decide
example : flushPrefix (some [112]) [100, 97, 116, 97, 100, 111, 103, 46, 111] = some [112] := by decide
/-- the same key written twice with different sample rates and global labels (the trailer is per call) -/
example : outputs 64 true Fixes.all
    [.hist ⟨104, [108], [], none, some [49, 46, 48], none, []⟩ [[49, 46, 48]], .drain,
     .hist ⟨104, [108], [], none, some [48, 46, 53], none, [([103], [])]⟩ [[50, 46, 48]], .drain]
    = some [.wrote 1 0, .drained [[13, 0, 0, 0, 108, 58, 49, 46, 48, 124, 104, 124, 64, 49, 46, 48, 10]],
            .wrote 1 0, .drained [[16, 0, 0, 0, 108, 58, 50, 46, 48, 124, 104, 124, 64, 48, 46, 53, 124, 35, 103, 10]]] := by decide

/-! ## the forwarder's client state machine (forwarder/sync.rs): what a receiver sees on each connection

The payloads the writer emits (`framed`) are handed one by one to `ClientState::try_send`.  The theorems below are
about `Model/StatsdFwd`: ANY sequence of payloads against ANY behaviour of the environment (connects that fail,
sockets that accept everything, sockets that accept `k` bytes and then fail — a write timeout in the middle of a
frame, a receiver that went away). -/

section Forwarder
open MetricsVerif.StatsdFwd

/-- **every payload at most once, every `Ok` payload exactly once** (both transports).  The whole payloads that
    reached a socket (for a datagram socket: the datagrams received), over all sockets the client ever made, in
    order, are exactly the payloads whose `try_send` returned `Ok`, in order: nothing reported as sent is missing
    or repeated, and a payload whose send failed is never delivered whole. -/
theorem fwd_ok_exactly_once (stream : Bool) (ops : List (Bytes × Env)) :
    (conns (StatsdFwd.run (init stream) ops).1).flatMap rxDgram = okSent ops (StatsdFwd.run (init stream) ops).2 := by
  have := run_received ops (init stream)
  simpa [conns, init] using this

/-- **a failed send ends its connection.**  After any history: on the live socket every send returned `Ok`; on a
    dropped socket every send but the last returned `Ok` and the last one failed — nothing is ever written behind
    a failed (possibly partial) write. -/
theorem fwd_failed_send_closes (stream : Bool) (ops : List (Bytes × Env)) :
    (∀ c, (StatsdFwd.run (init stream) ops).1.ready = some c → ∀ ch ∈ c, ch.ok = true)
    ∧ ∀ c ∈ (StatsdFwd.run (init stream) ops).1.closed,
        ∃ pre last, c = pre ++ [last] ∧ (∀ ch ∈ pre, ch.ok = true) ∧ last.ok = false := by
  have h := run_inv (P := fun _ => True) ops (init stream) (init_inv _ _) (fun _ _ => trivial)
  refine ⟨fun c hc ch hm => (h.live c hc ch hm).1, ?_⟩
  intro c hc
  obtain ⟨pre, last, e, hp, hl, _⟩ := h.closed c hc
  exact ⟨pre, last, e, fun ch hm => (hp ch hm).1, hl⟩

theorem run_stream (ops : List (Bytes × Env)) : ∀ (s : Fwd), (StatsdFwd.run s ops).1.stream = s.stream := by
  induction ops with
  | nil => intro s; rfl
  | cons op ops ih => intro s; obtain ⟨p, e⟩ := op; simp only [StatsdFwd.run]; rw [ih, trySend_stream]

/-- **framing on every connection (length-prefixed mode).**  If every payload handed to the client is a lpFrame
    (`le32 |body| ++ body`, which `framed` proves of the writer's output), then on EVERY connection the client ever
    made the Agent's reader (`deframe`: 4-byte little-endian length, that many bytes, repeat) reads exactly the
    bodies of the payloads whose send on that connection returned `Ok`, in order, and is left with nothing or with
    one truncated lpFrame; on the live connection it is left with nothing.  So each payload the receiver sees is
    preceded by its exact length, whatever the write results were. -/
theorem fwd_stream_framed (ops : List (Bytes × Env)) (hf : ∀ op ∈ ops, IsFrame op.1) :
    ∀ c ∈ conns (StatsdFwd.run (init true) ops).1,
      ∃ t, TornFrame t
        ∧ deframe (rxStream c) = ((rxDgram c).map (·.drop 4), t)
        ∧ ((deframe (rxStream c)).1).map lpFrame = rxDgram c
        ∧ ((StatsdFwd.run (init true) ops).1.ready = some c → t = []) := by
  have h := run_inv (P := IsFrame) ops (init true) (init_inv _ _) hf
  have hs : (StatsdFwd.run (init true) ops).1.stream = true := run_stream ops (init true)
  have hlive : ∀ c, (StatsdFwd.run (init true) ops).1.ready = some c → LiveOk IsFrame true c := by
    intro c hc; have := h.live c hc; rwa [hs] at this
  have hclosed : ∀ c ∈ (StatsdFwd.run (init true) ops).1.closed, ClosedOk IsFrame true c := by
    intro c hc; have := h.closed c hc; rwa [hs] at this
  -- a socket on which every send succeeded
  have live : ∀ c, LiveOk IsFrame true c →
      deframe (rxStream c) = ((rxDgram c).map (·.drop 4), []) ∧ ((rxDgram c).map (·.drop 4)).map lpFrame = rxDgram c := by
    intro c hc
    obtain ⟨h1, h2⟩ := live_bytes hc
    have hd : rxDgram c = c.map (·.bytes) := by simp [rxDgram, filter_ok_live hc]
    have hm : (c.map (·.bytes)).map (·.drop 4) = c.map (fun ch => ch.bytes.drop 4) := by simp
    refine ⟨?_, ?_⟩
    · have := deframe_frames _ h2 [] (Or.inl rfl)
      rw [← h1, List.append_nil] at this
      rw [hd, hm]; exact this
    · rw [hd, hm, ← h1]
  intro c hc
  simp only [conns, List.mem_append, Option.mem_toList] at hc
  rcases hc with hc | hc
  · -- a dropped socket: successful sends, then the failed one
    obtain ⟨pre, last, rfl, hpre, hlast, p, w, ⟨b, hb, rfl⟩, rfl⟩ := hclosed c hc
    obtain ⟨k, hk, hbytes⟩ := clientSend_torn hlast
    obtain ⟨h1, h2⟩ := live_bytes hpre
    have hd : rxDgram (pre ++ [clientSend true (lpFrame b) w]) = pre.map (·.bytes) := by
      rw [rxDgram_append]; simp [hlast, rxDgram, filter_ok_live hpre]
    have hm : (pre.map (·.bytes)).map (·.drop 4) = pre.map (fun ch => ch.bytes.drop 4) := by simp
    have ht : TornFrame ((lpFrame b).take k) := Or.inr ⟨b, k, hb, hk, rfl⟩
    have hrx : rxStream (pre ++ [clientSend true (lpFrame b) w])
        = ((pre.map (fun ch => ch.bytes.drop 4)).map lpFrame).flatten ++ (lpFrame b).take k := by
      simp [rxStream, hbytes, ← h1]
    have hde := deframe_frames _ h2 _ ht
    refine ⟨(lpFrame b).take k, ht, ?_, ?_, ?_⟩
    · rw [hrx, hd, hm]; exact hde
    · rw [hrx, hde, hd, ← h1]
    · intro hr
      -- the live socket has no failed send on it
      have := (hlive _ hr (clientSend true (lpFrame b) w) (by simp)).1
      rw [hlast] at this; cases this
  · obtain ⟨l1, l2⟩ := live c (hlive c hc)
    exact ⟨[], Or.inl rfl, l1, by rw [l1]; exact l2, fun _ => rfl⟩

theorem flatMap_congr_mem {α β : Type} {l : List α} {f g : α → List β} (h : ∀ x ∈ l, f x = g x) :
    l.flatMap f = l.flatMap g := by
  induction l with
  | nil => rfl
  | cons a l ih =>
    simp only [List.flatMap_cons]
    rw [h a (List.mem_cons_self ..), ih (fun x hx => h x (List.mem_cons_of_mem _ hx))]

/-- **what the Agent receives over all connections = what was reported as sent.**  Length-prefixed mode, any
    payload sequence of frames, any write results: re-framing the bodies the Agent's reader extracts from all
    connections (oldest first) gives back exactly the payloads whose `try_send` returned `Ok`, in order — each
    once, none torn, none invented. -/
theorem fwd_receiver_sees_sent_frames (ops : List (Bytes × Env)) (hf : ∀ op ∈ ops, IsFrame op.1) :
    ((conns (StatsdFwd.run (init true) ops).1).flatMap (fun c => (deframe (rxStream c)).1)).map lpFrame
      = okSent ops (StatsdFwd.run (init true) ops).2 := by
  rw [← fwd_ok_exactly_once, List.map_flatMap]
  apply flatMap_congr_mem
  intro c hc
  obtain ⟨t, _, _, h3, _⟩ := fwd_stream_framed ops hf c hc
  exact h3

/-- **the writer's output is what the framing theorems assume.**  In length-prefixed mode every slice of every
    drain of every history of the writer is a frame `le32 |body| ++ body` with `|body| < 2³²` (from `framed`,
    `bounded` and the `u32` assertion of `new`). -/
theorem writer_output_is_frames {max : Nat} {w0 : Writer} (h0 : new max true Fixes.all = some w0) (ops : List Op)
    (w : Writer) (outs : List Out) (hr : Statsd.run w0 ops = some (w, outs)) (slices : List Bytes)
    (hd : Out.drained slices ∈ outs) : ∀ s ∈ slices, IsFrame s := by
  obtain ⟨bodies, hs, hb⟩ := framed h0 ops w outs hr slices hd
  have hmax : max < 4294967296 := by
    unfold new at h0
    split at h0
    · assumption
    · cases h0
  intro s hmem
  rw [hs] at hmem
  obtain ⟨b, hbm, rfl⟩ := List.mem_map.mp hmem
  exact ⟨b, Nat.lt_of_le_of_lt (hb b hbm) hmax, by simp [lpFrame]⟩

/-- **why the socket must be dropped after a failed stream write** (the design fact the two theorems above rest
    on): a truncated lpFrame followed by a perfectly good lpFrame on the same connection makes the Agent's reader
    deliver a "payload" that was never sent.  Witness: 1 of the 3 body bytes of `a:1` arrived, then the lpFrame of
    `b` — the reader delivers `a 01 00`. -/
theorem torn_frame_then_more_misframes :
    ∃ (b1 b2 : Bytes) (k : Nat), k < (lpFrame b1).length
      ∧ ∃ x ∈ (deframe ((lpFrame b1).take k ++ lpFrame b2)).1, x ≠ b1 ∧ x ≠ b2 :=
  ⟨[97, 58, 49], [98], 5, by decide, [97, 1, 0], by decide, by decide, by decide⟩

set_option maxRecDepth 100000 in
/-- **src_forwarder_client.**  The client state machine of the current source is the one modelled: `Forwarder::new`
    starts `Disconnected`; the `Ready` arm of `try_send` sends, keeps the socket iff the result `is_ok()` and drops
    it (`Disconnected`) on EVERY error, with no test of the error kind; the `Disconnected` arm connects, stays
    `Disconnected` and returns the error when that fails; these are the only four state writes; the stream arm
    sends with `write_all`; every socket gets the configured write timeout; `run` hands every payload of the drain
    to `try_send` regardless of earlier results. -/
theorem src_forwarder_client :
    Generated.dsd_forwarder_new_client_state = "ClientState::Disconnected(config.clone())"
    ∧ Generated.dsd_try_send_ready_arm
        = "{ let result = client.send(payload); if result.is_ok() { *self = ClientState::Ready(config, client); } else { *self = ClientState::Disconnected(config); } return result; }"
    ∧ Generated.dsd_try_send_disconnected_arm
        = "match Client::from_forwarder_config(&config) { Ok(client) => *self = ClientState::Ready(config, client), Err(e) => { *self = ClientState::Disconnected(config); return Err(e); } },"
    ∧ Generated.dsd_try_send_state_writes
        = ["ClientState::Ready", "ClientState::Disconnected", "ClientState::Ready", "ClientState::Disconnected"]
    ∧ Generated.dsd_unix_send = "socket.write_all(buf)"
    ∧ Generated.dsd_stream_write_timeout
        = ["Some(config.write_timeout)", "Some(config.write_timeout)", "Some(config.write_timeout)"]
    ∧ Generated.dsd_run_payload_loop
        = "while let Some(payload) = payloads.next_payload() { if let Err(e) = self.client_state.try_send(payload)" := by
  decide

/-! non-vacuity: a stalled receiver tears the second lpFrame, the client reconnects, traffic continues -/
example :
    let ops : List (Bytes × Env) :=
      [(lpFrame [97, 58, 49], ⟨true, .full⟩), (lpFrame [98, 58, 50, 50], ⟨true, .fail 6⟩), (lpFrame [99], ⟨false, .full⟩),
       (lpFrame [99], ⟨true, .full⟩), (lpFrame [], ⟨true, .fail 0⟩)]
    let r := StatsdFwd.run (init true) ops
    r.2 = [some 7, none, none, some 5, none]
    ∧ (conns r.1).map (fun c => deframe (rxStream c)) = [([[97, 58, 49]], [4, 0, 0, 0, 98, 58]), ([[99]], [])]
    ∧ r.1.ready = none := by decide
example : (StatsdFwd.run (init false) [([1], ⟨true, .full⟩), ([2], ⟨true, .fail 1⟩), ([3], ⟨true, .full⟩)]).1.closed.map rxDgram
    = [[[1]]] := by decide

/-! ## the payload loop of `Forwarder::run` with a failing send in the middle (round 7)

`Model/StatsdFwd.cycle` is the `while let Some(payload) = payloads.next_payload()` loop with the `TelemetryUpdate`
send counters.  The theorems are about ANY client state at the start of the cycle (so: every cycle, not only the
first), ANY payload list and ANY behaviour of the environment per payload. -/

/-- **every payload of the drain is attempted.**  The loop produces one `try_send` result per payload, whatever the
    earlier results were: a failed send in the middle does not end the cycle. -/
theorem run_attempts_every_payload (s : Fwd) (ops : List (Bytes × Env)) :
    (StatsdFwd.run s ops).2.length = ops.length := run_length ops s

/-- the counted loop drives the same client state machine as `run` -/
theorem cycle_state_eq_run (s : Fwd) (c : SendCounts) (ops : List (Bytes × Env)) :
    (cycle s c ops).1 = (StatsdFwd.run s ops).1 := cycle_state ops s c

/-- **the send counters of a cycle are truthful.**  Starting from cleared counters (`telemetry_update.clear()`), in
    any client state: `packets_sent` is the number of payloads whose `try_send` returned `Ok` and `bytes_sent` their
    total size; sent + dropped packets = the number of payloads of the drain, sent + dropped bytes = their total
    size (nothing is counted twice, nothing is left uncounted — in particular the payloads AFTER a failed one); the
    `_writer` counters equal the dropped counters (the loop has no other source of drops). -/
theorem cycle_counts_truthful (s : Fwd) (ops : List (Bytes × Env)) :
    let c := (cycle s SendCounts.zero ops).2
    let sent := okSent ops (StatsdFwd.run s ops).2
    c.packetsSent = sent.length
    ∧ c.bytesSent = totalLen sent
    ∧ c.packetsSent + c.packetsDropped = ops.length
    ∧ c.bytesSent + c.bytesDropped = totalLen (ops.map (·.1))
    ∧ c.packetsDroppedWriter = c.packetsDropped
    ∧ c.bytesDroppedWriter = c.bytesDropped := by
  obtain ⟨h1, h2, h3, h4, h5, h6⟩ := cycle_counts_from ops s SendCounts.zero
  have z1 : SendCounts.zero.packetsSent = 0 := rfl
  have z2 : SendCounts.zero.bytesSent = 0 := rfl
  have z3 : SendCounts.zero.packetsDropped = 0 := rfl
  have z4 : SendCounts.zero.bytesDropped = 0 := rfl
  have z5 : SendCounts.zero.packetsDroppedWriter = 0 := rfl
  have z6 : SendCounts.zero.bytesDroppedWriter = 0 := rfl
  dsimp only
  refine ⟨?_, ?_, ?_, ?_, ?_, ?_⟩ <;> omega

/-- **what is counted as sent is what the receiver got** (first cycle of an exporter, both transports): the whole
    payloads that reached a socket, over all sockets the client made, are `packets_sent` many and `bytes_sent` bytes
    long — and they are exactly the `Ok` payloads, in order (`fwd_ok_exactly_once`). -/
theorem cycle_sent_is_received (stream : Bool) (ops : List (Bytes × Env)) :
    let c := (cycle (init stream) SendCounts.zero ops).2
    let got := (conns (cycle (init stream) SendCounts.zero ops).1).flatMap rxDgram
    got.length = c.packetsSent ∧ totalLen got = c.bytesSent := by
  obtain ⟨h1, h2, _⟩ := cycle_counts_truthful (init stream) ops
  simp only [cycle_state_eq_run, fwd_ok_exactly_once]
  exact ⟨h1.symm, h2.symm⟩

/-- **a cycle whose every send fails still attempts everything and reports everything dropped**: with an
    environment in which no connect ever succeeds, nothing is received, `packets_sent = 0` and every payload (and
    byte) of the drain is counted as dropped. -/
theorem cycle_all_connects_fail (stream : Bool) (ops : List (Bytes × Env)) (h : ∀ op ∈ ops, op.2.connectOk = false) :
    (cycle (init stream) SendCounts.zero ops).2
      = ⟨0, 0, ops.length, ops.length, totalLen (ops.map (·.1)), totalLen (ops.map (·.1))⟩
    ∧ (conns (cycle (init stream) SendCounts.zero ops).1).flatMap rxDgram = [] := by
  have key : ∀ (ops : List (Bytes × Env)) (c : SendCounts), (∀ op ∈ ops, op.2.connectOk = false) →
      cycle (init stream) c ops
        = (init stream, ⟨c.packetsSent, c.bytesSent, c.packetsDropped + ops.length, c.packetsDroppedWriter + ops.length,
            c.bytesDropped + totalLen (ops.map (·.1)), c.bytesDroppedWriter + totalLen (ops.map (·.1))⟩) := by
    intro ops
    induction ops with
    | nil => intro c _; simp [cycle, totalLen]
    | cons op ops ih =>
      intro c hc
      obtain ⟨p, e⟩ := op
      have he : e.connectOk = false := hc (p, e) (List.mem_cons_self ..)
      have ht : trySend (init stream) p e = (init stream, none) := by simp [trySend, init, he]
      simp only [cycle, ht, track, trackFailed]
      rw [ih _ (fun o ho => hc o (List.mem_cons_of_mem _ ho))]
      simp only [totalLen, List.map_cons, List.sum_cons, List.length_cons]
      congr 2 <;> omega
  rw [key ops SendCounts.zero h]
  simp [SendCounts.zero, conns, init]

/-! ## UDP and the address family (`Client::from_forwarder_config`, finding K-C09-udp6)

The UDP arm binds its socket to `Ipv4Addr::UNSPECIFIED` and then connects it to the configured addresses.  An
`AF_INET` socket cannot be connected to an IPv6 address, so for an agent address that is IPv6 only (`udp://[::1]:8125`,
accepted by `RemoteAddr::try_from` and by the builder) EVERY connect fails: nothing is ever delivered and every
payload is counted as dropped.  Negation of "every accepted configuration delivers" by witness, the provable part
(`…_partial`), and the repaired policy (bind in the family of the address). -/

/-- **finding (negative): an IPv6-only agent address never receives anything with the IPv4 bind.**  For every payload
    list, with the socket bound in the IPv4 family and an IPv6 remote: all connects fail, nothing is received,
    everything is counted as dropped. -/
theorem udp_ipv4_bind_never_reaches_ipv6 (ps : List Bytes) :
    let ops := ps.map (fun p => (p, udpEnv (.fixed .v4) [.v6]))
    (cycle (init false) SendCounts.zero ops).2.packetsSent = 0
    ∧ (cycle (init false) SendCounts.zero ops).2.packetsDropped = ps.length
    ∧ (conns (cycle (init false) SendCounts.zero ops).1).flatMap rxDgram = [] := by
  intro ops
  have h : ∀ op ∈ ops, op.2.connectOk = false := by
    intro op hop
    obtain ⟨p, _, rfl⟩ := List.mem_map.mp hop
    rfl
  obtain ⟨h1, h2⟩ := cycle_all_connects_fail false ops h
  refine ⟨by rw [h1], by rw [h1]; simp [ops], h2⟩

/-- **the provable part: whenever the remote list has an address of the bound family (the documented default
    `127.0.0.1:8125`, any IPv4 agent, a dual-stack host name), every payload is delivered and counted as sent.** -/
theorem udp_delivers_partial (b : UdpBind) (remotes : List Family) (hc : udpConnects b remotes = true) (ps : List Bytes) :
    let ops := ps.map (fun p => (p, udpEnv b remotes))
    (conns (cycle (init false) SendCounts.zero ops).1).flatMap rxDgram = ps
    ∧ (cycle (init false) SendCounts.zero ops).2.packetsSent = ps.length
    ∧ (cycle (init false) SendCounts.zero ops).2.packetsDropped = 0 := by
  intro ops
  have hall : ∀ (ps : List Bytes) (s : Fwd), s.stream = false →
      okSent (ps.map (fun p => (p, udpEnv b remotes))) (StatsdFwd.run s (ps.map (fun p => (p, udpEnv b remotes)))).2 = ps := by
    intro ps
    induction ps with
    | nil => intro s _; rfl
    | cons p ps ih =>
      intro s hs
      simp only [List.map_cons, StatsdFwd.run]
      have hsome : ∃ n, (trySend s p (udpEnv b remotes)).2 = some n := by
        unfold trySend udpEnv
        cases s.ready <;> simp [sendOn, clientSend, hc]
      obtain ⟨n, hn⟩ := hsome
      rw [hn]
      simp only [okSent]
      rw [ih _ (by rw [trySend_stream]; exact hs)]
  obtain ⟨h1, _, h3, _⟩ := cycle_counts_truthful (init false) ops
  have hs := hall ps (init false) rfl
  refine ⟨?_, ?_, ?_⟩
  · rw [cycle_state_eq_run, fwd_ok_exactly_once]; exact hs
  · rw [h1]; show (okSent ops _).length = _; rw [hs]
  · have : (cycle (init false) SendCounts.zero ops).2.packetsSent = ps.length := by
      rw [h1]; show (okSent ops _).length = _; rw [hs]
    have hl : ops.length = ps.length := by simp [ops]
    omega

/-- **the repaired policy reaches every non-empty remote list**, IPv6-only ones included -/
theorem udp_bind_of_remote_connects (remotes : List Family) (h : remotes ≠ []) : udpConnects .ofRemote remotes = true := by
  cases remotes with
  | nil => exact absurd rfl h
  | cons a t => rfl

set_option maxRecDepth 100000 in
/-- **src_udp_bind.**  The UDP arm of `Client::from_forwarder_config` of the current source binds as the model says
    (one of the two known policies), connects to the whole address list and sets the write timeout; and the payload
    loop of `run` is the modelled one: the `Err` arm only logs, counts a failed send and goes on (no `break` /
    `return` / `continue`), the `else` arm counts a successful send, the counters are cleared once per cycle before
    `flush`; a drain is only skipped whole when its payload count does not fit a `u32`; the writer, the flush state
    and the counters are created ONCE, before `loop {` (nothing in the loop re-creates them). -/
theorem src_udp_bind :
    (udpBindOfSource Generated.dsd_udp_bind).isSome = true
    ∧ Generated.dsd_run_err_arm
        = "{ error!(error = %e, \"Failed to send payload.\"); telemetry_update.track_packet_send_failed(payload.len()); payloads_dropped += 1; }"
    ∧ Generated.dsd_run_ok_arm
        = "{ telemetry_update.track_packet_send_succeeded(payload.len()); payloads_sent += 1; }"
    ∧ Generated.dsd_run_loop_exits = []
    ∧ Generated.dsd_run_clear_then_flush
        = "telemetry_update.clear(); self.state.flush(&mut flush_state, &mut writer, &mut telemetry_update);"
    ∧ Generated.dsd_run_too_many_guard = "u32::try_from(payloads.len()).is_err()"
    ∧ Generated.dsd_run_lets_before_loop = ["flush_state", "writer", "telemetry_update", "next_flush"]
    ∧ Generated.dsd_run_lets_in_loop
        = ["payloads", "splay_duration", "payloads_sent", "payloads_dropped", "next_flush_delta", "remaining_payloads",
           "inter_payload_sleep"] := by
  decide

/-! non-vacuity: three payloads, the middle one fails (datagram too large for the socket), the third is still sent
    on a fresh socket; counts 2 sent / 1 dropped with the right byte totals -/
example :
    let ops : List (Bytes × Env) := [([1, 2], ⟨true, .full⟩), ([3, 4, 5, 6, 7], ⟨true, .fail 0⟩), ([8], ⟨true, .full⟩)]
    (cycle (init false) SendCounts.zero ops).2 = ⟨2, 3, 1, 1, 5, 5⟩
    ∧ (conns (cycle (init false) SendCounts.zero ops).1).flatMap rxDgram = [[1, 2], [8]]
    ∧ (StatsdFwd.run (init false) ops).2 = [some 2, none, some 1] := by decide
example : udpConnects (.fixed .v4) [.v6] = false ∧ udpConnects (.fixed .v4) [.v6, .v4] = true
    ∧ udpConnects .ofRemote [.v6] = true := by decide

end Forwarder

end MetricsVerif.C09
