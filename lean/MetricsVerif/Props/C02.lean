/-
C02 — the global recorder is installed at most once and is seen whole by everyone.

Step machine: `Model/OnceCell.lean` (one step = one shared-memory operation of `set` / `try_load`; PC names
= yield-point ids in cell.rs).  All theorems are for every program list (any number of installer and loader
threads, any number of calls each) and EVERY schedule (`List Nat`), by an inductive invariant
(`Proofs/OnceCell.lean: Inv`, `step_inv`).
-/
import MetricsVerif.Proofs.OnceCell
import MetricsVerif.Model.GlobalRec
import MetricsVerif.Generated.SourceFacts

namespace MetricsVerif.C02
open MetricsVerif.OnceCell

/-- every state reachable from a fresh cell satisfies the invariant -/
theorem reachable_inv (o : Ord) (progs : List (List Call)) (sched : List Nat) :
    Inv o (run o (init progs) sched) := run_inv o sched _ (init_inv o progs)

/-- **at most one installation succeeds**, over all threads, in every interleaving -/
theorem at_most_one_ok (o : Ord) (progs : List (List Call)) (sched : List Nat) :
    okCount (run o (init progs) sched) ≤ 1 := by
  have h := reachable_inv o progs sched
  have := h.st_le
  rcases Nat.lt_or_ge (run o (init progs) sched).state 1 with h0 | h1
  · have := h.c0 (by omega); omega
  · rcases Nat.lt_or_ge (run o (init progs) sched).state 2 with h1' | h2
    · have := h.c1 (by omega); omega
    · have := h.c2 (by omega); omega

/-- **seen whole**: with the source's orderings (release store, acquire load) no thread ever reads the
    cell without having synchronised with its writer, and never reads it empty -/
theorem load_sees_whole (o : Ord) (hord : OrdOK o) (progs : List (List Call)) (sched : List Nat) :
    (run o (init progs) sched).raced = false
    ∧ ∀ t ∈ (run o (init progs) sched).threads, Res.torn ∉ t.results := by
  have h := reachable_inv o progs sched
  exact ⟨h.no_race hord, fun t ht => (h.thr t ht).no_torn⟩

/-- **one recorder for everyone**: whatever any two loads on any threads returned, it is the same recorder,
    namely the one in the cell, and the cell is initialised -/
theorem same_recorder (o : Ord) (progs : List (List Call)) (sched : List Nat)
    (t₁ t₂ : Thread) (h₁ : t₁ ∈ (run o (init progs) sched).threads) (h₂ : t₂ ∈ (run o (init progs) sched).threads)
    (r₁ r₂ : Nat) (e₁ : Res.some r₁ ∈ t₁.results) (e₂ : Res.some r₂ ∈ t₂.results) :
    r₁ = r₂ ∧ (run o (init progs) sched).cell = some r₁ ∧ (run o (init progs) sched).state = 2 := by
  have h := reachable_inv o progs sched
  have a := (h.thr t₁ h₁).some_res r₁ e₁
  have b := (h.thr t₂ h₂).some_res r₂ e₂
  refine ⟨?_, a.2, a.1⟩
  have := a.2.symm.trans b.2
  injection this

/-- the weakened orderings really are needed: with a relaxed load the model exhibits a racy read
    (so the ordering obligation extracted from the source is not vacuous) -/
theorem relaxed_load_races :
    (run { storeRelease := true, loadAcquire := false } (init [[.set 7], [.load]]) [0, 1, 0, 0, 0, 1, 1]).raced = true := by
  decide

/-! ### stability: once initialised, always initialised, with the same recorder -/

theorem step_state_mono (o : Ord) (s : Sys) (tid : Nat) (h : Inv o s) (h2 : s.state = 2) :
    (step o s tid).state = 2 ∧ (step o s tid).cell = s.cell := by
  unfold step
  cases hg : s.threads[tid]? with
  | none => exact ⟨h2, rfl⟩
  | some t =>
    simp only
    have e := stepThread_eff o s t
    have hT := h.thr t (List.mem_of_getElem? hg)
    have hc2 := h.c2 h2
    have hle := critN_le_critCount s tid t hg
    generalize (stepThread o s t).1 = s' at e
    generalize (stepThread o s t).2 = t' at e
    cases e with
    | noop => exact ⟨h2, rfl⟩
    | start => exact ⟨h2, rfl⟩
    | casWin hp h0 => omega
    | casLose => exact ⟨h2, rfl⟩
    | write x hp => have : critN t = 1 := by simp [critN, hp]
                    omega
    | store hp => exact ⟨rfl, rfl⟩
    | loadNone => exact ⟨h2, rfl⟩
    | loadInit => exact ⟨h2, rfl⟩
    | read hp => split <;> exact ⟨h2, rfl⟩

/-- **stable once seen**: from any reachable initialised state, after any further schedule the cell is
    still initialised and still holds the same recorder -/
theorem stable_once_initialised (o : Ord) (sched : List Nat) :
    ∀ s, Inv o s → s.state = 2 → (run o s sched).state = 2 ∧ (run o s sched).cell = s.cell := by
  induction sched with
  | nil => intro s _ h2; exact ⟨h2, rfl⟩
  | cons t ts ih =>
    intro s h h2
    have a := step_state_mono o s t h h2
    have b := ih (step o s t) (step_inv o s t h) a.1
    exact ⟨b.1, b.2.trans a.2⟩

/-! ### after the first dispatch: every call that completes later, on any thread, sees that recorder -/

/-- what a call can still answer once the cell holds `r`: an installation is rejected (with some recorder
    handed back), a lookup finds `r`. In particular never `ok`, never `none`, never another recorder. -/
def LateRes (r : Nat) (x : Res) : Prop := (∃ e, x = Res.err e) ∨ x = Res.some r

theorem okN_le_okCount (s : Sys) (tid : Nat) (t : Thread) (hg : s.threads[tid]? = some t) :
    okN t ≤ okCount s := by
  have h2 : ∀ (l : List Thread) (i : Nat) (x : Thread), l[i]? = some x → okN x ≤ (l.map okN).sum := by
    intro l; induction l with
    | nil => intro i x h; simp at h
    | cons y ys ih =>
      intro i x h
      cases i with
      | zero => simp at h; subst h; simp
      | succ n => simp at h; have := ih n x h; simp only [List.map_cons, List.sum_cons]; omega
  exact h2 _ _ _ hg

/-- one thread step in an initialised state appends only late results to the stepped thread -/
theorem eff_results_after_init {o : Ord} {s s' : Sys} {t t' : Thread} (e : Eff o s t s' t')
    (h2 : s.state = 2) (r : Nat) (hc : s.cell = some r) (hcrit : critN t = 0) :
    ∃ extra, t'.results = t.results ++ extra ∧ ∀ x ∈ extra, LateRes r x := by
  cases e with
  | noop => exact ⟨[], by simp, by simp⟩
  | start t' hp hres hsyn h1 h2' h3 => exact ⟨[], by simp [hres], by simp⟩
  | casWin hp h0 => omega
  | casLose x hp h0 =>
    exact ⟨[Res.err x], advance_results _ _, by intro y hy; simp at hy; exact Or.inl ⟨x, hy⟩⟩
  | write x hp => simp [critN, hp] at hcrit
  | store hp => simp [critN, hp] at hcrit
  | loadNone hp hn => exact absurd h2 hn
  | loadInit hp _ => exact ⟨[], by simp, by simp⟩
  | read hp =>
    rw [hc]
    exact ⟨[Res.some r], advance_results _ _, by intro y hy; simp at hy; exact Or.inr hy⟩

theorem step_after_init (o : Ord) (s : Sys) (tid : Nat) (h : Inv o s) (h2 : s.state = 2) (r : Nat)
    (hc : s.cell = some r) (i : Nat) (t : Thread) (hi : s.threads[i]? = some t) :
    ∃ t' extra, (step o s tid).threads[i]? = some t' ∧ t'.results = t.results ++ extra
      ∧ ∀ x ∈ extra, LateRes r x := by
  unfold step
  cases hg : s.threads[tid]? with
  | none => exact ⟨t, [], hi, by simp, by simp⟩
  | some tt =>
    simp only
    have hth := stepThread_threads o s tt
    have e := stepThread_eff o s tt
    have hc2 := h.c2 h2
    have hle := critN_le_critCount s tid tt hg
    generalize (stepThread o s tt).1 = s' at hth e
    generalize (stepThread o s tt).2 = t' at e
    rw [hth, getElem?_setAt]
    by_cases hti : tid = i
    · subst hti
      have htt : tt = t := by rw [hg] at hi; injection hi
      subst htt
      have hlt : tid < s.threads.length := by
        rcases Nat.lt_or_ge tid s.threads.length with h' | h'
        · exact h'
        · rw [List.getElem?_eq_none h'] at hg; cases hg
      rw [if_pos ⟨rfl, hlt⟩]
      obtain ⟨extra, he, hl⟩ := eff_results_after_init e h2 r hc (by omega)
      exact ⟨t', extra, rfl, he, hl⟩
    · rw [if_neg (fun hh => hti hh.1)]
      exact ⟨t, [], hi, by simp, by simp⟩

theorem run_cons (o : Ord) (s : Sys) (tid : Nat) (ts : List Nat) :
    run o s (tid :: ts) = run o (step o s tid) ts := rfl

theorem run_append (o : Ord) (s : Sys) (a b : List Nat) : run o s (a ++ b) = run o (run o s a) b := by
  simp [run, List.foldl_append]

theorem run_after_init (o : Ord) (sched : List Nat) :
    ∀ (s : Sys), Inv o s → s.state = 2 → ∀ r, s.cell = some r → ∀ (i : Nat) (t : Thread), s.threads[i]? = some t →
    ∃ (t' : Thread) (extra : List Res), (run o s sched).threads[i]? = some t' ∧ t'.results = t.results ++ extra
      ∧ ∀ x ∈ extra, LateRes r x := by
  induction sched with
  | nil => intro s _ _ r _ i t hi; exact ⟨t, [], hi, by simp, by simp⟩
  | cons tid ts ih =>
    intro s h h2 r hc i t hi
    obtain ⟨t1, e1, h1, hr1, hl1⟩ := step_after_init o s tid h h2 r hc i t hi
    have hm := step_state_mono o s tid h h2
    obtain ⟨t2, e2, h2', hr2, hl2⟩ :=
      ih (step o s tid) (step_inv o s tid h) hm.1 r (hm.2.trans hc) i t1 h1
    refine ⟨t2, e1 ++ e2, by rw [run_cons]; exact h2', by rw [hr2, hr1, List.append_assoc], ?_⟩
    intro x hx
    rcases List.mem_append.mp hx with hx | hx
    · exact hl1 x hx
    · exact hl2 x hx

/-- **after the first dispatch** (the third clause of the property, at full strength): take ANY programs and
    ANY schedule `sched₁` after which some thread's lookup has answered `Some r` (its emission was dispatched
    to recorder `r`). Then, whatever happens next (`sched₂`), every call that completes afterwards on ANY
    thread — including lookups that were already under way — answers either `Err` (an installation, rejected)
    or `Some r`: no later lookup falls back to the no-op recorder, none sees another recorder or a torn one,
    and no later installation succeeds. -/
theorem after_first_dispatch (o : Ord) (progs : List (List Call)) (sched₁ sched₂ : List Nat)
    (u : Thread) (r : Nat) (hu : u ∈ (run o (init progs) sched₁).threads) (hr : Res.some r ∈ u.results)
    (i : Nat) (t : Thread) (hi : (run o (init progs) sched₁).threads[i]? = some t) :
    ∃ t' extra, (run o (init progs) (sched₁ ++ sched₂)).threads[i]? = some t'
      ∧ t'.results = t.results ++ extra ∧ ∀ x ∈ extra, LateRes r x := by
  have h := reachable_inv o progs sched₁
  have a := (h.thr u hu).some_res r hr
  rw [run_append]
  exact run_after_init o sched₂ _ h a.1 r a.2 i t hi

/-- a thread whose installation answered `Ok` proves the cell initialised -/
theorem ok_means_initialised (o : Ord) (progs : List (List Call)) (sched : List Nat)
    (u : Thread) (hu : u ∈ (run o (init progs) sched).threads) (hok : Res.ok ∈ u.results) :
    (run o (init progs) sched).state = 2 := by
  have h := reachable_inv o progs sched
  obtain ⟨k, hk⟩ := List.getElem?_of_mem hu
  have hle := okN_le_okCount _ k u hk
  have hpos : 0 < okN u := by
    unfold okN
    exact List.countP_pos_iff.mpr ⟨Res.ok, hok, by simp⟩
  have := h.st_le
  rcases Nat.lt_or_ge (run o (init progs) sched).state 1 with h0 | h1
  · have := h.c0 (by omega); omega
  · rcases Nat.lt_or_ge (run o (init progs) sched).state 2 with h1' | h2
    · have := h.c1 (by omega); omega
    · omega

/-- **after `set_global_recorder` has returned `Ok`** to anyone, every call that completes later on any
    thread is rejected (installations) or finds the installed recorder (lookups) -/
theorem after_install_returned (o : Ord) (progs : List (List Call)) (sched₁ sched₂ : List Nat)
    (u : Thread) (hu : u ∈ (run o (init progs) sched₁).threads) (hok : Res.ok ∈ u.results) :
    ∃ r, (run o (init progs) sched₁).cell = some r ∧
      ∀ (i : Nat) (t : Thread), (run o (init progs) sched₁).threads[i]? = some t →
        ∃ (t' : Thread) (extra : List Res), (run o (init progs) (sched₁ ++ sched₂)).threads[i]? = some t'
          ∧ t'.results = t.results ++ extra ∧ ∀ x ∈ extra, LateRes r x := by
  have h := reachable_inv o progs sched₁
  have h2 := ok_means_initialised o progs sched₁ u hu hok
  obtain ⟨r, hc⟩ := h.cell2 h2
  refine ⟨r, hc, ?_⟩
  intro i t hi
  rw [run_append]
  exact run_after_init o sched₂ _ h h2 r hc i t hi

/-- **before that, nothing is dispatched**: as long as the publishing store has not happened, no lookup of
    any thread has answered `Some` (every completed emission went to the no-op recorder) and no installation
    has answered `Ok` -/
theorem no_dispatch_before_publish (o : Ord) (progs : List (List Call)) (sched : List Nat)
    (hs : (run o (init progs) sched).state ≠ 2) (u : Thread) (hu : u ∈ (run o (init progs) sched).threads) :
    (∀ r, Res.some r ∉ u.results) ∧ Res.ok ∉ u.results := by
  have h := reachable_inv o progs sched
  exact ⟨fun r hr => hs ((h.thr u hu).some_res r hr).1, fun hok => hs (ok_means_initialised o progs sched u hu hok)⟩

/-! ### the INITIALIZING window: a stalled installer wedges the cell (and nothing else can) -/

/-- what a call can answer while the cell is being initialised: installations are rejected, lookups miss -/
def WedgedRes (x : Res) : Prop := (∃ e, x = Res.err e) ∨ x = Res.none

theorem two_le_sum (f : Thread → Nat) (l : List Thread) :
    ∀ (w i : Nat) (a b : Thread), l[w]? = some a → l[i]? = some b → i ≠ w → f a + f b ≤ (l.map f).sum := by
  induction l with
  | nil => intro w i a b hw; simp at hw
  | cons y ys ih =>
    intro w i a b hw hi hne
    have one : ∀ (l : List Thread) (k : Nat) (x : Thread), l[k]? = some x → f x ≤ (l.map f).sum := by
      intro l; induction l with
      | nil => intro k x h; simp at h
      | cons z zs ih2 =>
        intro k x h
        cases k with
        | zero => simp at h; subst h; simp
        | succ n => simp at h; have := ih2 n x h; simp only [List.map_cons, List.sum_cons]; omega
    cases w with
    | zero =>
      cases i with
      | zero => exact absurd rfl hne
      | succ n =>
        simp at hw hi; subst hw
        have := one ys n b hi
        simp only [List.map_cons, List.sum_cons]; omega
    | succ m =>
      cases i with
      | zero =>
        simp at hw hi; subst hi
        have := one ys m a hw
        simp only [List.map_cons, List.sum_cons]; omega
      | succ n =>
        simp at hw hi
        have := ih m n a b hw hi (by omega)
        simp only [List.map_cons, List.sum_cons]; omega

/-- one step of a thread other than the installer `w` while the cell is INITIALIZING -/
theorem step_while_initializing (o : Ord) (s : Sys) (tid w : Nat) (tw : Thread) (h : Inv o s)
    (h1 : s.state = 1) (hw : s.threads[w]? = some tw) (hcw : critN tw = 1) (hne : tid ≠ w) :
    (step o s tid).state = 1 ∧ (step o s tid).threads[w]? = some tw ∧
    ∀ (i : Nat) (t : Thread), s.threads[i]? = some t →
      ∃ (t' : Thread) (extra : List Res), (step o s tid).threads[i]? = some t'
        ∧ t'.results = t.results ++ extra ∧ ∀ x ∈ extra, WedgedRes x := by
  unfold step
  cases hg : s.threads[tid]? with
  | none => exact ⟨h1, hw, fun i t hi => ⟨t, [], hi, by simp, by simp⟩⟩
  | some tt =>
    simp only
    have hth := stepThread_threads o s tt
    have e := stepThread_eff o s tt
    have hc1 := h.c1 h1
    have hT := h.thr tt (List.mem_of_getElem? hg)
    have hsum := two_le_sum critN s.threads w tid tw tt hw hg hne
    have hcrit : critN tt = 0 := by unfold critCount at hc1; omega
    generalize (stepThread o s tt).1 = s' at hth e
    generalize (stepThread o s tt).2 = t' at e
    have key : s'.state = 1 ∧ ∃ extra, t'.results = tt.results ++ extra ∧ ∀ x ∈ extra, WedgedRes x := by
      cases e with
      | noop => exact ⟨h1, [], by simp, by simp⟩
      | start t' hp hres hsyn a b c => exact ⟨h1, [], by simp [hres], by simp⟩
      | casWin hp h0 => omega
      | casLose x hp h0 =>
        exact ⟨h1, [Res.err x], advance_results _ _, by intro y hy; simp at hy; exact Or.inl ⟨x, hy⟩⟩
      | write x hp => simp [critN, hp] at hcrit
      | store hp => simp [critN, hp] at hcrit
      | loadNone hp hn =>
        exact ⟨h1, [Res.none], advance_results _ _, by intro y hy; simp at hy; exact Or.inr hy⟩
      | loadInit hp h2 => omega
      | read hp => have := hT.at_read hp; omega
    refine ⟨key.1, ?_, ?_⟩
    · rw [hth, getElem?_setAt, if_neg (fun hh => hne hh.1)]; exact hw
    · intro i t hi
      rw [hth, getElem?_setAt]
      by_cases hti : tid = i
      · subst hti
        have htt : tt = t := by rw [hg] at hi; injection hi
        subst htt
        have hlt : tid < s.threads.length := by
          rcases Nat.lt_or_ge tid s.threads.length with h' | h'
          · exact h'
          · rw [List.getElem?_eq_none h'] at hg; cases hg
        rw [if_pos ⟨rfl, hlt⟩]
        obtain ⟨extra, he, hl⟩ := key.2
        exact ⟨t', extra, rfl, he, hl⟩
      · rw [if_neg (fun hh => hti hh.1)]
        exact ⟨t, [], hi, by simp, by simp⟩

/-- **a stalled installer wedges the cell**: from any reachable state in which thread `w` is between its
    winning CAS and its publishing store, every schedule that does not run `w` leaves the cell INITIALIZING, and
    every call completing meanwhile on any thread is a rejected installation (own recorder handed back) or a
    lookup that misses (emission to the no-op recorder). Together with `src_set_window` (nothing in that window
    can fail) and `at_most_one_ok` this is the whole story of the window: it is left only by `w`'s store. -/
theorem wedged_while_installer_stalls (o : Ord) (sched : List Nat) (w : Nat) (tw : Thread) (hns : w ∉ sched) :
    ∀ (s : Sys), Inv o s → s.state = 1 → s.threads[w]? = some tw → critN tw = 1 →
    (run o s sched).state = 1 ∧
    ∀ (i : Nat) (t : Thread), s.threads[i]? = some t →
      ∃ (t' : Thread) (extra : List Res), (run o s sched).threads[i]? = some t'
        ∧ t'.results = t.results ++ extra ∧ ∀ x ∈ extra, WedgedRes x := by
  induction sched with
  | nil => intro s _ h1 _ _; exact ⟨h1, fun i t hi => ⟨t, [], hi, by simp, by simp⟩⟩
  | cons tid ts ih =>
    intro s h h1 hw hcw
    have hne : tid ≠ w := fun e => hns (by simp [e])
    have hns' : w ∉ ts := fun e => hns (by simp [e])
    obtain ⟨a1, a2, a3⟩ := step_while_initializing o s tid w tw h h1 hw hcw hne
    obtain ⟨b1, b2⟩ := ih hns' (step o s tid) (step_inv o s tid h) a1 a2 hcw
    refine ⟨by rw [run_cons]; exact b1, ?_⟩
    intro i t hi
    obtain ⟨t1, e1, h1', hr1, hl1⟩ := a3 i t hi
    obtain ⟨t2, e2, h2', hr2, hl2⟩ := b2 i t1 h1'
    refine ⟨t2, e1 ++ e2, by rw [run_cons]; exact h2', by rw [hr2, hr1, List.append_assoc], ?_⟩
    intro x hx
    rcases List.mem_append.mp hx with hx | hx
    · exact hl1 x hx
    · exact hl2 x hx

/-! ### the lookup layer of mod.rs (`Model/GlobalRec.lean`) -/

open MetricsVerif.GlobalRec in
/-- `with_recorder`: a local recorder wins over whatever the global cell answers -/
theorem dispatch_local_first (l : Nat) (g : Res) : dispatch (some l) g = .localRec l := rfl

open MetricsVerif.GlobalRec in
/-- `with_recorder` without a local recorder: the global recorder iff the cell answered `Some`, else no-op -/
theorem dispatch_global_iff (g : Res) (r : Nat) : dispatch none g = .global r ↔ g = Res.some r := by
  cases g <;> simp [dispatch]

open MetricsVerif.GlobalRec in
theorem dispatch_noop_iff (g : Res) : dispatch none g = .noop ↔ ∀ r, g ≠ Res.some r := by
  cases g <;> simp [dispatch]

open MetricsVerif.GlobalRec in
/-- what the API user observes for a late result: a rejected installation or an emission sent to `r` -/
theorem late_observed (r : Nat) (x : Res) (h : LateRes r x) :
    (∃ e, ofRes x = .rejected e) ∨ ofRes x = .sent (.global r) := by
  rcases h with ⟨e, rfl⟩ | rfl
  · exact Or.inl ⟨e, rfl⟩
  · exact Or.inr rfl

open MetricsVerif.GlobalRec in
/-- the third clause on the API level: for ANY API programs (installations, emissions, emissions under local
    recorders, any number of threads) and any schedule after which some emission was dispatched to the global
    recorder `r`, every cell call completing later is observed as a rejected installation or as an emission
    sent to `r` -/
theorem global_after_first_dispatch (o : Ord) (gprogs : List (List GCall)) (sched₁ sched₂ : List Nat)
    (u : Thread) (r : Nat) (hu : u ∈ (grun o gprogs sched₁).threads) (hr : Res.some r ∈ u.results)
    (i : Nat) (t : Thread) (hi : (grun o gprogs sched₁).threads[i]? = some t) :
    ∃ t' extra, (grun o gprogs (sched₁ ++ sched₂)).threads[i]? = some t'
      ∧ t'.results = t.results ++ extra
      ∧ ∀ x ∈ extra, (∃ e, ofRes x = .rejected e) ∨ ofRes x = .sent (.global r) := by
  obtain ⟨t', extra, a, b, c⟩ := after_first_dispatch o (gprogs.map toCell) sched₁ sched₂ u r hu hr i t hi
  exact ⟨t', extra, a, b, fun x hx => late_observed r x (c x hx)⟩

/-- a lookup that starts in an initialised state goes on to read the cell (it does not answer `None`) … -/
theorem load_after_init (o : Ord) (s : Sys) (t : Thread) (rest : List Call)
    (hpc : t.pc = .loadState) (hc : t.calls = .load :: rest) (h2 : s.state = 2) :
    (stepThread o s t).2.pc = .read ∧ (stepThread o s t).2.results = t.results := by
  unfold stepThread; rw [hpc, hc]; simp [h2]

/-- … and the read returns exactly the recorder in the cell -/
theorem read_returns_cell (o : Ord) (s : Sys) (t : Thread) (rest : List Call) (w : Nat)
    (hpc : t.pc = .read) (hc : t.calls = .load :: rest) (hw : s.cell = some w) :
    (stepThread o s t).2.results = t.results ++ [Res.some w] := by
  unfold stepThread; rw [hpc, hc]; simp [hw, advance_results]

/-- before initialisation a lookup answers `None` (the caller falls back to the no-op recorder) -/
theorem load_before_init (o : Ord) (s : Sys) (t : Thread) (rest : List Call)
    (hpc : t.pc = .loadState) (hc : t.calls = .load :: rest) (h2 : s.state ≠ 2) :
    (stepThread o s t).2.results = t.results ++ [Res.none] ∧ (stepThread o s t).1 = s := by
  unfold stepThread; rw [hpc, hc]; simp [h2, advance_results]

/-- **the loser gets its own recorder back**: a `set r` that loses the race answers `Err r` with the very
    recorder it was called with, and changes nothing in the cell -/
theorem loser_gets_own_back (o : Ord) (s : Sys) (t : Thread) (r : Nat) (rest : List Call)
    (hpc : t.pc = .cas) (hc : t.calls = .set r :: rest) (h0 : s.state ≠ 0) :
    (stepThread o s t).2.results = t.results ++ [Res.err r] ∧ (stepThread o s t).1 = s := by
  unfold stepThread; rw [hpc, hc]; simp [h0, advance_results]

/-- the winner's recorder is the one that ends up in the cell: a `set r` that wins writes `r` -/
theorem winner_installs_own (o : Ord) (s : Sys) (t : Thread) (r : Nat) (rest : List Call)
    (hpc : t.pc = .write) (hc : t.calls = .set r :: rest) :
    (stepThread o s t).1.cell = some r := by
  unfold stepThread; rw [hpc, hc]

/-! ### tie to the source: the orderings and call order extracted by the translator -/

def isRelease (s : String) : Bool := s == "Release" || s == "AcqRel" || s == "SeqCst"
def isAcquire (s : String) : Bool := s == "Acquire" || s == "AcqRel" || s == "SeqCst"

/-- the orderings cell.rs uses today (regenerated from the source on every run) -/
def srcOrd : Ord :=
  { storeRelease := isRelease Generated.cell_store_ordering, loadAcquire := isAcquire Generated.cell_load_ordering }

/-- obligation: the publishing store is a release store and the consuming load an acquire load -/
theorem src_orderings_ok : OrdOK srcOrd := by unfold OrdOK; decide

/-- obligation: `set` is CAS → write cell → store state, `try_load` is load state → read cell (the step
    machine's program order), and the CAS is at least acquire on success -/
theorem src_call_shape :
    Generated.cell_set_calls = ["state.compare_exchange", "recorder.write", "state.store"]
    ∧ Generated.cell_load_calls = ["state.load", "recorder.read"]
    ∧ isAcquire Generated.cell_cas_success = true := by decide

/-- `load_sees_whole` for the orderings in the source -/
theorem src_load_sees_whole (progs : List (List Call)) (sched : List Nat) :
    (run srcOrd (init progs) sched).raced = false
    ∧ ∀ t ∈ (run srcOrd (init progs) sched).threads, Res.torn ∉ t.results :=
  load_sees_whole srcOrd src_orderings_ok progs sched

/-! ### round 2: ties that a run on x86 under an SC scheduler cannot give -/

/-- obligation: the pinned accesses are the ONLY atomic-looking accesses of the two functions and the pinned
    orderings the ONLY ordering tokens — an aliased `st.load(Relaxed)` next to a decoy acquire load, or a second
    store, changes one of these lists whatever the receiver is spelled like -/
theorem src_no_decoy_accesses :
    Generated.cell_load_atomic_ops = ["self.state.load"]
    ∧ Generated.cell_set_atomic_ops = ["self.state.compare_exchange", "self.state.store"]
    ∧ Generated.cell_load_all_orderings = [Generated.cell_load_ordering]
    ∧ Generated.cell_set_all_orderings
        = [Generated.cell_cas_success, Generated.cell_cas_failure, Generated.cell_store_ordering] := by decide

/-- obligation: everything `set` and `try_load` call, in order. Between winning the CAS and the publishing
    store there is exactly: take the slot pointer, box + leak the recorder, write it. No call into the recorder
    (or anything else that can panic or block) sits in the INITIALIZING window — the step machine's
    `write`/`store` steps have no failure mode because the code has none. -/
theorem src_set_window :
    Generated.cell_set_fn_calls
      = ["self.state.compare_exchange", "Ok", "self.recorder.get", ".write", "Some", "Box::leak", "Box::new",
         "self.state.store", "Ok", "Err", "SetRecorderError"]
    ∧ Generated.cell_load_fn_calls = ["self.state.load", "self.recorder.get", ".read"] := by decide

/-- obligation: the lookup layer of mod.rs is stateless and is what `Model/GlobalRec.lean` says:
    `set_global_recorder` only forwards to the cell; the global cell is mentioned three times (its definition,
    that forward, the lookup in `with_recorder`); the module's statics are the no-op recorder, the cell and ONE
    thread-local (the local-recorder slot) — so no memo, no second slot, no pre-check; `with_recorder` tests the
    local slot, then the cell, and applies `f` to local / global / no-op in that order and calls nothing else -/
theorem src_global_layer :
    Generated.global_set_body = "GLOBAL_RECORDER.set(recorder)"
    ∧ Generated.global_cell_uses = ["set", "try_load"]
    ∧ Generated.global_cell_mentions = 3
    ∧ Generated.global_statics = ["NOOP_RECORDER", "GLOBAL_RECORDER", "LOCAL_RECORDER"]
    ∧ Generated.global_thread_locals = 1
    ∧ Generated.with_recorder_conditions = ["local_recorder.get()", "GLOBAL_RECORDER.try_load()"]
    ∧ Generated.with_recorder_fn_calls
        = ["LOCAL_RECORDER.with", "Some", "local_recorder.get", "f", "recorder.as_ref", "Some",
           "GLOBAL_RECORDER.try_load", "f", "f"] := by decide

/-- the branch of `with_recorder` named by the argument `f` is applied to, read as a partial dispatch -/
def targetOfSrc (loc : Option Nat) (g : Res) (arg : String) : Option GlobalRec.Target :=
  if arg == "recorder.as_ref()" then loc.map GlobalRec.Target.localRec
  else if arg == "global_recorder" then (match g with | .some r => some (.global r) | _ => none)
  else if arg == "&NOOP_RECORDER" then some .noop
  else none

/-- first branch (in source order) that applies -/
def srcDispatch (loc : Option Nat) (g : Res) : Option GlobalRec.Target :=
  Generated.with_recorder_targets.findSome? (targetOfSrc loc g)

/-- obligation: the model's `dispatch` IS the extracted branch order of `with_recorder` -/
theorem src_dispatch_is_model (loc : Option Nat) (g : Res) :
    srcDispatch loc g = some (GlobalRec.dispatch loc g) := by
  have h : Generated.with_recorder_targets = ["recorder.as_ref()", "global_recorder", "&NOOP_RECORDER"] := by decide
  unfold srcDispatch
  rw [h]
  cases loc <;> cases g <;> simp [targetOfSrc, GlobalRec.dispatch, List.findSome?]

/-- obligation: only `Sync + 'static` recorders can be installed globally (the cell itself is
    `unsafe impl Sync` unconditionally and its `set` does not ask for `Sync`: the bound on the public
    function is the only thing between a `Cell`-based recorder and every thread) -/
theorem src_sync_bound :
    "Sync" ∈ Generated.global_set_bounds ∧ "'static" ∈ Generated.global_set_bounds
    ∧ "Recorder" ∈ Generated.global_set_bounds ∧ "'static" ∈ Generated.cell_set_bounds := by decide

/-- obligation (round 7): the names the two pinned bodies use mean what the model assumes. The file imports exactly
    `super::{Recorder, SetRecorderError}` and `std::{cell::UnsafeCell, sync::atomic::{AtomicUsize, Ordering}}` (no
    glob, no alias, no crate-local shim) and declares exactly the three constants, the struct, ONE impl block with
    `new`/`set`/`try_load` and the two UNSAFE impls — so no local `mod Ordering`, no wrapper type named
    `AtomicUsize`, no second impl can stand between the tokens `Ordering::Acquire`/`Release` (`src_orderings_ok`) and
    the std atomics; neither body declares an item of its own. The state constants are the model's 0/1/2 (`new()`
    starts at `UNINITIALIZED`, the model's initial state), the field holding the state IS an `AtomicUsize`, the
    recorder slot an `UnsafeCell<Option<&'static dyn Recorder>>`; `try_load` compares the loaded state with
    `INITIALIZED` and `set` takes the winning arm only on `Ok(UNINITIALIZED)`. -/
theorem src_cell_file :
    Generated.cell_uses = ["usesuper::{Recorder,SetRecorderError};",
                           "usestd::{cell::UnsafeCell,sync::atomic::{AtomicUsize,Ordering},};"]
    ∧ Generated.cell_items = ["const UNINITIALIZED: usize", "const INITIALIZING: usize", "const INITIALIZED: usize",
        "pub struct RecorderOnceCell", "impl RecorderOnceCell", "UNSAFE impl Send for RecorderOnceCell",
        "UNSAFE impl Sync for RecorderOnceCell"]
    ∧ Generated.cell_state_consts
        = [("UNINITIALIZED", "usize", (init []).state), ("INITIALIZING", "usize", 1), ("INITIALIZED", "usize", 2)]
    ∧ Generated.cell_fields = "{recorder:UnsafeCell<Option<&'staticdynRecorder>>,state:AtomicUsize,}"
    ∧ Generated.cell_new_body = "{Self{recorder:UnsafeCell::new(None),state:AtomicUsize::new(UNINITIALIZED)}}"
    ∧ Generated.cell_impl_fns = ["new", "set", "try_load"]
    ∧ Generated.cell_load_condition = "self.state.load(Ordering::" ++ Generated.cell_load_ordering ++ ")!=INITIALIZED"
    ∧ Generated.cell_set_arms = ["Ok(UNINITIALIZED)", "_"]
    ∧ Generated.cell_unsafe_blocks = 2
    ∧ Generated.cell_body_local_items = [] := by decide

/-! ### non-vacuity: a concrete race of two installers and two loaders -/

example :
    let s := run { storeRelease := true, loadAcquire := true }
      (init [[.set 1], [.set 2], [.load, .load], [.load]]) [0, 1, 2, 3, 1, 0, 2, 1, 1, 2, 2, 3, 3]
    s.state = 2 ∧ s.cell = some 2 ∧ s.raced = false ∧
    s.threads.map (·.results) = [[.err 1], [.ok], [.none, .some 2], [.some 2]] := by decide

/-- a stalled installer: thread 0 wins the CAS and is never run again; everybody else is rejected / misses -/
example :
    let s := run { storeRelease := true, loadAcquire := true }
      (init [[.set 1], [.set 2, .load], [.load, .set 3]]) [0, 0, 1, 2, 1, 2, 1, 2, 1, 2]
    s.state = 1 ∧ s.threads.map (·.results) = [[], [.err 2, .none], [.none, .err 3]] := by decide

/-- the long-lived emitter: looks before the installation (no-op), under a local recorder, and after -/
example :
    let progs : List (List GlobalRec.GCall) := [[.emit, .emitLocal 21, .emit], [.install 1], [.install 2, .emit]]
    let s := GlobalRec.grun { storeRelease := true, loadAcquire := true } progs [0, 0, 1, 2, 1, 2, 1, 1, 0, 0, 2, 2, 2]
    GlobalRec.gobserve progs s =
      [[.sent .noop, .sent (.localRec 21), .sent (.global 1)], [.installed], [.rejected 2, .sent (.global 1)]] := by
  decide

/-! ### round 3: faults inside recorder calls, emissions from inside a dispatched call -/

/-- a nested lookup is left at the head of a thread's program only by a call that answered `Some` -/
theorem settle_head_nested (r : Res) (cs : List Call) (h : (settle r cs).head? = some Call.nested) :
    r.isSome = true := by
  induction cs with
  | nil => simp [settle] at h
  | cons c rest ih =>
    cases c with
    | set x => simp [settle] at h
    | load => simp [settle] at h
    | nested =>
      simp only [settle] at h
      by_cases hs : r.isSome = true
      · exact hs
      · rw [if_neg hs] at h; exact ih h

/-- what one thread step does to the thread's program: nothing, or the current call completes with an answer
    `r` (then `settle r` decides which nested lookups exist) — and an answer `Some` comes from the read step only -/
theorem stepThread_calls (o : Ord) (s : Sys) (t : Thread) :
    (stepThread o s t).2.calls = t.calls
    ∨ ∃ r, (stepThread o s t).2 = t.advance r ∧ (r.isSome = true → t.pc = .read) := by
  unfold stepThread
  split
  · exact Or.inl rfl
  · exact Or.inl rfl
  · split
    · exact Or.inl rfl
    · exact Or.inr ⟨_, rfl, by simp [Res.isSome]⟩
  · exact Or.inl rfl
  · exact Or.inr ⟨_, rfl, by simp [Res.isSome]⟩
  · split
    · exact Or.inl rfl
    · exact Or.inr ⟨_, rfl, by simp [Res.isSome]⟩
  · split
    · exact Or.inl rfl
    · exact Or.inr ⟨_, rfl, by simp [Res.isSome]⟩
  · rename_i hp _; exact Or.inr ⟨_, rfl, fun _ => hp⟩
  · rename_i hp _; exact Or.inr ⟨_, rfl, fun _ => hp⟩
  · exact Or.inl rfl

/-- every thread that is about to make a nested lookup (an emission from inside a dispatched call) does so in
    an initialised cell -/
def NestedOK (s : Sys) : Prop := ∀ t ∈ s.threads, t.calls.head? = some Call.nested → s.state = 2

theorem init_nestedOK (progs : List (List Call)) : NestedOK (init progs) := by
  intro t ht hn
  simp only [init, List.mem_map] at ht
  obtain ⟨p, _, rfl⟩ := ht
  have := settle_head_nested .none p hn
  simp [Res.isSome] at this

theorem step_nestedOK (o : Ord) (s : Sys) (tid : Nat) (h : Inv o s) (hn : NestedOK s) :
    NestedOK (step o s tid) := by
  have hmono := step_state_mono o s tid h
  intro u hu hhead
  have key : s.state = 2 := by
    unfold step at hu
    cases hg : s.threads[tid]? with
    | none => rw [hg] at hu; exact hn u hu hhead
    | some t =>
      rw [hg] at hu
      simp only at hu
      have hth := stepThread_threads o s t
      have hmem : t ∈ s.threads := List.mem_of_getElem? hg
      rw [hth] at hu
      rcases mem_setAt hu with rfl | hu
      · rcases stepThread_calls o s t with hc | ⟨r, hr, hsome⟩
        · rw [hc] at hhead; exact hn t hmem hhead
        · rw [hr] at hhead
          have := settle_head_nested r t.calls.tail hhead
          exact (h.thr t hmem).at_read (hsome this)
      · exact hn u hu hhead
  exact (hmono key).1

theorem run_nestedOK (o : Ord) (sched : List Nat) :
    ∀ s, Inv o s → NestedOK s → NestedOK (run o s sched) := by
  induction sched with
  | nil => intro s _ h; exact h
  | cons t ts ih => intro s h hn; exact ih _ (step_inv o s t h) (step_nestedOK o s t h hn)

/-- **an emission made from inside a dispatched call finds the installed recorder**: for ANY programs and ANY
    schedule, whenever a thread is about to make (or is making) a nested lookup, the cell is initialised and
    holds a recorder — so by `nested_lookup_reads`/`nested_read_returns_cell` that lookup answers `Some` of
    it, and by `same_recorder` it is the recorder the enclosing call was dispatched to. It never falls back
    to the no-op recorder. -/
theorem nested_dispatch_finds_recorder (o : Ord) (progs : List (List Call)) (sched : List Nat)
    (t : Thread) (ht : t ∈ (run o (init progs) sched).threads) (hn : t.calls.head? = some Call.nested) :
    (run o (init progs) sched).state = 2 ∧ ∃ r, (run o (init progs) sched).cell = some r := by
  have h := reachable_inv o progs sched
  have h2 := run_nestedOK o sched _ (init_inv o progs) (init_nestedOK progs) t ht hn
  exact ⟨h2, h.cell2 h2⟩

/-- a nested lookup in an initialised cell goes on to read it (does not answer `None`) … -/
theorem nested_lookup_reads (o : Ord) (s : Sys) (t : Thread) (rest : List Call)
    (hpc : t.pc = .loadState) (hc : t.calls = .nested :: rest) (h2 : s.state = 2) :
    (stepThread o s t).2.pc = .read ∧ (stepThread o s t).2.results = t.results := by
  unfold stepThread; rw [hpc, hc]; simp [h2]

/-- … and answers exactly the recorder in the cell -/
theorem nested_read_returns_cell (o : Ord) (s : Sys) (t : Thread) (rest : List Call) (w : Nat)
    (hpc : t.pc = .read) (hc : t.calls = .nested :: rest) (hw : s.cell = some w) :
    (stepThread o s t).2.results = t.results ++ [Res.some w] := by
  unfold stepThread; rw [hpc, hc]; simp [hw, advance_results]

/-- a lookup that misses cancels the nested lookups behind it (the no-op recorder emits nothing) and leaves
    the rest of the program alone -/
theorem miss_cancels_nested (k : Nat) (cs : List Call) (hcs : cs.head? ≠ some Call.nested) :
    settle .none (List.replicate k Call.nested ++ cs) = cs := by
  induction k with
  | zero =>
    cases cs with
    | nil => rfl
    | cons c rest => cases c <;> simp_all [settle]
  | succ n ih => simp [List.replicate_succ, settle, Res.isSome, ih]

open MetricsVerif.GlobalRec in
/-- the same API call with the recorder's panic taken out -/
def calm : GCall → GCall
  | .emitPanic => .emit
  | .emitLocalPanic l => .emitLocal l
  | c => c

open MetricsVerif.GlobalRec in
theorem toCell_calm (p : List GCall) : toCell (p.map calm) = toCell p := by
  induction p with
  | nil => rfl
  | cons c cs ih => cases c <;> simp [calm, toCell, ih]

open MetricsVerif.GlobalRec in
/-- **a caught panic inside a recorder call is invisible to the lookup layer**: for ANY API programs and ANY
    schedule the process is in exactly the state it would be in had none of the recorder calls panicked — the
    layer keeps nothing across a call (`src_global_layer`: one thread-local, the local slot; every branch of
    `with_recorder` is the bare application `f(..)`), so there is nothing an unwinding call could leave behind,
    on its own thread or any other. -/
theorem caught_panic_is_invisible (o : Ord) (gprogs : List (List GCall)) (sched : List Nat) :
    grun o (gprogs.map (·.map calm)) sched = grun o gprogs sched := by
  unfold grun ginit
  congr 2
  rw [List.map_map]
  apply List.map_congr_left
  intro p _
  exact toCell_calm p

open MetricsVerif.GlobalRec in
/-- an observation that was delivered in full to the global recorder `r` (or to a local recorder in scope) -/
def Delivered (r : Nat) : GRes → Prop
  | .sent (.global x) => x = r
  | .sent (.localRec _) => True
  | .unwound (.global x) => x = r
  | .unwound (.localRec _) => True
  | .sentAll ts => ts ≠ [] ∧ ∀ t ∈ ts, t = Target.global r
  | _ => False

open MetricsVerif.GlobalRec in
theorem takeNested_mem (n : Nat) (rs : List Res) :
    (∀ x ∈ (takeNested n rs).1, x ∈ rs) ∧ (∀ x ∈ (takeNested n rs).2, x ∈ rs) := by
  induction n generalizing rs with
  | zero => simp [takeNested]
  | succ n ih =>
    cases rs with
    | nil => simp [takeNested]
    | cons r rs =>
      simp only [takeNested]
      split
      · have := ih rs
        refine ⟨?_, ?_⟩
        · intro x hx
          simp only [List.mem_cons] at hx ⊢
          rcases hx with hx | hx
          · exact Or.inl hx
          · exact Or.inr (this.1 x hx)
        · intro x hx; exact List.mem_cons_of_mem _ (this.2 x hx)
      · refine ⟨?_, ?_⟩
        · intro x hx; simp only [List.mem_singleton] at hx; simp [hx]
        · intro x hx; exact List.mem_cons_of_mem _ hx

open MetricsVerif.GlobalRec in
/-- **whatever a thread does once its lookups find `r`, it is delivered**: for any emitting program (plain,
    panicking, nested to any depth, from inside a closure, under local recorders — in any order), if every
    lookup the thread completed answered `Some r` then every observation is `Delivered r`: a caught panic or a
    nested emission earlier in the program does not change where the later ones go -/
theorem observe_all_delivered (r : Nat) (p : List GCall) (hp : ∀ c ∈ p, c.installs = false) :
    ∀ (rs : List Res), (∀ x ∈ rs, x = Res.some r) → ∀ g ∈ observe p rs, Delivered r g := by
  induction p with
  | nil => intro rs _ g hg; simp [observe] at hg
  | cons c cs ih =>
    have ihc := ih (fun c hc => hp c (List.mem_cons_of_mem _ hc))
    intro rs hrs g hg
    cases c with
    | install x => have := hp (.install x) (List.mem_cons_self ..); simp [GCall.installs] at this
    | installIn x => have := hp (.installIn x) (List.mem_cons_self ..); simp [GCall.installs] at this
    | installLocal l x => have := hp (.installLocal l x) (List.mem_cons_self ..); simp [GCall.installs] at this
    | emitLocal l =>
      simp only [observe, List.mem_cons] at hg
      rcases hg with rfl | hg
      · simp [dispatch, Delivered]
      · exact ihc rs hrs g hg
    | emitLocalPanic l =>
      simp only [observe, List.mem_cons] at hg
      rcases hg with rfl | hg
      · simp [dispatch, Delivered]
      · exact ihc rs hrs g hg
    | emit =>
      cases rs with
      | nil => simp [observe] at hg
      | cons x xs =>
        have hx := hrs x (by simp)
        simp only [observe, List.mem_cons] at hg
        rcases hg with rfl | hg
        · simp [hx, ofRes, dispatch, Delivered]
        · exact ihc xs (fun y hy => hrs y (List.mem_cons_of_mem _ hy)) g hg
    | emitPanic =>
      cases rs with
      | nil => simp [observe] at hg
      | cons x xs =>
        have hx := hrs x (by simp)
        simp only [observe, List.mem_cons] at hg
        rcases hg with rfl | hg
        · simp [hx, ofResPanic, Delivered]
        · exact ihc xs (fun y hy => hrs y (List.mem_cons_of_mem _ hy)) g hg
    | emitNested k =>
      cases rs with
      | nil => simp [observe] at hg
      | cons x xs =>
        have hx := hrs x (by simp)
        have hm := takeNested_mem (k + 1) (x :: xs)
        simp only [observe, List.mem_cons] at hg
        rcases hg with rfl | hg
        · refine ⟨?_, ?_⟩
          · simp [takeNested, hx, Res.isSome]
          · intro t ht
            simp only [List.mem_map] at ht
            obtain ⟨y, hy, rfl⟩ := ht
            rw [hrs y (hm.1 y hy)]; rfl
        · exact ihc _ (fun y hy => hrs y (hm.2 y hy)) g hg
    | emitIn =>
      cases rs with
      | nil => simp [observe] at hg
      | cons x xs =>
        cases xs with
        | nil => simp [observe] at hg
        | cons y ys =>
          have hx := hrs x (by simp)
          have hy := hrs y (by simp)
          simp only [observe, List.mem_cons] at hg
          rcases hg with rfl | hg
          · simp [hx, hy, dispatch, Delivered]
          · exact ihc ys (fun z hz => hrs z (by simp [hz])) g hg

/-- obligation: in every branch of `with_recorder` the application `f(..)` is the WHOLE innermost block — no
    statement before it inside the branch, none after it returns (so no per-call state is set up or torn down
    around the call into the recorder, and nothing is skipped when the call unwinds) — and the module neither
    catches nor inspects unwinding. With `src_global_layer` (one thread-local: the local slot) this is what
    `caught_panic_is_invisible` and the static projection `toCell` stand on. -/
theorem src_dispatch_is_bare_call :
    Generated.with_recorder_f_blocks = ["{f(recorder.as_ref())}", "{f(global_recorder)}", "{f(&NOOP_RECORDER)}"]
    ∧ Generated.global_unwind_mentions = 0 := by decide

/-! non-vacuity of round 3 -/

/-- the thread that goes on after a fault: emits (no-op), the installation lands, emits, its recorder call panics
    (caught), emits again, then a recorder that emits from inside the call two levels deep, then a closure -/
example :
    let progs : List (List GlobalRec.GCall) := [[.emit, .emit, .emitPanic, .emit, .emitNested 2, .emitIn], [.install 1]]
    let s := GlobalRec.grun { storeRelease := true, loadAcquire := true } progs
      [0, 0, 1, 1, 1, 1, 0, 0, 0, 0, 0, 0, 0, 0, 0, 0, 0, 0, 0, 0, 0, 0, 0, 0, 0]
    GlobalRec.gobserve progs s =
      [[.sent .noop, .sent (.global 1), .unwound (.global 1), .sent (.global 1),
        .sentAll [.global 1, .global 1, .global 1], .sentAll [.global 1, .global 1]], [.installed]] := by
  decide

/-- before the installation the same faults do nothing: no recorder is reached, so nothing panics and nothing
    is emitted from inside; the nested lookups are cancelled (two steps per call, not six) -/
example :
    let progs : List (List GlobalRec.GCall) := [[.emitPanic, .emitNested 2, .emitIn, .emitLocalPanic 7]]
    let s := GlobalRec.grun { storeRelease := true, loadAcquire := true } progs [0, 0, 0, 0, 0]
    GlobalRec.gobserve progs s
      = [[.sent .noop, .sentAll [.noop], .sentAll [.noop, .noop], .unwound (.localRec 7)]]
    ∧ (s.threads.map (·.pc)) = [.done] := by
  decide

/-! ### round 7: program order on ONE thread, installing threads included; installations made from inside a
    dispatched call or a local scope -/

/-- a result that proves the cell initialised to whoever got it: an installation that succeeded, a lookup that
    found a recorder -/
def wins : Res → Bool
  | .ok => true
  | .some _ => true
  | _ => false

/-- a result a call may still give once the cell is initialised (`LateRes` for some recorder) -/
def late : Res → Bool
  | .err _ => true
  | .some _ => true
  | _ => false

/-- one thread's results read in program order: after the first winning entry only late ones -/
def chainFrom : Bool → List Res → Bool
  | _, [] => true
  | won, x :: xs => (!won || late x) && chainFrom (won || wins x) xs

theorem chainFrom_snoc (w : Bool) (l : List Res) (z : Res) :
    chainFrom w (l ++ [z]) = (chainFrom w l && (!(w || l.any wins) || late z)) := by
  induction l generalizing w with
  | nil => simp [chainFrom]
  | cons x xs ih =>
    simp only [List.cons_append, chainFrom, ih, List.any_cons]
    cases w <;> cases wins x <;> cases late x <;> simp

theorem chainFrom_true_all (l : List Res) (h : chainFrom true l = true) : ∀ y ∈ l, late y = true := by
  induction l with
  | nil => intro y hy; cases hy
  | cons x xs ih =>
    simp only [chainFrom, Bool.not_true, Bool.false_or, Bool.true_or, Bool.and_eq_true] at h
    intro y hy
    rcases List.mem_cons.mp hy with rfl | hy
    · exact h.1
    · exact ih h.2 y hy

theorem chainFrom_split (w : Bool) (pre : List Res) (x : Res) (post : List Res)
    (h : chainFrom w (pre ++ x :: post) = true) (hx : wins x = true) : ∀ y ∈ post, late y = true := by
  induction pre generalizing w with
  | nil =>
    simp only [List.nil_append, chainFrom, hx, Bool.or_true, Bool.and_eq_true] at h
    exact chainFrom_true_all post h.2
  | cons p ps ih =>
    simp only [List.cons_append, chainFrom, Bool.and_eq_true] at h
    exact ih _ h.2

theorem late_of_LateRes (r : Nat) (x : Res) (h : LateRes r x) : late x = true := by
  rcases h with ⟨e, rfl⟩ | rfl <;> rfl

theorem any_wins_state2 (o : Ord) (s : Sys) (h : Inv o s) (tid : Nat) (t : Thread) (hg : s.threads[tid]? = some t)
    (hw : t.results.any wins = true) : s.state = 2 := by
  obtain ⟨x, hx, hwx⟩ := List.any_eq_true.mp hw
  cases x with
  | some r => exact ((h.thr t (List.mem_of_getElem? hg)).some_res r hx).1
  | ok =>
    have hle := okN_le_okCount s tid t hg
    have hpos : 0 < okN t := by
      unfold okN
      exact List.countP_pos_iff.mpr ⟨Res.ok, hx, by simp⟩
    have := h.st_le
    rcases Nat.lt_or_ge s.state 1 with h0 | h1
    · have := h.c0 (by omega); omega
    · rcases Nat.lt_or_ge s.state 2 with h1' | h2
      · have := h.c1 (by omega); omega
      · omega
  | err e => simp [wins] at hwx
  | none => simp [wins] at hwx
  | torn => simp [wins] at hwx

theorem eff_results_cases {o : Ord} {s s' : Sys} {t t' : Thread} (e : Eff o s t s' t') :
    t'.results = t.results ∨ ∃ x, t'.results = t.results ++ [x] := by
  cases e with
  | noop => exact Or.inl rfl
  | start t' hp hres hsyn h1 h2' h3 => exact Or.inl hres
  | casWin hp h0 => exact Or.inl rfl
  | casLose x hp h0 => exact Or.inr ⟨_, advance_results _ _⟩
  | write x hp => exact Or.inl rfl
  | store hp => exact Or.inr ⟨_, advance_results _ _⟩
  | loadNone hp hn => exact Or.inr ⟨_, advance_results _ _⟩
  | loadInit hp _ => exact Or.inl rfl
  | read hp => exact Or.inr ⟨_, advance_results _ _⟩

/-- every thread's results are in program order -/
def ProgOrd (s : Sys) : Prop := ∀ t ∈ s.threads, chainFrom false t.results = true

theorem init_progOrd (progs : List (List Call)) : ProgOrd (init progs) := by
  intro t ht
  simp only [init, List.mem_map] at ht
  obtain ⟨p, _, rfl⟩ := ht
  rfl

theorem step_progOrd (o : Ord) (s : Sys) (tid : Nat) (h : Inv o s) (hp : ProgOrd s) : ProgOrd (step o s tid) := by
  unfold step
  cases hg : s.threads[tid]? with
  | none => exact hp
  | some t =>
    simp only
    have hth := stepThread_threads o s t
    have e := stepThread_eff o s t
    generalize (stepThread o s t).1 = s' at hth e
    generalize (stepThread o s t).2 = t' at e
    intro u hu
    simp only at hu
    rw [hth] at hu
    obtain ⟨k, hk⟩ := List.getElem?_of_mem hu
    rw [getElem?_setAt] at hk
    split at hk
    · injection hk with hk
      subst hk
      have ht := hp t (List.mem_of_getElem? hg)
      rcases eff_results_cases e with hr | ⟨x, hr⟩
      · rw [hr]; exact ht
      · rw [hr, chainFrom_snoc, ht]
        simp only [Bool.false_or, Bool.true_and, Bool.or_eq_true, Bool.not_eq_eq_eq_not, Bool.not_true]
        cases hw : t.results.any wins with
        | false => exact Or.inl rfl
        | true =>
          right
          have h2 := any_wins_state2 o s h tid t hg hw
          obtain ⟨r, hc⟩ := h.cell2 h2
          have hc2 := h.c2 h2
          have hle := critN_le_critCount s tid t hg
          obtain ⟨extra, he, hl⟩ := eff_results_after_init e h2 r hc (by omega)
          rw [hr] at he
          have : extra = [x] := (List.append_cancel_left he).symm
          exact late_of_LateRes r x (hl x (by simp [this]))
    · exact hp u (List.mem_of_getElem? hk)

theorem run_progOrd (o : Ord) (sched : List Nat) : ∀ s, Inv o s → ProgOrd s → ProgOrd (run o s sched) := by
  induction sched with
  | nil => intro s _ h; exact h
  | cons t ts ih => intro s h hp; exact ih _ (step_inv o s t h) (step_progOrd o s t h hp)

/-- **program order on one thread, installers included** (closes the gap left by `observe_all_delivered`, which
    needs a program without installations): for ANY programs, ANY number of threads and EVERY schedule, split any
    thread's results (oldest first) at an entry that is a successful installation or a lookup that found a
    recorder. Then the cell holds a recorder `r` and every LATER result of that thread is an installation rejected
    or a lookup that found `r` — never the no-op fallback, never another recorder, never a second `Ok`. In
    particular a thread that installs (at top level, from inside a `with_recorder` closure or inside a local
    scope — `toCell`) and then emits reaches its own recorder. -/
theorem program_order (o : Ord) (progs : List (List Call)) (sched : List Nat)
    (t : Thread) (ht : t ∈ (run o (init progs) sched).threads) (pre post : List Res) (x : Res)
    (hs : t.results = pre ++ x :: post) (hx : x = Res.ok ∨ ∃ r, x = Res.some r) :
    ∃ r, (run o (init progs) sched).cell = some r ∧ ∀ y ∈ post, LateRes r y := by
  have h := reachable_inv o progs sched
  have hp := run_progOrd o sched _ (init_inv o progs) (init_progOrd progs) t ht
  have hwx : wins x = true := by rcases hx with rfl | ⟨r, rfl⟩ <;> rfl
  obtain ⟨k, hk⟩ := List.getElem?_of_mem ht
  have h2 : (run o (init progs) sched).state = 2 :=
    any_wins_state2 o _ h k t hk (by rw [hs]; simp [hwx])
  obtain ⟨r, hc⟩ := h.cell2 h2
  refine ⟨r, hc, ?_⟩
  rw [hs] at hp
  intro y hy
  have hl := chainFrom_split false pre x post hp hwx y hy
  cases y with
  | err e => exact Or.inl ⟨e, rfl⟩
  | some r' =>
    have := ((h.thr t ht).some_res r' (by rw [hs]; simp [hy])).2
    rw [hc] at this
    injection this with this
    subst this
    exact Or.inr rfl
  | ok => simp [late] at hl
  | none => simp [late] at hl
  | torn => simp [late] at hl

open MetricsVerif.GlobalRec in
/-- `program_order` for API programs (installations inside closures and local scopes included), on the process-wide
    cell -/
theorem gprogram_order (o : Ord) (gprogs : List (List GCall)) (sched : List Nat)
    (t : Thread) (ht : t ∈ (grun o gprogs sched).threads) (pre post : List Res) (x : Res)
    (hs : t.results = pre ++ x :: post) (hx : x = Res.ok ∨ ∃ r, x = Res.some r) :
    ∃ r, (grun o gprogs sched).cell = some r ∧ ∀ y ∈ post, LateRes r y :=
  program_order o (gprogs.map toCell) sched t ht pre post x hs hx

open MetricsVerif.GlobalRec in
/-- what a `with_recorder` closure that installs and then emits observes, in terms of the three cell answers:
    if its installation SUCCEEDED (whatever the outer lookup had found — necessarily nothing) and the lookup after it
    gave a late answer that is a lookup answer, the inner emission reached the recorder just installed; if the OUTER
    emission had reached a recorder `r`, the installation is rejected and the inner emission reaches `r` again -/
theorem closure_install_observed (c : Nat) (cs : List GCall) (r₁ r₂ r₃ : Res) (rs : List Res) :
    observe (.installIn c :: cs) (r₁ :: r₂ :: r₃ :: rs)
      = .closureInstall (dispatch none r₁) r₂ (dispatch none r₃) :: observe cs rs
    ∧ (∀ r, LateRes r r₃ → (∀ e, r₃ ≠ Res.err e) → dispatch none r₃ = .global r) := by
  refine ⟨by simp [observe], ?_⟩
  intro r hl hne
  rcases hl with ⟨e, he⟩ | rfl
  · exact absurd he (hne e)
  · rfl

open MetricsVerif.GlobalRec in
/-- an installation made inside a local scope is an installation on the GLOBAL cell (one `set`, no lookup), and the
    emission next to it goes to the local recorder whatever the cell holds -/
theorem scoped_install_observed (l c : Nat) (cs : List GCall) (r : Res) (rs : List Res) :
    toCell (.installLocal l c :: cs) = Call.set c :: toCell cs
    ∧ observe (.installLocal l c :: cs) (r :: rs) = .scopedInstall r l :: observe cs rs := by
  exact ⟨rfl, by simp [observe]⟩

/-! non-vacuity of round 7 -/

/-- thread 0 emits from a closure (no-op), installs recorder 3 from INSIDE that closure and emits again (reaches 3),
    then emits at top level (reaches 3); thread 1 installs inside a local scope, is rejected, its scoped emission goes
    to the local recorder and its next plain emission to recorder 3 -/
example :
    let progs : List (List GlobalRec.GCall) := [[.installIn 3, .emit], [.installLocal 21 4, .emit]]
    let s := GlobalRec.grun { storeRelease := true, loadAcquire := true } progs
      [0, 1, 0, 0, 1, 0, 0, 0, 0, 0, 0, 1, 1, 1, 0, 0]
    GlobalRec.gobserve progs s =
      [[.closureInstall .noop .ok (.global 3), .sent (.global 3)], [.scopedInstall (.err 4) 21, .sent (.global 3)]] := by
  decide

/-- the installation inside the local scope wins; the closure of thread 0 then sees: outer no-op, rejected, inner
    reaches recorder 4 -/
example :
    let progs : List (List GlobalRec.GCall) := [[.installIn 3, .emit], [.installLocal 21 4]]
    let s := GlobalRec.grun { storeRelease := true, loadAcquire := true } progs
      [0, 1, 0, 1, 1, 1, 0, 0, 0, 0, 0, 0, 0]
    GlobalRec.gobserve progs s =
      [[.closureInstall .noop (.err 3) (.global 4), .sent (.global 4)], [.scopedInstall .ok 21]] := by
  decide

end MetricsVerif.C02
