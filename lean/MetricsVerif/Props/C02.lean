/-
C02 — the global recorder is installed at most once and is seen whole by everyone.

Step machine: `Model/OnceCell.lean` (one step = one shared-memory operation of `set` / `try_load`; PC names
= yield-point ids in cell.rs).  All theorems are for every program list (any number of installer and loader
threads, any number of calls each) and EVERY schedule (`List Nat`), by an inductive invariant
(`Proofs/OnceCell.lean: Inv`, `step_inv`).
-/
import MetricsVerif.Proofs.OnceCell
import MetricsVerif.Generated.SourceFacts

namespace MetricsVerif.C02
open MetricsVerif.OnceCell

/-- every state reachable from a fresh cell satisfies the invariant -/
theorem reachable_inv (o : Ord) (progs : List (List Call)) (sched : List Nat) :
    Inv o (run o (init progs) sched) := run_inv o sched _ (init_inv o progs)

/-- **at most one installation succeeds**, over all threads, in every interleaving -/
theorem at_most_one_ok (o : Ord) (progs : List (List Call)) (sched : List Nat) :
    okCount (run o (init progs) sched) ≤ 1 := by
  have h := reachable_inv o progs sched
  have := h.st_le
  rcases Nat.lt_or_ge (run o (init progs) sched).state 1 with h0 | h1
  · have := h.c0 (by omega); omega
  · rcases Nat.lt_or_ge (run o (init progs) sched).state 2 with h1' | h2
    · have := h.c1 (by omega); omega
    · have := h.c2 (by omega); omega

/-- **seen whole**: with the source's orderings (release store, acquire load) no thread ever reads the
    cell without having synchronised with its writer, and never reads it empty -/
theorem load_sees_whole (o : Ord) (hord : OrdOK o) (progs : List (List Call)) (sched : List Nat) :
    (run o (init progs) sched).raced = false
    ∧ ∀ t ∈ (run o (init progs) sched).threads, Res.torn ∉ t.results := by
  have h := reachable_inv o progs sched
  exact ⟨h.no_race hord, fun t ht => (h.thr t ht).no_torn⟩

/-- **one recorder for everyone**: whatever any two loads on any threads returned, it is the same recorder,
    namely the one in the cell, and the cell is initialised -/
theorem same_recorder (o : Ord) (progs : List (List Call)) (sched : List Nat)
    (t₁ t₂ : Thread) (h₁ : t₁ ∈ (run o (init progs) sched).threads) (h₂ : t₂ ∈ (run o (init progs) sched).threads)
    (r₁ r₂ : Nat) (e₁ : Res.some r₁ ∈ t₁.results) (e₂ : Res.some r₂ ∈ t₂.results) :
    r₁ = r₂ ∧ (run o (init progs) sched).cell = some r₁ ∧ (run o (init progs) sched).state = 2 := by
  have h := reachable_inv o progs sched
  have a := (h.thr t₁ h₁).some_res r₁ e₁
  have b := (h.thr t₂ h₂).some_res r₂ e₂
  refine ⟨?_, a.2, a.1⟩
  have := a.2.symm.trans b.2
  injection this

/-- the weakened orderings really are needed: with a relaxed load the model exhibits a racy read
    (so the ordering obligation extracted from the source is not vacuous) -/
theorem relaxed_load_races :
    (run { storeRelease := true, loadAcquire := false } (init [[.set 7], [.load]]) [0, 1, 0, 0, 0, 1, 1]).raced = true := by
  decide

/-! ### stability: once initialised, always initialised, with the same recorder -/

theorem step_state_mono (o : Ord) (s : Sys) (tid : Nat) (h : Inv o s) (h2 : s.state = 2) :
    (step o s tid).state = 2 ∧ (step o s tid).cell = s.cell := by
  unfold step
  cases hg : s.threads[tid]? with
  | none => exact ⟨h2, rfl⟩
  | some t =>
    simp only
    have e := stepThread_eff o s t
    have hT := h.thr t (List.mem_of_getElem? hg)
    have hc2 := h.c2 h2
    have hle := critN_le_critCount s tid t hg
    generalize (stepThread o s t).1 = s' at e
    generalize (stepThread o s t).2 = t' at e
    cases e with
    | noop => exact ⟨h2, rfl⟩
    | start => exact ⟨h2, rfl⟩
    | casWin hp h0 => omega
    | casLose => exact ⟨h2, rfl⟩
    | write x hp => have : critN t = 1 := by simp [critN, hp]
                    omega
    | store hp => exact ⟨rfl, rfl⟩
    | loadNone => exact ⟨h2, rfl⟩
    | loadInit => exact ⟨h2, rfl⟩
    | read hp => split <;> exact ⟨h2, rfl⟩

/-- **stable once seen**: from any reachable initialised state, after any further schedule the cell is
    still initialised and still holds the same recorder -/
theorem stable_once_initialised (o : Ord) (sched : List Nat) :
    ∀ s, Inv o s → s.state = 2 → (run o s sched).state = 2 ∧ (run o s sched).cell = s.cell := by
  induction sched with
  | nil => intro s _ h2; exact ⟨h2, rfl⟩
  | cons t ts ih =>
    intro s h h2
    have a := step_state_mono o s t h h2
    have b := ih (step o s t) (step_inv o s t h) a.1
    exact ⟨b.1, b.2.trans a.2⟩

/-- a lookup that starts in an initialised state goes on to read the cell (it does not answer `None`) … -/
theorem load_after_init (o : Ord) (s : Sys) (t : Thread) (rest : List Call)
    (hpc : t.pc = .loadState) (hc : t.calls = .load :: rest) (h2 : s.state = 2) :
    (stepThread o s t).2.pc = .read ∧ (stepThread o s t).2.results = t.results := by
  unfold stepThread; rw [hpc, hc]; simp [h2]

/-- … and the read returns exactly the recorder in the cell -/
theorem read_returns_cell (o : Ord) (s : Sys) (t : Thread) (rest : List Call) (w : Nat)
    (hpc : t.pc = .read) (hc : t.calls = .load :: rest) (hw : s.cell = some w) :
    (stepThread o s t).2.results = t.results ++ [Res.some w] := by
  unfold stepThread; rw [hpc, hc]; simp [hw, advance_results]

/-- before initialisation a lookup answers `None` (the caller falls back to the no-op recorder) -/
theorem load_before_init (o : Ord) (s : Sys) (t : Thread) (rest : List Call)
    (hpc : t.pc = .loadState) (hc : t.calls = .load :: rest) (h2 : s.state ≠ 2) :
    (stepThread o s t).2.results = t.results ++ [Res.none] ∧ (stepThread o s t).1 = s := by
  unfold stepThread; rw [hpc, hc]; simp [h2, advance_results]

/-- **the loser gets its own recorder back**: a `set r` that loses the race answers `Err r` with the very
    recorder it was called with, and changes nothing in the cell -/
theorem loser_gets_own_back (o : Ord) (s : Sys) (t : Thread) (r : Nat) (rest : List Call)
    (hpc : t.pc = .cas) (hc : t.calls = .set r :: rest) (h0 : s.state ≠ 0) :
    (stepThread o s t).2.results = t.results ++ [Res.err r] ∧ (stepThread o s t).1 = s := by
  unfold stepThread; rw [hpc, hc]; simp [h0, advance_results]

/-- the winner's recorder is the one that ends up in the cell: a `set r` that wins writes `r` -/
theorem winner_installs_own (o : Ord) (s : Sys) (t : Thread) (r : Nat) (rest : List Call)
    (hpc : t.pc = .write) (hc : t.calls = .set r :: rest) :
    (stepThread o s t).1.cell = some r := by
  unfold stepThread; rw [hpc, hc]

/-! ### tie to the source: the orderings and call order extracted by the translator -/

def isRelease (s : String) : Bool := s == "Release" || s == "AcqRel" || s == "SeqCst"
def isAcquire (s : String) : Bool := s == "Acquire" || s == "AcqRel" || s == "SeqCst"

/-- the orderings cell.rs uses today (regenerated from the source on every run) -/
def srcOrd : Ord :=
  { storeRelease := isRelease Generated.cell_store_ordering, loadAcquire := isAcquire Generated.cell_load_ordering }

/-- obligation: the publishing store is a release store and the consuming load an acquire load -/
theorem src_orderings_ok : OrdOK srcOrd := by unfold OrdOK; decide

/-- obligation: `set` is CAS → write cell → store state, `try_load` is load state → read cell (the step
    machine's program order), and the CAS is at least acquire on success -/
theorem src_call_shape :
    Generated.cell_set_calls = ["state.compare_exchange", "recorder.write", "state.store"]
    ∧ Generated.cell_load_calls = ["state.load", "recorder.read"]
    ∧ isAcquire Generated.cell_cas_success = true := by decide

/-- `load_sees_whole` for the orderings in the source -/
theorem src_load_sees_whole (progs : List (List Call)) (sched : List Nat) :
    (run srcOrd (init progs) sched).raced = false
    ∧ ∀ t ∈ (run srcOrd (init progs) sched).threads, Res.torn ∉ t.results :=
  load_sees_whole srcOrd src_orderings_ok progs sched

/-! ### non-vacuity: a concrete race of two installers and two loaders -/

example :
    let s := run { storeRelease := true, loadAcquire := true }
      (init [[.set 1], [.set 2], [.load, .load], [.load]]) [0, 1, 2, 3, 1, 0, 2, 1, 1, 2, 2, 3, 3]
    s.state = 2 ∧ s.cell = some 2 ∧ s.raced = false ∧
    s.threads.map (·.results) = [[.err 1], [.ok], [.none, .some 2], [.some 2]] := by decide

end MetricsVerif.C02
