/-
C10, histogram clause — "every histogram value recorded with sampling off is sent in exactly one flush",
for `record` racing `State::flush` in every interleaving.  Separate file because `Model/StatsdAgg` and
`Model/Bucket` both have `Sys`/`Thread`/`run`; imported by `Props/C10.lean`.
-/
import MetricsVerif.Model.StatsdHist
import MetricsVerif.Proofs.StatsdHist
import MetricsVerif.Props.C05
import MetricsVerif.Generated.SourceFacts

namespace MetricsVerif.C10
open MetricsVerif.Bucket MetricsVerif.StatsdHist

/-! ### histograms with sampling off: `record` racing `State::flush` (Model/StatsdHist over Model/Bucket)

Recorder threads `0 … n-1` (`record v` = `AtomicBucket::push v`), ONE flusher (thread `n`) doing any number of
`State::flush`es (`is_empty`; if it answered `false`, ONE `clear_with` whose detached values go to the writer).
The statements hold for every block size, every answer list of the flusher's `is_empty` calls (in particular the
one consistent with the run, which is the run the code produces) and EVERY schedule. -/


theorem count_push_recCalls (vs : List Nat) (v : Nat) : (recCalls vs).count (Call.push v) = vs.count v := by
  induction vs with
  | nil => rfl
  | cons w r ih =>
    simp only [recCalls, List.map_cons, List.count_cons] at ih ⊢
    rw [ih]
    by_cases h : w = v <;> simp [h]

theorem count_push_flushCalls (answers : List Bool) (v : Nat) : (flushCalls answers).count (Call.push v) = 0 := by
  induction answers with
  | nil => rfl
  | cons a r ih => cases a <;> simp [flushCalls, ih]

theorem count_push_progsOf (recs : List (List Nat)) (answers : List Bool) (v : Nat) :
    (progsOf recs answers).flatten.count (Call.push v) = recs.flatten.count v := by
  simp only [progsOf, List.flatten_append, List.count_append, List.flatten_cons, List.flatten_nil,
    List.append_nil, count_push_flushCalls, Nat.add_zero]
  induction recs with
  | nil => rfl
  | cons r rs ih => simp only [List.map_cons, List.flatten_cons, List.count_append, ih, count_push_recCalls]

/-- what one thread's completed clears handed out, as `Bucket.delivered` counts it -/
def clearedFlat (rs : List Res) : List Nat := rs.flatMap (fun r => match r with | .cleared vs => vs | _ => [])

theorem clearedOf_flatten (rs : List Res) : (clearedOf rs).flatten = clearedFlat rs := by
  induction rs with
  | nil => rfl
  | cons r rest ih =>
    cases r <;> simp [clearedOf, clearedFlat, List.flatMap_cons] at ih ⊢ <;> exact ih

theorem count_thread_le_flatMap (g : Thread → List Nat) (v : Nat) :
    ∀ (l : List Thread) (i : Nat) (t : Thread), l[i]? = some t → (g t).count v ≤ (l.flatMap g).count v := by
  intro l
  induction l with
  | nil => intro i t h; simp at h
  | cons x xs ih =>
    intro i t h
    cases i with
    | zero =>
      simp only [List.getElem?_cons_zero, Option.some.injEq] at h
      subst h
      simp only [List.flatMap_cons, List.count_append]; omega
    | succ j =>
      simp only [List.getElem?_cons_succ] at h
      have := ih j t h
      simp only [List.flatMap_cons, List.count_append]; omega

/-- what the flusher sent is part of what the bucket's clears delivered -/
theorem sentAll_count_le_delivered (s : Sys) (f : Nat) (v : Nat) :
    (sentAll s f).count v ≤ (delivered s).count v := by
  unfold sentAll flusherResults
  cases h : s.threads[f]? with
  | none => simp [clearedOf]
  | some t =>
    simp only
    rw [clearedOf_flatten]
    exact count_thread_le_flatMap (fun t => clearedFlat t.results) v s.threads f t h

/-- **no histogram value is sent twice, none is invented — in every interleaving.**  For any recorder threads,
    any number of flushes, every schedule, at every moment and value by value: (occurrences in all the flushes so
    far) + (what is still in the bucket for a later flush) never exceeds the number of times the value was
    recorded.  So a value recorded once is in AT MOST one flush, never in two, never both sent and still pending. -/
theorem hist_never_sent_twice (B : Nat) (recs : List (List Nat)) (answers : List Bool) (sched : List Nat) (v : Nat) :
    let s := run (init B (progsOf recs answers)) sched
    (sentAll s recs.length).count v + (visible s).count v ≤ recs.flatten.count v := by
  intro s
  have h1 := C05.never_duplicates B (progsOf recs answers) sched v
  have h2 := sentAll_count_le_delivered s recs.length v
  rw [count_push_progsOf] at h1
  simp only [s] at h2 ⊢
  omega

/-- a schedule of scheduler grants is that very schedule of single steps (one grant = one model step: the detaching
    CAS of `clear_with` has its own yield point `bkt.clear.cas` in bucket.rs): what the driver evaluates is a `run` of
    the step machine -/
theorem foldl_grant_eq_run (sched : List Nat) : ∀ s : Sys, sched.foldl grant s = run s sched := by
  induction sched with
  | nil => intro s; rfl
  | cons tid r ih =>
    intro s
    simp only [List.foldl_cons, run, grant]
    exact ih _

/-- the same for the runs the correspondence stream replays (schedules of grants) -/
theorem hist_never_sent_twice_grants (B : Nat) (recs : List (List Nat)) (answers : List Bool) (sched : List Nat)
    (v : Nat) :
    let s := sched.foldl grant (init B (progsOf recs answers))
    (sentAll s recs.length).count v + (visible s).count v ≤ recs.flatten.count v := by
  intro s
  simp only [s, foldl_grant_eq_run]
  exact hist_never_sent_twice B recs answers _ v

/-! ### exactly once, outside the K1 window

`C05.conservation_except_K1` (any programs, every schedule without a K1 step = a slot claim landing on a block a
clear has already detached) applied to recorders + ONE flusher: the recorder threads never clear, so everything the
bucket's clears delivered was sent by the flusher. -/

/-- **every recorded value is sent exactly once or is still waiting for the next flush — outside K1.**  Any number of
    recorder threads, any number of flushes by ONE flusher, any block size, EVERY schedule that contains no K1 step
    (`C05.stragglerClaims … = 0`, the decidable predicate on the schedule that the driver's `bucket k1` op evaluates):
    when all calls have finished, value by value,
    (times recorded) = (occurrences over all the flushes sent) + (occurrences still in the bucket). -/
theorem hist_sent_or_pending_except_K1 (B : Nat) (recs : List (List Nat)) (answers : List Bool) (sched : List Nat)
    (hk : C05.stragglerClaims B (progsOf recs answers) sched = 0)
    (hq : quiescent (run (init B (progsOf recs answers)) sched) = true) (v : Nat) :
    let s := run (init B (progsOf recs answers)) sched
    recs.flatten.count v = (sentAll s recs.length).count v + (visible s).count v := by
  intro s
  have h1 := C05.conservation_except_K1 B (progsOf recs answers) sched hk hq v
  rw [count_push_progsOf] at h1
  have h2 : delivered s = sentAll s recs.length :=
    delivered_eq_sentAll s recs.length (fun i hi => noclrR_run sched i _ (progsOf_noclr B recs answers i hi))
  rw [← h2]
  exact h1

/-- **every histogram value recorded with sampling off is sent in exactly one flush — outside K1.**  Any number of
    recorder threads, ONE flusher doing any number of `State::flush`es (`as ++ [a]`), any block size; the schedule is
    `pre ++ post` where after `pre` every recorder has finished and the flusher is about to start its LAST flush
    (`is_empty`, then `clear_with` unless the flush is skipped), `post` runs it to the end (quiescence), and that
    flush's `is_empty` answered what the flush acted on (how the code behaves: it skips iff `is_empty` said `true`).
    If no step of the schedule is a K1 step, then nothing is left in the bucket and, value by value, the flushes
    together sent every value exactly as often as it was recorded: a value recorded once is in exactly ONE flush,
    once (`hist_never_sent_twice` already excludes "twice" in every schedule; this excludes "never").  The K1
    hypothesis is needed: `hist_exactly_once_fails` / `hist_exactly_once_fails_is_K1`. -/
theorem hist_exactly_once_except_K1 (B : Nat) (recs : List (List Nat)) (as : List Bool) (a : Bool)
    (pre post : List Nat) (t0 t1 : Thread) (v : Nat)
    (hk : C05.stragglerClaims B (progsOf recs (as ++ [a])) (pre ++ post) = 0)
    (hrec : ∀ i t, i ≠ recs.length → (run (init B (progsOf recs (as ++ [a]))) pre).threads[i]? = some t → t.pc = .done)
    (h0 : (run (init B (progsOf recs (as ++ [a]))) pre).threads[recs.length]? = some t0)
    (hpc : t0.pc = .eLoadTail) (hcalls : t0.calls = flushCalls [a])
    (hq : quiescent (run (init B (progsOf recs (as ++ [a]))) (pre ++ post)) = true)
    (h1 : (run (init B (progsOf recs (as ++ [a]))) (pre ++ post)).threads[recs.length]? = some t1)
    (hans : emptyAnswers t1.results = emptyAnswers t0.results ++ [a]) :
    let s := run (init B (progsOf recs (as ++ [a]))) (pre ++ post)
    visible s = [] ∧ (sentAll s recs.length).count v = recs.flatten.count v := by
  intro s
  have hacc := hist_sent_or_pending_except_K1 B recs (as ++ [a]) (pre ++ post) hk hq v
  have hrun : s = run (run (init B (progsOf recs (as ++ [a]))) pre) post := run_append pre post _
  have hdone : t1.pc = .done := by
    have hq' := hq
    simp only [quiescent, List.all_eq_true, beq_iff_eq] at hq'
    exact hq' t1 (List.mem_of_getElem? h1)
  have hvis : visible s = [] := by
    rw [hrun]
    refine final_flush_drains _ recs.length a t0 t1 post (lwrun pre _ (init_lwinv B _)) hrec h0 hpc hcalls ?_ hdone hans
    rw [← hrun]; exact h1
  refine ⟨hvis, ?_⟩
  simp only at hacc
  have : (visible s).count v = 0 := by rw [hvis]; rfl
  simp only [s] at this ⊢
  omega

/-- the same per flush: summed over the flushes, the number of occurrences of `v` in each flush's payload is the
    number of times `v` was recorded -/
theorem hist_exactly_once_per_flush (s : Sys) (f : Nat) (v : Nat) :
    (sentAll s f).count v = ((clearedOf (flusherResults s f)).map (fun vs => vs.count v)).sum := by
  unfold sentAll
  generalize clearedOf (flusherResults s f) = l
  induction l with
  | nil => rfl
  | cons x xs ih => simp only [List.flatten_cons, List.count_append, List.map_cons, List.sum_cons, ih]

/-- the full clause "every recorded value is sent in exactly ONE flush" is FALSE of the code (inherits K-C05-K1):
    recorder 1 loads the tail, the flush finds the histogram non-empty, detaches and reads the chain, then
    recorder 1 claims and publishes its slot in the detached block.  The run is consistent (`is_empty` answered
    `false`), both records completed, the flush sent only the first value and the second is not in the bucket
    either: it is sent by no flush.  (Block size 2 keeps the kernel evaluation small; the harness replays the
    schedule on the real code with 64.) -/
theorem hist_exactly_once_fails :
    let recs := [[1], [2]]
    let s := run (init 2 (progsOf recs [false])) [0, 0, 0, 0, 0, 1, 1, 2, 2, 2, 2, 2, 2, 2, 2, 1, 1]
    quiescent s = true ∧ consistent s 2 [false] = true ∧ completedPushes s = 2
      ∧ sentAll s 2 = [1] ∧ visible s = [] := by decide

/-- the K1 hypothesis of `hist_exactly_once_except_K1` is needed, and the predicate flags exactly the known window:
    the schedule of `hist_exactly_once_fails` contains exactly ONE K1 step (recorder 1's claim, taken after the
    flush's detach CAS); cut before that claim it contains none -/
theorem hist_exactly_once_fails_is_K1 :
    C05.stragglerClaims 2 (progsOf [[1], [2]] [false]) [0, 0, 0, 0, 0, 1, 1, 2, 2, 2, 2, 2, 2, 2, 2, 1, 1] = 1
    ∧ C05.stragglerClaims 2 (progsOf [[1], [2]] [false]) [0, 0, 0, 0, 0, 1, 1, 2, 2, 2, 2, 2, 2, 2, 2] = 0 := by decide

/-- non-vacuity for `hist_exactly_once_except_K1` (block size 1, so every record hands the block over): two recorders,
    three flushes; the last flush starts after both recorders have finished, finds the histogram non-empty and sends
    the rest.  No K1 step; every value is in exactly one flush. -/
example :
    let recs := [[1, 2], [3]]
    let pre := [2, 2, 0, 0, 0, 0, 0, 1, 1, 1, 1, 1, 1, 1, 2, 2, 2, 2, 2, 2, 2, 2, 0, 0, 0, 0, 0, 0, 0, 2, 2]
    let post := [2, 2, 2, 2, 2, 2, 2, 2, 2, 2, 2, 2, 2, 2, 2]
    let s0 := run (init 1 (progsOf recs [true, false, false])) pre
    let s := run (init 1 (progsOf recs [true, false, false])) (pre ++ post)
    C05.stragglerClaims 1 (progsOf recs [true, false, false]) (pre ++ post) = 0
      ∧ (s0.threads.map (·.pc)) = [.done, .done, .eLoadTail]
      ∧ (s0.threads[2]?.map (·.calls)) = some (flushCalls [false])
      ∧ quiescent s = true
      ∧ emptyAnswers (flusherResults s 2) = [true, false, false]
      ∧ flushesOf (emptyAnswers (flusherResults s 2)) (clearedOf (flusherResults s 2)) = [none, some [3, 1], some [2]]
      ∧ visible s = [] := by decide

/-- SOURCE FACT (regenerated on every run): with sampling off every `AtomicHistogram` operation is exactly one call
    on the bucket — `record` → `push`, `is_empty` → `is_empty`, `flush` → ONE `clear_with` (snapshot and clear are
    one detach, not `data_with` followed by `clear`) — and the histogram loop of `State::flush` is `is_empty`,
    `continue` when it answers true, then `flush`: the program `flushCalls` of the model -/
theorem src_hist_shape :
    Generated.agg_hist_raw_record_calls = ["bucket.push"]
    ∧ Generated.agg_hist_raw_is_empty_calls = ["bucket.is_empty"]
    ∧ Generated.agg_hist_raw_flush_calls = ["bucket.clear_with"]
    ∧ Generated.agg_hist_state_calls = ["is_empty", "flush"]
    ∧ Generated.agg_hist_state_skip = "histogram.is_empty()" := by decide

/-- non-vacuity: two recorders and three flushes (skip, send, skip) over a block hand-over (block size 1) -/
example :
    let recs := [[1, 2], [3]]
    let s := run (init 1 (progsOf recs [true, false, true]))
      [2, 2, 0, 0, 0, 0, 0, 1, 1, 1, 1, 1, 1, 1, 0, 0, 0, 0, 0, 0, 0, 2, 2, 2, 2, 2, 2, 2, 2, 2, 2, 2, 2, 2, 2, 2, 2, 2, 2]
    consistent s 2 [true, false, true] = true
      ∧ flushesOf (emptyAnswers (flusherResults s 2)) (clearedOf (flusherResults s 2)) = [none, some [2, 3, 1], none]
      ∧ quiescent s = true := by decide


end MetricsVerif.C10
