/-
C20 — a recoverable recorder is live until recovered, inert and dropped once after.

Step machine: `Model/Recoverable.lean` (one step = one operation on the `Arc` strong count; PC names = yield
point ids in recoverable.rs plus the harness's own `rec.inside` / `h.drop` points).  Theorems hold for every
program list (any number of emitting threads, any number of emissions, `into_inner` or handle drop on any
thread) and EVERY schedule, by the inductive invariant `Proofs/Recoverable.lean: Inv`.
-/
import MetricsVerif.Proofs.Recoverable
import MetricsVerif.Proofs.SrcShapes
import MetricsVerif.Generated.SourceFacts

namespace MetricsVerif.C20
open MetricsVerif.Recoverable

theorem reachable_inv (progs : List (List Call)) (sched : List Nat) : Inv (run (init progs) sched) :=
  run_inv sched _ (init_inv progs)

/-- **live while the handle is alive**: the strong count is ≥ 1, so every emission's upgrade succeeds and
    the call enters the wrapped recorder -/
theorem live_while_handle (progs : List (List Call)) (sched : List Nat) (t : Thread) (rest : List Call)
    (hh : (run (init progs) sched).handle = true) (hpc : t.pc = .upgrade) (hc : t.calls = .emit :: rest) :
    (stepThread (run (init progs) sched) t).2.pc = .inside := by
  have h := reachable_inv progs sched
  have : (run (init progs) sched).strong > 0 := by rw [h.strong_eq, hh]; simp; omega
  unfold stepThread; rw [hpc, hc]; simp [this]

/-- a call that entered is delivered (it leaves the recorder with result `delivered`) -/
theorem entered_is_delivered (s : Sys) (t : Thread) (rest : List Call)
    (hpc : t.pc = .inside) (hc : t.calls = .emit :: rest) :
    (stepThread s t).2.results = t.results ++ [Res.delivered] := by
  unfold stepThread; rw [hpc, hc]; rfl

/-- **into_inner is exclusive**: in every interleaving, whenever `into_inner` took the recorder out, no
    emission was executing inside it (the `unwrapBusy` flag of the model is never raised) … -/
theorem into_inner_exclusive (progs : List (List Call)) (sched : List Nat) :
    (run (init progs) sched).unwrapBusy = false := (reachable_inv progs sched).no_busy_unwrap

/-- … and afterwards nobody is inside and the count is zero -/
theorem after_recovery_quiet (progs : List (List Call)) (sched : List Nat)
    (hr : (run (init progs) sched).recovered = true) :
    (run (init progs) sched).strong = 0 ∧ (run (init progs) sched).inside = 0
    ∧ (run (init progs) sched).handle = false ∧ (run (init progs) sched).finalised = 0 := by
  have h := reachable_inv progs sched
  have h0 := h.ended (Or.inr hr)
  have hse := h.strong_eq
  have ho := h.once
  rw [hr] at ho
  refine ⟨h0, by omega, ?_, by simpa using ho⟩
  cases hh : (run (init progs) sched).handle with
  | false => rfl
  | true => rw [hh] at hse; simp at hse; omega

/-- **no call enters after finalisation began or after recovery**, in every interleaving -/
theorem no_entry_after_end (progs : List (List Call)) (sched : List Nat) :
    (run (init progs) sched).enteredAfterEnd = false := (reachable_inv progs sched).no_late_entry

/-- **dropped exactly once, or handed back — never both, never twice** -/
theorem finalised_at_most_once (progs : List (List Call)) (sched : List Nat) :
    (run (init progs) sched).finalised + (if (run (init progs) sched).recovered then 1 else 0) ≤ 1 :=
  (reachable_inv progs sched).once

/-- once the count is zero it stays zero: the end is final -/
theorem ended_stays_ended (sched : List Nat) : ∀ s, Recoverable.Inv s → s.strong = 0 → (run s sched).strong = 0 := by
  induction sched with
  | nil => intro s _ h0; exact h0
  | cons tid ts ih =>
    intro s h h0
    refine ih _ (step_inv s tid h) ?_
    unfold step
    cases hg : s.threads[tid]? with
    | none => exact h0
    | some t =>
      simp only
      have e := stepThread_eff s t
      have hle := insN_le_insCount s tid t hg
      have hse := h.strong_eq
      have hie := h.inside_eq
      generalize (stepThread s t).1 = s' at e
      generalize (stepThread s t).2 = t' at e
      cases e with
      | noop => exact h0
      | start => exact h0
      | enter hp hpos => omega
      | ignored => exact h0
      | leaveLast hp h1 => omega
      | leaveMore hp h1 => have : insN t = 1 := by simp [insN, hp]
                           omega
      | unwrap hp hh h1 => omega
      | hdropLast hp hh h1 => omega
      | hdropMore hp hh h1 => rw [hh] at hse; simp at hse; omega
      | hdropGone => exact h0

/-- **inert after the end**: once the recorder was recovered, or dropped (count zero), every later
    registration / description through the wrapper is ignored (inert handle), in every continuation -/
theorem inert_after_end (progs : List (List Call)) (sched more : List Nat) (t : Thread) (rest : List Call)
    (h0 : (run (init progs) sched).strong = 0) (hpc : t.pc = .upgrade) (hc : t.calls = .emit :: rest) :
    let s := run (run (init progs) sched) more
    (stepThread s t).2.results = t.results ++ [Res.ignored] ∧ (stepThread s t).1 = s := by
  have hz := ended_stays_ended more _ (reachable_inv progs sched) h0
  simp only
  unfold stepThread; rw [hpc, hc]; simp [hz, Thread.advance]

/-- recovery or the final drop are exactly the states with count zero and no handle -/
theorem ended_iff (progs : List (List Call)) (sched : List Nat) :
    ((run (init progs) sched).finalised > 0 ∨ (run (init progs) sched).recovered = true)
      ↔ ((run (init progs) sched).strong = 0 ∧ (run (init progs) sched).handle = false) := by
  have h := reachable_inv progs sched
  constructor
  · intro x
    have h0 := h.ended x
    refine ⟨h0, ?_⟩
    cases hh : (run (init progs) sched).handle with
    | false => rfl
    | true => have := h.strong_eq; rw [hh] at this; simp at this; omega
  · intro ⟨a, b⟩; exact h.gone a b

/-- `into_inner` succeeds as soon as it is scheduled with nobody inside (the retry loop can end) -/
theorem into_inner_returns_when_quiet (progs : List (List Call)) (sched : List Nat) (t : Thread) (rest : List Call)
    (hh : (run (init progs) sched).handle = true) (hi : (run (init progs) sched).inside = 0)
    (hpc : t.pc = .tryUnwrap) (hc : t.calls = .intoInner :: rest) :
    (stepThread (run (init progs) sched) t).1.recovered = true := by
  have h := reachable_inv progs sched
  have : (run (init progs) sched).strong = 1 := by rw [h.strong_eq, hh, hi]; simp
  unfold stepThread; rw [hpc, hc]; simp [hh, this]

/-! ### the full statement "after the handle is dropped … ignored" is FALSE of the code (known finding)

The property text says registrations are ignored "after it returns, or after the handle is dropped".  For
`into_inner` that is `inert_after_end`.  For a plain handle drop the code keeps the recorder alive while an
emission is still inside, and an emission that STARTS after the drop is still delivered.  Witness (kernel-
evaluated, replayed on the real code by the harness as K-C20-late-delivery): -/

theorem late_delivery_after_handle_drop :
    let s := run (init [[.emit], [.dropHandle], [.emit]]) [0, 1, 2, 0, 1, 2, 2, 0]
    -- thread 1 dropped the handle (step 5) before thread 2's emission began (step 6) …
    s.threads.map (·.results) = [[.delivered], [.dropped], [.delivered]]
    -- … the recorder is still finalised exactly once, after the last call left it
    ∧ s.finalised = 1 ∧ s.enteredAfterEnd = false := by decide

/-- what does hold after a handle drop (`…_partial`): as soon as nobody is inside any more, the recorder
    is finalised and everything later is ignored -/
theorem inert_after_handle_drop_partial (progs : List (List Call)) (sched : List Nat)
    (hh : (run (init progs) sched).handle = false) (hi : (run (init progs) sched).inside = 0) :
    (run (init progs) sched).strong = 0
    ∧ ((run (init progs) sched).finalised = 1 ∨ (run (init progs) sched).recovered = true) := by
  have h := reachable_inv progs sched
  have h0 : (run (init progs) sched).strong = 0 := by rw [h.strong_eq, hh, hi]; simp
  refine ⟨h0, ?_⟩
  rcases h.gone h0 hh with x | x
  · left; have := h.once; omega
  · right; exact x

/-! ### non-vacuity -/

example :
    let s := run (init [[.emit, .emit], [.intoInner], [.emit]]) [0, 1, 2, 0, 1, 1, 0, 1, 2, 0, 0]
    s.threads.map (·.results) = [[.delivered, .ignored], [.recovered], [.ignored]]
    ∧ s.recovered = true ∧ s.finalised = 0 ∧ s.unwrapBusy = false := by decide


/-! ### source facts (regenerated from /repo on every run)

The step machine has ONE emission shape: upgrade the weak reference, call the wrapped recorder, drop the strong
reference; and `into_inner` retries `Arc::try_unwrap`.  The translator lists, for each of the six `Recorder`
methods of `WeakRecorder`, the calls it makes: each must upgrade first and forward to its namesake (and the
register methods fall back to the no-op handle of their own kind). -/

theorem src_weak_forwarding :
    Generated.weak_forwarding =
      [("describe_counter", "recorder.upgrade recorder.describe_counter"),
       ("describe_gauge", "recorder.upgrade recorder.describe_gauge"),
       ("describe_histogram", "recorder.upgrade recorder.describe_histogram"),
       ("register_counter", "recorder.upgrade recorder.register_counter noop:Counter"),
       ("register_gauge", "recorder.upgrade recorder.register_gauge noop:Gauge"),
       ("register_histogram", "recorder.upgrade recorder.register_histogram noop:Histogram")]
    ∧ Generated.recover_into_inner_calls = ["Arc::try_unwrap"] := by decide

end MetricsVerif.C20
