/-
C20 — a recoverable recorder is live until recovered, inert and dropped once after.

Step machine: `Model/Recoverable.lean` (one step = one operation on the `Arc` strong count; PC names = yield
point ids in recoverable.rs plus the harness's own `rec.inside` / `h.drop` points).  Theorems hold for every
program list (any number of emitting threads, any number of emissions, `into_inner` or handle drop on any
thread) and EVERY schedule, by the inductive invariant `Proofs/Recoverable.lean: Inv`.
-/
import MetricsVerif.Proofs.Recoverable
import MetricsVerif.Proofs.SrcShapes
import MetricsVerif.Generated.SourceFacts

namespace MetricsVerif.C20
open MetricsVerif.Recoverable

theorem reachable_inv (progs : List (List Call)) (sched : List Nat) : Inv (run (init progs) sched) :=
  run_inv sched _ (init_inv progs)

/-- **live while the handle is alive**: the strong count is ≥ 1, so every emission's upgrade succeeds and
    the call enters the wrapped recorder -/
theorem live_while_handle (progs : List (List Call)) (sched : List Nat) (t : Thread) (rest : List Call)
    (hh : (run (init progs) sched).handle = true) (hpc : t.pc = .upgrade) (hc : t.calls = .emit :: rest) :
    (stepThread (run (init progs) sched) t).2.pc = .inside := by
  have h := reachable_inv progs sched
  have : (run (init progs) sched).strong > 0 := by rw [h.strong_eq, hh]; simp; omega
  unfold stepThread; rw [hpc, hc]; simp [upgradeStep, this]

/-- a call that entered is delivered (it leaves the recorder with result `delivered`) -/
theorem entered_is_delivered (s : Sys) (t : Thread) (rest : List Call)
    (hpc : t.pc = .inside) (hc : t.calls = .emit :: rest) :
    (stepThread s t).2.results = t.results ++ [Res.delivered] := by
  unfold stepThread; rw [hpc, hc]; rfl

/-- **into_inner is exclusive**: in every interleaving, whenever `into_inner` took the recorder out, no
    emission was executing inside it (the `unwrapBusy` flag of the model is never raised) … -/
theorem into_inner_exclusive (progs : List (List Call)) (sched : List Nat) :
    (run (init progs) sched).unwrapBusy = false := (reachable_inv progs sched).no_busy_unwrap

/-- … and afterwards nobody is inside and the count is zero -/
theorem after_recovery_quiet (progs : List (List Call)) (sched : List Nat)
    (hr : (run (init progs) sched).recovered = true) :
    (run (init progs) sched).strong = 0 ∧ (run (init progs) sched).inside = 0
    ∧ (run (init progs) sched).handle = false ∧ (run (init progs) sched).finalised = 0 := by
  have h := reachable_inv progs sched
  have h0 := h.ended (Or.inr hr)
  have hse := h.strong_eq
  have ho := h.once
  rw [hr] at ho
  refine ⟨h0, by omega, ?_, by simpa using ho⟩
  cases hh : (run (init progs) sched).handle with
  | false => rfl
  | true => rw [hh] at hse; simp at hse; omega

/-- **no call enters after finalisation began or after recovery**, in every interleaving -/
theorem no_entry_after_end (progs : List (List Call)) (sched : List Nat) :
    (run (init progs) sched).enteredAfterEnd = false := (reachable_inv progs sched).no_late_entry

/-- **dropped exactly once, or handed back — never both, never twice** -/
theorem finalised_at_most_once (progs : List (List Call)) (sched : List Nat) :
    (run (init progs) sched).finalised + (if (run (init progs) sched).recovered then 1 else 0) ≤ 1 :=
  (reachable_inv progs sched).once

/-- once the count is zero it stays zero: the end is final -/
theorem ended_stays_ended (sched : List Nat) : ∀ s, Recoverable.Inv s → s.strong = 0 → (run s sched).strong = 0 := by
  induction sched with
  | nil => intro s _ h0; exact h0
  | cons tid ts ih =>
    intro s h h0
    refine ih _ (step_inv s tid h) ?_
    unfold step
    cases hg : s.threads[tid]? with
    | none => exact h0
    | some t =>
      simp only
      have e := stepThread_eff s t
      have hle := insN_le_insCount s tid t hg
      have hse := h.strong_eq
      have hie := h.inside_eq
      generalize (stepThread s t).1 = s' at e
      generalize (stepThread s t).2 = t' at e
      cases e with
      | noop => exact h0
      | start => exact h0
      | enter t' hp hpos => omega
      | ignored => exact h0
      | leaveLast t' hp h1 => omega
      | leaveMore t' hp h1 => omega
      | unwrap t' hp hh h1 => omega
      | hdropLast t' hp hh h1 => omega
      | hdropMore t' hp hh h1 => rw [hh] at hse; simp at hse; omega
      | hdropGone => exact h0

/-- **inert after the end**: once the recorder was recovered, or dropped (count zero), every later
    registration / description through the wrapper is ignored (inert handle), in every continuation -/
theorem inert_after_end (progs : List (List Call)) (sched more : List Nat) (t : Thread) (rest : List Call)
    (h0 : (run (init progs) sched).strong = 0) (hpc : t.pc = .upgrade) (hc : t.calls = .emit :: rest) :
    let s := run (run (init progs) sched) more
    (stepThread s t).2.results = t.results ++ [Res.ignored] ∧ (stepThread s t).1 = s := by
  have hz := ended_stays_ended more _ (reachable_inv progs sched) h0
  simp only
  unfold stepThread; rw [hpc, hc]; simp [upgradeStep, hz, Thread.advance]

/-- recovery or the final drop are exactly the states with count zero and no handle -/
theorem ended_iff (progs : List (List Call)) (sched : List Nat) :
    ((run (init progs) sched).finalised > 0 ∨ (run (init progs) sched).recovered = true)
      ↔ ((run (init progs) sched).strong = 0 ∧ (run (init progs) sched).handle = false) := by
  have h := reachable_inv progs sched
  constructor
  · intro x
    have h0 := h.ended x
    refine ⟨h0, ?_⟩
    cases hh : (run (init progs) sched).handle with
    | false => rfl
    | true => have := h.strong_eq; rw [hh] at this; simp at this; omega
  · intro ⟨a, b⟩; exact h.gone a b

/-- `into_inner` succeeds as soon as it is scheduled with nobody inside (the retry loop can end) -/
theorem into_inner_returns_when_quiet (progs : List (List Call)) (sched : List Nat) (t : Thread) (rest : List Call)
    (hh : (run (init progs) sched).handle = true) (hi : (run (init progs) sched).inside = 0)
    (hpc : t.pc = .tryUnwrap) (hc : t.calls = .intoInner :: rest) :
    (stepThread (run (init progs) sched) t).1.recovered = true := by
  have h := reachable_inv progs sched
  have : (run (init progs) sched).strong = 1 := by rw [h.strong_eq, hh, hi]; simp
  unfold stepThread; rw [hpc, hc]; simp [hh, this]

/-! ### emissions in which the wrapped recorder panics, or re-enters the wrapper; `install`

The wrapper keeps no state of its own between calls: whatever a forwarded call does (return, unwind, emit again
through the same wrapper), the only thing that changes is the strong count, and it is back where it was when the
call is over.  So a thread that survived a panic of the recorder is served like any other afterwards, and a
re-entrant emission — made while the same thread holds a strong reference — can never find the recorder gone. -/

/-- the four kinds of emission (the last: a registration whose returned handle the caller keeps) -/
def isEmission (c : Call) : Prop := c = .emit ∨ c = .emitPanic ∨ c = .emitNested ∨ c = .emitKeep

/-- **live while the handle is alive, for every kind of emission** (plain, panicking recorder, re-entrant
    recorder): the upgrade succeeds and the call enters the recorder; the system takes the `enter` step -/
theorem live_while_handle_any (progs : List (List Call)) (sched : List Nat) (t : Thread) (c : Call) (rest : List Call)
    (hh : (run (init progs) sched).handle = true) (hpc : t.pc = .upgrade) (hc : t.calls = c :: rest)
    (he : isEmission c) :
    ((stepThread (run (init progs) sched) t).2.pc = .inside ∨ (stepThread (run (init progs) sched) t).2.pc = .nUpgrade)
    ∧ (stepThread (run (init progs) sched) t).1 = enter (run (init progs) sched)
    ∧ (stepThread (run (init progs) sched) t).2.results = t.results := by
  have h := reachable_inv progs sched
  have : (run (init progs) sched).strong > 0 := by rw [h.strong_eq, hh]; simp; omega
  rcases he with he | he | he | he <;> subst he <;> unfold stepThread <;> rw [hpc, hc] <;>
    simp [upgradeStep, keepUpgradeStep, this]

/-- **a panic of the wrapped recorder leaks nothing**: the unwinding call leaves the system in exactly the state a
    normal return would have left it in (strong reference released, recorder finalised iff it was the last one);
    only the thread's own result differs.  Together with `live_while_handle_any` (which asks nothing about the
    thread's history): after a panic the same thread's next emission is delivered while the handle is alive. -/
theorem panic_unwinds_like_return (s : Sys) (t : Thread) (rest : List Call)
    (hpc : t.pc = .inside) (hc : t.calls = .emitPanic :: rest) :
    (stepThread s t).1 = (stepThread s { t with calls := .emit :: rest }).1
    ∧ (stepThread s t).2.results = t.results ++ [Res.panicked]
    ∧ (stepThread s t).2.calls = rest := by
  unfold stepThread; rw [hpc, hc]; simp [leaveStep, Thread.advance, hc]

/-- **a re-entrant emission always reaches the recorder**: in every interleaving, a thread that is inside the
    recorder (outer call of an `emitNested`) and emits again through the wrapper finds the count > 0 — whatever
    happened to the handle meanwhile — enters a second time, and `into_inner` cannot succeed before both calls
    have left (`into_inner_exclusive`) -/
theorem nested_always_delivered (progs : List (List Call)) (sched : List Nat) (tid : Nat) (t : Thread) (rest : List Call)
    (hg : (run (init progs) sched).threads[tid]? = some t)
    (hpc : t.pc = .nUpgrade) (hc : t.calls = .emitNested :: rest) :
    (stepThread (run (init progs) sched) t).2.pc = .nInside
    ∧ (stepThread (run (init progs) sched) t).1 = enter (run (init progs) sched) := by
  have h := reachable_inv progs sched
  have hle := insN_le_insCount _ tid t hg
  have h1 : insN t = 1 := by simp [insN, pcIns, hpc]
  have : (run (init progs) sched).strong > 0 := by rw [h.strong_eq, h.inside_eq]; omega
  unfold stepThread; rw [hpc, hc]; simp [this]

/-- the inner call of a re-entrant emission returns to the outer call (result `nestedDelivered`), never
    finalising the recorder: the outer call still holds a reference -/
theorem nested_leave_keeps_recorder (progs : List (List Call)) (sched : List Nat) (tid : Nat) (t : Thread) (rest : List Call)
    (hg : (run (init progs) sched).threads[tid]? = some t)
    (hpc : t.pc = .nInside) (hc : t.calls = .emitNested :: rest) :
    (stepThread (run (init progs) sched) t).2.pc = .inside
    ∧ (stepThread (run (init progs) sched) t).2.results = t.results ++ [Res.nestedDelivered]
    ∧ (stepThread (run (init progs) sched) t).1.finalised = (run (init progs) sched).finalised
    ∧ (stepThread (run (init progs) sched) t).1.strong > 0 := by
  have h := reachable_inv progs sched
  have hle := insN_le_insCount _ tid t hg
  have h2 : insN t = 2 := by simp [insN, pcIns, hpc]
  have hs : (run (init progs) sched).strong ≥ 2 := by rw [h.strong_eq, h.inside_eq]; omega
  have hne : (run (init progs) sched).strong ≠ 1 := by omega
  unfold stepThread; rw [hpc, hc]; simp [release, hne]; omega

/-- **a failed install hands the recorder back intact** (last clause of the property): whatever recorder `g`
    occupies the global cell and whichever recorder `id` is being installed, `install` leaves the cell alone and
    returns recorder `id` itself, recovered through `into_inner`, finalised zero times -/
theorem failed_install_hands_back (g id : Nat) :
    install (some g) id = (some g, .handedBack id 0 true) := rfl

/-- a successful install occupies the cell; the pair then lives as `init` (handle alive, count 1), to which
    every theorem above applies -/
theorem install_success (id : Nat) (progs : List (List Call)) :
    install none id = (some id, .installed) ∧ (init progs).handle = true ∧ (init progs).strong = 1 := ⟨rfl, rfl, rfl⟩

/-- on the error path of `install` the pair is only ever in one of three states, under EVERY schedule (thread
    ids that do not exist included): built, about to try the unwrap, recovered -/
theorem failed_install_states (sched : List Nat) :
    failedInstallSys sched = failedInstallSys [] ∨ failedInstallSys sched = failedInstallSys [0]
    ∨ failedInstallSys sched = failedInstallSys [0, 0] := by
  have key : ∀ (sched : List Nat) (s : Sys),
      (s = failedInstallSys [] ∨ s = failedInstallSys [0] ∨ s = failedInstallSys [0, 0]) →
      (run s sched = failedInstallSys [] ∨ run s sched = failedInstallSys [0] ∨ run s sched = failedInstallSys [0, 0]) := by
    intro sched
    induction sched with
    | nil => intro s h; exact h
    | cons tid ts ih =>
      intro s h
      refine ih (step s tid) ?_
      rcases h with h | h | h <;> subst h <;> cases tid with
      | zero => first | exact Or.inr (Or.inl rfl) | exact Or.inr (Or.inr rfl)
      | succ n => first | exact Or.inl rfl | exact Or.inr (Or.inl rfl) | exact Or.inr (Or.inr rfl)
  exact key sched _ (Or.inl rfl)

/-- … hence, in every schedule, the recorder is never finalised by the library, nothing is ever inside it, the
    unwrap never races anything, and the very first unwrap attempt succeeds -/
theorem failed_install_intact (sched : List Nat) :
    (failedInstallSys sched).finalised = 0 ∧ (failedInstallSys sched).inside = 0
    ∧ (failedInstallSys sched).unwrapBusy = false ∧ (failedInstallSys sched).enteredAfterEnd = false
    ∧ (failedInstallSys (0 :: 0 :: sched)).recovered = true := by
  have hrec : (failedInstallSys (0 :: 0 :: sched)).recovered = true := by
    have key : ∀ (sched : List Nat) (s : Sys), s = failedInstallSys [0, 0] → run s sched = failedInstallSys [0, 0] := by
      intro sched
      induction sched with
      | nil => intro s h; exact h
      | cons tid ts ih =>
        intro s h
        refine ih (step s tid) ?_
        subst h
        cases tid with
        | zero => rfl
        | succ n => rfl
    have : failedInstallSys (0 :: 0 :: sched) = run (failedInstallSys [0, 0]) sched := rfl
    rw [this, key sched _ rfl]; rfl
  rcases failed_install_states sched with h | h | h <;> rw [h] <;> exact ⟨rfl, rfl, rfl, rfl, hrec⟩


/-! ### metric handles the caller KEEPS across the end of the recorder's life

`let c = counter!("x")` keeps the `Counter` the wrapper returned; the caller may hold it for as long as it likes, write
through it and drop it whenever it likes — also after the recovery handle was dropped or `into_inner` was called.
In the model the kept handles are part of the thread state (`Thread.kept`, one Boolean per handle: live / inert).
What the wrapper returns is the wrapped recorder's OWN handle (`src_recoverable_bodies`: the forwarding arm is the
value of the method), the strong reference of the call is a local of that arm: so the count is "handle + calls
inside" whatever is kept, and a kept handle can neither delay `into_inner`, nor delay the finalisation after a
handle drop, nor keep later registrations alive. -/

/-- handles kept by all threads together -/
def keptCount (s : Sys) : Nat := (s.threads.map (fun t => t.kept.length)).sum

/-- no thread is between its upgrade and its return (no emission is executing) -/
def quiet (s : Sys) : Prop := ∀ u ∈ s.threads, insN u = 0

/-- **a kept handle holds no reference to the recorder**: in every reachable state the strong count is one for
    the recovery handle plus one per call executing inside the recorder — the kept handles, however many, do not
    occur in it -/
theorem kept_handles_hold_no_reference (progs : List (List Call)) (sched : List Nat) :
    (run (init progs) sched).strong
      = (if (run (init progs) sched).handle then 1 else 0) + insCount (run (init progs) sched) := by
  have h := reachable_inv progs sched
  rw [h.strong_eq, h.inside_eq]

/-- the registration whose handle is kept releases its strong reference exactly like a plain emission (same
    successor state of the pair: last reference ⇒ finalised); the thread's list of kept handles grows by a live one -/
theorem keep_releases_like_emit (s : Sys) (t : Thread) (rest : List Call)
    (hpc : t.pc = .inside) (hc : t.calls = .emitKeep :: rest) :
    (stepThread s t).1 = (stepThread s { t with calls := .emit :: rest }).1
    ∧ (stepThread s t).2.results = t.results ++ [Res.delivered]
    ∧ (stepThread s t).2.kept = t.kept ++ [true]
    ∧ (stepThread s t).2.calls = rest := by
  unfold stepThread; rw [hpc, hc]; simp [leaveStep, keepLeaveStep, Thread.advance, hc]

/-- **writing through kept handles and dropping them changes nothing of the pair** (count, finalisation,
    recovery, who is inside): at whatever pc, a step of a thread whose next call is `useKept` / `dropKept` leaves
    the system as it is — in particular dropping a kept handle never finalises the recorder and never lets a
    spinning `into_inner` through, and keeping it never holds either back -/
theorem kept_use_and_drop_touch_nothing (s : Sys) (t : Thread) (c : Call) (rest : List Call)
    (hc : t.calls = c :: rest) (h : c = .useKept ∨ c = .dropKept) : (stepThread s t).1 = s := by
  rcases h with h | h <;> subst h <;> unfold stepThread <;> rw [hc] <;> cases t.pc <;> simp [useStep, kdropStep]

/-- what `useKept` answers: how many of the kept handles are live (came from the recorder) and how many inert;
    the handles stay kept -/
theorem use_counts_kept (s : Sys) (t : Thread) (rest : List Call) (hpc : t.pc = .use) (hc : t.calls = .useKept :: rest) :
    (stepThread s t).2.results
      = t.results ++ [Res.used (t.kept.filter (· == true)).length (t.kept.filter (· == false)).length]
    ∧ (stepThread s t).2.kept = t.kept := by
  unfold stepThread; rw [hpc, hc]; simp [useStep, Thread.advance]

/-- **a kept handle does not keep the recorder alive after a handle drop**: once the recovery handle is gone and
    no emission is executing, the count is zero and the recorder has been finalised (exactly once) or recovered —
    however many metric handles the threads still keep (`keptCount` is unconstrained) -/
theorem kept_handle_does_not_keep_alive (progs : List (List Call)) (sched : List Nat)
    (hh : (run (init progs) sched).handle = false) (hq : quiet (run (init progs) sched)) :
    (run (init progs) sched).strong = 0
    ∧ ((run (init progs) sched).finalised = 1 ∨ (run (init progs) sched).recovered = true) := by
  have h := reachable_inv progs sched
  have hi : (run (init progs) sched).inside = 0 := by rw [h.inside_eq]; exact insCount_zero_of_quiet _ hq
  have h0 : (run (init progs) sched).strong = 0 := by rw [h.strong_eq, hh, hi]; simp
  refine ⟨h0, ?_⟩
  rcases h.gone h0 hh with x | x
  · left; have := h.once; omega
  · right; exact x

/-- **`into_inner` returns although handles are kept**: in every reachable state in which the recovery handle is
    alive and no emission is executing — e.g. all emitters are done, each still keeping the handles it got through
    the wrapper — the next `Arc::try_unwrap` attempt of `into_inner` succeeds: the thread gets `recovered`, the
    recorder was not finalised, nobody is inside -/
theorem into_inner_returns_despite_kept_handles (progs : List (List Call)) (sched : List Nat) (tid : Nat)
    (t : Thread) (rest : List Call)
    (hg : (run (init progs) sched).threads[tid]? = some t)
    (hh : (run (init progs) sched).handle = true) (hq : quiet (run (init progs) sched))
    (hpc : t.pc = .tryUnwrap) (hc : t.calls = .intoInner :: rest) :
    (step (run (init progs) sched) tid).recovered = true
    ∧ (step (run (init progs) sched) tid).finalised = 0
    ∧ (step (run (init progs) sched) tid).strong = 0
    ∧ (stepThread (run (init progs) sched) t).2.results = t.results ++ [Res.recovered] := by
  have h := reachable_inv progs sched
  have hi : (run (init progs) sched).inside = 0 := by rw [h.inside_eq]; exact insCount_zero_of_quiet _ hq
  have h1 : (run (init progs) sched).strong = 1 := by rw [h.strong_eq, hh, hi]; simp
  have hf := (h.handle_live hh).1
  unfold step; rw [hg]; simp only
  unfold stepThread; rw [hpc, hc]; simp [hh, h1, hf, Thread.advance]

/-- **inert after the end, kept handles included**: once the count is zero (recovered, or dropped for good), a
    registration whose handle is kept is ignored in every continuation, the pair is untouched, and what the caller
    keeps is an inert handle -/
theorem inert_after_end_keep (progs : List (List Call)) (sched more : List Nat) (t : Thread) (rest : List Call)
    (h0 : (run (init progs) sched).strong = 0) (hpc : t.pc = .upgrade) (hc : t.calls = .emitKeep :: rest) :
    let s := run (run (init progs) sched) more
    (stepThread s t).2.results = t.results ++ [Res.ignored] ∧ (stepThread s t).2.kept = t.kept ++ [false]
    ∧ (stepThread s t).1 = s := by
  have hz := ended_stays_ended more _ (reachable_inv progs sched) h0
  simp only
  unfold stepThread; rw [hpc, hc]; simp [keepUpgradeStep, hz, Thread.advance]

/-- the kept list tells the truth about every handle in it: a step appends `true` only when the registration was
    inside the recorder, `false` only when the count was zero -/
theorem kept_grows_truthfully (s : Sys) (t : Thread) (b : Bool)
    (h : (stepThread s t).2.kept = t.kept ++ [b]) :
    (b = true → t.pc = .inside) ∧ (b = false → s.strong = 0 ∧ t.pc = .upgrade) := by
  have key : ∀ (l : List Bool) (x : Bool), l ≠ l ++ [x] := by
    intro l x hx; have := congrArg List.length hx; simp at this
  revert h
  unfold stepThread
  split <;> try (intro h; exact absurd h (key _ _))
  all_goals first
    | (unfold upgradeStep; split <;> intro h <;> exact absurd h (key _ _))
    | (unfold leaveStep; intro h; exact absurd h (key _ _))
    | (split <;> intro h <;> exact absurd h (key _ _))
    | (unfold deepUpStep; split <;> (try split) <;> intro h <;> exact absurd h (key _ _))
    | (unfold deepLeaveStep; split <;> intro h <;> exact absurd h (key _ _))
    | (unfold dropInsideStep; simp only; split <;> intro h <;> exact absurd h (key _ _))
    | (unfold intoInsideStep; split <;> intro h <;> exact absurd h (key _ _))
    | skip
  · rename_i rest hp hc
    unfold keepUpgradeStep
    split
    · intro h; exact absurd h (key _ _)
    · rename_i hs
      intro h
      have hb : b = false := by
        have := List.append_cancel_left h; simpa using this.symm
      subst hb
      exact ⟨by simp, fun _ => ⟨by omega, hp⟩⟩
  · rename_i rest hp hc
    unfold keepLeaveStep
    intro h
    have hb : b = true := by
      have := List.append_cancel_left h; simpa using this.symm
    subst hb
    exact ⟨fun _ => hp, by simp⟩
  · unfold kdropStep
    intro h
    have := congrArg List.length h
    simp at this

/-! ### what every complete schedule ends with (round 6)

A free-running round of the harness has no schedule to replay; the driver's `recover free` answers with what the
round-robin schedule gives.  That is sound because of the theorems below: once every thread has run its program to
the end, (finalised, recovered) is a function of the PROGRAMS alone (`completeOutcome`), whatever the interleaving
was; `late` / `busy` are false in every state anyway.  The invariant behind it: the handle is gone exactly when an
end call was executed (some thread got the answer `recovered` or `dropped`), and answers + calls still to make stay
in balance with what the programs contain (`Proofs/Recoverable.lean: EndInv`). -/

theorem reachable_endInv (progs : List (List Call)) (sched : List Nat) : EndInv progs (run (init progs) sched) :=
  run_endInv progs sched _ (init_endInv progs)

/-- every thread has run its program to the end -/
def complete (s : Sys) : Prop := ∀ t ∈ s.threads, t.pc = .done

theorem sumT_congr (f g : Thread → Nat) (s : Sys) (h : ∀ t ∈ s.threads, f t = g t) : sumT f s = sumT g s := by
  unfold sumT
  generalize s.threads = l at h
  induction l with
  | nil => rfl
  | cons x xs ih =>
    simp only [List.map_cons, List.sum_cons]
    rw [h x (by simp), ih (fun t ht => h t (by simp [ht]))]

theorem sumT_add (f g : Thread → Nat) (s : Sys) : sumT (fun t => f t + g t) s = sumT f s + sumT g s := by
  unfold sumT
  generalize s.threads = l
  induction l with
  | nil => rfl
  | cons x xs ih => simp only [List.map_cons, List.sum_cons, ih]; omega

/-- **the handle is gone exactly when an end call was executed**: in every reachable state, `handle = false` iff
    the threads together have received at least one `recovered` / `dropped` answer; and the recorder counts as
    recovered iff exactly one `recovered` answer was handed out -/
theorem handle_gone_iff_end_executed (progs : List (List Call)) (sched : List Nat) :
    ((run (init progs) sched).handle = false
        ↔ sumT recN (run (init progs) sched) + sumT drpN (run (init progs) sched) > 0)
    ∧ sumT recN (run (init progs) sched) = (if (run (init progs) sched).recovered then 1 else 0) := by
  have h := reachable_endInv progs sched
  refine ⟨?_, h.rec_flag⟩
  rw [← sumT_add]; exact h.handle_iff

/-- **all complete schedules end alike**: if every thread has run its program to the end, then (finalised, recovered)
    is `completeOutcome progs` — (0, recovered) if the programs contain an `into_inner`, else (1, not recovered) if
    they contain a handle drop (plain or from inside a forwarded call), else (0, not recovered): the handle is
    still alive — and no call entered late, no unwrap was busy.  Unbounded: any programs, any schedule. -/
theorem complete_outcome (progs : List (List Call)) (sched : List Nat)
    (hc : complete (run (init progs) sched)) :
    ((run (init progs) sched).finalised, (run (init progs) sched).recovered) = completeOutcome progs
    ∧ (run (init progs) sched).enteredAfterEnd = false ∧ (run (init progs) sched).unwrapBusy = false := by
  have h := reachable_endInv progs sched
  refine ⟨?_, h.inv.no_late_entry, h.inv.no_busy_unwrap⟩
  generalize run (init progs) sched = s at h hc
  have hcalls : ∀ t ∈ s.threads, t.calls = [] := fun t ht => h.done_ok t ht (hc t ht)
  have hq : ∀ u ∈ s.threads, insN u = 0 := fun u hu => by simp [insN, hc u hu, pcIns]
  have hi : s.inside = 0 := by rw [h.inv.inside_eq]; exact insCount_zero_of_quiet s hq
  have e1 : sumT recN s = iiTotal progs := by
    rw [← h.ii_bal]; exact sumT_congr _ _ s (fun t ht => by simp [iiLeft, hcalls t ht])
  have e0 : sumT (fun t => drpN t + dhLeft t) s = sumT drpN s :=
    sumT_congr _ _ s (fun t ht => by simp [dhLeft, hcalls t ht])
  have e2 := h.dh_le
  have e3 := h.dh_eq
  rw [e0] at e2 e3
  have e4 := h.handle_iff
  rw [sumT_add] at e4
  have hrf := h.rec_flag
  have hse := h.inv.strong_eq
  have honce := h.inv.once
  unfold completeOutcome
  by_cases c1 : iiTotal progs > 0
  · have hr : s.recovered = true := by
      cases hr : s.recovered with
      | true => rfl
      | false => rw [hr] at hrf; simp at hrf; omega
    rw [hr] at honce
    simp only [if_true] at honce
    have hf : s.finalised = 0 := by omega
    simp [c1, hr, hf]
  · have hr : s.recovered = false := by
      cases hr : s.recovered with
      | false => rfl
      | true => rw [hr] at hrf; simp at hrf; omega
    by_cases c2 : dhTotal progs > 0
    · have hh : s.handle = false := by
        rcases e3 with x | x
        · exact e4.2 (by omega)
        · exact x
      have h0 : s.strong = 0 := by rw [hse, hh, hi]; simp
      have hf : s.finalised = 1 := by
        rcases h.inv.gone h0 hh with x | x
        · rw [hr] at honce; simp at honce; omega
        · rw [hr] at x; cases x
      simp [c1, c2, hr, hf]
    · have hh : s.handle = true := by
        cases hh : s.handle with
        | true => rfl
        | false => have := e4.1 hh; omega
      have hl := h.inv.handle_live hh
      simp [c1, c2, hr, hl.1]

/-- … so any two complete schedules of the same programs agree on everything a free-running round reports -/
theorem complete_schedules_agree (progs : List (List Call)) (s1 s2 : List Nat)
    (h1 : complete (run (init progs) s1)) (h2 : complete (run (init progs) s2)) :
    (run (init progs) s1).finalised = (run (init progs) s2).finalised
    ∧ (run (init progs) s1).recovered = (run (init progs) s2).recovered
    ∧ (run (init progs) s1).enteredAfterEnd = (run (init progs) s2).enteredAfterEnd
    ∧ (run (init progs) s1).unwrapBusy = (run (init progs) s2).unwrapBusy := by
  have a := complete_outcome progs s1 h1
  have b := complete_outcome progs s2 h2
  have e := a.1.trans b.1.symm
  simp only [Prod.mk.injEq] at e
  exact ⟨e.1, e.2, by rw [a.2.1, b.2.1], by rw [a.2.2, b.2.2]⟩

/-- a schedule can only be complete if the programs ask for `into_inner` at most once (a second one spins for ever) -/
theorem complete_needs_single_into_inner (progs : List (List Call)) (sched : List Nat)
    (hc : complete (run (init progs) sched)) : iiTotal progs ≤ 1 := by
  have h := reachable_endInv progs sched
  generalize run (init progs) sched = s at h hc
  have hcalls : ∀ t ∈ s.threads, t.calls = [] := fun t ht => h.done_ok t ht (hc t ht)
  have e1 : sumT recN s = iiTotal progs := by
    rw [← h.ii_bal]; exact sumT_congr _ _ s (fun t ht => by simp [iiLeft, hcalls t ht])
  have hrf := h.rec_flag
  cases hr : s.recovered <;> rw [hr] at hrf <;> simp at hrf <;> omega

/-! ### re-entrancy deeper than one level; ending the handle's life from INSIDE a forwarded call (round 6)

`emitDeep d`: the recorder's own emission re-enters the recorder, which emits again, … `d` levels (the thread holds
up to `d + 1` references).  `emitDropInside`: the recorder drops the RecoveryHandle from inside a forwarded call.
`emitIntoInside`: the recorder calls `into_inner` from inside a forwarded call.  The invariant `Inv` (count = handle
+ calls inside, per-thread share `pcIns`) was re-proved over the larger machine; the statements: -/

/-- the three new kinds of emission -/
def isReentrant (c : Call) : Prop := (∃ d, c = .emitDeep d) ∨ c = .emitDropInside ∨ c = .emitIntoInside

/-- **live while the handle is alive**, for the new kinds too: the upgrade succeeds, the system takes the `enter`
    step, the thread is inside once -/
theorem live_while_handle_reentrant (progs : List (List Call)) (sched : List Nat) (t : Thread) (c : Call) (rest : List Call)
    (hh : (run (init progs) sched).handle = true) (hpc : t.pc = .upgrade) (hc : t.calls = c :: rest)
    (he : isReentrant c) :
    (stepThread (run (init progs) sched) t).1 = enter (run (init progs) sched)
    ∧ (stepThread (run (init progs) sched) t).2.results = t.results
    ∧ insN (stepThread (run (init progs) sched) t).2 = 1 := by
  have h := reachable_inv progs sched
  have : (run (init progs) sched).strong > 0 := by rw [h.strong_eq, hh]; simp; omega
  rcases he with ⟨d, he⟩ | he | he <;> subst he <;> unfold stepThread <;> rw [hpc, hc]
  · by_cases h0 : d = 0 <;> simp [upgradeStep, this, insN, pcIns, h0]
  · simp [upgradeStep, this, insN, pcIns]
  · simp [upgradeStep, this, insN, pcIns]

/-- **a re-entrant emission reaches the recorder at every depth**: a thread that is inside the recorder `k ≥ 1` times
    and emits once more through the wrapper finds the count > 0 in every interleaving — whatever happened to the
    handle meanwhile — and enters a `k + 1`-th time -/
theorem deep_nested_always_delivered (progs : List (List Call)) (sched : List Nat) (tid : Nat) (t : Thread)
    (k d : Nat) (rest : List Call)
    (hg : (run (init progs) sched).threads[tid]? = some t)
    (hpc : t.pc = .dUp k) (hk : k ≥ 1) (hc : t.calls = .emitDeep d :: rest) :
    (stepThread (run (init progs) sched) t).1 = enter (run (init progs) sched)
    ∧ insN (stepThread (run (init progs) sched) t).2 = k + 1
    ∧ (stepThread (run (init progs) sched) t).2.results = t.results := by
  have h := reachable_inv progs sched
  have hle := insN_le_insCount _ tid t hg
  have h1 : insN t = k := by simp [insN, pcIns, hpc]
  have : (run (init progs) sched).strong > 0 := by rw [h.strong_eq, h.inside_eq]; omega
  have hk0 : k ≠ 0 := by omega
  unfold stepThread; rw [hpc, hc]
  by_cases h0 : k + 1 > d <;> simp [deepUpStep, this, hk0, insN, pcIns, h0]

/-- the innermost of `k ≥ 2` calls returns to the one around it (`nestedDelivered`), never finalising the recorder:
    the calls around it still hold references -/
theorem deep_leave_keeps_recorder (progs : List (List Call)) (sched : List Nat) (tid : Nat) (t : Thread)
    (k d : Nat) (rest : List Call)
    (hg : (run (init progs) sched).threads[tid]? = some t)
    (hpc : t.pc = .dIn k) (hk : k ≥ 2) (hc : t.calls = .emitDeep d :: rest) :
    (stepThread (run (init progs) sched) t).2.results = t.results ++ [Res.nestedDelivered]
    ∧ insN (stepThread (run (init progs) sched) t).2 = k - 1
    ∧ (stepThread (run (init progs) sched) t).1.finalised = (run (init progs) sched).finalised
    ∧ (stepThread (run (init progs) sched) t).1.strong > 0 := by
  have h := reachable_inv progs sched
  have hle := insN_le_insCount _ tid t hg
  have h2 : insN t = k := by simp [insN, pcIns, hpc]
  have hs : (run (init progs) sched).strong ≥ 2 := by rw [h.strong_eq, h.inside_eq]; omega
  have hne : (run (init progs) sched).strong ≠ 1 := by omega
  have hk2 : ¬ k < 2 := by omega
  unfold stepThread; rw [hpc, hc]
  by_cases h0 : k = 2
  · simp [deepLeaveStep, release, hne, hk2, insN, pcIns, h0]; omega
  · simp [deepLeaveStep, release, hne, hk2, insN, pcIns, h0]; omega

/-- **`drop(handle)` from inside a forwarded call defers the finalisation to the return of that call**: the handle
    is gone, the recorder is NOT finalised by that step (the call itself holds a reference: count > 0 afterwards),
    nobody left the recorder; what is left of the call is the return of a plain emission, which finalises the
    recorder iff it is the last one out (`keep_releases_like_emit` / `inert_after_handle_drop_partial`) -/
theorem drop_inside_defers_finalisation (progs : List (List Call)) (sched : List Nat) (tid : Nat) (t : Thread)
    (rest : List Call)
    (hg : (run (init progs) sched).threads[tid]? = some t)
    (hpc : t.pc = .iHdrop) (hc : t.calls = .emitDropInside :: rest) :
    (stepThread (run (init progs) sched) t).1.handle = false
    ∧ (stepThread (run (init progs) sched) t).1.finalised = (run (init progs) sched).finalised
    ∧ (stepThread (run (init progs) sched) t).1.strong > 0
    ∧ (stepThread (run (init progs) sched) t).1.inside = (run (init progs) sched).inside
    ∧ (stepThread (run (init progs) sched) t).2.results = t.results ++ [Res.dropped]
    ∧ (stepThread (run (init progs) sched) t).2.pc = .inside
    ∧ (stepThread (run (init progs) sched) t).2.calls = .emit :: rest := by
  have h := reachable_inv progs sched
  have hle := insN_le_insCount _ tid t hg
  have h1 : insN t = 1 := by simp [insN, pcIns, hpc]
  have hse := h.strong_eq
  have hie := h.inside_eq
  unfold stepThread; rw [hpc, hc]
  simp only [dropInsideStep]
  cases hh : (run (init progs) sched).handle with
  | true =>
    rw [hh] at hse; simp only [if_true] at hse
    have hne : (run (init progs) sched).strong ≠ 1 := by omega
    simp [release, hne]; omega
  | false =>
    rw [hh] at hse
    simp [hh]; simp at hse; omega

/-- one attempt of an `into_inner` called from inside a forwarded call fails, in every state satisfying the invariant:
    the calling thread holds a reference itself, so the count is not 1 while the handle exists -/
theorem iTry_retries (s : Sys) (hinv : Recoverable.Inv s) (tid : Nat) (t : Thread) (rest : List Call)
    (hg : s.threads[tid]? = some t) (hpc : t.pc = .iTry) (hc : t.calls = .emitIntoInside :: rest) :
    stepThread s t = (s, t) ∧ s.recovered = false ∧ s.finalised = 0 := by
  have hle := insN_le_insCount s tid t hg
  have h1 : insN t = 1 := by simp [insN, pcIns, hpc]
  have hse := hinv.strong_eq
  have hie := hinv.inside_eq
  have hpos : s.strong > 0 := by omega
  have hnotended : ¬ (s.finalised > 0 ∨ s.recovered = true) := fun x => by have := hinv.ended x; omega
  refine ⟨?_, ?_, by omega⟩
  · unfold stepThread; rw [hpc, hc]
    simp only [intoInsideStep]
    cases hh : s.handle with
    | false => simp
    | true =>
      rw [hh] at hse; simp only [if_true] at hse
      have hne : s.strong ≠ 1 := by omega
      simp [hne]
  · cases hr : s.recovered with
    | false => rfl
    | true => exact absurd (Or.inr hr) hnotended

/-- **`into_inner` called from inside a forwarded call never returns**: in every interleaving every one of its
    attempts fails (nothing changes), and while it tries the recorder is neither recovered nor finalised -/
theorem into_inner_from_inside_never_returns (progs : List (List Call)) (sched : List Nat) (tid : Nat) (t : Thread)
    (rest : List Call)
    (hg : (run (init progs) sched).threads[tid]? = some t)
    (hpc : t.pc = .iTry) (hc : t.calls = .emitIntoInside :: rest) :
    stepThread (run (init progs) sched) t = (run (init progs) sched, t)
    ∧ (run (init progs) sched).recovered = false ∧ (run (init progs) sched).finalised = 0 :=
  iTry_retries _ (reachable_inv progs sched) tid t rest hg hpc hc

/-- … for ever: whatever the other threads do afterwards (any continuation `more`), the thread is still at the head
    of the retry loop, the recorder is never recovered and never finalised — the pair is blocked for good
    (consistent with "into_inner returns only when no emission is executing": its own call is) -/
theorem into_inner_from_inside_blocks_forever (progs : List (List Call)) (sched more : List Nat) (tid : Nat)
    (t : Thread) (rest : List Call)
    (hg : (run (init progs) sched).threads[tid]? = some t)
    (hpc : t.pc = .iTry) (hc : t.calls = .emitIntoInside :: rest) :
    (run (run (init progs) sched) more).threads[tid]? = some t
    ∧ (run (run (init progs) sched) more).recovered = false
    ∧ (run (run (init progs) sched) more).finalised = 0 := by
  have key : ∀ (more : List Nat) (s : Sys), Recoverable.Inv s → s.threads[tid]? = some t →
      Recoverable.Inv (run s more) ∧ (run s more).threads[tid]? = some t := by
    intro more
    induction more with
    | nil => intro s hi hg; exact ⟨hi, hg⟩
    | cons u us ih =>
      intro s hi hg
      refine ih (step s u) (step_inv s u hi) ?_
      cases hu : s.threads[u]? with
      | none => have : step s u = s := by unfold step; rw [hu]
                rw [this]; exact hg
      | some tu =>
        rw [step_some s u tu hu]
        simp only [stepThread_threads]
        rw [getElem?_setAt]
        by_cases huv : u = tid
        · subst huv
          rw [hg] at hu
          have htu : tu = t := (Option.some.inj hu).symm
          subst htu
          rw [(iTry_retries s hi u tu rest hg hpc hc).1]
          split <;> simp [hg]
        · have : ¬ (u = tid ∧ tid < s.threads.length) := fun x => huv x.1
          rw [if_neg this]; exact hg
  have ⟨hi, hg'⟩ := key more _ (reachable_inv progs sched) hg
  have r := iTry_retries _ hi tid t rest hg' hpc hc
  exact ⟨hg', r.2.1, r.2.2⟩

/-- **nothing enters once the end began — the finalising thread's own emissions included**: in every reachable state in
    which the recorder is being / has been finalised or was recovered, an emission of ANY kind that starts (a thread
    at `weak.upgrade` — e.g. the thread running the recorder's destructor, emitting through the wrapper from
    there) is answered with an inert handle and changes nothing -/
theorem emission_after_end_ignored (progs : List (List Call)) (sched : List Nat) (t : Thread) (c : Call) (rest : List Call)
    (he : (run (init progs) sched).finalised > 0 ∨ (run (init progs) sched).recovered = true)
    (hpc : t.pc = .upgrade) (hc : t.calls = c :: rest)
    (hk : c = .emit ∨ c = .emitPanic ∨ c = .emitNested ∨ isReentrant c) :
    (stepThread (run (init progs) sched) t).1 = run (init progs) sched
    ∧ (stepThread (run (init progs) sched) t).2.results = t.results ++ [Res.ignored] := by
  have h0 := (reachable_inv progs sched).ended he
  rcases hk with hk | hk | hk | ⟨d, hk⟩ | hk | hk <;> subst hk <;> unfold stepThread <;> rw [hpc, hc] <;>
    simp [upgradeStep, h0, Thread.advance]

/-! ### the full statement "after the handle is dropped … ignored" is FALSE of the code (known finding)

The property text says registrations are ignored "after it returns, or after the handle is dropped".  For
`into_inner` that is `inert_after_end`.  For a plain handle drop the code keeps the recorder alive while an
emission is still inside, and an emission that STARTS after the drop is still delivered.  Witness (kernel-
evaluated, replayed on the real code by the harness as K-C20-late-delivery): -/

theorem late_delivery_after_handle_drop :
    let s := run (init [[.emit], [.dropHandle], [.emit]]) [0, 1, 2, 0, 1, 2, 2, 0]
    -- thread 1 dropped the handle (step 5) before thread 2's emission began (step 6) …
    s.threads.map (·.results) = [[.delivered], [.dropped], [.delivered]]
    -- … the recorder is still finalised exactly once, after the last call left it
    ∧ s.finalised = 1 ∧ s.enteredAfterEnd = false := by decide

/-- what does hold after a handle drop (`…_partial`): as soon as nobody is inside any more, the recorder
    is finalised and everything later is ignored -/
theorem inert_after_handle_drop_partial (progs : List (List Call)) (sched : List Nat)
    (hh : (run (init progs) sched).handle = false) (hi : (run (init progs) sched).inside = 0) :
    (run (init progs) sched).strong = 0
    ∧ ((run (init progs) sched).finalised = 1 ∨ (run (init progs) sched).recovered = true) := by
  have h := reachable_inv progs sched
  have h0 : (run (init progs) sched).strong = 0 := by rw [h.strong_eq, hh, hi]; simp
  refine ⟨h0, ?_⟩
  rcases h.gone h0 hh with x | x
  · left; have := h.once; omega
  · right; exact x

/-! ### non-vacuity -/

example :
    let s := run (init [[.emit, .emit], [.intoInner], [.emit]]) [0, 1, 2, 0, 1, 1, 0, 1, 2, 0, 0]
    s.threads.map (·.results) = [[.delivered, .ignored], [.recovered], [.ignored]]
    ∧ s.recovered = true ∧ s.finalised = 0 ∧ s.unwrapBusy = false := by decide


example :   -- a recorder that panics, then the same thread emits again; a re-entrant emission racing into_inner
    let s := run (init [[.emitPanic, .emit], [.emitNested], [.intoInner]]) [0, 1, 2, 0, 1, 2, 0, 1, 2, 1, 0, 0, 1, 2, 2, 0]
    s.threads.map (·.results) = [[.panicked, .delivered], [.nestedDelivered, .delivered], [.recovered]]
    ∧ s.recovered = true ∧ s.finalised = 0 ∧ s.unwrapBusy = false := by decide

example :   -- handles kept across into_inner: it returns at its first attempt, the kept handle stays live, later registrations are inert
    let s := run (init [[.emitKeep, .useKept, .emitKeep, .useKept, .dropKept, .emit], [.intoInner]]) [0, 0, 0, 1, 1, 0, 0, 0, 0, 0]
    s.threads.map (·.results) = [[.delivered, .used 1 0, .ignored, .used 1 1, .keptDropped 2, .ignored], [.recovered]]
    ∧ s.recovered = true ∧ s.finalised = 0 ∧ s.strong = 0 := by decide

example :   -- handles kept across a handle drop: finalised at the drop (nobody inside), not when the kept handle goes
    let s := run (init [[.emitKeep], [.dropHandle], [.emitKeep]]) [0, 0, 0, 1, 1, 2, 2]
    s.threads.map (·.results) = [[.delivered], [.dropped], [.ignored]]
    ∧ s.threads.map (·.kept) = [[true], [], [false]] ∧ keptCount s = 2 ∧ s.finalised = 1 ∧ s.strong = 0 := by decide

example :   -- re-entrancy three levels deep racing into_inner: four references held by one thread, into_inner waits them all out
    let s := run (init [[.emitDeep 3], [.intoInner]]) [0, 0, 0, 0, 0, 1, 1, 1, 0, 0, 0, 0, 1]
    s.threads.map (·.results) = [[.nestedDelivered, .nestedDelivered, .nestedDelivered, .delivered], [.recovered]]
    ∧ s.recovered = true ∧ s.finalised = 0 ∧ s.unwrapBusy = false ∧ s.threads.map (·.pc) = [.done, .done] := by decide

example :   -- the recorder drops the handle from inside a forwarded call: finalised at the return of the last call, once
    let s := run (init [[.emitDropInside], [.emit]]) [0, 0, 0, 1, 1, 1, 0]
    s.threads.map (·.results) = [[.dropped, .delivered], [.delivered]]
    ∧ s.finalised = 1 ∧ s.enteredAfterEnd = false ∧ (s.finalised, s.recovered) = completeOutcome [[.emitDropInside], [.emit]] := by decide

example :   -- into_inner from inside a forwarded call: stuck at the retry loop, nothing recovered, nothing finalised
    let s := run (init [[.emitIntoInside, .emit], [.emit]]) [0, 0, 0, 0, 0, 1, 1, 1, 0, 0]
    s.threads.map (·.results) = [[], [.delivered]] ∧ s.threads.map (·.pc) = [.iTry, .done]
    ∧ s.recovered = false ∧ s.finalised = 0 ∧ s.strong = 2 := by decide

example : completeOutcome [[.emit], [.dropHandle], [.emit]] = (1, false)
    ∧ completeOutcome [[.emit, .intoInner], [.dropHandle]] = (0, true) ∧ completeOutcome [[.emit], [.emitKeep]] = (0, false) := by decide

example : install none 7 = (some 7, .installed) ∧ install (some 7) 9 = (some 7, .handedBack 9 0 true) := by decide


/-! ### source facts (regenerated from /repo on every run)

The step machine has ONE emission shape: upgrade the weak reference, call the wrapped recorder, drop the strong
reference; and `into_inner` retries `Arc::try_unwrap`.  The translator lists, for each of the six `Recorder`
methods of `WeakRecorder`, the calls it makes: each must upgrade first and forward to its namesake (and the
register methods fall back to the no-op handle of their own kind). -/

theorem src_weak_forwarding :
    Generated.weak_forwarding =
      [("describe_counter", "recorder.upgrade recorder.describe_counter"),
       ("describe_gauge", "recorder.upgrade recorder.describe_gauge"),
       ("describe_histogram", "recorder.upgrade recorder.describe_histogram"),
       ("register_counter", "recorder.upgrade recorder.register_counter noop:Counter"),
       ("register_gauge", "recorder.upgrade recorder.register_gauge noop:Gauge"),
       ("register_histogram", "recorder.upgrade recorder.register_histogram noop:Histogram")]
    ∧ Generated.recover_into_inner_calls = ["Arc::try_unwrap"] := by decide

/-- the whole bodies behind the step machine (comments and the cfg(metrics_verif) yield points removed, whitespace
    collapsed).  They pin what calling names alone cannot: the handle RETURNED by the wrapped recorder is the
    value of the forwarding arm (not thrown away), the arguments are passed on untouched, `into_inner` is a bare
    retry loop around `Arc::try_unwrap` with no counter / give-up branch, `install` returns the handle on `Ok` and
    on `Err` recovers through `into_inner` and hands that very recorder back, `build` moves the one `Arc` into the
    handle and gives the wrapper only a `Weak`; and the file has no `unsafe`, `transmute`, `ptr::read`,
    `mem::forget`, `ManuallyDrop`, thread-local or static state, `Drop` impl or `Arc` clone — exactly one `Arc::new`. -/
theorem src_recoverable_bodies :
    Generated.recover_into_inner_body
      = "{ loop { match Arc::try_unwrap(self.handle) { Ok(recorder) => break recorder, Err(handle) => { self.handle = handle; } } } }"
    ∧ Generated.recover_install_body
      = "{ let (wrapped, handle) = self.build(); match metrics::set_global_recorder(wrapped) { Ok(()) => Ok(handle), Err(_) => { let recorder = handle.into_inner(); Err(SetRecorderError(recorder)) } } }"
    ∧ Generated.recover_build_body
      = "{ let wrapped = WeakRecorder::from_arc(&self.handle); (wrapped, RecoveryHandle { handle: self.handle }) }"
    ∧ Generated.recover_from_arc_body = "{ Self { recorder: Arc::downgrade(recorder) } }"
    ∧ Generated.weak_bodies =
      [("describe_counter", "{ if let Some(recorder) = self.recorder.upgrade() { recorder.describe_counter(key, unit, description); } }"),
       ("describe_gauge", "{ if let Some(recorder) = self.recorder.upgrade() { recorder.describe_gauge(key, unit, description); } }"),
       ("describe_histogram", "{ if let Some(recorder) = self.recorder.upgrade() { recorder.describe_histogram(key, unit, description); } }"),
       ("register_counter", "{ if let Some(recorder) = self.recorder.upgrade() { recorder.register_counter(key, metadata) } else { Counter::noop() } }"),
       ("register_gauge", "{ if let Some(recorder) = self.recorder.upgrade() { recorder.register_gauge(key, metadata) } else { Gauge::noop() } }"),
       ("register_histogram", "{ if let Some(recorder) = self.recorder.upgrade() { recorder.register_histogram(key, metadata) } else { Histogram::noop() } }")]
    ∧ Generated.recover_file_flagged_tokens = ["Arc::new"] := ⟨rfl, rfl, rfl, rfl, rfl, rfl⟩

/-- round 6 — what the bodies above do not pin: the constructor (`new` wraps the recorder in ONE `Arc` and does nothing
    else — no size-, type- or otherwise keyed branch), the three type definitions (the handle and the builder own an
    `Arc<R>`, the wrapper a `Weak<R>`; no further field), that `Arc` / `Weak` are `std::sync`'s, and that the non-test
    part of the file has no other way for a strong reference to escape the count protocol (`Box::leak`, raw pointers,
    `size_of`, `strong_count`, an `upgrade` outside the six per-call ones, …) -/
theorem src_recoverable_new_and_types :
    Generated.recover_new_body = "{ Self { handle: Arc::new(recorder) } }"
    ∧ Generated.recover_structs =
      ["#[derive(Debug)] pub struct RecoveryHandle<R> { handle: Arc<R>, }",
       "#[derive(Debug)] pub struct RecoverableRecorder<R> { handle: Arc<R>, }",
       "#[derive(Debug)] struct WeakRecorder<R> { recorder: Weak<R>, }"]
    ∧ Generated.recover_std_uses = ["use std::sync::{Arc, Weak};"]
    ∧ Generated.recover_count_escape_tokens
      = ["downgrade", ".upgrade()", ".upgrade()", ".upgrade()", ".upgrade()", ".upgrade()", ".upgrade()"] :=
  ⟨rfl, rfl, rfl, rfl⟩

end MetricsVerif.C20
