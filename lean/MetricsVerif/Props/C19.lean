/-
C19 — debugging snapshots show every registered metric with its true current state.

Model: `Model/Debugging.lean` (sequential state machine of `DebuggingRecorder` / `Snapshotter`).  Every theorem
is for ALL sequences of describe / register / update / snapshot calls, any keys (the same name under several
kinds, keys equal up to `Key::eq` given in different forms), any values.  A key is identified by `canonKey`
(labels sorted by label name), which is `Key::eq` for label lists with pairwise distinct names.
Arithmetic on gauge values is exact (dyadic rationals); IEEE rounding is outside the model.
A snapshot racing a `record()` is the composition with the bucket model (C05).
-/
import MetricsVerif.Proofs.Debugging
import MetricsVerif.Generated.SourceFacts
import MetricsVerif.Props.C19Conc

namespace MetricsVerif.C19
open MetricsVerif.Debugging MetricsVerif.PromFmt
open MetricsVerif.Prom (Str Val MKey lookup upsert two64)

theorem run_cons (s : St) (op : Op) (ops : List Op) : run s (op :: ops) = run (step s op) ops := rfl
theorem run_append (s : St) (a b : List Op) : run s (a ++ b) = run (run s a) b := by
  simp [run, List.foldl_append]
theorem run_snoc (s : St) (a : List Op) (op : Op) : run s (a ++ [op]) = step (run s a) op := by
  simp [run, List.foldl_append]

/-- a snapshot taken after the history `ops` on a fresh recorder -/
def snapshotAfter (ops : List Op) : List Entry := output (run init ops) .snapshot

/-- identity `(kind, canonical key)` of a snapshot entry -/
def Entry.id (e : Entry) : Id := (e.kind, e.key)

/-! ## which metrics a snapshot lists, and in which order -/

/-- the metrics registered by a history, in order of first registration: every call that registers
    `(kind, key)` appends it unless it is already there -/
def registered (ops : List Op) : List Id := ops.foldl specSeen []

theorem seen_refines_gen (ops : List Op) : ∀ s, keys (run s ops).seen = ops.foldl specSeen (keys s.seen) := by
  induction ops with
  | nil => intro s; rfl
  | cons op ops ih => intro s; rw [run_cons, ih, step_seen_keys]; rfl

/-- `seen` is the list of registered metrics in first-registration order, for any history -/
theorem seen_refines (ops : List Op) : keys (run init ops).seen = registered ops :=
  seen_refines_gen ops init

theorem specSeen_mem (acc : List Id) (op : Op) (i : Id) :
    i ∈ specSeen acc op ↔ i ∈ acc ∨ opId op = some i := by
  unfold specSeen
  cases h : opId op with
  | none => simp
  | some j =>
    by_cases hj : j ∈ acc
    · simp only [hj, if_true, Option.some.injEq]
      constructor
      · exact Or.inl
      · rintro (h1 | h1)
        · exact h1
        · exact h1 ▸ hj
    · simp only [hj, if_false, List.mem_append, List.mem_singleton, Option.some.injEq]
      constructor
      · rintro (h1 | h1)
        · exact Or.inl h1
        · exact Or.inr h1.symm
      · rintro (h1 | h1)
        · exact Or.inl h1
        · exact Or.inr h1.symm

theorem foldl_specSeen_mem (ops : List Op) (i : Id) :
    ∀ acc, i ∈ ops.foldl specSeen acc ↔ i ∈ acc ∨ ∃ op ∈ ops, opId op = some i := by
  induction ops with
  | nil => intro acc; simp
  | cons op ops ih =>
    intro acc
    simp only [List.foldl_cons, ih, specSeen_mem, List.mem_cons, exists_eq_or_imp]
    constructor
    · rintro ((h | h) | h)
      · exact Or.inl h
      · exact Or.inr (Or.inl h)
      · exact Or.inr (Or.inr h)
    · rintro (h | h | h)
      · exact Or.inl (Or.inl h)
      · exact Or.inl (Or.inr h)
      · exact Or.inr h

/-- a metric is in the list iff some call of the history registered it; in particular a `(kind, key)`
    that was only described (or never mentioned) is not -/
theorem registered_iff (ops : List Op) (i : Id) :
    i ∈ registered ops ↔ ∃ op ∈ ops, opId op = some i := by
  simp [registered, foldl_specSeen_mem]

/-- describing registers nothing -/
theorem describe_registers_nothing (kind : Kind) (name : Str) (u : Option MUnit) (d : Str) :
    opId (.describe kind name u d) = none := rfl

theorem specSeen_nodup (acc : List Id) (op : Op) (h : acc.Nodup) : (specSeen acc op).Nodup := by
  unfold specSeen
  cases opId op with
  | none => exact h
  | some j =>
    by_cases hj : j ∈ acc
    · simp [hj, h]
    · simp only [hj, if_false]
      exact List.nodup_append.mpr ⟨h, by simp, by
        intro a ha b hb; simp at hb; subst hb; intro e; subst e; exact hj ha⟩

theorem foldl_specSeen_nodup (ops : List Op) : ∀ acc : List Id, acc.Nodup → (ops.foldl specSeen acc).Nodup := by
  induction ops with
  | nil => intro acc h; exact h
  | cons op ops ih => intro acc h; exact ih _ (specSeen_nodup acc op h)

/-- each registered metric is listed once -/
theorem registered_nodup (ops : List Op) : (registered ops).Nodup :=
  foldl_specSeen_nodup ops [] List.nodup_nil

theorem specSeen_prefix (acc : List Id) (op : Op) : acc <+: specSeen acc op := by
  unfold specSeen
  cases opId op with
  | none => exact List.prefix_refl _
  | some j => by_cases hj : j ∈ acc <;> simp [hj]

theorem foldl_specSeen_prefix (ops : List Op) : ∀ acc : List Id, acc <+: ops.foldl specSeen acc := by
  induction ops with
  | nil => intro acc; exact List.prefix_refl _
  | cons op ops ih => intro acc; exact List.IsPrefix.trans (specSeen_prefix acc op) (ih _)

/-- **first-registration order**: later calls never reorder the list — metrics registered by the
    continuation of a history are appended behind those already registered -/
theorem registered_prefix_stable (ops more : List Op) : registered ops <+: registered (ops ++ more) := by
  simp only [registered, List.foldl_append]
  exact foldl_specSeen_prefix more _

/-! ### every seen metric has a cell, every cell is seen -/

theorem reach_inv_gen (ops : List Op) :
    ∀ s, (∀ i, hasVal s i = seenHas s i) → ∀ i, hasVal (run s ops) i = seenHas (run s ops) i := by
  induction ops with
  | nil => intro s h; exact h
  | cons op ops ih =>
    intro s h
    rw [run_cons]
    apply ih
    intro i
    rw [step_hasVal, step_seenHas, h]

/-- on every reachable state the registry holds a cell for exactly the seen `(kind, key)`s -/
theorem reach_inv (ops : List Op) (i : Id) : hasVal (run init ops) i = seenHas (run init ops) i := by
  apply reach_inv_gen ops init
  intro i
  obtain ⟨kind, k⟩ := i
  cases kind <;> rfl

theorem seen_nodup (ops : List Op) : (keys (run init ops).seen).Nodup := by
  rw [seen_refines]; exact registered_nodup ops

theorem filterMap_ids (s : St) (l : List (Id × MKey)) (h : ∀ x ∈ l, hasVal s x.1 = true) :
    (l.filterMap (entryOf s)).map Entry.id = keys l := by
  induction l with
  | nil => rfl
  | cons x rest ih =>
    have hx := h x List.mem_cons_self
    have ih' := ih (fun y hy => h y (List.mem_cons_of_mem _ hy))
    unfold hasVal at hx
    cases hv : valueOf s x.1 with
    | none => simp [hv] at hx
    | some v =>
      have : entryOf s x = some ⟨x.1.1, x.1.2, x.2, (metaOf s x.1).1, (metaOf s x.1).2, v⟩ := by
        simp [entryOf, hv]
      simp only [List.filterMap_cons, this, List.map_cons, ih']
      rfl

/-- **a snapshot lists exactly the registered metrics, each once, in order of first registration** —
    after any history -/
theorem snapshot_lists_registered (ops : List Op) :
    (snapshotAfter ops).map Entry.id = registered ops := by
  rw [← seen_refines]
  apply filterMap_ids
  intro x hx
  rw [reach_inv]
  unfold seenHas
  apply (lookup_isSome_iff_mem _ _).mpr
  exact List.mem_map_of_mem hx

/-- a metric that no call registered (described only, or registered on another recorder) is not listed -/
theorem snapshot_omits_unregistered (ops : List Op) (i : Id) (h : ∀ op ∈ ops, opId op ≠ some i) :
    ∀ e ∈ snapshotAfter ops, Entry.id e ≠ i := by
  intro e he heq
  have : i ∈ (snapshotAfter ops).map Entry.id := heq ▸ List.mem_map_of_mem he
  rw [snapshot_lists_registered, registered_iff] at this
  obtain ⟨op, hop, h2⟩ := this
  exact h op hop h2


/-! ## what a snapshot shows for a listed metric -/

/-- every entry of a snapshot comes from an element of `seen` and shows the cell's current value and the
    metadata stored for its kind and name -/
theorem snapshot_entry_sound (s : St) (e : Entry) (h : e ∈ output s .snapshot) :
    ((e.kind, e.key), e.shown) ∈ s.seen ∧ valueOf s (e.kind, e.key) = some e.value
      ∧ (e.unit, e.desc) = metaOf s (e.kind, e.key) := by
  simp only [output, snapshot, List.mem_filterMap] at h
  obtain ⟨x, hx, hex⟩ := h
  obtain ⟨⟨kind, key⟩, shown⟩ := x
  simp only [entryOf] at hex
  cases hv : valueOf s (kind, key) with
  | none => simp [hv] at hex
  | some v =>
    simp only [hv, Option.map_some, Option.some.injEq] at hex
    subst hex
    exact ⟨hx, hv, rfl⟩

theorem counter_refines_gen (ops : List Op) (k : MKey) :
    ∀ s, lookup (run s ops).counters k = ops.foldl (specCounter k) (lookup s.counters k) := by
  induction ops with
  | nil => intro s; rfl
  | cons op ops ih => intro s; rw [run_cons, ih, step_counter]; rfl

/-- **counter refinement**: after any history the cell of key `k` is the fold of `k`'s own calls
    (increment = wrapping add, absolute = max), whatever happened to other keys, kinds or names -/
theorem counter_refines (ops : List Op) (k : MKey) :
    lookup (run init ops).counters k = ops.foldl (specCounter k) none :=
  counter_refines_gen ops k init

theorem gauge_refines_gen (ops : List Op) (k : MKey) :
    ∀ s, lookup (run s ops).gauges k = ops.foldl (specGauge k) (lookup s.gauges k) := by
  induction ops with
  | nil => intro s; rfl
  | cons op ops ih => intro s; rw [run_cons, ih, step_gauge]; rfl

/-- **gauge refinement** -/
theorem gauge_refines (ops : List Op) (k : MKey) :
    lookup (run init ops).gauges k = ops.foldl (specGauge k) none :=
  gauge_refines_gen ops k init

/-- a counter entry of a snapshot shows the fold of that key's own calls up to the snapshot -/
theorem snapshot_counter_value (ops : List Op) (e : Entry) (h : e ∈ snapshotAfter ops)
    (hk : e.kind = .counter) :
    ∃ c, e.value = .counter c ∧ ops.foldl (specCounter e.key) none = some c := by
  obtain ⟨_, hv, _⟩ := snapshot_entry_sound _ e h
  rw [hk] at hv
  simp only [valueOf, counter_refines] at hv
  cases hc : ops.foldl (specCounter e.key) none with
  | none => simp [hc] at hv
  | some c => simp only [hc, Option.map_some, Option.some.injEq] at hv; exact ⟨c, hv.symm, rfl⟩

/-- a gauge entry of a snapshot shows the fold of that key's own calls up to the snapshot -/
theorem snapshot_gauge_value (ops : List Op) (e : Entry) (h : e ∈ snapshotAfter ops)
    (hk : e.kind = .gauge) :
    ∃ v, e.value = .gauge v ∧ ops.foldl (specGauge e.key) none = some v := by
  obtain ⟨_, hv, _⟩ := snapshot_entry_sound _ e h
  rw [hk] at hv
  simp only [valueOf, gauge_refines] at hv
  cases hc : ops.foldl (specGauge e.key) none with
  | none => simp [hc] at hv
  | some c => simp only [hc, Option.map_some, Option.some.injEq] at hv; exact ⟨c, hv.symm, rfl⟩

/-- a `set` leaves exactly the value given, whatever came before -/
theorem gauge_set_last (k : MKey) (acc : Option Val) (v : Val) : specGauge (canonKey k) acc (.gset k v) = some v := by
  simp [specGauge]

/-- increments only ⇒ the sum of the increments modulo 2^64 -/
theorem counter_sum (k : MKey) (ns : List Nat) (acc : Nat) :
    (ns.map (fun n => Op.cinc k n)).foldl (specCounter (canonKey k)) (some (acc % two64))
      = some ((acc + ns.sum) % two64) := by
  induction ns generalizing acc with
  | nil => simp
  | cons n ns ih =>
    simp only [List.map_cons, List.foldl_cons, specCounter, if_true, Option.getD_some, List.sum_cons]
    have : (acc % two64 + n) % two64 = (acc + n) % two64 := Nat.mod_add_mod acc two64 n
    rw [this, ih]; congr 2; omega

/-- an absolute update never lowers the counter and leaves it at least at the given value -/
theorem counter_abs_monotone (k : MKey) (acc : Option Nat) (n : Nat) :
    ∃ v, specCounter (canonKey k) acc (.cabs k n) = some v ∧ acc.getD 0 ≤ v ∧ n ≤ v :=
  ⟨max (acc.getD 0) n, by simp [specCounter], Nat.le_max_left _ _, Nat.le_max_right _ _⟩

/-! ## histograms: every recorded value is shown by exactly one snapshot -/

/-- the values the history records under key `k`, in order -/
def recorded (k : MKey) (ops : List Op) : List Val := ops.flatMap (recOf k)

/-- the values all snapshots of the history, started in state `s`, show for key `k` -/
def delivered (k : MKey) : St → List Op → List Val
  | _, [] => []
  | s, op :: ops => histVals (output s op) k ++ delivered k (step s op) ops

/-- one call: shown now + still pending afterwards = pending before + recorded by the call -/
theorem step_conserves (s : St) (op : Op) (k : MKey) (hn : (keys s.seen).Nodup) :
    (histVals (output s op) k ++ pend (step s op) k).Perm (pend s k ++ recOf k op) := by
  by_cases h : op = .snapshot
  · subst h
    simp only [output, histVals_snapshot s k hn, pend_snapshot, recOf, List.append_nil]
    split <;> simp
  · have : output s op = [] := by cases op <;> first | rfl | exact absurd rfl h
    simp only [this, histVals, List.flatMap_nil, List.nil_append]
    exact step_pend s op k h

theorem step_nodup (s : St) (op : Op) (hn : (keys s.seen).Nodup) : (keys (step s op).seen).Nodup := by
  rw [step_seen_keys]; exact specSeen_nodup _ op hn

theorem hist_conserved_gen (k : MKey) (ops : List Op) :
    ∀ s, (keys s.seen).Nodup →
      (delivered k s ops ++ pend (run s ops) k).Perm (pend s k ++ recorded k ops) := by
  induction ops with
  | nil => intro s _; simp [delivered, recorded, run]
  | cons op ops ih =>
    intro s hn
    have h1 := step_conserves s op k hn
    have h2 := ih (step s op) (step_nodup s op hn)
    simp only [delivered, recorded, List.flatMap_cons, run_cons, List.append_assoc] at h2 ⊢
    -- shown(op) ++ (delivered' ++ pend'') ~ shown(op) ++ (pend' ++ rec') ~ (pend ++ recOf) ++ rec'
    refine (List.Perm.append_left _ h2).trans ?_
    rw [← List.append_assoc, ← List.append_assoc]
    exact List.Perm.append_right _ h1

/-- **conservation**: for every key, the values shown by all snapshots so far together with the values still
    pending are, as multisets, exactly the values recorded — nothing lost, nothing shown twice, nothing
    invented — however record and snapshot calls interleave -/
theorem hist_conserved (k : MKey) (ops : List Op) :
    (delivered k init ops ++ pend (run init ops) k).Perm (recorded k ops) := by
  have := hist_conserved_gen k ops init List.nodup_nil
  simpa [pend, init, lookup, blockOrder_nil] using this

/-- a snapshot shows, for every key, all values pending at that moment … -/
theorem snapshot_shows_pending (ops : List Op) (k : MKey) :
    histVals (snapshotAfter ops) k = pend (run init ops) k := by
  simp only [snapshotAfter, output, histVals_snapshot _ k (seen_nodup ops)]
  have inv := reach_inv ops (.histogram, k)
  cases hs : seenHas (run init ops) (.histogram, k) with
  | true => simp
  | false =>
    rw [hs, hasVal_eq] at inv
    simp only [pend]
    cases hl : lookup (run init ops).hists k with
    | none => simp [blockOrder_nil]
    | some bs => simp [hl] at inv

/-- … and leaves nothing pending -/
theorem snapshot_drains (ops : List Op) (k : MKey) : pend (run init (ops ++ [.snapshot])) k = [] := by
  rw [run_snoc, pend_snapshot]
  have inv := reach_inv ops (.histogram, k)
  cases hs : seenHas (run init ops) (.histogram, k) with
  | true => simp
  | false =>
    rw [hs, hasVal_eq] at inv
    simp only [pend]
    cases hl : lookup (run init ops).hists k with
    | none => simp [blockOrder_nil]
    | some bs => simp [hl] at inv

theorem pend_no_snapshot (k : MKey) (mid : List Op) (h : ∀ op ∈ mid, op ≠ .snapshot) :
    ∀ s, (pend (run s mid) k).Perm (pend s k ++ recorded k mid) := by
  induction mid with
  | nil => intro s; simp [recorded, run]
  | cons op mid ih =>
    intro s
    have h1 := step_pend s op k (h op List.mem_cons_self)
    have h2 := ih (fun o ho => h o (List.mem_cons_of_mem _ ho)) (step s op)
    simp only [run_cons, recorded, List.flatMap_cons] at h2 ⊢
    refine h2.trans ?_
    rw [← List.append_assoc]
    exact List.Perm.append_right _ h1

/-- **exactly the values recorded since the previous snapshot**: a snapshot taken after `… snapshot, mid`
    with no snapshot inside `mid` shows for key `k` precisely (as a multiset) the values `mid` recorded -/
theorem hist_since_previous_snapshot (pre mid : List Op) (k : MKey) (h : ∀ op ∈ mid, op ≠ .snapshot) :
    (histVals (snapshotAfter (pre ++ [.snapshot] ++ mid)) k).Perm (recorded k mid) := by
  rw [snapshot_shows_pending, run_append]
  have := pend_no_snapshot k mid h (run init (pre ++ [.snapshot]))
  rwa [snapshot_drains, List.nil_append] at this

/-- the first snapshot shows everything recorded before it -/
theorem hist_first_snapshot (mid : List Op) (k : MKey) (h : ∀ op ∈ mid, op ≠ .snapshot) :
    (histVals (snapshotAfter mid) k).Perm (recorded k mid) := by
  rw [snapshot_shows_pending]
  have := pend_no_snapshot k mid h init
  simpa [pend, init, lookup, blockOrder_nil] using this


/-! ### the order of the values inside one snapshot -/

/-- the blocks of key `k`'s bucket, newest first -/
def blocksOf (s : St) (k : MKey) : List (List Val) := (lookup s.hists k).getD []

/-- the values of a chain of blocks in the order they were recorded: oldest block first -/
def recordOrder (bs : List (List Val)) : List Val := bs.reverse.flatten

theorem pend_eq_blocks (s : St) (k : MKey) : pend s k = (blocksOf s k).flatten := rfl

theorem recordOrder_pushBlock (bs : List (List Val)) (v : Val) :
    recordOrder (pushBlock bs v) = recordOrder bs ++ [v] := by
  cases bs with
  | nil => simp [pushBlock, recordOrder]
  | cons b rest =>
    simp only [pushBlock, recordOrder]
    split <;> simp

/-- more than one block only when more than `blockSize` values are pending -/
def fewBlocks (bs : List (List Val)) : Prop := bs.length ≤ 1 ∨ blockSize < bs.flatten.length

theorem fewBlocks_pushBlock (bs : List (List Val)) (v : Val) (h : fewBlocks bs) : fewBlocks (pushBlock bs v) := by
  cases bs with
  | nil => left; simp [pushBlock]
  | cons b rest =>
    simp only [pushBlock]
    split
    · rcases h with h | h
      · left; simpa using h
      · right; simp only [List.flatten_cons, List.length_append, List.length_cons, List.length_nil] at h ⊢; omega
    · rename_i hb
      right; simp only [List.flatten_cons, List.length_append, List.length_cons, List.length_nil]; omega

theorem step_blocks (s : St) (op : Op) (k : MKey) (h : op ≠ .snapshot) :
    blocksOf (step s op) k = (recOf k op).foldl pushBlock (blocksOf s k) := by
  cases op with
  | snapshot => exact absurd rfl h
  | describe kd n u d => simp [blocksOf, step, describeMetric, recOf]
  | register kd k' =>
    cases kd <;> simp only [blocksOf, step, register, track, recOf, List.foldl_nil, getD_lookup_upsert, id]
    split
    · rename_i e; subst e; rfl
    · rfl
  | cinc k' n => simp [blocksOf, step, register, track, recOf]
  | cabs k' n => simp [blocksOf, step, register, track, recOf]
  | gset k' v => simp [blocksOf, step, register, track, recOf]
  | gadd k' n => simp [blocksOf, step, register, track, recOf]
  | hrec k' v =>
    simp only [blocksOf, step, register, track, recOf, getD_lookup_upsert, id]
    by_cases e : k = canonKey k'
    · subst e; simp
    · have e' : ¬ canonKey k' = k := fun x => e x.symm
      simp [e, e']

theorem foldl_pushBlock_order (vs : List Val) :
    ∀ bs, recordOrder (vs.foldl pushBlock bs) = recordOrder bs ++ vs ∧ (fewBlocks bs → fewBlocks (vs.foldl pushBlock bs)) := by
  induction vs with
  | nil => intro bs; simp
  | cons v vs ih =>
    intro bs
    obtain ⟨i1, i2⟩ := ih (pushBlock bs v)
    refine ⟨?_, fun h => i2 (fewBlocks_pushBlock bs v h)⟩
    simp only [List.foldl_cons, i1, recordOrder_pushBlock, List.append_assoc, List.singleton_append]

theorem run_blocks (k : MKey) (mid : List Op) (h : ∀ op ∈ mid, op ≠ .snapshot) :
    ∀ s, recordOrder (blocksOf (run s mid) k) = recordOrder (blocksOf s k) ++ recorded k mid
      ∧ (fewBlocks (blocksOf s k) → fewBlocks (blocksOf (run s mid) k)) := by
  induction mid with
  | nil => intro s; simp [recorded, run]
  | cons op mid ih =>
    intro s
    obtain ⟨i1, i2⟩ := ih (fun o ho => h o (List.mem_cons_of_mem _ ho)) (step s op)
    have hs := step_blocks s op k (h op List.mem_cons_self)
    obtain ⟨f1, f2⟩ := foldl_pushBlock_order (recOf k op) (blocksOf s k)
    rw [run_cons]
    refine ⟨?_, fun hf => i2 (hs ▸ f2 hf)⟩
    rw [i1, hs, f1]
    simp [recorded, List.flatMap_cons]

theorem flatten_nil_reverse (bs : List (List Val)) (h : bs.flatten = []) : bs.reverse.flatten = [] := by
  simp only [List.flatten_eq_nil_iff, List.mem_reverse] at h ⊢
  exact h

/-- **order inside a snapshot**: a snapshot shows the values recorded since the previous one block by block,
    newest block first, every block in record order; taking the blocks oldest first gives exactly the record
    order (nothing is shuffled inside a block, blocks are only handed over newest first) -/
theorem hist_blocks_in_record_order (pre mid : List Op) (k : MKey) (h : ∀ op ∈ mid, op ≠ .snapshot) :
    ∃ bs : List (List Val), histVals (snapshotAfter (pre ++ [.snapshot] ++ mid)) k = bs.flatten
      ∧ bs.reverse.flatten = recorded k mid := by
  refine ⟨blocksOf (run init (pre ++ [.snapshot] ++ mid)) k, ?_, ?_⟩
  · rw [snapshot_shows_pending]; rfl
  · rw [run_append]
    have := (run_blocks k mid h (run init (pre ++ [.snapshot]))).1
    have hd : recordOrder (blocksOf (run init (pre ++ [.snapshot])) k) = [] :=
      flatten_nil_reverse _ (by rw [← pend_eq_blocks]; exact snapshot_drains pre k)
    rw [hd, List.nil_append] at this
    exact this

/-- after a snapshot the bucket of every key has no block left -/
theorem snapshot_drains_blocks (ops : List Op) (k : MKey) : blocksOf (run init (ops ++ [.snapshot])) k = [] := by
  rw [run_snoc]
  simp only [blocksOf, step, snapshot, lookup_mapVal]
  have inv := reach_inv ops (.histogram, k)
  rw [hasVal_eq] at inv
  cases hl : lookup (run init ops).hists k with
  | none => simp
  | some bs =>
    simp only [hl, Option.isSome_some] at inv
    simp [drainIf, ← inv]

/-- up to `blockSize` (64) values recorded since the previous snapshot are shown in exactly the order recorded -/
theorem hist_record_order_small (pre mid : List Op) (k : MKey) (h : ∀ op ∈ mid, op ≠ .snapshot)
    (hn : (recorded k mid).length ≤ blockSize) :
    histVals (snapshotAfter (pre ++ [.snapshot] ++ mid)) k = recorded k mid := by
  rw [snapshot_shows_pending, run_append, pend_eq_blocks]
  obtain ⟨h1, h2⟩ := run_blocks k mid h (run init (pre ++ [.snapshot]))
  rw [snapshot_drains_blocks] at h1 h2
  have hf := h2 (Or.inl (by simp))
  simp only [recordOrder, List.reverse_nil, List.flatten_nil, List.nil_append] at h1
  generalize blocksOf (run (run init (pre ++ [.snapshot])) mid) k = bs at h1 hf
  have hlen : bs.flatten.length = (recorded k mid).length := by
    rw [← h1, List.length_flatten, List.length_flatten, List.map_reverse, List.sum_reverse]
  rcases hf with hf | hf
  · match bs, hf with
    | [], _ => simpa using h1
    | [b], _ => simpa using h1
  · omega

/-! ## unit and description: the most recent ones given for that kind and name -/

theorem meta_refines_gen (ops : List Op) (kn : Kind × Str) :
    ∀ s, lookup (run s ops).metadata kn = ops.foldl (specMeta kn) (lookup s.metadata kn) := by
  induction ops with
  | nil => intro s; rfl
  | cons op ops ih => intro s; rw [run_cons, ih, step_meta]; rfl

/-- **metadata refinement**: what is stored for `(kind, name)` is the fold of the describe calls for that
    kind and name — calls for other names or for the same name under another kind do not touch it, and
    it does not matter whether the metric was registered before, after or never -/
theorem meta_refines (ops : List Op) (kn : Kind × Str) :
    lookup (run init ops).metadata kn = ops.foldl (specMeta kn) none :=
  meta_refines_gen ops kn init

/-- the call describes `(kind, name)` -/
def describes (kn : Kind × Str) : Op → Bool
  | .describe kind name _ _ => decide ((kind, name) = kn)
  | _ => false

/-- the call describes `(kind, name)` and gives a unit -/
def givesUnit (kn : Kind × Str) : Op → Bool
  | .describe kind name (some _) _ => decide ((kind, name) = kn)
  | _ => false

theorem specMeta_other (kn : Kind × Str) (acc) (op : Op) (h : describes kn op = false) :
    specMeta kn acc op = acc := by
  cases op <;> simp_all [specMeta, describes]

theorem foldl_specMeta_other (kn : Kind × Str) (ops : List Op) (h : ∀ op ∈ ops, describes kn op = false) :
    ∀ acc, ops.foldl (specMeta kn) acc = acc := by
  induction ops with
  | nil => intro acc; rfl
  | cons op ops ih =>
    intro acc
    rw [List.foldl_cons, specMeta_other kn acc op (h op List.mem_cons_self)]
    exact ih (fun o ho => h o (List.mem_cons_of_mem _ ho)) acc

/-- the rule of `describe_metric` in one line: a description without a unit keeps the stored unit and
    replaces the description; one with a unit replaces both -/
theorem describe_rule (kind : Kind) (name : Str) (u0 : Option MUnit) (d0 : Str) (u : Option MUnit) (d : Str) :
    specMeta (kind, name) (some (u0, d0)) (.describe kind name u d)
      = some (match u with | some x => some x | none => u0, d) := by
  cases u <;> simp [specMeta, describeUpd]

/-- a first description stores its unit (possibly none) and its text -/
theorem describe_first (kind : Kind) (name : Str) (u : Option MUnit) (d : Str) :
    specMeta (kind, name) none (.describe kind name u d) = some (u, d) := by
  cases u <;> simp [specMeta, describeUpd]

theorem specMeta_describe_desc (kn : Kind × Str) (acc) (u : Option MUnit) (d : Str) :
    (specMeta kn acc (.describe kn.1 kn.2 u d)).map (·.2) = some d := by
  simp [specMeta, describeUpd]

/-- **the description shown is the most recent one given for that kind and name** -/
theorem description_most_recent (pre post : List Op) (kind : Kind) (name : Str) (u : Option MUnit) (d : Str)
    (h : ∀ op ∈ post, describes (kind, name) op = false) :
    (lookup (run init (pre ++ [.describe kind name u d] ++ post)).metadata (kind, name)).map (·.2) = some d := by
  rw [meta_refines, List.foldl_append, List.foldl_append, foldl_specMeta_other _ post h]
  exact specMeta_describe_desc (kind, name) _ u d

theorem foldl_specMeta_unit_kept (kn : Kind × Str) (ops : List Op) (h : ∀ op ∈ ops, givesUnit kn op = false) :
    ∀ (x : Option MUnit) (d0 : Str), ((ops.foldl (specMeta kn) (some (x, d0))).map (·.1)) = some x := by
  induction ops with
  | nil => intro x d0; rfl
  | cons op ops ih =>
    intro x d0
    have hop := h op List.mem_cons_self
    have ih' := ih (fun o ho => h o (List.mem_cons_of_mem _ ho))
    rw [List.foldl_cons]
    cases op with
    | describe kd n u d =>
      by_cases e : (kd, n) = kn
      · cases u with
        | some uu => simp [givesUnit, e] at hop
        | none =>
          have : specMeta kn (some (x, d0)) (.describe kd n none d) = some (x, d) := by
            simp [specMeta, describeUpd, e]
          rw [this]; exact ih' x d
      · have : specMeta kn (some (x, d0)) (.describe kd n u d) = some (x, d0) := by
          simp [specMeta, e]
        rw [this]; exact ih' x d0
    | _ => exact ih' x d0

/-- **the unit shown is the most recent one given**: later descriptions of the same kind and name that give
    no unit keep it (they still replace the description) -/
theorem unit_most_recent_given (pre post : List Op) (kind : Kind) (name : Str) (u : MUnit) (d : Str)
    (h : ∀ op ∈ post, givesUnit (kind, name) op = false) :
    (lookup (run init (pre ++ [.describe kind name (some u) d] ++ post)).metadata (kind, name)).map (·.1)
      = some (some u) := by
  rw [meta_refines, List.foldl_append, List.foldl_append]
  have : List.foldl (specMeta (kind, name)) (List.foldl (specMeta (kind, name)) none pre)
      [Op.describe kind name (some u) d] = some (some u, d) := by
    simp [specMeta, describeUpd]
  rw [this]
  exact foldl_specMeta_unit_kept _ post h (some u) d

theorem foldl_specMeta_no_unit (kn : Kind × Str) (ops : List Op) (h : ∀ op ∈ ops, givesUnit kn op = false) :
    ∀ acc : Option (Option MUnit × Str), acc.bind (·.1) = none →
      (ops.foldl (specMeta kn) acc).bind (·.1) = none := by
  induction ops with
  | nil => intro acc ha; exact ha
  | cons op ops ih =>
    intro acc ha
    have hop := h op List.mem_cons_self
    rw [List.foldl_cons]
    apply ih (fun o ho => h o (List.mem_cons_of_mem _ ho))
    cases op with
    | describe kd n u d =>
      by_cases e : (kd, n) = kn
      · cases u with
        | some uu => simp [givesUnit, e] at hop
        | none =>
          cases acc with
          | none => simp [specMeta, describeUpd, e]
          | some a => simpa [specMeta, describeUpd, e] using ha
      · simpa [specMeta, e] using ha
    | _ => exact ha

/-- no unit was ever given for that kind and name ⇒ none is shown (a unit given for the same name under
    another kind does not leak) -/
theorem unit_none_if_never_given (ops : List Op) (kn : Kind × Str) (h : ∀ op ∈ ops, givesUnit kn op = false) :
    (lookup (run init ops).metadata kn).bind (·.1) = none := by
  rw [meta_refines]; exact foldl_specMeta_no_unit kn ops h none rfl

/-- never described ⇒ no unit and no description -/
theorem undescribed_has_no_metadata (ops : List Op) (kn : Kind × Str) (h : ∀ op ∈ ops, describes kn op = false) :
    lookup (run init ops).metadata kn = none := by
  rw [meta_refines]; exact foldl_specMeta_other kn ops h none

/-- unit and description of a snapshot entry are those stored for the entry's kind and name -/
theorem snapshot_meta (ops : List Op) (e : Entry) (h : e ∈ snapshotAfter ops) :
    (e.unit, e.desc) = metaShown (ops.foldl (specMeta (e.kind, e.key.name)) none) := by
  obtain ⟨_, _, hm⟩ := snapshot_entry_sound _ e h
  rw [hm]
  simp only [metaOf, meta_refines]

/-- the wording of the property on a snapshot: an entry of kind `kind` and name `name` shows the most recent
    description given for them … -/
theorem snapshot_description_most_recent (pre post : List Op) (kind : Kind) (name : Str) (u : Option MUnit)
    (d : Str) (h : ∀ op ∈ post, describes (kind, name) op = false) (e : Entry)
    (he : e ∈ snapshotAfter (pre ++ [.describe kind name u d] ++ post)) (hk : e.kind = kind)
    (hn : e.key.name = name) : e.desc = some d := by
  have hm := snapshot_meta _ e he
  have hd := description_most_recent pre post kind name u d h
  rw [meta_refines] at hd
  rw [hk, hn] at hm
  generalize List.foldl (specMeta (kind, name)) none (pre ++ [Op.describe kind name u d] ++ post) = r at hm hd
  cases r with
  | none => simp at hd
  | some ud =>
    obtain ⟨u', d'⟩ := ud
    simp only [Option.map_some, Option.some.injEq] at hd
    simp only [metaShown, Prod.mk.injEq] at hm
    rw [hm.2, hd]

/-- … and the most recent unit given, also when later descriptions gave none -/
theorem snapshot_unit_kept (pre post : List Op) (kind : Kind) (name : Str) (u : MUnit)
    (d : Str) (h : ∀ op ∈ post, givesUnit (kind, name) op = false) (e : Entry)
    (he : e ∈ snapshotAfter (pre ++ [.describe kind name (some u) d] ++ post)) (hk : e.kind = kind)
    (hn : e.key.name = name) : e.unit = some u := by
  have hm := snapshot_meta _ e he
  have hd := unit_most_recent_given pre post kind name u d h
  rw [meta_refines] at hd
  rw [hk, hn] at hm
  generalize List.foldl (specMeta (kind, name)) none (pre ++ [Op.describe kind name (some u) d] ++ post) = r at hm hd
  cases r with
  | none => simp at hd
  | some ud =>
    obtain ⟨u', d'⟩ := ud
    simp only [Option.map_some, Option.some.injEq] at hd
    simp only [metaShown, Prod.mk.injEq] at hm
    rw [hm.1, hd]

/-! ## several recorders never see each other's metrics -/

/-- the calls of an interleaved history that are addressed to recorder `r` -/
def opsFor (r : Nat) (aops : List (Nat × Op)) : List Op :=
  (aops.filter (fun a => decide (a.1 = r))).map (·.2)

/-- **frame**: after any interleaving of calls addressed to any recorders (from any threads), the state of
    recorder `r` is the one its own calls alone produce -/
theorem sysRun_frame (aops : List (Nat × Op)) :
    ∀ (sys : Sys) (r : Nat), sysRun sys aops r = run (sys r) (opsFor r aops) := by
  induction aops with
  | nil => intro sys r; rfl
  | cons a rest ih =>
    intro sys r
    have : sysRun sys (a :: rest) = sysRun (sysStep sys a) rest := rfl
    rw [this, ih]
    by_cases h : a.1 = r
    · simp [opsFor, sysStep, h, run_cons]
    · have h' : ¬ r = a.1 := fun e => h e.symm
      simp [opsFor, sysStep, h, h']

/-- whatever a recorder answers (in particular its snapshots) is a function of its own calls only: metrics
    registered, described or updated on other recorders never show -/
theorem recorders_isolated (pre : List (Nat × Op)) (r : Nat) (op : Op) :
    sysOutput (sysRun sysInit pre) (r, op) = output (run init (opsFor r pre)) op := by
  simp only [sysOutput, sysRun_frame]
  rfl

/-! ## equal keys built differently are one metric -/

/-- the same name and the same labels in any order (label names pairwise distinct) are the same key -/
theorem same_key_any_label_order (name : Str) (l1 l2 : List (Str × Str)) (p : l1.Perm l2)
    (h : (l1.map (·.1)).Nodup) : canonKey ⟨name, l1⟩ = canonKey ⟨name, l2⟩ := by
  simp only [canonKey, canonLabels_perm l1 l2 p h]

/-- a call made with a differently built but equal key addresses the same metric … -/
theorem same_metric_any_label_order (op1 op2 : Op) (kind : Kind) (name : Str) (l1 l2 : List (Str × Str))
    (p : l1.Perm l2) (h : (l1.map (·.1)).Nodup)
    (h1 : regOf op1 = some (kind, ⟨name, l1⟩)) (h2 : regOf op2 = some (kind, ⟨name, l2⟩)) :
    opId op1 = opId op2 := by
  simp only [opId, h1, h2, Option.map_some, same_key_any_label_order name l1 l2 p h]

/-- … so it adds no second entry to the list of registered metrics -/
theorem equal_key_no_second_entry (ops : List Op) (op1 op2 : Op) (h : opId op1 = opId op2) (h1 : op1 ∈ ops) :
    registered (ops ++ [op2]) = registered ops := by
  simp only [registered, List.foldl_append, List.foldl_cons, List.foldl_nil, specSeen]
  cases h2 : opId op2 with
  | none => rfl
  | some i =>
    have : i ∈ List.foldl specSeen [] ops := (registered_iff ops i).mpr ⟨op1, h1, h.trans h2⟩
    simp [this]

/-! ## handles: registering again changes nothing, so an update through a kept handle is the same step -/

theorem register_idem (s : St) (kind : Kind) (k : MKey) :
    register (register s kind k) kind k = register s kind k := by
  cases kind <;> simp [register, track, upsert_upsert_id]

theorem update_after_register (s : St) (k : MKey) (n : Nat) (v : Val) (m : Int) :
    step (step s (.register .counter k)) (.cinc k n) = step s (.cinc k n)
    ∧ step (step s (.register .counter k)) (.cabs k n) = step s (.cabs k n)
    ∧ step (step s (.register .gauge k)) (.gset k v) = step s (.gset k v)
    ∧ step (step s (.register .gauge k)) (.gadd k m) = step s (.gadd k m)
    ∧ step (step s (.register .histogram k)) (.hrec k v) = step s (.hrec k v) := by
  simp only [step, register_idem, and_self]

/-! ## local scopes and the global recorder: which recorder a call made through the macros reaches -/

/-- what the property says about scopes: per thread the recorders of its open `with_local_recorder` scopes,
    innermost first, and the globally installed recorder -/
structure SpecSc where
  stack : Tid → List Rid := fun _ => []
  global : Option Rid := none

/-- the recorder a call of thread `t` belongs to: that of the innermost open scope, else the global one -/
def specTarget (sp : SpecSc) (t : Tid) : Option Rid :=
  match sp.stack t with
  | r :: _ => some r
  | [] => sp.global

/-- entering pushes, leaving pops — however the scope is left (return or unwinding) -/
def specScStep (sp : SpecSc) (a : Tid × SOp) : SpecSc :=
  match a.2 with
  | .enter r => { sp with stack := upd sp.stack a.1 (r :: sp.stack a.1) }
  | .exit _ => { sp with stack := upd sp.stack a.1 (sp.stack a.1).tail }
  | .install r => { sp with global := match sp.global with | none => some r | some g => some g }
  | _ => sp

def specScRun (sp : SpecSc) (prog : List (Tid × SOp)) : SpecSc := prog.foldl specScStep sp

/-- the recorder call one step of the program amounts to -/
def addressedOne (sp : SpecSc) (a : Tid × SOp) : List (Rid × Op) :=
  match a.2 with
  | .cur op => match specTarget sp a.1 with | some r => [(r, op)] | none => []
  | .direct r op => [(r, op)]
  | _ => []

/-- the program as a list of calls addressed to recorders, by the rule of the property -/
def addressedFrom : SpecSc → List (Tid × SOp) → List (Rid × Op)
  | _, [] => []
  | sp, a :: rest => addressedOne sp a ++ addressedFrom (specScStep sp a) rest

/-- the saved `prev_recorder`s that correspond to a stack of open scopes -/
def prevs : List Rid → List (Option Rid)
  | [] => []
  | _ :: rest => rest.head? :: prevs rest

/-- how the code represents the open scopes: `LOCAL_RECORDER` is the innermost one, each guard holds the one
    below it -/
def ScRel (sc : Scopes) (sp : SpecSc) : Prop :=
  (∀ t, sc.loc t = (sp.stack t).head?) ∧ (∀ t, sc.frames t = prevs (sp.stack t)) ∧ sc.global = sp.global

theorem scRel_init : ScRel ({} : Scopes) ({} : SpecSc) := ⟨fun _ => rfl, fun _ => rfl, rfl⟩

theorem target_of_rel (sc : Scopes) (sp : SpecSc) (h : ScRel sc sp) (t : Tid) : target sc t = specTarget sp t := by
  obtain ⟨h1, _, h3⟩ := h
  unfold target specTarget
  rw [h1 t, h3]
  cases sp.stack t <;> rfl

theorem scRel_step (s : SSt) (sp : SpecSc) (a : Tid × SOp) (h : ScRel s.sc sp) :
    ScRel (sStep s a).sc (specScStep sp a) := by
  obtain ⟨t, op⟩ := a
  obtain ⟨h1, h2, h3⟩ := h
  cases op with
  | enter r =>
    refine ⟨?_, ?_, h3⟩
    · intro x
      simp only [sStep, scEnter, specScStep, upd]
      by_cases e : x = t <;> simp [e, h1]
    · intro x
      simp only [sStep, scEnter, specScStep, upd]
      by_cases e : x = t
      · subst e; simp [prevs, h1, h2]
      · simp [e, h2]
  | exit b =>
    simp only [sStep, scExit, specScStep]
    cases hs : sp.stack t with
    | nil =>
      have hf : s.sc.frames t = [] := by rw [h2 t, hs]; rfl
      rw [hf]
      refine ⟨?_, ?_, h3⟩
      · intro x; simp only [upd]; by_cases e : x = t
        · subst e; simp [h1, hs]
        · simp [e, h1]
      · intro x; simp only [upd]; by_cases e : x = t
        · subst e; simp [h2, hs]
        · simp [e, h2]
    | cons r rest =>
      have hf : s.sc.frames t = rest.head? :: prevs rest := by rw [h2 t, hs]; rfl
      rw [hf]
      refine ⟨?_, ?_, h3⟩
      · intro x; simp only [upd]; by_cases e : x = t
        · subst e; simp
        · simp [e, h1]
      · intro x; simp only [upd]; by_cases e : x = t
        · subst e; simp
        · simp [e, h2]
  | cur o =>
    simp only [sStep, specScStep]
    cases target s.sc t <;> exact ⟨h1, h2, h3⟩
  | direct r o => exact ⟨h1, h2, h3⟩
  | install r =>
    simp only [sStep, scInstall, specScStep]
    rw [← h3]
    cases hg : s.sc.global with
    | none => exact ⟨h1, h2, rfl⟩
    | some g => exact ⟨h1, h2, hg⟩

theorem sStep_sys (s : SSt) (sp : SpecSc) (a : Tid × SOp) (h : ScRel s.sc sp) :
    (sStep s a).sys = sysRun s.sys (addressedOne sp a) := by
  obtain ⟨t, op⟩ := a
  cases op with
  | cur o =>
    simp only [sStep, addressedOne]
    rw [target_of_rel _ _ h]
    cases specTarget sp t <;> rfl
  | _ => rfl

theorem sysRun_append (sys : Sys) (a b : List (Nat × Op)) : sysRun sys (a ++ b) = sysRun (sysRun sys a) b := by
  simp [sysRun, List.foldl_append]

theorem sRun_refines_gen (prog : List (Tid × SOp)) :
    ∀ (s : SSt) (sp : SpecSc), ScRel s.sc sp →
      (sRun s prog).sys = sysRun s.sys (addressedFrom sp prog) ∧ ScRel (sRun s prog).sc (specScRun sp prog) := by
  induction prog with
  | nil => intro s sp h; exact ⟨rfl, h⟩
  | cons a rest ih =>
    intro s sp h
    have h' := scRel_step s sp a h
    obtain ⟨i1, i2⟩ := ih (sStep s a) (specScStep sp a) h'
    refine ⟨?_, i2⟩
    show (sRun (sStep s a) rest).sys = _
    rw [i1, sStep_sys s sp a h, addressedFrom, sysRun_append]

/-- **the thread-local recorder is the innermost open scope's**, after any program of scope entries, scope exits
    by return or by unwinding (any nesting, any threads), calls and global installations: the code's
    `LOCAL_RECORDER`/`prev_recorder` chain represents exactly the stack of open scopes -/
theorem scopes_refine (prog : List (Tid × SOp)) : ScRel (sRun sInit prog).sc (specScRun {} prog) :=
  (sRun_refines_gen prog sInit {} scRel_init).2

/-- what `with_recorder` finds for thread `t` is the recorder of `t`'s innermost open scope, else the global
    recorder, else nothing (no-op) -/
theorem current_is_innermost (prog : List (Tid × SOp)) (t : Tid) :
    target (sRun sInit prog).sc t = specTarget (specScRun {} prog) t :=
  target_of_rel _ _ (scopes_refine prog) t

/-- **scoped refinement**: running a program with scopes is running the calls addressed by the scope rule -/
theorem scoped_refines (prog : List (Tid × SOp)) :
    (sRun sInit prog).sys = sysRun sysInit (addressedFrom {} prog) :=
  (sRun_refines_gen prog sInit {} scRel_init).1

/-- **isolation with scopes**: whatever recorder `r` answers (its snapshots) is determined by the calls made
    while `r` was the innermost open scope of the calling thread (or, for the global recorder, while the thread
    had no open scope), plus the calls made on `r` directly — calls made in other recorders' scopes, before
    or after a scope of `r` was left by return or by unwinding, never show -/
theorem scoped_isolated (prog : List (Tid × SOp)) (r : Rid) (op : Op) :
    sysOutput (sRun sInit prog).sys (r, op) = output (run init (opsFor r (addressedFrom {} prog))) op := by
  rw [scoped_refines]
  simp only [sysOutput, sysRun_frame]
  rfl

/-- thread `t`'s part of `body` is well bracketed: starting `d` scopes deep it never leaves more scopes than it
    entered plus `d`, and ends having left exactly `d` more than it entered -/
def closes (t : Tid) : Nat → List (Tid × SOp) → Bool
  | d, [] => d == 0
  | d, (t', .enter _) :: rest => if t' = t then closes t (d + 1) rest else closes t d rest
  | d, (t', .exit _) :: rest =>
    if t' = t then (match d with | 0 => false | d' + 1 => closes t d' rest) else closes t d rest
  | d, _ :: rest => closes t d rest

theorem specScRun_cons (sp : SpecSc) (a : Tid × SOp) (rest : List (Tid × SOp)) :
    specScRun sp (a :: rest) = specScRun (specScStep sp a) rest := rfl

theorem closes_stack (t : Tid) (body : List (Tid × SOp)) :
    ∀ (d : Nat) (sp : SpecSc), closes t d body = true → d ≤ (sp.stack t).length →
      (specScRun sp body).stack t = (sp.stack t).drop d := by
  induction body with
  | nil =>
    intro d sp h _
    simp only [closes, beq_iff_eq] at h
    subst h; rfl
  | cons a rest ih =>
    intro d sp h hd
    obtain ⟨t', op⟩ := a
    rw [specScRun_cons]
    cases op with
    | enter r =>
      simp only [closes] at h
      by_cases e : t' = t
      · subst e
        simp only [if_true] at h
        rw [ih (d + 1) _ h (by simp [specScStep, upd]; omega)]
        simp [specScStep, upd]
      · simp only [e, if_false] at h
        have hs : (specScStep sp (t', SOp.enter r)).stack t = sp.stack t := by
          have e' : ¬ t = t' := fun x => e x.symm
          simp [specScStep, upd, e']
        rw [ih d _ h (by rw [hs]; exact hd), hs]
    | exit b =>
      simp only [closes] at h
      by_cases e : t' = t
      · subst e
        simp only [if_true] at h
        cases d with
        | zero => simp at h
        | succ d' =>
          simp only at h
          have hs : (specScStep sp (t', SOp.exit b)).stack t' = (sp.stack t').tail := by
            simp [specScStep, upd]
          rw [ih d' _ h (by rw [hs]; simp; omega), hs]
          simp [List.drop_tail]
      · simp only [e, if_false] at h
        have hs : (specScStep sp (t', SOp.exit b)).stack t = sp.stack t := by
          have e' : ¬ t = t' := fun x => e x.symm
          simp [specScStep, upd, e']
        rw [ih d _ h (by rw [hs]; exact hd), hs]
    | cur o => exact ih d _ (by simpa [closes] using h) hd
    | direct r o => exact ih d _ (by simpa [closes] using h) hd
    | install r =>
      have hs : (specScStep sp (t', SOp.install r)).stack t = sp.stack t := rfl
      rw [ih d _ (by simpa [closes] using h) (by rw [hs]; exact hd), hs]

/-- **leaving a scope restores the enclosing one — by return or by unwinding**: after
    `with_local_recorder(&r, || body)` (the body well bracketed, anything interleaved on other threads),
    whether the closure returned or a panic unwound through it, the calling thread's recorder is the one it had
    before the scope: calls that follow reach the enclosing scope's recorder (or the global one), not `r` -/
theorem scope_exit_restores (pre body : List (Tid × SOp)) (t : Tid) (r : Rid) (unwinding : Bool)
    (h : closes t 0 body = true) :
    (sRun sInit (pre ++ (t, .enter r) :: body ++ [(t, .exit unwinding)])).sc.loc t
      = (sRun sInit pre).sc.loc t := by
  rw [(scopes_refine _).1 t, (scopes_refine pre).1 t]
  congr 1
  have hb := closes_stack t body 0 (specScStep (specScRun {} pre) (t, .enter r)) h (Nat.zero_le _)
  have e1 : specScRun {} (pre ++ (t, .enter r) :: body ++ [(t, .exit unwinding)])
      = specScStep (specScRun (specScStep (specScRun {} pre) (t, .enter r)) body) (t, .exit unwinding) := by
    simp [specScRun, List.foldl_append]
  rw [e1]
  have e2 : ∀ sp : SpecSc, (specScStep sp (t, .exit unwinding)).stack t = (sp.stack t).tail := by
    intro sp; simp [specScStep, upd]
  rw [e2, hb]
  simp [specScStep, upd]

/-- … and while the scope is open the calls reach `r` -/
theorem scope_enter_current (pre : List (Tid × SOp)) (t : Tid) (r : Rid) :
    target (sRun sInit (pre ++ [(t, .enter r)])).sc t = some r := by
  rw [current_is_innermost]
  simp [specScRun, List.foldl_append, specScStep, specTarget, upd]

/-! ## facts of the source that no run can observe (tools/extract.py → Generated/SourceFacts.lean) -/

/-- the destructor of `LocalRecorderGuard` is ONE unconditional statement that puts `prev_recorder` back — no
    early return, no test of `thread::panicking()`: what `scExit` does whatever the `unwinding` flag says
    (`scope_exit_restores`) -/
theorem src_guard_drop_unconditional :
    Generated.debug_guard_drop_stmts
      = ["LOCAL_RECORDER.with(|local_recorder| local_recorder.replace(self.prev_recorder.take()))"] := rfl

/-- `register_*` never looks at the metadata (level, target, module path): the parameter is `_metadata` and the
    body does not mention it — the model's `register` has no such argument; and the metric is tracked first,
    then its storage is fetched or created -/
theorem src_register_ignores_metadata :
    Generated.debug_register_uses_metadata = [("counter", false), ("gauge", false), ("histogram", false)]
    ∧ Generated.debug_register_params
        = [("counter", "&self, key: &Key, _metadata: &Metadata<'_>"),
           ("gauge", "&self, key: &Key, _metadata: &Metadata<'_>"),
           ("histogram", "&self, key: &Key, _metadata: &Metadata<'_>")]
    ∧ Generated.debug_register_calls
        = [("counter", ["track_metric", "get_or_create_counter"]),
           ("gauge", ["track_metric", "get_or_create_gauge"]),
           ("histogram", ["track_metric", "get_or_create_histogram"])] := ⟨rfl, rfl, rfl⟩

/-- `track_metric` inserts unconditionally (no bound on the number of metrics) — `track` -/
theorem src_track_unconditional :
    Generated.debug_track_stmts
      = ["let mut seen = self.inner.seen.lock().expect(\"seen lock poisoned\")", "seen.insert(ckey, ())"] := rfl

/-- `describe_metric`: insert `(None, desc)` if absent, replace the unit only when one is given, always replace
    the description — `describeUpd` -/
theorem src_describe_shape :
    Generated.debug_describe_stmts
      = ["let mut metadata = self.inner.metadata.lock().expect(\"metadata lock poisoned\")",
         "let (uentry, dentry) = metadata.entry(rkey).or_insert((None, desc.to_owned()))",
         "if unit.is_some() { *uentry = unit; }",
         "*dentry = desc"] := rfl

/-- `install` hands the recorder itself to `set_global_recorder`, and a `Snapshotter` shares the recorder's
    `Inner` (one `Arc`): a snapshotter taken before the installation shows what the installed recorder receives
    (`SOp.install`, checked on the real code by the first case of every run) -/
theorem src_install_shares_inner :
    Generated.debug_install_stmts = ["metrics::set_global_recorder(self)"]
    ∧ Generated.debug_snapshotter_stmts = ["Snapshotter { inner: Arc::clone(&self.inner) }"] := ⟨rfl, rfl⟩

/-- `snapshot`: the three handle maps are fetched before `seen` and `metadata` are copied, the loop runs over ALL
    of `seen` in its order, a counter is one `SeqCst` load, a histogram is drained with `clear_with`, and an
    entry is pushed exactly when a value was found — `snapshot` / `entryOf` -/
theorem src_snapshot_shape :
    Generated.debug_snapshot_order = ["counters", "gauges", "histograms", "seen", "metadata", "loop"]
    ∧ Generated.debug_snapshot_loop_source = "seen.into_iter()"
    ∧ Generated.debug_snapshot_counter_load
        = "counters.get(ck.key()).map(|c| DebugValue::Counter(c.load(Ordering::SeqCst)))"
    ∧ Generated.debug_snapshot_hist_drain
        = "clear_with(|xs| values.extend(xs.iter().map(|f| OrderedFloat::from(*f))))"
    ∧ Generated.debug_snapshot_push_guard
        = "if let Some(value) = value { snapshot.push((ck, unit, desc, value)); }" := ⟨rfl, rfl, rfl, rfl, rfl⟩

/-- the mechanism behind `register_*`, per kind (`get_or_create_counter / _gauge / _histogram`): the read section
    probes the table once (`raw_entry`), the read lock is dropped BEFORE the write lock is taken (the window of
    `reg.goc.write`), and the write section probes AGAIN (`raw_entry`) before it goes through
    `raw_entry_mut()` and fills only a VACANT entry (`insert_with_hasher`, since fix 838b7f8; `or_insert_with` before) — nothing in it sets an occupied slot (`insert`, `replace…`).  This is the
    shape of `Registry.writeSection` (look up, insert only when absent) on which `conc_handle_is_registry_cell` and
    `conc_same_key_same_cell` rest; the yield points of the concurrent stream sit where the model's PCs are. -/
theorem src_goc_rechecks_under_write_lock :
    Generated.debug_goc_read_section = [["raw_entry"], ["raw_entry"], ["raw_entry"]]
    ∧ Generated.debug_goc_write_section
        = [["raw_entry", "raw_entry_mut", "insert_with_hasher"], ["raw_entry", "raw_entry_mut", "insert_with_hasher"],
           ["raw_entry", "raw_entry_mut", "insert_with_hasher"]]
    ∧ Generated.debug_goc_points
        = [["reg.goc.read", "read", "drop(shard_read)", "reg.goc.write", "write"],
           ["reg.goc.read", "read", "drop(shard_read)", "reg.goc.write", "write"],
           ["reg.goc.read", "read", "drop(shard_read)", "reg.goc.write", "write"]]
    ∧ Generated.debug_goc_op_calls = ["op(v) op(v)", "op(v) op(v)", "op(v) op(v)"] := ⟨rfl, rfl, rfl, rfl⟩

/-! ## non-vacuity -/

section examples

private def kA : MKey := ⟨['m'], [(['h'], ['1']), (['c'], ['2'])]⟩
/-- the same key with its labels given in the other order -/
private def kA' : MKey := ⟨['m'], [(['c'], ['2']), (['h'], ['1'])]⟩
private def kB : MKey := ⟨['m'], []⟩

example : canonKey kA = canonKey kA' := by decide

private def history : List Op :=
  [ .describe .counter ['m'] (some .seconds) ['o', 'l', 'd'],
    .describe .gauge ['x'] (some .bytes) ['o', 'n', 'l', 'y'],      -- described only
    .hrec kB (.dy 5), .hrec kB (.dy 5),
    .cinc kA 18446744073709551615, .cinc kA' 3,                      -- wraps; same metric
    .describe .counter ['m'] none ['n', 'e', 'w'],                   -- keeps the unit
    .gadd kB (-2048), .snapshot, .hrec kB (.dy 7) ]

example : snapshotAfter history
    = [ ⟨.histogram, kB, kB, none, none, .histogram [.dy 7]⟩,
        ⟨.counter, canonKey kA, kA, some .seconds, some ['n', 'e', 'w'], .counter 2⟩,
        ⟨.gauge, kB, kB, none, none, .gauge (.dy (-2048))⟩ ] := by decide

/-- the values shown before (5, 5) are not shown again -/
example : histVals (snapshotAfter (history ++ [.snapshot])) kB = [] := by decide
example : delivered kB init (history ++ [.snapshot]) = [.dy 5, .dy 5, .dy 7] := by decide

/-- 65 values span two blocks: the newest block is handed over first -/
example : pend (run init ((List.range 65).map (fun n => Op.hrec kB (.dy (Int.ofNat n))))) kB
    = .dy 64 :: (List.range 64).map (fun n => Val.dy (Int.ofNat n)) := by decide

/-- two recorders, the same key: each shows its own count -/
example : (sysOutput (sysRun sysInit [(0, .cinc kB 1), (1, .cinc kB 10), (0, .cinc kB 2)]) (1, .snapshot)).map
    (·.value) = [.counter 10] := by decide

/-- scopes: thread 1 enters recorder 0, inside it recorder 1 which is left by UNWINDING; the call that follows
    belongs to recorder 0 again, and the one after the outer scope to the global recorder 7 -/
private def scopedProg : List (Tid × SOp) :=
  [ (0, .install 7), (1, .enter 0), (1, .cur (.cinc kB 1)), (1, .enter 1), (1, .cur (.cinc kB 10)),
    (2, .cur (.cinc kB 1000)),                      -- another thread, no scope: global
    (1, .exit true), (1, .cur (.cinc kB 100)), (1, .exit false), (1, .cur (.cinc kB 10000)) ]

example : addressedFrom {} scopedProg
    = [(0, .cinc kB 1), (1, .cinc kB 10), (7, .cinc kB 1000), (0, .cinc kB 100), (7, .cinc kB 10000)] := rfl
example : ((sysOutput (sRun sInit scopedProg).sys (0, .snapshot)).map (·.value),
           (sysOutput (sRun sInit scopedProg).sys (1, .snapshot)).map (·.value),
           (sysOutput (sRun sInit scopedProg).sys (7, .snapshot)).map (·.value))
    = ([.counter 101], [.counter 10], [.counter 11000]) := by decide
example : closes 1 0 [(1, .enter 1), (2, .enter 5), (1, .cur .snapshot), (1, .exit true)] = true := by decide
/-- a model of the destructor that skips the restore while unwinding (the `thread::panicking()` early return)
    would leave recorder 1 current: the flag is ignored by `scExit`, as by the code -/
example : target (sRun sInit [(1, .enter 0), (1, .enter 1), (1, .exit true)]).sc 1 = some 0 := by decide

end examples

end MetricsVerif.C19
