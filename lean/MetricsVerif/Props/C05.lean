/-
C05 — the lock-free bucket never loses, duplicates or invents a sample.

Step machine: `Model/Bucket.lean` (one step = one shared-memory operation; PC names = yield-point ids in
bucket.rs), for ANY block size `B` (64 in the source).  The model is of the code after the two `fix:` commits
(link before publishing the new tail; `is_empty` on claimed slots).

What is proved, for every program list and EVERY schedule:
* `pushers_conserved` — any number of concurrent pushers, any interleaving of their atomic steps incl. block
  hand-over: once they are done, a snapshot returns exactly the pushed values, each once (nothing lost,
  duplicated or invented);
* `inflight_accounting` — at every moment of such a run the number of claimed-but-unpublished slots equals the
  number of pushers between their slot write and their publish step; readers only ever see published prefixes;
* `claimed_plus_todo` — at every moment every push argument is either still to be claimed or sits in exactly
  one claimed slot;
* the full statement with clearers is FALSE of the code: `k1_straggler_lost` (known finding K-C05-K1).

For ANY mix of threads (pushers, snapshot readers, clearers, is_empty callers), any programs, EVERY schedule:
* `all_threads_structural` — no two threads ever own the same slot, every publishing thread's slot holds its
  own argument, unpublished slots = threads between slot write and publish;
* `all_threads_claimed_plus_todo` — every push argument is either still to be claimed or sits in exactly one
  claimed slot (no slot overwritten, no push claims twice), also while clears detach blocks under the pushers;
* `never_invents` — every value ever handed to a snapshot or clear callback is the argument of a push in the
  programs (and `never_invents_count`: the slots holding `v` never outnumber the pushes of `v`);
* `never_duplicates` — at every moment, value by value, (what clears have delivered so far) + (what a snapshot
  could still see) ≤ (pushes of that value): no sample is delivered to two clears, delivered twice by one clear,
  or both delivered and still reported.  Proof by ghost ownership of blocks (`Proofs/BucketClear.lean`): the
  live chain and every running clear's remaining chain are disjoint contiguous index ranges.
So the ONLY way the full statement fails for the code is loss (a completed push that is neither delivered nor
visible), and `k1_straggler_lost` shows that this does happen.

The loss is confined to ONE pattern, K1 = "a pusher's slot claim lands on a block that a clear has already detached"
(`stragglerClaims` counts these steps along a schedule; ghost counter, the step machine is untouched):
* `conservation_except_K1` — for ANY programs (pushers, snapshot readers, is_empty callers, clearers; any number, any
  block size) and EVERY schedule without a K1 step, at quiescence every value was delivered to clear callbacks plus is
  visible to a snapshot EXACTLY as often as it was pushed (`…_perm`: delivered ++ visible is a permutation of the
  pushed values); `conservation_without_clears` is the special case "no clear in the programs" (no K1 step possible);
* `accounting_except_K1` — the same at EVERY moment of such a run: each completed push is in exactly one of: handed
  to a finished clear, handed to a running clear, in a block reachable from the tail, in a detached block a running
  clear has not read yet (`completed_pushes_are_published`: published slots = completed pushes);
* `K1_is_claim_on_unreachable_block` / `K1_has_detach_between` / `pusher_claims_on_the_tail_it_saw` — K1 in terms of
  the state alone (the claimed block is not reachable from the tail) and of the trace (a clear's successful detach CAS
  lies between the pusher's tail load / installing CAS and its claim: the signature of K-C05-K1);
* `k1_straggler_is_K1` — the witness of `k1_straggler_lost` has exactly one K1 step, so the hypothesis is needed;
* `failed_detach_delivers_nothing_and_loses_nothing` / `detach_cas_all_or_nothing` — the detaching CAS of `clear_with`
  either takes the WHOLE chain or (the tail changed since the load) nothing: then the call returns `cleared []` and blocks,
  tail, visible values, delivered values and completed pushes are unchanged (`failed_detach_witness`: a clear that returns
  nothing although pushes had completed before it began; no clause of C05 is violated, the values stay visible);
* `delivered_once_tail_was_null` — the positive side: every schedule without a K1 step — what was published before a
  moment at which the tail was null (a successful detach, or an empty bucket) has been delivered as soon as no clear is
  walking any more;
* `snapshot_complete_any` — ANY programs (clears included), every schedule: a `data_with` returns every value that was
  published and reachable from the tail when it loaded the tail; `is_empty_complete_any` — same scope: an `is_empty`
  answers `false` if a published value was reachable from the tail when it loaded the tail.
-/
import MetricsVerif.Proofs.Bucket
import MetricsVerif.Proofs.BucketAll
import MetricsVerif.Proofs.BucketClear
import MetricsVerif.Proofs.BucketSnap
import MetricsVerif.Proofs.BucketCons
import MetricsVerif.Proofs.BucketSnapLive
import MetricsVerif.Proofs.BucketEmptyLive
import MetricsVerif.Proofs.BucketEmpty
import MetricsVerif.Proofs.MsgPass
import MetricsVerif.Proofs.SrcShapes
import MetricsVerif.Generated.SourceFacts

namespace MetricsVerif.C05
open MetricsVerif.Bucket

def pushVal : Call → Option Nat
  | .push v => some v
  | _ => none

theorem count_pushVal (l : List Call) (v : Nat) : (l.filterMap pushVal).count v = l.count (.push v) := by
  induction l with
  | nil => rfl
  | cons c cs ih =>
    cases c with
    | push w =>
      simp only [List.filterMap_cons, pushVal, List.count_cons, ih]
      by_cases h : w = v <;> simp [h]
    | data => simp [List.filterMap_cons, pushVal, List.count_cons, ih]
    | clear => simp [List.filterMap_cons, pushVal, List.count_cons, ih]
    | isEmpty => simp [List.filterMap_cons, pushVal, List.count_cons, ih]

/-- every state reachable by pushers satisfies the structural invariant -/
theorem reachable_pinv (B : Nat) (progs : List (List Call)) (hp : PushOnly progs) (sched : List Nat) :
    PInv (run (init B progs) sched) := prun_inv sched _ (init_pinv B progs hp)

/-- **claimed + to-do is constant**: at every moment, for every value `v`, (slots holding `v`) + (pushes of `v`
    that have not claimed a slot yet) = (pushes of `v` in the programs).  So no push ever claims two slots, no
    slot is overwritten, and no slot holds anything but a push argument. -/
theorem claimed_plus_todo (B : Nat) (progs : List (List Call)) (hp : PushOnly progs) (sched : List Nat) (v : Nat) :
    cellsCount v (run (init B progs) sched) + todoSum v (run (init B progs) sched)
      = progs.flatten.count (.push v) := by
  rw [prun_vals v sched _ (init_pinv B progs hp), todoSum_init]
  simp [cellsCount, init]

/-- **in-flight accounting**: unpublished slots = pushers between slot write and publish, always -/
theorem inflight_accounting (B : Nat) (progs : List (List Call)) (hp : PushOnly progs) (sched : List Nat) :
    wSum (run (init B progs) sched) = pSum (run (init B progs) sched) := (reachable_pinv B progs hp sched).wp

/-- a reader never sees a slot before its publish step: `Block::data` is the all-published prefix, in claim
    (= push) order of that block -/
theorem data_is_published_prefix (b : Block) :
    ∃ rest, b.cells = (b.cells.takeWhile Cell.isPub) ++ rest
      ∧ b.data = (b.cells.takeWhile Cell.isPub).map Cell.val
      ∧ ∀ c ∈ b.cells.takeWhile Cell.isPub, c.isPub = true := by
  refine ⟨b.cells.dropWhile Cell.isPub, (List.takeWhile_append_dropWhile).symm, rfl, ?_⟩
  intro c hc
  have : ∀ (l : List Cell), ∀ c ∈ l.takeWhile Cell.isPub, c.isPub = true := by
    intro l
    induction l with
    | nil => intro c hc; simp at hc
    | cons x xs ih =>
      intro c hc
      by_cases hx : x.isPub = true
      · simp only [List.takeWhile_cons, hx, if_true, List.mem_cons] at hc
        rcases hc with rfl | hc
        · exact hx
        · exact ih c hc
      · simp [List.takeWhile_cons, hx] at hc
  exact this _ c hc

/-- **conservation for concurrent pushers** (count form): when all pushers are done, a snapshot contains
    every value exactly as often as it was pushed -/
theorem pushers_conserved_count (B : Nat) (progs : List (List Call)) (hp : PushOnly progs) (sched : List Nat)
    (hq : quiescent (run (init B progs) sched) = true) (v : Nat) :
    (visible (run (init B progs) sched)).count v = progs.flatten.count (.push v) := by
  have h := reachable_pinv B progs hp sched
  have h1 := visible_count_of_quiescent _ h hq v
  have h2 := todoSum_zero_of_quiescent _ h hq v
  have h3 := claimed_plus_todo B progs hp sched v
  omega

/-- **conservation for concurrent pushers**: in every interleaving of any number of pushers (any block size,
    so any number of block hand-overs), once they are done a snapshot is a permutation of the pushed values —
    nothing lost, nothing duplicated, nothing invented -/
theorem pushers_conserved (B : Nat) (progs : List (List Call)) (hp : PushOnly progs) (sched : List Nat)
    (hq : quiescent (run (init B progs) sched) = true) :
    (visible (run (init B progs) sched)).Perm (progs.flatten.filterMap pushVal) := by
  rw [List.perm_iff_count]
  intro v
  rw [pushers_conserved_count B progs hp sched hq v, count_pushVal]

/-! ### any mix of threads: structure, accounting, and "never invents" in every interleaving -/

/-- every reachable state of ANY programs satisfies the structural invariant -/
theorem all_threads_structural (B : Nat) (progs : List (List Call)) (sched : List Nat) :
    AInv (run (init B progs) sched) := (arun_inv2 sched _ (init_ainv2 B progs)).inv

/-- claimed + to-do is constant for ANY programs (pushers racing snapshots, clears and is_empty) -/
theorem all_threads_claimed_plus_todo (B : Nat) (progs : List (List Call)) (sched : List Nat) (v : Nat) :
    cellsCount v (run (init B progs) sched) + todoSum v (run (init B progs) sched)
      = progs.flatten.count (.push v) := by
  rw [arun_vals v sched _ (init_ainv2 B progs), todoSum_init]
  simp [cellsCount, init]

/-- slots holding `v` never outnumber the pushes of `v` -/
theorem never_invents_count (B : Nat) (progs : List (List Call)) (sched : List Nat) (v : Nat) :
    cellsCount v (run (init B progs) sched) ≤ progs.flatten.count (.push v) := by
  have := all_threads_claimed_plus_todo B progs sched v; omega

/-- **never invents**: whatever a snapshot or a clear hands to its callback — in any interleaving of any
    threads — is the argument of some push -/
theorem never_invents (B : Nat) (progs : List (List Call)) (sched : List Nat) (i : Nat) (t : Thread)
    (ht : (run (init B progs) sched).threads[i]? = some t) (v : Nat) (hv : v ∈ seenVals t) :
    Call.push v ∈ progs.flatten := by
  have h1 := arun_seen sched _ (init_ainv2 B progs) (init_seen B progs) i t ht v hv
  have h2 := never_invents_count B progs sched v
  exact List.count_pos_iff.mp (by omega)

/-- **never duplicates**: for ANY programs and EVERY schedule, at every moment and for every value, what the
    clears have delivered plus what a snapshot taken now could still see never exceeds the pushes of that value -/
theorem never_duplicates (B : Nat) (progs : List (List Call)) (sched : List Nat) (v : Nat) :
    (delivered (run (init B progs) sched)).count v + (visible (run (init B progs) sched)).count v
      ≤ progs.flatten.count (.push v) := by
  have h1 := delivered_visible_le_cells B progs sched v
  have h2 := never_invents_count B progs sched v
  omega

/-- the ownership invariant behind `never_duplicates` holds in every reachable state -/
theorem ownership_invariant (B : Nat) (progs : List (List Call)) (sched : List Nat) :
    GInv (run (init B progs) sched) (grun (init B progs) own0 sched).2 := by
  have := (grun_inv sched _ _ (init_ginv B progs) (init_gacc B progs)).1
  rw [grun_fst] at this; exact this

/-- non-vacuity for `never_duplicates`: two clears and a pusher over a block hand-over (block size 1); the two
    clears deliver disjoint values and one value is still visible -/
example :
    let progs : List (List Call) := [[.push 1, .push 2, .push 3], [.clear], [.clear]]
    let s := run (init 1 progs) [0,0,0,0,0, 1,1,1,1,1,1, 0,0,0,0, 2,2,2,2,2,2,2, 0,0,0,0,0]
    delivered s = [1, 2] ∧ visible s = [3] ∧ quiescent s = true := by decide

/-- non-vacuity: a clearer and a snapshot reader racing two pushers (block size 2): the values seen are exactly
    push arguments, and the reachable state has seen something -/
example :
    let progs : List (List Call) := [[.push 1, .push 2], [.push 3], [.clear], [.data]]
    let s := run (init 2 progs) [0, 0, 0, 0, 0, 1, 1, 1, 1, 1, 3, 3, 3, 3, 3, 3, 3, 3, 2, 2, 2, 2, 2, 2, 2, 2, 0, 0, 0, 0, 0, 0, 0, 0]
    (s.threads.map seenVals) = [[], [], [1, 3], [1, 3]] ∧ quiescent s = true := by decide

/-! ### the full statement is false of the code: a straggler push on a detached block (K-C05-K1)

Pusher 1 loads the tail, the clearer detaches the chain, waits for quiescence and reads it, then pusher 1
claims and publishes its slot in the detached block: its completed push is neither delivered nor visible.
(Block size 2 keeps the kernel evaluation small; the schedule replayed on the real code uses 64.) -/

theorem k1_straggler_lost :
    let s := run (init 2 [[.push 1], [.push 2], [.clear]])
      [0, 1, 2, 0, 0, 0, 0, 1, 2, 2, 2, 2, 2, 1, 1]
    quiescent s = true
    ∧ completedPushes s = 2                      -- both pushes completed
    ∧ delivered s = [1]                          -- the clear got only the first
    ∧ visible s = [] := by decide                -- and the second is not visible either

/-! ### conservation for ANY mix of threads outside the K1 pattern

K1: the step a thread is about to take is a `pClaim blk` that really claims a slot (`write < B`) while block `blk`
is not `live` in the ghost ownership of `Proofs/BucketClear.lean`, i.e. a clear's detach CAS has taken it off the
tail since the pusher loaded (or installed) it: `Bucket.k1Step`.  `stragglerClaims` counts these steps. -/

/-- number of K1 steps (slot claims landing on an already detached block) in the run of `sched` -/
def stragglerClaims (B : Nat) (progs : List (List Call)) (sched : List Nat) : Nat :=
  k1Count (init B progs) own0 sched

/-- at quiescence every thread has run its whole program: all calls (in particular all pushes) have completed -/
theorem quiescent_all_calls_finished (B : Nat) (progs : List (List Call)) (sched : List Nat)
    (hq : quiescent (run (init B progs) sched) = true) :
    ∀ t ∈ (run (init B progs) sched).threads, t.pc = .done ∧ t.calls = [] :=
  calls_nil_of_quiescent _ (donenil_run sched _ (init_donenil B progs)) hq

/-- **conservation outside K1** (count form): for ANY programs — pushers, snapshot readers, is_empty callers and
    clearers, any number of threads and calls, any block size — and EVERY schedule in which no slot claim lands on an
    already detached block, once all calls have finished every value `v` satisfies
    (pushes of `v`) = (times `v` was handed to a clear callback, over all clears) + (times a snapshot taken now sees `v`).
    Nothing lost, nothing duplicated, nothing invented. -/
theorem conservation_except_K1 (B : Nat) (progs : List (List Call)) (sched : List Nat)
    (hk : stragglerClaims B progs sched = 0) (hq : quiescent (run (init B progs) sched) = true) (v : Nat) :
    progs.flatten.count (.push v)
      = (delivered (run (init B progs) sched)).count v + (visible (run (init B progs) sched)).count v :=
  (conserved_of_noK1 B progs sched hk hq v).symm

/-- **conservation outside K1**: what the clears were handed, together with what is still visible, is a permutation
    of the pushed values -/
theorem conservation_except_K1_perm (B : Nat) (progs : List (List Call)) (sched : List Nat)
    (hk : stragglerClaims B progs sched = 0) (hq : quiescent (run (init B progs) sched) = true) :
    (delivered (run (init B progs) sched) ++ visible (run (init B progs) sched)).Perm
      (progs.flatten.filterMap pushVal) := by
  rw [List.perm_iff_count]
  intro v
  rw [List.count_append, count_pushVal, conservation_except_K1 B progs sched hk hq v]

/-- programs in which no thread ever calls `clear` / `clear_with` -/
def NoClear (progs : List (List Call)) : Prop := ∀ p ∈ progs, Call.clear ∉ p

/-- programs without clears cannot take a K1 step, whatever the schedule -/
theorem no_K1_without_clears (B : Nat) (progs : List (List Call)) (hnc : NoClear progs) (sched : List Nat) :
    stragglerClaims B progs sched = 0 := k1Count_noclear sched _ (init_cinv B progs hnc)

/-- **conservation without clears**: pushers racing snapshot readers and is_empty callers (any number, any schedule):
    once all calls have finished a snapshot returns exactly the pushed values (generalises `pushers_conserved`) -/
theorem conservation_without_clears (B : Nat) (progs : List (List Call)) (hnc : NoClear progs) (sched : List Nat)
    (hq : quiescent (run (init B progs) sched) = true) :
    (visible (run (init B progs) sched)).Perm (progs.flatten.filterMap pushVal) := by
  rw [List.perm_iff_count]
  intro v
  have h1 := conservation_except_K1 B progs sched (no_K1_without_clears B progs hnc sched) hq v
  have h2 := never_duplicates B progs sched v
  have h3 := delivered_zero_noclear B progs hnc sched v
  rw [count_pushVal]; omega

/-- **what K1 is, in terms of the state alone**: in any reachable state, thread `tid`'s next step is a K1 step iff the
    thread is parked at `blk.push.claim` for a block that still has a free slot (so the `fetch_add` claims one) and that
    is NOT reachable from the tail through `next` any more -/
theorem K1_is_claim_on_unreachable_block (B : Nat) (progs : List (List Call)) (sched : List Nat) (tid : Nat) :
    k1Step (run (init B progs) sched) (grun (init B progs) own0 sched).2 tid = true ↔
      ∃ t blk r, (run (init B progs) sched).threads[tid]? = some t ∧ t.pc = .pClaim blk r
        ∧ (getBlock (run (init B progs) sched) blk).write < (run (init B progs) sched).B
        ∧ onChain (run (init B progs) sched) blk = false :=
  k1Step_iff (ownership_invariant B progs sched) tid

/-- **what K1 is, in terms of the trace** (the signature of K-C05-K1): a pusher obtains the block of its claim only
    in a state whose tail is that block (`pusher_claims_on_the_tail_it_saw`); if later (after `mid`) its claim is a K1
    step, then a clear's successful detach CAS lies in `mid`, between the tail load / installing CAS and the claim -/
theorem K1_has_detach_between (B : Nat) (progs : List (List Call)) (pre mid : List Nat) (tid blk : Nat) (t : Thread)
    (r : Bool) (htail : (run (init B progs) pre).tail = some blk)
    (hg : (run (init B progs) (pre ++ mid)).threads[tid]? = some t) (hp : t.pc = .pClaim blk r)
    (hk : k1Step (run (init B progs) (pre ++ mid)) (grun (init B progs) own0 (pre ++ mid)).2 tid = true) :
    ∃ m1 c m2, mid = m1 ++ c :: m2 ∧ detachStep (run (init B progs) (pre ++ m1)) c :=
  k1_needs_detach B progs pre mid tid blk t r htail hg hp hk

/-- a thread arrives at `blk.push.claim` for block `blk` only by a step after which the tail IS `blk`: the tail load,
    the first-block CAS (won or lost) or the won hand-over CAS -/
theorem pusher_claims_on_the_tail_it_saw (s : Sys) (t : Thread) (blk : Nat) (r : Bool)
    (h : (stepThread s t).2.pc = .pClaim blk r) : (stepThread s t).1.tail = some blk :=
  claim_target_is_tail s t blk r h

/-- the number of published slots holding `v` IS the number of completed pushes of `v`: at every moment of any run,
    pushes of `v` in the programs = published slots + slots between slot write and publish + pushes that have not
    claimed a slot yet -/
theorem completed_pushes_are_published (B : Nat) (progs : List (List Call)) (sched : List Nat) (v : Nat) :
    pubCount v (run (init B progs) sched) + inFlight v (run (init B progs) sched)
      + todoSum v (run (init B progs) sched) = progs.flatten.count (.push v) := by
  have h1 := pubCount_add_inFlight v (run (init B progs) sched)
  have h2 := all_threads_claimed_plus_todo B progs sched v
  omega

/-- **conservation outside K1, at EVERY moment** (not only at quiescence): in a run of ANY programs without a K1 step,
    every completed push of `v` (published slot) is accounted for exactly once — it was handed to the callback of a
    finished clear (`delivered`), or of a clear that is still walking its chain (`inRunningClears`), or it sits in a
    block reachable from the tail (where every later snapshot / is_empty finds it once the slots below it are
    published: `snapshot_complete`, `data_only_grows`), or in a detached block that a running clear has not read yet
    (and will read only after it saw the block quiesced). Nothing else was ever handed to a clear. -/
theorem accounting_except_K1 (B : Nat) (progs : List (List Call)) (sched : List Nat)
    (hk : stragglerClaims B progs sched = 0) (v : Nat) :
    pubCount v (run (init B progs) sched)
      = (delivered (run (init B progs) sched)).count v + (inRunningClears (run (init B progs) sched)).count v
        + pubIn v isLive (grun (init B progs) own0 sched).2 (run (init B progs) sched)
        + pubIn v isDet (grun (init B progs) own0 sched).2 (run (init B progs) sched) := by
  rw [accounted_of_noK1 B progs sched hk v, Dsum_split]

/-- non-vacuity for `accounting_except_K1`: the run of the example below, stopped while clear #2 has read block 1
    (value 4) and waits on block 0 (value 1 published, value 2 in flight) -/
example :
    let progs : List (List Call) := [[.push 1, .push 2, .push 3], [.push 4], [.clear, .clear]]
    let sched := [0,0,0,0,0, 0,0, 2,2, 1,1,1,1,1, 2, 2,2,2,2, 1, 2,2,2,2]
    let s := run (init 2 progs) sched
    let own := (grun (init 2 progs) own0 sched).2
    stragglerClaims 2 progs sched = 0 ∧ quiescent s = false
    ∧ delivered s = [] ∧ inRunningClears s = [4] ∧ pubCount 4 s = 1
    ∧ pubCount 1 s = 1 ∧ pubIn 1 isDet own s = 1 ∧ pubIn 1 isLive own s = 0
    ∧ pubCount 2 s = 0 ∧ inFlight 2 s = 1 := by decide

/-- the hypothesis is needed, and the predicate flags the known finding: the schedule of `k1_straggler_lost` contains
    exactly one K1 step (pusher 1's claim, taken after the clear's detach CAS) -/
theorem k1_straggler_is_K1 :
    stragglerClaims 2 [[.push 1], [.push 2], [.clear]] [0, 1, 2, 0, 0, 0, 0, 1, 2, 2, 2, 2, 2, 1, 1] = 1
    ∧ stragglerClaims 2 [[.push 1], [.push 2], [.clear]] [0, 1, 2, 0, 0, 0, 0, 1, 2, 2, 2, 2, 2] = 0 := by decide

/-- non-vacuity for `conservation_except_K1` (block size 2): pusher 1 hands block 0 over to block 1 while the clear sits
    between its tail load and its CAS (the CAS fails; the clear loads the tail again and retries — before the fix
    "clear_with retries its detach …" it returned nothing here); the retried CAS detaches the two-block chain
    while BOTH pushers are between slot write and publish, the clear has to wait on each block, and delivers all three
    values; the push that started after the detach lands in a fresh block and stays visible.  No K1 step. -/
example :
    let progs : List (List Call) := [[.push 1, .push 2, .push 3], [.push 4], [.clear]]
    let sched := [0,0,0,0,0, 0,0, 2,2, 1,1,1,1,1, 2, 2,2,2,2, 1, 2,2,2,2, 0, 2,2,2, 0,0,0,0]
    let s := run (init 2 progs) sched
    stragglerClaims 2 progs sched = 0 ∧ quiescent s = true
    ∧ (s.threads[2]?.map (·.results)) = some [.cleared [4, 1, 2]]
    ∧ delivered s = [4, 1, 2] ∧ visible s = [3] ∧ s.blocks.length = 3 := by decide

/-! ### non-vacuity: three pushers racing over a block hand-over (block size 2) -/

example :
    let progs : List (List Call) := [[.push 1, .push 2], [.push 3], [.push 4]]
    let s := run (init 2 progs) [0, 1, 2, 0, 1, 0, 2, 1, 2, 1, 0, 0, 0, 2, 2, 2, 0, 0, 0, 0, 1, 1, 2, 2, 2, 2, 1, 1, 0, 2]
    quiescent s = true ∧ (visible s).Perm [1, 2, 3, 4] ∧ s.blocks.length ≥ 2 := by decide


/-! ### the publish/consume idiom under release/acquire, and the source facts that instantiate it

The step machine above interleaves sequentially consistent steps.  "No value is observed before it is fully
written" additionally needs the slot write to HAPPEN-BEFORE the reader's plain read, which is a fact about the
memory orderings of `Block::push` (`read.fetch_or`) and `Block::len` (`read.load`), and about the `tail` CAS
that publishes a freshly initialised block.  `Model/MsgPass` is that idiom with the orderings as parameters;
the translator supplies the orderings the source uses now. -/

open MetricsVerif.MsgPass in
/-- any number of writers and readers, every schedule: with a Release publish and an Acquire observe no plain
    read races with the slot's write, and (whatever the orderings) no slot is read before it was written -/
theorem publish_consume_no_race (o : Ords) (roles : List Bool) (sched : List Nat) :
    (MsgPass.run (MsgPass.init o roles) sched).uninit = false
    ∧ (o.pubRelease = true → o.obsAcquire = true → (MsgPass.run (MsgPass.init o roles) sched).raced = false) := by
  have h := MsgPass.run_inv _ sched (MsgPass.init_inv o roles)
  refine ⟨h.2.2.2.1, fun h1 h2 => h.2.2.2.2 ?_ ?_⟩
  · rw [MsgPass.run_ords]; exact h1
  · rw [MsgPass.run_ords]; exact h2

open MetricsVerif.MsgPass in
/-- the orderings are needed: a Relaxed publish (or a Relaxed observe) lets a reader's plain read race -/
theorem relaxed_publish_races :
    (MsgPass.run (MsgPass.init { pubRelease := false, obsAcquire := true } [true, false]) [0, 0, 1, 1]).raced = true
    ∧ (MsgPass.run (MsgPass.init { pubRelease := true, obsAcquire := false } [true, false]) [0, 0, 1, 1]).raced = true := by
  decide

/-- non-vacuity: two writers, two readers; the second reader sees both slots, nothing races -/
example :
    let s := MsgPass.run (MsgPass.init { pubRelease := true, obsAcquire := true } [true, true, false, false])
      [0, 0, 2, 1, 1, 3, 2, 3]
    s.readSlots = [1, 0, 0] ∧ s.raced = false ∧ s.uninit = false := by decide

open MetricsVerif.Src in
/-- slot publication: `Block::push` publishes with `read.fetch_or`, readers observe with `read.load` in `len` -/
def srcSlotOrds : MsgPass.Ords :=
  { pubRelease := allRelease Generated.shape_block_push "read.fetch_or",
    obsAcquire := allAcquire Generated.shape_block_len "read.load" }

open MetricsVerif.Src in
/-- block publication: both `tail` CASes of `AtomicBucket::push` publish an initialised block; every `tail.load`
    (push, data_with, clear_with, is_empty) observes it -/
def srcTailOrds : MsgPass.Ords :=
  { pubRelease := allRelease Generated.shape_bucket_push "tail.compare_exchange",
    obsAcquire := allAcquire Generated.shape_bucket_push "tail.load"
      && allAcquire Generated.shape_bucket_data_with "tail.load"
      && allAcquire Generated.shape_bucket_clear_with "tail.load"
      && allAcquire Generated.shape_bucket_is_empty "tail.load" }

/-- SOURCE FACT (regenerated on every run): the orderings the bucket uses now are release/acquire on both idioms -/
theorem src_bucket_orderings :
    srcSlotOrds = { pubRelease := true, obsAcquire := true }
    ∧ srcTailOrds = { pubRelease := true, obsAcquire := true } := by decide

open MetricsVerif.Src in
/-- SOURCE FACT: the order of the shared-memory operations is the one the step machine's program counters follow:
    claim → slot write → publish; quiescence reads the published length BEFORE the claim counter; a new block is
    linked to its predecessor BEFORE the CAS that publishes it; readers check quiescence before reading a block;
    a clearer detaches with a CAS on `tail` (re-loading `tail` when it fails: `src_clear_detach_retries`); the block size is 64 -/
theorem src_bucket_shape :
    names Generated.shape_block_push = ["write.fetch_add", "_.write", "read.fetch_or"]
    ∧ names Generated.shape_block_len = ["read.load"]
    ∧ names Generated.shape_block_is_quiesced = ["self.len", "write.load"]
    ∧ names Generated.shape_bucket_is_empty = ["tail.load"]
    ∧ names Generated.shape_bucket_push
        = ["tail.load", "tail.compare_exchange", "tail_block.push", "next.store", "tail.compare_exchange", "new_tail.push"]
    ∧ names Generated.shape_bucket_data_with = ["tail.load", "block.is_quiesced", "block.data", "next.load"]
    ∧ names Generated.shape_bucket_clear_with
        = ["tail.load", "tail.compare_exchange", "tail.load", "block.is_quiesced", "block.data", "next.load"]
    ∧ Generated.bucket_block_size = "64" := by decide

/-- SOURCE FACT (regenerated on every run; since the fix "clear_with retries its detach when the tail moved under it"):
    the detach of `clear_with` is a RETRY LOOP, the shape the step machine's `cLoadTail → cCas → (cLoadTail | cQuiesced)`
    follows: `while !block_ptr.is_null() { if tail.compare_exchange(block_ptr, null).is_ok() { break; } block_ptr =
    tail.load(); }` — the loop runs while the loaded tail is non-null, its only way out besides the condition is the
    `break` taken when the CAS succeeded, a failed CAS is followed by a fresh load of `tail` into the same variable; the
    walk that follows is guarded by that variable being non-null; and nothing returns before the walk (a failed CAS can
    no longer end the call).  The tree before the fix has no such loop (the extractor then yields `<missing>`). -/
theorem src_clear_detach_retries :
    Generated.bucket_clear_detach_loop
      = ["while:!block_ptr.is_null()", "if", "tail.compare_exchange", "is_ok", "break", "block_ptr=tail.load"]
    ∧ Generated.bucket_clear_after_detach = "if!block_ptr.is_null()"
    ∧ Generated.bucket_clear_exits_before_walk = [] := by decide

/-- the instantiated statement: with the orderings of the current source, no reader of the bucket ever reads a
    slot (or a block) that races with, or precedes, its initialising write — any number of threads, any schedule -/
theorem src_no_early_read (roles : List Bool) (sched : List Nat) :
    (MsgPass.run (MsgPass.init srcSlotOrds roles) sched).raced = false
    ∧ (MsgPass.run (MsgPass.init srcSlotOrds roles) sched).uninit = false
    ∧ (MsgPass.run (MsgPass.init srcTailOrds roles) sched).raced = false := by
  have h := src_bucket_orderings
  refine ⟨(publish_consume_no_race _ roles sched).2 ?_ ?_, (publish_consume_no_race _ roles sched).1,
          (publish_consume_no_race _ roles sched).2 ?_ ?_⟩ <;> simp [h.1, h.2]

/-! ### "stays visible", snapshot completeness, and the unbounded quiescence wait

Second sentence of the property: a snapshot read accounts for at least every value whose push completed before the
read began and that no clear has taken; values of one block appear in push order. -/

/-- **stays visible, in place**: in ANY run of ANY programs, what `Block::data` returns for a block only ever grows,
    as a prefix — a value that was once readable in a block stays readable in that block, at the same position, in
    the same (slot-claim = push) order, whatever pushers, readers and clearers do afterwards. (A clear detaches
    blocks from the tail; it never changes what a block holds.) -/
theorem data_only_grows (s : Sys) (sched : List Nat) (k : Nat) :
    (getBlock s k).data <+: (getBlock (run s sched) k).data := run_data_prefix sched s k

/-- a published value is never un-published or overwritten: per block, per value, the number of published slots
    holding it never decreases, in any step of any thread -/
theorem published_never_retracted (s : Sys) (tid k v : Nat) :
    pubc v (getBlock s k).cells ≤ pubc v (getBlock (step s tid) k).cells :=
  pubc_of_cellsStep v _ _ (step_cells s tid k)

/-- `Block::is_quiesced` ⇒ `Block::data` hands out EVERY claimed slot of the block (for any block size; `hl` is the
    structural invariant `cells_len` of `all_threads_structural`) -/
theorem quiesced_read_is_complete (B : Nat) (b : Block) (hl : b.cells.length = min b.write B)
    (hq : b.quiesced B = true) : b.data = b.cells.map Cell.val := quiesced_data_all B b hl hq

/-- **the wait is unbounded**: a snapshot reader or clearer parked in its quiescence wait on a block that is not
    quiesced stays in the wait — there is no give-up path; it leaves (to the read step) exactly when the block is
    quiesced. The state is not touched. -/
theorem wait_is_unbounded (s : Sys) (t : Thread) (blk : Nat) :
    (t.pc = .dWait blk ∨ t.pc = .dQuiesced blk →
        (stepThread s t).1 = s ∧ (stepThread s t).2.pc = if (getBlock s blk).quiesced s.B then .dRead blk else .dWait blk)
    ∧ (t.pc = .cWait blk ∨ t.pc = .cQuiesced blk →
        (stepThread s t).1 = s ∧ (stepThread s t).2.pc = if (getBlock s blk).quiesced s.B then .cRead blk else .cWait blk) := by
  refine ⟨fun h => ?_, fun h => ?_⟩ <;> rcases h with h | h <;> simp [stepThread, h]

/-- **snapshot completeness** (pushers, snapshot readers and is_empty callers; any number of threads and calls, any
    block size, EVERY schedule): take any moment `s1` at which thread `i` is about to start a `data_with` (it is at
    the call's first shared-memory step). Whatever happens afterwards (`s2`) — however long the reader has to wait
    for stalled writers, however many blocks are handed over meanwhile — when that call has returned `vs`, every
    value whose publish step (the last step of its `push`) had run before `s1` is in `vs`, with multiplicity. -/
theorem snapshot_complete (B : Nat) (progs : List (List Call)) (hnc : NoClear progs) (s1 s2 : List Nat) (i : Nat)
    (t0 t1 : Thread)
    (h0 : (run (init B progs) s1).threads[i]? = some t0) (hpc : t0.pc = .dLoadTail)
    (h1 : (run (init B progs) (s1 ++ s2)).threads[i]? = some t1)
    (vs : List Nat) (hres : t1.results = t0.results ++ [.snapshot vs]) (v : Nat) :
    pubCount v (run (init B progs) s1) ≤ vs.count v := by
  have hinv0 : SnapInv (run (init B progs) s1).blocks t0.results i (run (init B progs) s1) :=
    { base := all_threads_structural B progs s1
      chain := crun s1 _ (init_cinv B progs hnc)
      len := Nat.le_refl _
      mono := fun k v => by unfold blk0 getBlock; exact Nat.le_refl _
      rd := ⟨t0, h0, Or.inl ⟨rfl, by rw [hpc]; trivial⟩⟩ }
  have hinv := snap_run s2 _ hinv0
  have hrun : run (run (init B progs) s1) s2 = run (init B progs) (s1 ++ s2) := by
    simp [run, List.foldl_append]
  rw [hrun] at hinv
  obtain ⟨t, ht, hr⟩ := hinv.rd
  rw [h1] at ht; injection ht with ht; subst ht
  rcases hr with ⟨hsame, _⟩ | ⟨vs', rest, hres', hv⟩
  · rw [hsame] at hres
    have := congrArg List.length hres
    simp at this
  · rw [hres'] at hres
    have h2 := List.append_cancel_left hres
    simp only [List.cons.injEq, Res.snapshot.injEq] at h2
    obtain ⟨rfl, _⟩ := h2
    exact hv v

/-- **snapshot completeness for ANY programs, clears included** (any number of threads and calls, any block size, EVERY
    schedule, K1 steps or not): thread `i` executes the first shared-memory step (the tail load) of a `data_with` in the
    state reached by `pre`. Whatever happens afterwards — hand-overs, clears detaching the chain under the reader,
    stragglers, waits of any length — when that call has returned `vs`, every value whose publish step had run and that
    sat in a block reachable from the tail at that moment (no clear had detached it) is in `vs`, with multiplicity.
    Together with `accounting_except_K1` (outside K1 a completed push is reachable from the tail unless a clear took
    it) this is the second sentence of the property for snapshots; what K1 breaks is only that a straggler's slot is
    not reachable from the tail (`snapshot_incomplete_with_clear`). -/
theorem snapshot_complete_any (B : Nat) (progs : List (List Call)) (pre rest : List Nat) (i : Nat) (t0 t1 : Thread)
    (h0 : (run (init B progs) pre).threads[i]? = some t0) (hpc : t0.pc = .dLoadTail)
    (h1 : (run (init B progs) (pre ++ i :: rest)).threads[i]? = some t1)
    (vs : List Nat) (hres : t1.results = t0.results ++ [.snapshot vs]) (v : Nat) :
    pubIn v isLive (grun (init B progs) own0 pre).2 (run (init B progs) pre) ≤ vs.count v :=
  live_snapshot B progs pre rest i t0 t1 h0 hpc h1 vs hres v

/-- non-vacuity for `snapshot_complete_any` (block size 2): the reader loads the tail while block 0 holds `1` published
    and `2` in flight; a clear then detaches the chain under the reader and a later push goes to a fresh block; the
    reader waits for the stalled writer and returns `[1, 2]` (it must contain the `1` that was published and reachable
    when it loaded the tail) -/
example :
    let progs : List (List Call) := [[.push 1, .push 2, .push 3], [.data], [.clear]]
    let pre := [0,0,0,0,0, 0,0, 1]
    let rest := [2,2,2,2, 1,1, 0, 1,1,1, 2,2,2, 0,0,0,0]
    ((run (init 2 progs) pre).threads[1]?.map (·.pc)) = some .dLoadTail
    ∧ pubIn 1 isLive (grun (init 2 progs) own0 pre).2 (run (init 2 progs) pre) = 1
    ∧ ((run (init 2 progs) (pre ++ 1 :: rest)).threads[1]?.map (·.results)) = some [.snapshot [1, 2]]
    ∧ delivered (run (init 2 progs) (pre ++ 1 :: rest)) = [1, 2]
    ∧ visible (run (init 2 progs) (pre ++ 1 :: rest)) = [3] := by decide

/-- with a clear in the programs the statement is FALSE of the code (known finding K-C05-K1 again): the straggler's
    push has completed (its value is published) before the snapshot of thread 3 begins, no clear has taken it
    (`delivered = [1]`), and the snapshot returns nothing -/
theorem snapshot_incomplete_with_clear :
    let progs : List (List Call) := [[.push 1], [.push 2], [.clear], [.data]]
    let s1 := [0, 1, 2, 0, 0, 0, 0, 1, 2, 2, 2, 2, 2, 1, 1, 3]
    let s := run (init 2 progs) s1
    let s' := run (init 2 progs) (s1 ++ [3])
    (s.threads[3]?.map (·.pc)) = some .dLoadTail
    ∧ pubCount 2 s = 1 ∧ delivered s = [1]
    ∧ (s'.threads[3]?.map (·.results)) = some [.snapshot []] := by decide

/-- non-vacuity for `snapshot_complete`: a reader that has to wait for a stalled writer (slot 0 claimed, not
    published) while a second pusher completes above it and hands the block over (block size 2): the snapshot that
    began after `3` was published returns it -/
example :
    let progs : List (List Call) := [[.push 1], [.push 3, .push 4], [.data]]
    let s1 := [0, 0, 0, 0, 1, 1, 1, 1, 2]
    let s2 := [2, 2, 2, 1, 1, 1, 1, 1, 2, 2, 0, 2, 2, 2, 2, 2, 2]
    ((run (init 2 progs) s1).threads[2]?.map (·.pc)) = some .dLoadTail
    ∧ pubCount 3 (run (init 2 progs) s1) = 1
    ∧ ((run (init 2 progs) (s1 ++ s2)).threads[2]?.map (·.results)) = some [.snapshot [1, 3]] := by decide

/-- **is_empty completeness** (programs without clears; any number of threads and calls, any block size, EVERY
    schedule): an `is_empty` that is at its first shared-memory step in a state where some value's publish step has
    already run answers `false` — whatever happens in between, including hand-overs to newer blocks and slots still
    in flight below the published one (the former K3). Rests on: claim counters only grow, and every block below
    the newest has had a slot claimed (a block is only replaced by a pusher whose claim on it failed). -/
theorem is_empty_complete (B : Nat) (progs : List (List Call)) (hnc : NoClear progs) (s1 s2 : List Nat) (i : Nat)
    (t0 t1 : Thread)
    (h0 : (run (init B progs) s1).threads[i]? = some t0) (hpc : t0.pc = .eLoadTail)
    (h1 : (run (init B progs) (s1 ++ s2)).threads[i]? = some t1)
    (e : Bool) (hres : t1.results = t0.results ++ [.empty e]) (v : Nat)
    (hv : 1 ≤ pubCount v (run (init B progs) s1)) : e = false := by
  have hinv0 : EmpInv (run (init B progs) s1).blocks t0.results i (run (init B progs) s1) :=
    { w := wrun s1 _ (init_winv B progs hnc)
      len := Nat.le_refl _
      mono := fun k v => by unfold blk0 getBlock; exact Nat.le_refl _
      rd := ⟨t0, h0, Or.inl ⟨rfl, by rw [hpc]; trivial⟩⟩ }
  have hinv := emp_run s2 _ hinv0
  have hrun : run (run (init B progs) s1) s2 = run (init B progs) (s1 ++ s2) := by
    simp [run, List.foldl_append]
  rw [hrun] at hinv
  obtain ⟨t, ht, hr⟩ := hinv.rd
  rw [h1] at ht; injection ht with ht; subst ht
  obtain ⟨j, hj⟩ := needFrom_pos v _ (run (init B progs) s1).blocks.length 0 (by omega) hv
  rcases hr with ⟨hsame, _⟩ | ⟨e', rest, hres', he⟩
  · rw [hsame] at hres
    have := congrArg List.length hres
    simp at this
  · rw [hres'] at hres
    have h2 := List.append_cancel_left hres
    simp only [List.cons.injEq, Res.empty.injEq] at h2
    obtain ⟨rfl, _⟩ := h2
    exact he ⟨j, v, hj⟩

/-- **is_empty completeness for ANY programs, clears included** (every schedule, any block size, K1 steps or not):
    thread `i` executes the first shared-memory step (the tail load) of an `is_empty` in the state reached by `pre`; if
    in that state some value is published in a block reachable from the tail (its push completed, no clear has detached
    it), the call answers `false` — whatever happens between its two steps (hand-overs, clears, slots in flight below
    the published one). What K1 breaks is only that a straggler's slot is not reachable from the tail
    (`is_empty_incomplete_with_clear`). -/
theorem is_empty_complete_any (B : Nat) (progs : List (List Call)) (pre rest : List Nat) (i : Nat) (t0 t1 : Thread)
    (h0 : (run (init B progs) pre).threads[i]? = some t0) (hpc : t0.pc = .eLoadTail)
    (h1 : (run (init B progs) (pre ++ i :: rest)).threads[i]? = some t1)
    (e : Bool) (hres : t1.results = t0.results ++ [.empty e]) (v : Nat)
    (hv : 1 ≤ pubIn v isLive (grun (init B progs) own0 pre).2 (run (init B progs) pre)) : e = false :=
  live_is_empty B progs pre rest i t0 t1 h0 hpc h1 e hres v hv

/-- non-vacuity for `is_empty_complete_any` (block size 1): `1` is published in block 0, block 1 (the tail) has been
    installed by the hand-over but nothing is claimed in it yet; `is_empty` loads the tail, a clear detaches the chain
    and delivers `1` before `is_empty` takes its second step: the answer is `false` (decided on the predecessor's claim
    counter) -/
example :
    let progs : List (List Call) := [[.push 1, .push 2], [.isEmpty], [.clear]]
    let pre := [0,0,0,0,0, 0,0,0, 1]
    let rest := [2,2,2,2,2,2,2,2,2, 1]
    ((run (init 1 progs) pre).threads[1]?.map (·.pc)) = some .eLoadTail
    ∧ pubIn 1 isLive (grun (init 1 progs) own0 pre).2 (run (init 1 progs) pre) = 1
    ∧ (run (init 1 progs) pre).tail = some 1
    ∧ delivered (run (init 1 progs) (pre ++ 1 :: rest)) = [1]
    ∧ ((run (init 1 progs) (pre ++ 1 :: rest)).threads[1]?.map (·.results)) = some [.empty false] := by decide

/-- with a clear in the programs `is_empty` completeness is FALSE of the code as well (K-C05-K1): the straggler's
    value is published, no clear took it, and `is_empty` answers `true` -/
theorem is_empty_incomplete_with_clear :
    let progs : List (List Call) := [[.push 1], [.push 2], [.clear], [.isEmpty]]
    let s1 := [0, 1, 2, 0, 0, 0, 0, 1, 2, 2, 2, 2, 2, 1, 1, 3]
    let s := run (init 2 progs) s1
    let s' := run (init 2 progs) (s1 ++ [3])
    (s.threads[3]?.map (·.pc)) = some .eLoadTail
    ∧ pubCount 2 s = 1 ∧ delivered s = [1]
    ∧ (s'.threads[3]?.map (·.results)) = some [.empty true] := by decide

/-- non-vacuity for `is_empty_complete`: slot 0 is claimed and still in flight, slot 1 is published (the former K3
    shape, block size 2): `is_empty` answers `false` -/
example :
    let progs : List (List Call) := [[.push 1], [.push 3], [.isEmpty]]
    let s1 := [0, 0, 0, 0, 1, 1, 1, 1, 2]
    ((run (init 2 progs) s1).threads[2]?.map (·.pc)) = some .eLoadTail
    ∧ pubCount 3 (run (init 2 progs) s1) = 1 ∧ pubCount 1 (run (init 2 progs) s1) = 0
    ∧ ((run (init 2 progs) (s1 ++ [2, 2])).threads[2]?.map (·.results)) = some [.empty false] := by decide

/-! ### a clear whose detach CAS fails (`bkt.clear.cas`)

`clear_with` loads the tail and detaches the chain with `compare_exchange(loaded, null)`.  When another thread changed
the tail between the two (a pusher's block hand-over installed a new tail, or another clear detached the chain) the CAS
fails and `clear_with` returns without having called its callback.  No clause of C05 is violated by that: the values
stay where they were, "visible to every later snapshot read until a clear takes it".  What holds is stated exactly. -/

theorem flatMap_setAt_of_eq {α β : Type} (f : α → List β) : ∀ (l : List α) (i : Nat) (a x : α),
    l[i]? = some x → f a = f x → (setAt l i a).flatMap f = l.flatMap f := by
  intro l
  induction l with
  | nil => intro i a x h; simp at h
  | cons y ys ih =>
    intro i a x h hf
    cases i with
    | zero =>
      simp only [List.getElem?_cons_zero, Option.some.injEq] at h
      subst h
      simp only [setAt, List.flatMap_cons, hf]
    | succ n =>
      simp only [List.getElem?_cons_succ] at h
      simp only [setAt, List.flatMap_cons, ih n a x h hf]

theorem map_setAt_of_eq {α β : Type} (f : α → β) : ∀ (l : List α) (i : Nat) (a x : α),
    l[i]? = some x → f a = f x → (setAt l i a).map f = l.map f := by
  intro l
  induction l with
  | nil => intro i a x h; simp at h
  | cons y ys ih =>
    intro i a x h hf
    cases i with
    | zero =>
      simp only [List.getElem?_cons_zero, Option.some.injEq] at h
      subst h
      simp only [setAt, List.map_cons, hf]
    | succ n =>
      simp only [List.getElem?_cons_succ] at h
      simp only [setAt, List.map_cons, ih n a x h hf]

/-- what a snapshot would see depends on the blocks and the tail only -/
theorem chainData_congr (s s' : Sys) (hb : s'.blocks = s.blocks) : ∀ (fuel : Nat) (o : Option Nat),
    chainData s' fuel o = chainData s fuel o := by
  intro fuel
  induction fuel with
  | zero => intro o; rfl
  | succ n ih =>
    intro o
    cases o with
    | none => rfl
    | some i => simp only [chainData, getBlock, hb, ih]

/-- **a failed detach changes nothing, and the clearer tries again.**  Any state, any thread that stands at the detaching
    CAS of its `clear_with` (`cCas old`: it loaded `old` as the tail) while the tail is no longer `old`: its next step
    leaves the bucket untouched — same blocks, same tail, hence the same values visible to a snapshot, the same values
    delivered so far, the same completed pushes — and the thread itself only moves back to the tail load of the SAME call
    (`cLoadTail`; calls, accumulator and results unchanged: the call has not returned, the callback was not called).
    (Since the fix "clear_with retries its detach when the tail moved under it"; before it the call ended here with
    `cleared []`: `legacy_failed_detach_ends_call`.) -/
theorem failed_detach_delivers_nothing_and_loses_nothing (s : Sys) (tid : Nat) (t : Thread) (old : Nat)
    (ht : s.threads[tid]? = some t) (hpc : t.pc = .cCas old) (hfail : s.tail ≠ some old) :
    let s' := step s tid
    s'.threads[tid]? = some { t with pc := .cLoadTail }
    ∧ s'.blocks = s.blocks ∧ s'.tail = s.tail
    ∧ visible s' = visible s ∧ delivered s' = delivered s ∧ completedPushes s' = completedPushes s := by
  intro s'
  have hstep : s' = { s with threads := setAt s.threads tid { t with pc := .cLoadTail } } := by
    simp only [s', step, ht, stepThread, hpc, if_neg hfail]
  have hlt : tid < s.threads.length := by
    rcases Nat.lt_or_ge tid s.threads.length with h | h
    · exact h
    · rw [List.getElem?_eq_none h] at ht; cases ht
  have hb : s'.blocks = s.blocks := by rw [hstep]
  have htl : s'.tail = s.tail := by rw [hstep]
  refine ⟨?_, hb, htl, ?_, ?_, ?_⟩
  · rw [hstep]
    simp only [getElem?_setAt, hlt, and_self, if_true]
  · unfold visible
    rw [hb, htl]
    exact chainData_congr s s' hb _ _
  · unfold delivered
    rw [hstep]
    exact flatMap_setAt_of_eq _ _ _ _ _ ht rfl
  · unfold completedPushes
    rw [hstep]
    simp only
    exact congrArg List.sum (map_setAt_of_eq _ _ _ _ _ ht rfl)

/-- the same seen from the successful side: the CAS of `clear_with` either detaches the WHOLE chain (tail := null, the
    walk starts at the loaded block) or — exactly when the tail is no longer the loaded one — changes nothing and sends
    the clearer back to its tail load; there is no third outcome (no partial drain, no return without a detach) -/
theorem detach_cas_all_or_nothing (s : Sys) (tid : Nat) (t : Thread) (old : Nat)
    (ht : s.threads[tid]? = some t) (hpc : t.pc = .cCas old) :
    (s.tail = some old ∧ (step s tid).tail = none ∧ (step s tid).blocks = s.blocks
        ∧ ((step s tid).threads[tid]?.map (·.pc)) = some (.cQuiesced old))
    ∨ (s.tail ≠ some old ∧ (step s tid).tail = s.tail ∧ (step s tid).blocks = s.blocks
        ∧ (step s tid).threads[tid]? = some { t with pc := .cLoadTail }) := by
  have hlt : tid < s.threads.length := by
    rcases Nat.lt_or_ge tid s.threads.length with h | h
    · exact h
    · rw [List.getElem?_eq_none h] at ht; cases ht
  by_cases h : s.tail = some old
  · left
    refine ⟨h, ?_, ?_, ?_⟩ <;>
      simp only [step, ht, stepThread, hpc, if_pos h, getElem?_setAt, hlt, and_self, if_true, Option.map_some]
  · right
    have := failed_detach_delivers_nothing_and_loses_nothing s tid t old ht hpc h
    exact ⟨h, this.2.2.1, this.2.1, this.1⟩

/-- the retried detach on a concrete run (block size 2; the harness replays the shape on the real bucket with 64): pushes
    1 and 2 have COMPLETED and fill the block before the clear begins; the clearer loads the tail; the pusher of 3 finds
    the block full, installs a new tail and completes; the clearer's CAS fails (it is back at the tail load, nothing
    delivered yet, all three values visible); it loads the new tail, detaches, and this SAME call delivers all three
    values — no K1 step is involved -/
theorem failed_detach_witness :
    let progs : List (List Call) := [[.push 1, .push 2], [.push 3], [.clear, .clear]]
    let pre := [0, 0, 0, 0, 0, 0, 0, 0]
    let mid := [2, 2, 1, 1, 1, 1, 1, 1, 2]
    let s1 := run (init 2 progs) pre
    let s2 := run (init 2 progs) (pre ++ mid)
    let s3 := run (init 2 progs) (pre ++ mid ++ [2, 2, 2, 2, 2, 2, 2, 2, 2, 2])
    completedPushes s1 = 2 ∧ (s1.threads[2]?.map (·.pc)) = some .start
    ∧ ((run (init 2 progs) (pre ++ [2, 2])).threads[2]?.map (·.pc)) = some (.cCas 0)
    ∧ (s2.threads[2]?.map (fun t => (t.pc, t.results))) = some (.cLoadTail, [])
    ∧ completedPushes s2 = 3 ∧ delivered s2 = [] ∧ visible s2 = [3, 1, 2]
    ∧ stragglerClaims 2 progs (pre ++ mid) = 0
    ∧ quiescent s3 = true ∧ (s3.threads[2]?.map (·.results)) = some [.cleared [3, 1, 2], .cleared []]
    ∧ delivered s3 = [3, 1, 2] ∧ visible s3 = [] := by decide

/-! ### the repaired defect, kept as theorems about the LEGACY step (`Bucket.stepLegacy`: `clear_with` before the fix) -/

/-- LEGACY: before the fix a failed detaching CAS ended the call with `cleared []` (nothing delivered, bucket untouched) -/
theorem legacy_failed_detach_ends_call (s : Sys) (tid : Nat) (t : Thread) (old : Nat)
    (ht : s.threads[tid]? = some t) (hpc : t.pc = .cCas old) (hfail : s.tail ≠ some old) :
    stepLegacy s tid = { s with threads := setAt s.threads tid (t.advance (.cleared [])) } := by
  simp only [stepLegacy, ht, stepThreadLegacy, hpc, if_neg hfail]

/-- LEGACY and repaired step agree on every step that is not a failing detach CAS -/
theorem legacy_step_eq (s : Sys) (tid : Nat)
    (h : ∀ t old, s.threads[tid]? = some t → t.pc = .cCas old → s.tail = some old) :
    stepLegacy s tid = step s tid := by
  unfold stepLegacy step
  cases hg : s.threads[tid]? with
  | none => rfl
  | some t =>
    simp only
    have : stepThreadLegacy s t = stepThread s t := by
      unfold stepThreadLegacy
      cases hp : t.pc <;> simp only
      rename_i old
      rw [if_pos (h t old hg hp)]
    rw [this]

/-- LEGACY witness of the repaired defect (same programs and schedule as `failed_detach_witness`): with the old
    `clear_with` the clear whose CAS failed RETURNED `cleared []` although three pushes had completed — two of them before
    it began — and all three values stayed in the bucket for the next clear -/
theorem legacy_failed_detach_witness :
    let progs : List (List Call) := [[.push 1, .push 2], [.push 3], [.clear, .clear]]
    let pre := [0, 0, 0, 0, 0, 0, 0, 0]
    let mid := [2, 2, 1, 1, 1, 1, 1, 1, 2]
    let s1 := runLegacy (init 2 progs) pre
    let s2 := runLegacy (init 2 progs) (pre ++ mid)
    let s3 := runLegacy (init 2 progs) (pre ++ mid ++ [2, 2, 2, 2, 2, 2, 2, 2, 2, 2])
    completedPushes s1 = 2 ∧ (s1.threads[2]?.map (·.pc)) = some .start
    ∧ (s2.threads[2]?.map (·.results)) = some [.cleared []]
    ∧ completedPushes s2 = 3 ∧ delivered s2 = [] ∧ visible s2 = [3, 1, 2]
    ∧ quiescent s3 = true ∧ (s3.threads[2]?.map (·.results)) = some [.cleared [], .cleared [3, 1, 2]]
    ∧ delivered s3 = [3, 1, 2] ∧ visible s3 = [] := by decide

/-! ### the positive side: once the tail has been null, everything published before is delivered

The complement of the failed detach.  If at some moment after a push completed the bucket's tail was null — a clear
detached the chain (its CAS succeeded) or found the bucket empty — then, as soon as no thread is inside a `clear_with`
walk any more, that push has been handed to a clear callback.  (Schedules without a K1 step.) -/

/-- published slots holding `v` in block `k` never decrease along a step -/
theorem pubc_step_mono (v : Nat) (s : Sys) (tid k : Nat) :
    pubc v (getBlock s k).cells ≤ pubc v (getBlock (step s tid) k).cells := by
  rcases step_blk s tid k with ⟨hc, _⟩ | ⟨_, _, _, w, hc⟩ | ⟨_, j, hc⟩
  · rw [hc]; exact Nat.le_refl _
  · rw [hc]; simp [pubc, pubVals, List.filterMap_append]
  · rw [hc]; exact pubc_publishCell v _ j

theorem pubc_run_mono (v : Nat) (sched : List Nat) : ∀ (s : Sys) (k : Nat),
    pubc v (getBlock s k).cells ≤ pubc v (getBlock (run s sched) k).cells := by
  induction sched with
  | nil => intro s k; exact Nat.le_refl _
  | cons t ts ih =>
    intro s k
    simp only [run, List.foldl_cons]
    exact Nat.le_trans (pubc_step_mono v s t k) (ih (step s t) k)

/-- a block that is not reachable from the tail never becomes reachable again -/
theorem gown_not_live (s : Sys) (own : Nat → Owner) (tid i : Nat) (h : own i ≠ .live) : gown s own tid i ≠ .live := by
  unfold gown
  cases hg : s.threads[tid]? with
  | none => exact h
  | some t =>
    simp only
    unfold gownT
    cases hp : t.pc <;> simp only <;> try exact h
    · split
      · simp only
        split
        · intro c; cases c
        · exact h
      · exact h
    · split
      · intro c; cases c
      · exact h

theorem grun_not_live (sched : List Nat) : ∀ (s : Sys) (own : Nat → Owner) (i : Nat), own i ≠ .live →
    (grun s own sched).2 i ≠ .live := by
  induction sched with
  | nil => intro s own i h; exact h
  | cons t ts ih => intro s own i h; simp only [grun]; exact ih _ _ i (gown_not_live s own t i h)

theorem sum_le_osum_read (f : Block → Nat) (hf0 : f newBlock = 0) (own : Nat → Owner) :
    ∀ (bs1 bs2 : List Block) (k : Nat),
    (∀ i, f ((bs1[i]?).getD newBlock) ≤ if isRead (own (k + i)) = true then f ((bs2[i]?).getD newBlock) else 0) →
    (bs1.map f).sum ≤ osum f isRead own bs2 k := by
  intro bs1
  induction bs1 with
  | nil => intro bs2 k _; exact Nat.zero_le _
  | cons b bs ih =>
    intro bs2 k h
    have h0 := h 0
    simp only [List.getElem?_cons_zero, Option.getD_some, Nat.add_zero] at h0
    cases bs2 with
    | nil =>
      have hrest := ih [] (k + 1) (fun i => by
        have := h (i + 1)
        simp only [List.getElem?_cons_succ, List.getElem?_nil, Option.getD_none] at this ⊢
        have e : k + (i + 1) = k + 1 + i := by omega
        rw [e] at this; exact this)
      simp only [List.getElem?_nil, Option.getD_none, hf0] at h0
      simp only [osum, List.map_cons, List.sum_cons] at hrest ⊢
      split at h0 <;> omega
    | cons c cs =>
      have hrest := ih cs (k + 1) (fun i => by
        have := h (i + 1)
        simp only [List.getElem?_cons_succ] at this ⊢
        have e : k + (i + 1) = k + 1 + i := by omega
        rw [e] at this; exact this)
      simp only [List.getElem?_cons_zero, Option.getD_some] at h0
      simp only [osum, List.map_cons, List.sum_cons]
      omega

theorem inRunningClears_nil (s : Sys) (h : ∀ (i : Nat) (t : Thread), s.threads[i]? = some t → claim t.pc = none) :
    inRunningClears s = [] := by
  unfold inRunningClears
  rw [List.flatMap_eq_nil_iff]
  intro t ht
  obtain ⟨i, hi, e⟩ := List.getElem_of_mem ht
  have := h i t (by rw [List.getElem?_eq_getElem hi, e])
  simp [this]

/-- **everything published before the tail was null is delivered once the clears have finished.**  ANY programs, any
    block size, EVERY schedule `pre ++ m1 ++ m2` without a K1 step: if the tail is null after `pre ++ m1` (some clear
    detached the chain after `pre`, or found it empty) and after `pre ++ m1 ++ m2` no thread is inside a `clear_with` walk,
    then, value by value, the clears have delivered `v` at least as often as slots holding `v` were published when `pre`
    ended (published slots = completed pushes: `completed_pushes_are_published`).  A FAILED detach is precisely a drain
    that does not produce such a moment (`detach_cas_all_or_nothing`). -/
theorem delivered_once_tail_was_null (B : Nat) (progs : List (List Call)) (pre m1 m2 : List Nat)
    (hk : stragglerClaims B progs (pre ++ m1 ++ m2) = 0)
    (hnull : (run (init B progs) (pre ++ m1)).tail = none)
    (hidle : ∀ (i : Nat) (t : Thread), (run (init B progs) (pre ++ m1 ++ m2)).threads[i]? = some t → claim t.pc = none)
    (v : Nat) :
    pubCount v (run (init B progs) pre) ≤ (delivered (run (init B progs) (pre ++ m1 ++ m2))).count v := by
  -- invariants at the end (no K1 step in the whole schedule)
  obtain ⟨hg2, hk2, hr2⟩ := krun_inv2 (pre ++ m1 ++ m2) _ _ (init_ginv B progs) (init_gacc B progs) (init_kinv B progs)
    (init_rpub B progs) hk
  -- invariant at the moment the tail was null
  have hgm := (grun_inv (pre ++ m1) _ _ (init_ginv B progs) (init_gacc B progs)).1
  have hown2 : (grun (init B progs) own0 (pre ++ m1 ++ m2)).2
      = (grun (grun (init B progs) own0 (pre ++ m1)).1 (grun (init B progs) own0 (pre ++ m1)).2 m2).2 := by
    rw [grun_append (pre ++ m1) m2]
  rw [grun_fst] at hg2 hk2 hr2 hgm
  generalize hs2 : run (init B progs) (pre ++ m1 ++ m2) = s2 at *
  generalize ho2 : (grun (init B progs) own0 (pre ++ m1 ++ m2)).2 = own2 at *
  -- every block that existed when the tail was null is `read` at the end
  have hread : ∀ i, i < (run (init B progs) (pre ++ m1)).blocks.length → own2 i = .read := by
    intro i hi
    obtain ⟨lb, _, hlive, hnone, _⟩ := hgm.live
    have hlb := hnone hnull
    have hnl : (grun (init B progs) own0 (pre ++ m1)).2 i ≠ .live := by
      intro c
      have := (hlive i).mp c
      omega
    have hnl2 : own2 i ≠ .live := by
      rw [hown2]
      exact grun_not_live m2 _ _ i hnl
    cases ho : own2 i with
    | live => exact absurd ho hnl2
    | read => rfl
    | det u =>
      have hu := hk2.detex i u ho
      have hcl := hg2.clr u _ (List.getElem?_eq_getElem hu)
      rw [hidle u _ (List.getElem?_eq_getElem hu)] at hcl
      exact absurd ho (hcl i)
  -- what clears were handed = the published slots of the blocks marked `read`
  have hD : (delivered s2).count v = osum (fun b => pubc v b.cells) isRead own2 s2.blocks 0 := by
    have h1 := Dsum_split s2 v
    rw [inRunningClears_nil s2 hidle] at h1
    have h2 := hk2.eq v
    have h3 := osum_read_eq_rsum v own2 s2.blocks 0 (fun i b hb ho => hr2 i b hb (by simpa using ho))
    simp only [List.count_nil, Nat.add_zero] at h1
    omega
  rw [hD]
  unfold pubCount needFrom
  rw [List.drop_zero]
  apply sum_le_osum_read (fun b => pubc v b.cells) rfl own2
  intro i
  simp only [Nat.zero_add]
  have e1 : ∀ s : Sys, (s.blocks[i]?).getD newBlock = getBlock s i := fun s => rfl
  rw [e1, e1]
  have hmono1 := pubc_run_mono v m1 (run (init B progs) pre) i
  rw [← run_append] at hmono1
  have hmono2 := pubc_run_mono v m2 (run (init B progs) (pre ++ m1)) i
  rw [← run_append, hs2] at hmono2
  by_cases hi : i < (run (init B progs) (pre ++ m1)).blocks.length
  · rw [hread i hi]
    simp only [isRead, if_true]
    omega
  · have : getBlock (run (init B progs) (pre ++ m1)) i = newBlock := getBlock_of_ge _ i (by omega)
    rw [this] at hmono1
    have h0 : pubc v newBlock.cells = 0 := rfl
    split <;> omega

/-! ### since the retry fix: a `clear_with` that returned has passed a moment at which the tail was null

So the hypothesis "the tail was null at some moment" of `delivered_once_tail_was_null` follows from "a clear that began
after the pushes in question has returned".  (False of the legacy step: `legacy_failed_detach_witness`.) -/

/-- thread `d` is inside a `clear_with` call — the one that will produce its result number `n` — and has not detached
    yet: it stands before the tail load, or between the load and the CAS -/
def BeforeDetach (n d : Nat) (s : Sys) : Prop :=
  ∃ t, s.threads[d]? = some t ∧ t.results.length = n ∧ t.calls.head? = some .clear
    ∧ (t.pc = .start ∨ t.pc = .cLoadTail ∨ ∃ o, t.pc = .cCas o)

/-- one step of any thread: the clearer is still before its detach, or the tail is null now, or it is null after
    the step (the clearer's own successful CAS).  The failing CAS is the case that needed the fix: it now leads back to
    `cLoadTail` instead of ending the call. -/
theorem beforeDetach_step (n d : Nat) (s : Sys) (tid : Nat) (h : BeforeDetach n d s) :
    BeforeDetach n d (step s tid) ∨ s.tail = none ∨ (step s tid).tail = none := by
  obtain ⟨t, ht, hn, hc, hpc⟩ := h
  cases hg : s.threads[tid]? with
  | none =>
    left
    have : step s tid = s := by unfold step; rw [hg]
    rw [this]; exact ⟨t, ht, hn, hc, hpc⟩
  | some u =>
    have hlt : tid < s.threads.length := by
      rcases Nat.lt_or_ge tid s.threads.length with h | h
      · exact h
      · rw [List.getElem?_eq_none h] at hg; cases hg
    rw [step_eq s tid u hg]
    by_cases hd : tid = d
    · subst hd
      rw [ht] at hg
      cases hg
      have hget : ∀ (x : Thread), (setAt s.threads tid x)[tid]? = some x := by
        intro x; simp only [getElem?_setAt, hlt, and_self, if_true]
      rcases hpc with hp | hp | ⟨o, hp⟩
      · left
        refine ⟨_, hget _, ?_, ?_, ?_⟩
        · simp only [stepThread, hp]; exact hn
        · simp only [stepThread, hp]; exact hc
        · right; left
          simp only [stepThread, hp]
          cases hcs : t.calls with
          | nil => rw [hcs] at hc; cases hc
          | cons c r =>
            rw [hcs] at hc
            simp only [List.head?_cons, Option.some.injEq] at hc
            subst hc; rfl
      · cases htl : s.tail with
        | none => right; left; rfl
        | some b =>
          left
          refine ⟨_, hget _, ?_, ?_, ?_⟩
          · simp only [stepThread, hp, htl]; exact hn
          · simp only [stepThread, hp, htl]; exact hc
          · right; right; exact ⟨b, by simp only [stepThread, hp, htl]⟩
      · by_cases hto : s.tail = some o
        · right; right
          simp only [stepThread, hp, if_pos hto]
        · left
          refine ⟨_, hget _, ?_, ?_, ?_⟩
          · simp only [stepThread, hp, if_neg hto]; exact hn
          · simp only [stepThread, hp, if_neg hto]; exact hc
          · right; left; simp only [stepThread, hp, if_neg hto]
    · left
      refine ⟨t, ?_, hn, hc, hpc⟩
      show (setAt s.threads tid _)[d]? = some t
      rw [getElem?_setAt]
      simp only [hd, false_and, if_false]
      exact ht

/-- along any schedule: the clearer is still before its detach at the end, or the schedule splits at a moment at which
    the tail was null -/
theorem beforeDetach_run (n d : Nat) (sched : List Nat) : ∀ (s : Sys), BeforeDetach n d s →
    BeforeDetach n d (run s sched) ∨ ∃ m1 m2, sched = m1 ++ m2 ∧ (run s m1).tail = none := by
  induction sched with
  | nil => intro s h; exact Or.inl h
  | cons tid rest ih =>
    intro s h
    rcases beforeDetach_step n d s tid h with h1 | h1 | h1
    · rcases ih (step s tid) h1 with h2 | ⟨m1, m2, e, h2⟩
      · left; simpa only [run, List.foldl_cons] using h2
      · right
        refine ⟨tid :: m1, m2, by rw [e]; rfl, ?_⟩
        simpa only [run, List.foldl_cons] using h2
    · right; exact ⟨[], tid :: rest, rfl, h1⟩
    · right; exact ⟨[tid], rest, rfl, h1⟩

/-- **a `clear_with` that began after a push completed and has returned — the push has been delivered** (schedules
    without a K1 step; the statement the retry fix makes true).  ANY programs, any block size, EVERY schedule
    `pre ++ mid` without a K1 step: if after `pre` some thread `d` has not yet loaded the tail in its current `clear_with`
    call (it is at `start` or at the tail load, its next call is a clear) and after `pre ++ mid` that call has returned
    (`d` has more results than it had), and after `pre ++ mid` no thread is inside a `clear_with` walk, then, value by
    value, the clears have delivered `v` at least as often as slots holding `v` were published when `pre` ended.
    No hypothesis about the tail or about failed CASes is left: a failed detach is retried, so a call that returned has
    either seen a null tail or nulled it itself (`beforeDetach_run`). -/
theorem delivered_once_clear_returned (B : Nat) (progs : List (List Call)) (pre mid : List Nat) (d : Nat) (t0 t1 : Thread)
    (hk : stragglerClaims B progs (pre ++ mid) = 0)
    (h0 : (run (init B progs) pre).threads[d]? = some t0)
    (hcall : t0.calls.head? = some .clear) (hpc : t0.pc = .start ∨ t0.pc = .cLoadTail)
    (h1 : (run (init B progs) (pre ++ mid)).threads[d]? = some t1)
    (hret : t0.results.length < t1.results.length)
    (hidle : ∀ (i : Nat) (t : Thread), (run (init B progs) (pre ++ mid)).threads[i]? = some t → claim t.pc = none)
    (v : Nat) :
    pubCount v (run (init B progs) pre) ≤ (delivered (run (init B progs) (pre ++ mid))).count v := by
  have hb : BeforeDetach t0.results.length d (run (init B progs) pre) :=
    ⟨t0, h0, rfl, hcall, by rcases hpc with h | h; exact Or.inl h; exact Or.inr (Or.inl h)⟩
  rcases beforeDetach_run t0.results.length d mid _ hb with h | ⟨m1, m2, e, hnull⟩
  · obtain ⟨t, ht, hn, _⟩ := h
    rw [← run_append, h1] at ht
    cases ht
    omega
  · subst e
    rw [← run_append] at hnull
    rw [← List.append_assoc] at hk hidle ⊢
    exact delivered_once_tail_was_null B progs pre m1 m2 hk hnull hidle v

/-- non-vacuity of `delivered_once_clear_returned` on the very schedule of the repaired defect (`failed_detach_witness`):
    the clear begins after pushes 1 and 2 completed, its first CAS fails, and when it has returned both have been delivered -/
example :
    let progs : List (List Call) := [[.push 1, .push 2], [.push 3], [.clear]]
    let pre := [0, 0, 0, 0, 0, 0, 0, 0]
    let mid := [2, 2, 1, 1, 1, 1, 1, 1, 2, 2, 2, 2, 2, 2, 2, 2, 2]
    stragglerClaims 2 progs (pre ++ mid) = 0
    ∧ ((run (init 2 progs) pre).threads[2]?.map (fun t => (t.calls.head?, t.pc, t.results.length))) = some (some .clear, .start, 0)
    ∧ ((run (init 2 progs) (pre ++ mid)).threads[2]?.map (·.results)) = some [.cleared [3, 1, 2]]
    ∧ ((run (init 2 progs) (pre ++ mid)).threads.map (fun t => (claim t.pc).isSome)) = [false, false, false]
    ∧ pubCount 1 (run (init 2 progs) pre) = 1 ∧ pubCount 2 (run (init 2 progs) pre) = 1 := by decide

/-! ### source facts for the paths the step machine does not model in detail -/

open MetricsVerif.Src in
/-- SOURCE FACT (regenerated on every run): both quiescence waits (`data_with`, `clear_with`) are plain
    `while !block.is_quiesced() { snooze }` loops — one per function, with no `break` / `return` / `continue`, no
    conditional and no look at the back-off's completion inside: the only way out is the loop condition (this is what
    `wait_is_unbounded` models). `Block::data` reads the length once. `is_empty` decides on `is_unclaimed` of the tail
    and of its predecessor, which loads `write` (claimed slots), not the published length. `Block::drop` waits for
    quiescence and drops slots `0..len`. `clear_with` collects every block it walked, defers their destruction
    (batches of 32, the batch branch has no early exit) and flushes; every entry point pins the epoch once, before it
    touches `tail`. -/
theorem src_bucket_wait_and_reclaim :
    Generated.bucket_data_wait_exits = [] ∧ Generated.bucket_clear_wait_exits = []
    ∧ Generated.bucket_quiesce_loops = ["1", "1"]
    ∧ names Generated.shape_block_data = ["self.len", "slots.get_unchecked"]
    ∧ Generated.shape_block_is_unclaimed = [("write.load", ["Acquire"])]
    ∧ names Generated.shape_block_next_is_unclaimed = ["next.load", "tail_block.is_unclaimed"]
    ∧ names Generated.shape_bucket_is_empty_calls = ["tail.load", "tail_block.is_unclaimed", "tail_block.next_is_unclaimed"]
    ∧ names Generated.shape_block_drop = ["self.is_quiesced", "self.len", "_.drop_in_place"]
    ∧ Generated.block_drop_range = "0..len"
    ∧ names Generated.shape_bucket_clear_reclaim
        = ["tail.load", "tail.compare_exchange", "tail.load", "next.load", "freeable_blocks.push", "guard.defer_unchecked",
           "block.into_owned", "guard.defer_unchecked", "block.into_owned", "guard.flush"]
    ∧ Generated.bucket_deferred_batch = "32" ∧ Generated.bucket_batch_branch_exits = []
    ∧ Generated.bucket_epoch_pins
        = ["is_empty:1:pin-first", "push:1:pin-first", "data_with:1:pin-first", "clear_with:1:pin-first"] := by decide

end MetricsVerif.C05
