import MetricsVerif.Generated.CfgFacts

/-!
# Conditional-compilation inventory of the anchored files (all properties)

SOURCE FACTS regenerated on every run by `tools/extract_cfg.py`. The source-fact translator reads the first textual definition of
a function and the correspondence harness runs one build configuration (dev profile, x86-64, fixed features). These obligations
pin, for every file a property is anchored in, every `cfg` / `cfg_attr` / `cfg!()` predicate (the verification guard
`metrics_verif` aside) and every function name that is defined more than once in the file — so that a second, conditionally
compiled definition of a modelled function (`#[cfg(not(debug_assertions))]`, another target, another feature), which neither the
translator nor any run would see, breaks an obligation of exactly the properties anchored there.
-/


namespace MetricsVerif.SrcCfg
open MetricsVerif.Generated.Cfg

/-- SOURCE FACT: conditional compilation and duplicate definitions in the files C15 is anchored in are exactly these -/
theorem cfg_C15 : inventory_C15 = [
  ("metrics-util/src/storage/histogram.rs", ["cfg(test)"], []),
  ("metrics-exporter-prometheus/src/distribution.rs", ["cfg(test) x2"], ["new x2"]),
  ("metrics-exporter-prometheus/src/common.rs", [], []),
  ("metrics-exporter-prometheus/src/exporter/builder.rs", ["cfg(any(feature=\"http-listener\",feature=\"push-gateway\")) x6", "cfg(feature=\"http-listener\") x11", "cfg(feature=\"push-gateway\") x5", "cfg(feature=\"uds-listener\") x3", "cfg(not(feature=\"http-listener\"))", "cfg(test)", "cfg_attr(docsrs,doc(cfg(any(feature=\"http-listener\",feature=\"push-gateway\")))) x2", "cfg_attr(docsrs,doc(cfg(feature=\"http-listener\"))) x2", "cfg_attr(docsrs,doc(cfg(feature=\"push-gateway\")))", "cfg_attr(docsrs,doc(cfg(feature=\"uds-listener\")))", "cfg_attr(not(any(feature=\"http-listener\",feature=\"push-gateway\")),allow(dead_code))", "cfg_attr(not(feature=\"http-listener\"),allow(unused_mut))"], []),
  ("metrics-util/src/storage/summary.rs", ["cfg(test)"], ["fmt x2"]),
  ("metrics-util/src/quantile.rs", ["cfg(test)"], [])] := by decide

end MetricsVerif.SrcCfg
