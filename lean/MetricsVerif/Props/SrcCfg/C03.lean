import MetricsVerif.Generated.CfgFacts

/-!
# Conditional-compilation inventory of the anchored files (all properties)

SOURCE FACTS regenerated on every run by `tools/extract_cfg.py`. The source-fact translator reads the first textual definition of
a function and the correspondence harness runs one build configuration (dev profile, x86-64, fixed features). These obligations
pin, for every file a property is anchored in, every `cfg` / `cfg_attr` / `cfg!()` predicate (the verification guard
`metrics_verif` aside) and every function name that is defined more than once in the file — so that a second, conditionally
compiled definition of a modelled function (`#[cfg(not(debug_assertions))]`, another target, another feature), which neither the
translator nor any run would see, breaks an obligation of exactly the properties anchored there.
-/


namespace MetricsVerif.SrcCfg
open MetricsVerif.Generated.Cfg

/-- SOURCE FACT: conditional compilation and duplicate definitions in the files C03 is anchored in are exactly these -/
theorem cfg_C03 : inventory_C03 = [
  ("metrics/src/key.rs", ["cfg(test)"], ["from x3"]),
  ("metrics/src/label.rs", ["cfg(test)"], ["from x2", "into_labels x4"]),
  ("metrics/src/cow.rs", [], ["borrowed_from_parts x3", "borrowed_into_parts x3", "clone_from_parts x3", "drop_from_parts x3", "fmt x2", "from x6", "owned_from_parts x3", "owned_into_parts x3", "shared_into_parts x3"]),
  ("metrics/src/common.rs", ["cfg(test)"], ["into_f64 x4"]),
  ("metrics-util/src/common.rs", [], ["hashable x3"]),
  ("metrics-util/src/key.rs", ["cfg(test)"], [])] := by decide

end MetricsVerif.SrcCfg
