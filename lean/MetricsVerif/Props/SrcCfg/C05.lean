import MetricsVerif.Generated.CfgFacts

/-!
# Conditional-compilation inventory of the anchored files (all properties)

SOURCE FACTS regenerated on every run by `tools/extract_cfg.py`. The source-fact translator reads the first textual definition of
a function and the correspondence harness runs one build configuration (dev profile, x86-64, fixed features). These obligations
pin, for every file a property is anchored in, every `cfg` / `cfg_attr` / `cfg!()` predicate (the verification guard
`metrics_verif` aside) and every function name that is defined more than once in the file — so that a second, conditionally
compiled definition of a modelled function (`#[cfg(not(debug_assertions))]`, another target, another feature), which neither the
translator nor any run would see, breaks an obligation of exactly the properties anchored there.
-/


namespace MetricsVerif.SrcCfg
open MetricsVerif.Generated.Cfg

/-- SOURCE FACT: conditional compilation and duplicate definitions in the files C05 is anchored in are exactly these -/
theorem cfg_C05 : inventory_C05 = [
  ("metrics-util/src/storage/bucket.rs", ["cfg(target_pointer_width=\"16\")", "cfg(target_pointer_width=\"32\")", "cfg(target_pointer_width=\"64\")", "cfg(test)"], ["data x2", "new x2", "push x2"]),
  ("metrics-util/src/storage/mod.rs", [], ["record x2"])] := by decide

end MetricsVerif.SrcCfg
