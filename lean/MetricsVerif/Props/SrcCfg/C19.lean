import MetricsVerif.Generated.CfgFacts

/-!
# Conditional-compilation inventory of the anchored files (all properties)

SOURCE FACTS regenerated on every run by `tools/extract_cfg.py`. The source-fact translator reads the first textual definition of
a function and the correspondence harness runs one build configuration (dev profile, x86-64, fixed features). These obligations
pin, for every file a property is anchored in, every `cfg` / `cfg_attr` / `cfg!()` predicate (the verification guard
`metrics_verif` aside) and every function name that is defined more than once in the file — so that a second, conditionally
compiled definition of a modelled function (`#[cfg(not(debug_assertions))]`, another target, another feature), which neither the
translator nor any run would see, breaks an obligation of exactly the properties anchored there.
-/


namespace MetricsVerif.SrcCfg
open MetricsVerif.Generated.Cfg

/-- SOURCE FACT: conditional compilation and duplicate definitions in the files C19 is anchored in are exactly these -/
theorem cfg_C19 : inventory_C19 = [
  ("metrics-util/src/debugging.rs", [], ["new x3"]),
  ("metrics-util/src/key.rs", ["cfg(test)"], []),
  ("metrics-util/src/registry/mod.rs", ["cfg(feature=\"recency\") x3", "cfg(test)", "cfg_attr(docsrs,doc(cfg(feature=\"recency\")))"], [])] := by decide

end MetricsVerif.SrcCfg
