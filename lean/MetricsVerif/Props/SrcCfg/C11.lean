import MetricsVerif.Generated.CfgFacts

/-!
# Conditional-compilation inventory of the anchored files (all properties)

SOURCE FACTS regenerated on every run by `tools/extract_cfg.py`. The source-fact translator reads the first textual definition of
a function and the correspondence harness runs one build configuration (dev profile, x86-64, fixed features). These obligations
pin, for every file a property is anchored in, every `cfg` / `cfg_attr` / `cfg!()` predicate (the verification guard
`metrics_verif` aside) and every function name that is defined more than once in the file — so that a second, conditionally
compiled definition of a modelled function (`#[cfg(not(debug_assertions))]`, another target, another feature), which neither the
translator nor any run would see, breaks an obligation of exactly the properties anchored there.
-/


namespace MetricsVerif.SrcCfg
open MetricsVerif.Generated.Cfg

/-- SOURCE FACT: conditional compilation and duplicate definitions in the files C11 is anchored in are exactly these -/
theorem cfg_C11 : inventory_C11 = [
  ("metrics-exporter-tcp/src/lib.rs", ["cfg(not(metrics_verif))", "cfg_attr(docsrs,feature(doc_cfg),deny(rustdoc::broken_intra_doc_links))"], ["from x2", "increment x2", "new x3", "write_to_client x2"])] := by decide

end MetricsVerif.SrcCfg
